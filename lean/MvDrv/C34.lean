/- Driver for C34 (chunk planning).  Texts travel as lowercase hex of their UTF-8 bytes ("-" = empty).
   requests:
     consts                              → <DEFAULT_CHUNK_CHARS> <CHUNK_MIN_CHARS> <SLACK_DIV> <SLACK_MIN>
     wslist                              → code points of the model's is_whitespace table, comma separated
     terms                               → code points of is_sentence_terminal
     choose <start> <target> <slack> <hex>   → <boundary>       (total = number of chars)
     manifest <chunkChars> <hex>         → none | some <s-e,s-e,…>
     slice <start> <stop> <hex>          → <hex>
     naive <hex>                         → none | some <s-e,…> <hexchunk,hexchunk,…>
     plan <0|1 hasStructure> <hex normalized> → none | structural | some <s-e,…> <hexchunk,…>
     structok <hex normalized> <hexchunk,hexchunk,…|-> → ok | empty-chunk <i> | missing-line <i>
-/
import MvModel.Chunk
import MvModel.DrvUtil
open Mv Mv.Chunk

def textOfHex (h : String) : Option (List Char) :=
  match ofHex h with
  | none => none
  | some b => (String.fromUTF8? (ByteArray.mk b.toArray)).map (·.toList)

def hexOfText (t : List Char) : String := toHexW (String.ofList t).toUTF8.toList

def showRanges (rs : List Range) : String :=
  if rs.isEmpty then "-" else ",".intercalate (rs.map fun r => s!"{r.start}-{r.stop}")

def showChunks (cs : List (List Char)) : String :=
  if cs.isEmpty then "-" else ",".intercalate (cs.map hexOfText)

def showPlan : Option Plan → String
  | none => "none"
  | some p => s!"some {showRanges p.ranges} {showChunks p.chunks}"

def chunksOfHex (s : String) : Option (List (List Char)) :=
  if s == "-" then some [] else (s.splitOn ",").mapM textOfHex

def step (_ : Unit) (ws : List String) : Unit × String :=
  match ws with
  | ["consts"] => ((), s!"{DEFAULT_CHUNK_CHARS} {CHUNK_MIN_CHARS} {SLACK_DIV} {SLACK_MIN}")
  | ["wslist"] => ((), showNats WHITE_SPACE)
  | ["terms"] => ((), showNats Mv.Gen.C34.SENTENCE_TERMINALS)
  | ["choose", s, t, sl, h] =>
    match s.toNat?, t.toNat?, sl.toNat?, textOfHex h with
    | some s, some t, some sl, some txt => ((), toString (chooseBoundary txt s t txt.length sl))
    | _, _, _, _ => ((), "bad-op")
  | ["manifest", cc, h] =>
    match cc.toNat?, textOfHex h with
    | some cc, some txt =>
      match buildManifest txt cc with
      | none => ((), "none")
      | some rs => ((), s!"some {showRanges rs}")
    | _, _ => ((), "bad-op")
  | ["slice", s, e, h] =>
    match s.toNat?, e.toNat?, textOfHex h with
    | some s, some e, some txt => ((), hexOfText (sliceRange txt ⟨s, e⟩))
    | _, _, _ => ((), "bad-op")
  | ["naive", h] =>
    match textOfHex h with
    | some txt => ((), showPlan (planNaive txt))
    | none => ((), "bad-op")
  | ["plan", hs, h] =>
    match textOfHex h with
    | some txt =>
      if hs == "0" then ((), showPlan (planText txt false none))
      else if hs == "1" then
        -- the structural result is a black box: answer `structural` when the model delegates to it
        ((), match planText txt true (some ⟨[], []⟩) with
             | none => "none"
             | some _ => "structural")
      else ((), "bad-op")
    | none => ((), "bad-op")
  | ["structok", h, cs] =>
    match textOfHex h, chunksOfHex cs with
    | some txt, some chunks =>
      match firstEmptyChunk chunks with
      | some i => ((), s!"empty-chunk {i}")
      | none =>
        match firstMissingLine txt chunks with
        | some i => ((), s!"missing-line {i}")
        | none => ((), "ok")
    | _, _ => ((), "bad-op")
  | _ => ((), "bad-op")

def main : IO Unit := runDriver () step
