//! C14 — vector index membership = active embedded frames.
//!
//! impl  : real `Memvid` on a tempdir file (shared history runner `mvh::hist`), observed after EVERY op:
//!         `verif_state().vec_entries` (ids + blake3 of the f32 bytes), `frame_embedding(id)`,
//!         `search_vec` with a frame's own embedding as the query, `toc.indexes.vec.vector_count`.
//! model : drv_c14 = the Lean Core model (crash recovery as the source has it: `Core.crash`, or `Mem.crashPre` when the
//!         translator tools/gen/C14.py finds `recover_wal` without repair 5c6fd4b) — full
//!         observation compared after every op — plus the representation simulator `VSim`
//!         (MvModel/VecIdx.lean) for the scale scenario.
//! oracle: (independent of the model; `RefModel` = what the acknowledged calls gave each frame id)
//!         at every step  { (id, embedding) in the index } = { committed ACTIVE frames that were given an
//!         embedding — directly, per chunk through put_with_chunk_embeddings, or carried by update_frame },
//!         each findable through `search_vec` at distance 0 and returned by `frame_embedding`; whenever
//!         nothing is pending the same set computed from the reference statuses alone.
//!
//! Exclusion (documented in props/C14.json): `commit_skip_indexes` clears the persisted vector index
//! until `finalize_indexes` runs (membership along that pattern is property C40): the generator never
//! issues it (`--with-skip 1` adds a skip / reopen witness).  Doctor runs — with and without
//! `rebuild_vec_index` — are inserted into generated histories (`with_doctor`).
//!
//! Scale scenario (`scale_case`): N embedded puts straight on the API (N on both sides of
//! HNSW_THRESHOLD = 1000), commit, delete / update / put, commit, reopen.  In the default build the
//! index stays `Uncompressed`; built with `--features hist,hnsw_bench` it becomes `Hnsw` at 1000
//! vectors (`cfg!(feature = "hnsw_bench")` is a runtime check here) and the next rebuild loses every
//! vector — known finding `hnsw-index-loses-vectors-on-rebuild`, predicted by `VSim`.
use memvid_core::verif_hooks;
use memvid_core::{Memvid, PutOptions};
use mvh::hist::*;
use mvh::*;
use serde_json::{json, Value};
use std::collections::{BTreeMap, HashMap};

// ---------------------------------------------------------------------------------------
// oracle

#[derive(Default)]
struct Ledger {
    /// embedding token → the vector (every embedding a call of this history carried)
    vectors: HashMap<String, Vec<f32>>,
    last_index: usize,
}

fn note_vec(l: &mut Ledger, e: &EmbSpec) {
    let v = e.vector();
    l.vectors.insert(emb_tok(&v), v);
}

fn ids_of(m: &BTreeMap<u64, String>) -> String {
    if m.is_empty() { "-".into() } else { m.iter().map(|(i, t)| format!("{i}:{}", &t[..6.min(t.len())])).collect::<Vec<_>>().join(",") }
}

fn oracle_c14(l: &mut Ledger, v: &mut StepView) -> Option<(String, String)> {
    if v.index == 0 || v.index < l.last_index { *l = Ledger::default(); }
    l.last_index = v.index;
    match v.op {
        Op::Put(p) => {
            if let Some(e) = &p.emb { note_vec(l, e); }
            if let Some(ce) = &p.chunk_embs { for e in ce { note_vec(l, e); } }
            if v.ack.is_ok() {
                let doc = v.reference_before.next_id() as usize;
                if v.reference.frames.iter().skip(doc + 1).any(|r| r.doc == Some(doc as u64) && r.emb.is_some()) {
                    v.world.branches.push("chunk-embedding-given".into());
                }
            }
        }
        Op::Update(u) => {
            if let Some(e) = &u.emb { note_vec(l, e); }
            if v.ack.is_ok() && u.emb.is_none() && v.reference.frames.last().map(|r| r.emb.is_some()).unwrap_or(false) {
                v.world.branches.push("update-carries-embedding".into());
            }
        }
        _ => {}
    }
    let obs = v.after;
    let refm = v.reference;

    // the index as the handle holds it
    let mut got: BTreeMap<u64, String> = BTreeMap::new();
    if let Some(es) = &obs.vec {
        for (id, _, t) in es {
            if got.insert(*id, t.clone()).is_some() {
                return Some(("vec-index-lists-frame-twice".into(), format!("frame {id} has two entries in the vector index")));
            }
        }
    }
    // expected: committed ACTIVE frames that were given an embedding
    let mut want: BTreeMap<u64, String> = BTreeMap::new();
    for f in &obs.frames {
        if f.active() {
            if let Some(t) = refm.frames.get(f.id as usize).and_then(|r| r.emb.clone()) { want.insert(f.id, t); }
        }
    }
    if got != want {
        for (id, t) in &want {
            match got.get(id) {
                None => {
                    let r = &refm.frames[*id as usize];
                    let how = if r.doc.is_some() { "a chunk embedding" } else if r.supersedes.is_some() { "an embedding given to / carried by update_frame" } else { "an embedding" };
                    let sig = match v.op {
                        Op::Crash if !obs.vec_enabled => "wal-replay-drops-embeddings-while-vec-manifest-not-on-disk",
                        Op::Doctor { .. } => "doctor-rebuild-vec-empties-index",
                        Op::CommitSkip => "skip-index-commit-drops-embeddings",
                        _ => "active-embedded-frame-missing-from-vec-index",
                    };
                    return Some((sig.into(), format!(
                        "frame {id} is committed and active and was given {how} ({t}) by the call at step {}, but the vector index (vec_enabled={}, entries {}) does not hold it after `{}`",
                        r.born_at, obs.vec_enabled, ids_of(&got), v.op.name())));
                }
                Some(g) if g != t => {
                    return Some(("vec-index-holds-other-embedding".into(), format!("frame {id} was given embedding {t}, the index holds {g}")));
                }
                _ => {}
            }
        }
        for (id, g) in &got {
            if !want.contains_key(id) {
                let why = match obs.frames.get(*id as usize) {
                    None => "not a committed frame".to_string(),
                    Some(f) if !f.active() => format!("status `{}`", f.status),
                    Some(_) => "never given an embedding".to_string(),
                };
                return Some(("vec-index-holds-frame-that-should-not-be-there".into(), format!("the index holds frame {id} ({g}): {why}; after `{}`", v.op.name())));
            }
        }
    }
    // whenever every acknowledged call has been applied: the same set from the reference alone
    if obs.pending_inserts == 0 && !obs.dirty {
        let want_ref: BTreeMap<u64, String> = refm.frames.iter().filter(|r| r.status == 'a')
            .filter_map(|r| r.emb.clone().map(|t| (r.id, t))).collect();
        if want_ref != got {
            return Some(("vec-index-differs-from-acknowledged-calls".into(), format!(
                "nothing pending after `{}`: index {} ; active embedded frames by the acknowledged calls {}", v.op.name(), ids_of(&got), ids_of(&want_ref))));
        }
        // (a skip-index commit leaves the placeholder manifest beside the in-memory index until finalize_indexes)
        if let (Some((count, _, _)), Some(es), false) = (obs.index.vec_manifest, &obs.vec, matches!(v.op, Op::CommitSkip)) {
            if count as usize != es.len() {
                return Some(("vector-count-differs-from-index".into(), format!("manifest vector_count {count}, index has {} entries", es.len())));
            }
        }
    }
    if !want.is_empty() {
        v.world.branches.push("vec-nonempty".into());
        match v.op {
            Op::Reopen | Op::ReadOnly => v.world.branches.push("vec-after-reopen".into()),
            Op::Vacuum => v.world.branches.push("vec-after-vacuum".into()),
            Op::Doctor { .. } => v.world.branches.push("vec-after-doctor".into()),
            Op::Crash => v.world.branches.push("vec-after-crash".into()),
            _ => {}
        }
    }
    if let (Op::Delete { id } | Op::Update(UpdSpec { id, .. }), true) = (v.op, v.ack.is_ok()) {
        if refm.frames.get(*id as usize).map(|r| r.emb.is_some()).unwrap_or(false) { v.world.branches.push("embedded-frame-retired".into()); }
    }

    // read paths (they load the index when none is in memory: only used while the handle holds one,
    // so that the oracle never changes the state the model is compared with)
    if obs.state.vec_index_kind == "none" { return None; }
    let n = obs.frames.len();
    let stride = (n / 60).max(1);
    for f in obs.frames.iter().step_by(stride) {
        let r = guarded(std::panic::AssertUnwindSafe(|| v.world.mem().frame_embedding(f.id)));
        let t = match r {
            Ok(Ok(Some(e))) => Some(emb_tok(&e)),
            Ok(Ok(None)) => None,
            Ok(Err(e)) => return Some(("frame-embedding-error".into(), format!("frame_embedding({}) failed: {e}", f.id))),
            Err(p) => return Some(("frame-embedding-panic".into(), format!("frame_embedding({}) panicked: {p}", f.id))),
        };
        if t.as_ref() != want.get(&f.id) {
            return Some(("frame-embedding-differs".into(), format!("frame_embedding({}) = {:?}, expected {:?} (status `{}`)", f.id, t, want.get(&f.id), f.status)));
        }
    }
    if !want.is_empty() {
        let keys: Vec<u64> = want.keys().copied().collect();
        let mut probes = vec![keys[0], keys[keys.len() / 2], keys[keys.len() - 1]];
        probes.dedup();
        for id in probes {
            let tok = &want[&id];
            let q = match l.vectors.get(tok) { Some(q) => q.clone(), None => continue };
            let limit = want.len() + 3;
            let r = guarded(std::panic::AssertUnwindSafe(|| v.world.mem().search_vec(&q, limit)));
            let hits = match r {
                Ok(Ok(h)) => h,
                Ok(Err(e)) => return Some(("search-vec-error".into(), format!("search_vec with the embedding of frame {id} failed: {e}"))),
                Err(p) => return Some(("search-vec-panic".into(), format!("search_vec panicked: {p}"))),
            };
            let mut hit_ids: Vec<u64> = hits.iter().map(|h| h.frame_id).collect();
            hit_ids.sort_unstable();
            if hit_ids != keys {
                return Some(("search-vec-returns-other-frames".into(), format!(
                    "search_vec(embedding of frame {id}, limit {limit}) returned frames {hit_ids:?}; active embedded frames are {keys:?}")));
            }
            let pos = hits.iter().position(|h| h.frame_id == id).unwrap();
            if hits[pos].distance != 0.0 || hits[..pos].iter().any(|h| h.distance != 0.0) {
                return Some(("search-vec-own-embedding-not-at-distance-zero".into(), format!(
                    "search_vec(embedding of frame {id}): that frame is hit number {pos} at distance {}", hits[pos].distance)));
            }
        }
        v.world.branches.push("search-vec-probed".into());
    }
    None
}

// ---------------------------------------------------------------------------------------
// fixed histories

fn put(kind: PayloadKind, len: usize, seed: u64, ts: i64) -> PutSpec { PutSpec::simple(PayloadSpec::new(kind, len, seed), ts) }
fn eput(kind: PayloadKind, len: usize, seed: u64, ts: i64, dim: usize) -> Op {
    let mut p = put(kind, len, seed, ts);
    p.emb = Some(EmbSpec { dim, seed: seed * 31 + 7 });
    Op::Put(p)
}
fn cput(len: usize, seed: u64, ts: i64, dim: usize, n: usize, parent: bool) -> Op {
    let mut p = put(PayloadKind::Ascii, len, seed, ts);
    p.uri = Some(format!("mv2://doc/chunked-{seed}.txt"));
    if parent { p.emb = Some(EmbSpec { dim, seed: seed * 31 + 7 }); }
    p.chunk_embs = Some((0..n).map(|i| EmbSpec { dim, seed: seed * 1000 + i as u64 }).collect());
    Op::Put(p)
}
fn doctor(vacuum: bool, rt: bool, rl: bool, rv: bool) -> Op { Op::Doctor { vacuum, rebuild_time: rt, rebuild_lex: rl, rebuild_vec: rv } }

/// the witness of the defect repaired by 5c6fd4b = fixes/C14.diff (first in the corpus)
fn crash_witness() -> Vec<Op> { vec![eput(PayloadKind::Ascii, 40, 1, 100, 3), Op::Crash] }

fn corpus(args: &Args) -> Vec<(String, Vec<Op>)> {
    let upd = |id: u64| UpdSpec { id, ..Default::default() };
    let mut c: Vec<(String, Vec<Op>)> = vec![
        ("crash-before-first-vec-manifest".into(), crash_witness()),
        ("crash-after-vec-manifest".into(), vec![
            eput(PayloadKind::Ascii, 40, 1, 100, 3), Op::Commit, eput(PayloadKind::Bin, 9, 2, 101, 3), Op::Delete { id: 0 }, Op::Crash,
            Op::Update(upd(1)), Op::Crash, Op::Reopen]),
        ("put-delete-update-carry".into(), vec![
            eput(PayloadKind::Ascii, 40, 1, 100, 4), Op::Put(put(PayloadKind::Ascii, 41, 2, 101)), eput(PayloadKind::Bin, 7, 3, 102, 4),
            eput(PayloadKind::Utf8, 60, 4, 103, 4), Op::Commit, Op::Reopen, Op::Delete { id: 0 }, Op::Commit,
            Op::Update(UpdSpec { tags: vec!["x".into()], ..upd(2) }), Op::Commit,
            Op::Update(UpdSpec { payload: Some(PayloadSpec::new(PayloadKind::Ascii, 50, 9)), ..upd(3) }), Op::Update(upd(1)),
            Op::Update(UpdSpec { emb: Some(EmbSpec { dim: 4, seed: 99 }), ..upd(4) }), Op::Vacuum, Op::Reopen, Op::ReadOnly]),
        ("chunk-embeddings".into(), vec![
            cput(5200, 11, 100, 5, 3, true), cput(5200, 12, 101, 5, 1, false), cput(300, 13, 102, 5, 2, true), Op::Commit,
            Op::Delete { id: 2 }, Op::Update(upd(0)), Op::Commit, Op::Reopen, Op::Vacuum, Op::ReadOnly]),
        ("two-updates-and-delete-before-commit".into(), vec![
            eput(PayloadKind::Ascii, 30, 21, 100, 2), eput(PayloadKind::Ascii, 31, 22, 101, 2), Op::Commit,
            Op::Update(upd(0)), Op::Update(UpdSpec { kind: Some("note".into()), ..upd(0) }), Op::Delete { id: 1 }, Op::Update(upd(1)),
            Op::Commit, Op::Reopen]),
        ("doctor-keeps-vectors".into(), vec![
            eput(PayloadKind::Ascii, 40, 31, 100, 3), eput(PayloadKind::Rand, 400, 32, 101, 3), Op::Put(put(PayloadKind::Ascii, 45, 33, 102)),
            Op::Commit, Op::Delete { id: 1 }, doctor(false, true, true, false), eput(PayloadKind::Ascii, 46, 34, 103, 3),
            doctor(true, false, true, false), Op::Update(upd(0)), doctor(true, true, false, false), doctor(false, false, false, false), Op::Reopen]),
        ("dimension-contract".into(), vec![
            eput(PayloadKind::Ascii, 40, 41, 100, 3), eput(PayloadKind::Ascii, 41, 42, 101, 4), Op::Commit, eput(PayloadKind::Ascii, 42, 43, 102, 4),
            Op::Update(UpdSpec { emb: Some(EmbSpec { dim: 5, seed: 1 }), ..upd(0) }), eput(PayloadKind::Ascii, 43, 44, 103, 3), Op::Reopen]),
        ("batch-and-finalize".into(), vec![
            Op::BeginBatch { disable_auto_checkpoint: true, skip_sync: true, compression_level: 1, presize: 131_072 },
            eput(PayloadKind::Ascii, 400, 51, 100, 3), eput(PayloadKind::Ascii, 2600, 52, 101, 3), Op::EndBatch, Op::Commit, Op::Finalize,
            Op::Delete { id: 0 }, Op::Commit, Op::Finalize, Op::Reopen]),
    ];
    c.push(("doctor-rebuild-vec".into(), vec![eput(PayloadKind::Ascii, 40, 61, 100, 3), eput(PayloadKind::Ascii, 44, 62, 101, 3), Op::Commit,
        Op::Delete { id: 0 }, doctor(false, false, false, true), Op::Update(upd(1)), doctor(true, true, true, true), Op::Reopen]));
    if args.extra.get("with-skip").map(|s| s == "1").unwrap_or(false) {
        c.push(("skip-index-commit".into(), vec![eput(PayloadKind::Ascii, 40, 71, 100, 3), Op::CommitSkip, Op::Reopen]));
    }
    c
}

fn profile(thorough: bool, long: bool) -> GenProfile {
    let mut p = GenProfile::standard(thorough);
    p.emb_percent = 65;
    p.wrong_dim_percent = 4;
    p.instant_index_percent = 15;
    p.w_skip = 0;   // owned by C40
    p.w_doctor = 0; // doctor runs are inserted afterwards, see `with_doctor`
    p.w_update = 16; p.w_delete = 14; p.w_vacuum = 4; p.w_crash = 4; p.w_reopen = 6; p.w_finalize = 2;
    if long {
        p.w_put = 70; p.w_update = 9; p.w_delete = 9; p.w_commit = 2; p.w_reopen = 2; p.w_crash = 2; p.w_vacuum = 1;
        p.w_finalize = 1; p.w_ticket = 0; p.w_batch = 2; p.w_readonly = 0;
    }
    p
}

/// insert doctor runs (with and without rebuild_vec_index) at random places of a generated op list; the
/// frame table after a doctor run is the one before it, so the ids the generator aimed at stay valid
fn with_doctor(ops: &[Op], rng: &mut Rng) -> Vec<Op> {
    let mut out = Vec::with_capacity(ops.len() + 3);
    let k = rng.usize(1, 3);
    let places: Vec<usize> = (0..k).map(|_| rng.usize(1, ops.len().max(2) - 1)).collect();
    let mut in_batch = false;
    for (i, op) in ops.iter().enumerate() {
        // a doctor run ends batch mode (the handle is dropped): keep it outside batches
        if places.contains(&i) && !in_batch { out.push(doctor(rng.chance(40, 100), rng.bool(), rng.bool(), rng.bool())); }
        match op { Op::BeginBatch { .. } => in_batch = true, Op::EndBatch => in_batch = false, _ => {} }
        out.push(op.clone());
    }
    out
}

// ---------------------------------------------------------------------------------------
// recording (the logic of hist::run_family's private `record`)

fn ops_json(ops: &[Op]) -> Value { serde_json::to_value(ops).unwrap_or(Value::Null) }

fn known_list(args: &Args) -> Vec<String> {
    args.extra.get("known").map(|s| s.split(',').map(|x| x.to_string()).collect()).unwrap_or_default()
}

fn record(sum: &mut Summary, args: &Args, drv: &mut Option<Driver>, oracle: &mut Oracle, label: &str, out: Outcome, budget_s: u64) {
    for b in &out.branches { sum.branch(b); }
    let canon = out.trace.join(";");
    let nontrivial = out.branches.iter().any(|b| b == "vec-nonempty") && out.acked_mutations >= 2;
    sum.case(&canon, nontrivial, || json!({"label": label, "ops": out.ops.len(), "acked_mutations": out.acked_mutations, "frames": out.final_frames,
        "trace_tail": out.trace.iter().rev().take(3).collect::<Vec<_>>()}));
    if let Some(d) = &out.dead {
        sum.oracle_violation("implementation-failed", d, json!({"ops": ops_json(&out.ops)}));
        return;
    }
    if out.oracle.is_none() && out.disagree.is_none() { return; }
    let want_sig: Option<String> = out.oracle.as_ref().map(|o| o.0.clone());
    let t0 = std::time::Instant::now();
    let mut fails = |cand: &[Op]| -> bool {
        if t0.elapsed().as_secs() > budget_s { return false; }
        let o = run_history(Source::Fixed(cand), drv.as_mut(), oracle, false);
        match &want_sig { Some(s) => o.oracle.as_ref().map(|x| &x.0) == Some(s), None => o.disagree.is_some() && o.oracle.is_none() }
    };
    let small = shrink_list(&out.ops, &mut fails);
    let o2 = run_history(Source::Fixed(&small), drv.as_mut(), oracle, false);
    let case = json!({"ops": ops_json(&small), "label": label});
    let known = known_list(args);
    let (oracle_res, disagree_res) = if o2.oracle.is_some() || o2.disagree.is_some() { (o2.oracle, o2.disagree) } else { (out.oracle, out.disagree) };
    if let Some((sig, what, _, model_same)) = oracle_res {
        if model_same && known.iter().any(|k| *k == sig) { sum.known_finding(&sig, &what, case); } else { sum.oracle_violation(&sig, &what, case); }
    } else if let Some((what, m, i)) = disagree_res {
        let cut = |s: &str| s.chars().take(1500).collect::<String>();
        sum.disagreement(&what, case, &cut(&m), &cut(&i));
    }
}

// ---------------------------------------------------------------------------------------
// scale scenario: index sizes on both sides of the representation switch, straight on the API

fn scale_emb(id: u64) -> Vec<f32> { vec![id as f32, (id % 7) as f32 - 3.0, 1.0, (id as f32) * -0.5] }

struct ScaleRun {
    mem: Option<Memvid>,
    path: std::path::PathBuf,
    _dir: tempfile::TempDir,
    /// frame id → embedding the calls gave it, for ACTIVE frames (by the acknowledged calls)
    expect: BTreeMap<u64, Vec<f32>>,
    next_id: u64,
    /// not yet applied by a commit
    pend_put: Vec<u64>,
    pend_del: Vec<u64>,
    rebuilds: usize,
    trace: Vec<String>,
    /// frames retired by delete / update, with the embedding they had
    retired: Vec<(u64, Vec<f32>)>,
}

/// (signature, what, model predicted the same index)
type ScaleFail = (String, String, bool);

impl ScaleRun {
    fn mem(&mut self) -> &mut Memvid { self.mem.as_mut().unwrap() }

    /// after a call: when a commit happened (explicit, or the automatic checkpoint) the simulator rebuilds
    fn settle(&mut self, drv: &mut Option<Driver>, committed: bool) {
        if !committed { return; }
        self.rebuilds += 1;
        if let Some(d) = drv.as_mut() {
            if !self.pend_del.is_empty() { d.ask(&format!("vsim-del {}", self.pend_del.iter().map(|x| x.to_string()).collect::<Vec<_>>().join(" "))); }
            for chunk in self.pend_put.chunks(200) {
                d.ask(&format!("vsim-put {}", chunk.iter().map(|x| x.to_string()).collect::<Vec<_>>().join(" ")));
            }
            d.ask("vsim-rebuild");
        }
        self.pend_put.clear();
        self.pend_del.clear();
    }

    /// compare the real index with the simulator and with the expectation
    fn check(&mut self, drv: &mut Option<Driver>, at: &str) -> Result<Option<ScaleFail>, (String, String, String)> {
        let st = verif_hooks::verif_state(self.mem());
        let ids: Vec<u64> = st.vec_entries.iter().map(|e| e.0).collect();
        let fmt = |v: &[u64]| if v.is_empty() { "-".to_string() } else { v.iter().map(|x| x.to_string()).collect::<Vec<_>>().join(",") };
        // (a difference from the simulator returns early as a disagreement: below the model agrees)
        let model_same = true;
        if let Some(d) = drv.as_mut() {
            let m = d.ask("vsim-obs");
            let mine = format!("kind={} entries={}", st.vec_index_kind, fmt(&ids));
            let m_cut = m.split(" searchable=").next().unwrap_or("").to_string();
            if m_cut != mine {
                let cut = |s: &str| s.chars().take(300).collect::<String>();
                return Err((format!("scale {at}: index representation / entries"), cut(&m_cut), cut(&mine)));
            }
        }
        // oracle 1: entries = active embedded frames (committed ones: everything is committed at a check).
        // An `Hnsw` index lists no entries at all (`entries()` is empty by construction): there the
        // oracle is findability alone (oracle 2), so that what gets reported is a LOST vector.
        let want: Vec<u64> = self.expect.keys().copied().collect();
        if st.vec_index_kind != "hnsw" && ids != want {
            let missing: Vec<u64> = want.iter().filter(|i| !ids.contains(i)).copied().collect();
            let extra: Vec<u64> = ids.iter().filter(|i| !want.contains(i)).copied().collect();
            let sig = if ids.len() < want.len() && cfg!(feature = "hnsw_bench") { "hnsw-index-loses-vectors-on-rebuild" } else { "scale-vec-index-differs-from-active-embedded-frames" };
            return Ok(Some((sig.into(), format!(
                "{at}: representation `{}`, {} entries, {} active embedded frames; {} missing (first {:?}), {} that should not be there (first {:?})",
                st.vec_index_kind, ids.len(), want.len(), missing.len(), missing.iter().take(5).collect::<Vec<_>>(), extra.len(), extra.iter().take(5).collect::<Vec<_>>()), model_same)));
        }
        // oracle 2: findable with its own embedding; frame_embedding returns it
        let probes: Vec<u64> = [0usize, want.len() / 3, want.len() / 2, want.len().saturating_sub(1)].iter().filter_map(|i| want.get(*i).copied()).collect();
        for id in probes {
            let q = self.expect[&id].clone();
            match self.mem().search_vec(&q, 3) {
                Ok(h) => {
                    if h.first().map(|x| (x.frame_id, x.distance)) != Some((id, 0.0)) {
                        return Ok(Some(("scale-own-embedding-not-first-hit".into(), format!("{at}: search_vec(embedding of frame {id}) = {:?}", h.iter().map(|x| (x.frame_id, x.distance)).collect::<Vec<_>>()), model_same)));
                    }
                }
                Err(e) => return Ok(Some(("scale-search-vec-error".into(), format!("{at}: search_vec failed: {e}"), model_same))),
            }
            if st.vec_index_kind != "hnsw" {
                match self.mem().frame_embedding(id) {
                    Ok(Some(e)) if e == q => {}
                    other => return Ok(Some(("scale-frame-embedding-differs".into(), format!("{at}: frame_embedding({id}) = {:?}", other.map(|o| o.map(|v| v.len()))), model_same))),
                }
            }
        }
        // a retired frame must not be findable with its own embedding
        for (id, q) in self.retired.clone() {
            if let Ok(h) = self.mem().search_vec(&q, 3) {
                if h.iter().any(|x| x.frame_id == id) {
                    let sig = if st.vec_index_kind == "hnsw" { "hnsw-index-keeps-retired-frames" } else { "scale-retired-frame-still-findable" };
                    return Ok(Some((sig.into(), format!("{at}: frame {id} was deleted / superseded and search_vec(its embedding) still returns it (representation `{}`)", st.vec_index_kind), model_same)));
                }
            }
        }
        Ok(None)
    }
}

fn scale_case(n: usize, drv: &mut Option<Driver>) -> (Vec<String>, Result<Option<ScaleFail>, (String, String, String)>, usize) {
    let dir = tempfile::Builder::new().prefix("mvh-c14-scale-").tempdir().expect("tempdir");
    let path = dir.path().join("s.mv2");
    let mem = Memvid::create(&path).expect("create");
    let mut s = ScaleRun { mem: Some(mem), path, _dir: dir, expect: BTreeMap::new(), next_id: 0, pend_put: vec![], pend_del: vec![], rebuilds: 0, trace: vec![], retired: vec![] };
    if let Some(d) = drv.as_mut() { d.ask(&format!("vsim-new hnsw={}", cfg!(feature = "hnsw_bench") as u8)); }
    let opts = |ts: i64| { let mut o = PutOptions::default(); o.timestamp = Some(ts); o.instant_index = false; o.auto_tag = false; o.extract_dates = false; o.extract_triplets = false; o.extraction_budget_ms = 0; o };
    macro_rules! try_check { ($at:expr) => { match s.check(drv, $at) { Ok(None) => {}, other => { let r = s.rebuilds; return (s.trace.clone(), other, r); } } } }
    // phase 1: n embedded puts
    for i in 0..n as u64 {
        let payload = format!("scale document number {i} about vector {}", i % 13);
        s.mem().put_with_embedding_and_options(payload.as_bytes(), scale_emb(i), opts(1000 + i as i64)).expect("put");
        s.expect.insert(s.next_id, scale_emb(i));
        s.pend_put.push(s.next_id);
        s.next_id += 1;
        let committed = !verif_hooks::verif_state(s.mem()).dirty;
        s.settle(drv, committed);
    }
    s.mem().commit().expect("commit");
    s.settle(drv, true);
    s.trace.push(format!("{n} embedded puts, commit ({} rebuilds)", s.rebuilds));
    try_check!("after the puts and a commit");
    // phase 2: retire two frames, update one without embedding (carried), one more embedded put
    let victims = [1u64, (n / 2) as u64];
    for v in victims {
        s.mem().delete_frame(v).expect("delete");
        if let Some(e) = s.expect.remove(&v) { s.retired.push((v, e)); }
        s.pend_del.push(v);
        let committed = !verif_hooks::verif_state(s.mem()).dirty;
        s.settle(drv, committed);
    }
    let carried = s.mem().frame_embedding(3).ok().flatten().is_some();
    s.mem().update_frame(3, None, opts(5000), None).expect("update");
    let old = s.expect.remove(&3).expect("frame 3 embedded");
    s.expect.insert(s.next_id, old); // the client expects the embedding to be carried over (frame 3 and its successor share it, so 3 is not probed as retired)
    s.pend_del.push(3);
    if carried { s.pend_put.push(s.next_id); }
    s.next_id += 1;
    let committed = !verif_hooks::verif_state(s.mem()).dirty;
    s.settle(drv, committed);
    s.mem().put_with_embedding_and_options(b"one more scale document", scale_emb(900_000), opts(6000)).expect("put");
    s.expect.insert(s.next_id, scale_emb(900_000));
    s.pend_put.push(s.next_id);
    s.next_id += 1;
    let committed = !verif_hooks::verif_state(s.mem()).dirty;
    s.settle(drv, committed);
    s.mem().commit().expect("commit");
    s.settle(drv, true);
    s.trace.push(format!("delete 1, delete {}, update 3 (embedding {}), put, commit", n / 2, if carried { "carried" } else { "NOT available to carry" }));
    try_check!("after delete / update / put and a commit");
    // phase 3: reopen
    s.mem = None;
    s.mem = Some(Memvid::open(&s.path).expect("reopen"));
    s.trace.push("reopen".into());
    try_check!("after reopen");
    let r = s.rebuilds;
    (s.trace.clone(), Ok(None), r)
}

fn run_scale(n: usize, sum: &mut Summary, args: &Args, drv: &mut Option<Driver>) {
    let (trace, res, rebuilds) = match guarded(std::panic::AssertUnwindSafe(|| scale_case(n, drv))) {
        Ok(x) => x,
        Err(p) => { sum.oracle_violation("scale-scenario-panicked", &p, json!({"scale": n})); return; }
    };
    sum.branch("scale-scenario");
    sum.branch(if cfg!(feature = "hnsw_bench") { "scale-hnsw-config" } else { "scale-default-config" });
    if n >= 1000 { sum.branch("scale-at-or-above-threshold"); } else { sum.branch("scale-below-threshold"); }
    sum.case(&format!("scale {n} {}", trace.join(";")), true, || json!({"label": format!("scale-{n}"), "rebuilds": rebuilds, "trace": trace}));
    let case = json!({"scale": n, "hnsw_bench": cfg!(feature = "hnsw_bench")});
    match res {
        Ok(None) => {}
        Ok(Some((sig, what, model_same))) => {
            if model_same && drv.is_some() && known_list(args).iter().any(|k| *k == sig) { sum.known_finding(&sig, &what, case); } else { sum.oracle_violation(&sig, &what, case); }
        }
        Err((what, m, i)) => sum.disagreement(&what, case, &m, &i),
    }
}

// ---------------------------------------------------------------------------------------

fn main() {
    let args = parse_args();
    let mut drv: Option<Driver> = if args.driver.as_os_str() == "none" { None } else { Some(Driver::spawn(&args.driver).expect("spawn driver")) };
    let mut sum = Summary::new("C14", &args,
        "operation histories with embedded puts (put_with_embedding, put_with_chunk_embeddings), update_frame with / without embedding, \
         delete_frame, commit, drop+open, crash+open (WAL replay), read-only open, batch mode, finalize_indexes, vacuum, doctor (with / \
         without rebuild_vec_index) on a real .mv2 file and on the Lean Core model, full observation compared after every op and the vector-index \
         oracle (entries, frame_embedding, search_vec with own embedding, vector_count) evaluated after every op; plus the scale scenario \
         (N embedded puts around HNSW_THRESHOLD straight on the API, compared with the representation simulator); non-trivial = the index \
         held at least one vector and at least two mutations were acknowledged; distinct = op/answer trace");
    sum.expect_branches(&["vec-nonempty", "embedded-frame-retired", "update-carries-embedding", "chunk-embedding-given", "vec-after-reopen",
        "vec-after-vacuum", "vec-after-doctor", "search-vec-probed", "auto-commit", "reject-dim-mismatch", "scale-scenario", "op-crash"]);
    let mut ledger = Ledger::default();
    let mut oracle = |v: &mut StepView| oracle_c14(&mut ledger, v);

    if args.mode == "replay" {
        let case = load_replay(args.replay_file.as_ref().expect("replay file"));
        let input = case.get("input").unwrap_or(&case).clone();
        if let Some(n) = input.get("scale").and_then(|x| x.as_u64()) {
            run_scale(n as usize, &mut sum, &args, &mut drv);
            println!("scale scenario n={n}: violations={} disagreements={} known={:?}", sum.oracle_violations.len(), sum.disagreements.len(), sum.known.keys().collect::<Vec<_>>());
        } else {
            let ops = ops_from_json(&input["ops"]);
            let out = run_history(Source::Fixed(&ops), drv.as_mut(), &mut oracle, true);
            if let Some((sig, what, _, _)) = &out.oracle { println!("ORACLE {sig}: {what}"); }
            if let Some((w, m, i)) = &out.disagree { println!("DISAGREE {w}\n  model: {}\n  impl : {}", m.chars().take(600).collect::<String>(), i.chars().take(600).collect::<String>()); }
            if let Some(d) = &out.dead { println!("DEAD {d}"); }
            record(&mut sum, &args, &mut drv, &mut oracle, "replay", out, 0);
        }
        sum.model_requests = drv.as_ref().map(|d| d.requests).unwrap_or(0);
        sum.finish(&args);
    }

    let max_fail: usize = args.extra.get("maxfail").and_then(|s| s.parse().ok()).unwrap_or(3);
    let budget = args.extra.get("shrink").and_then(|s| s.parse().ok()).unwrap_or(if args.thorough { 180 } else { 40 });
    let n_short: usize = args.extra.get("nshort").and_then(|s| s.parse().ok()).unwrap_or(if args.thorough { 60 } else { 12 });
    let n_long: usize = args.extra.get("nlong").and_then(|s| s.parse().ok()).unwrap_or(if args.thorough { 5 } else { 1 });
    let scales: Vec<usize> = match args.extra.get("scale") {
        Some(s) => s.split(',').filter_map(|x| x.parse().ok()).collect(),
        None => if args.thorough { vec![120, 999, 1000, 1001] } else { vec![120, 1000] },
    };

    let no_corpus = args.extra.get("nocorpus").map(|s| s == "1").unwrap_or(false);
    for (label, ops) in if no_corpus { vec![] } else { corpus(&args) } {
        let out = run_history(Source::Fixed(&ops), drv.as_mut(), &mut oracle, false);
        sum.branch("corpus");
        record(&mut sum, &args, &mut drv, &mut oracle, &label, out, budget);
    }
    for n in scales { run_scale(n, &mut sum, &args, &mut drv); }

    let mut rng = Rng::new(args.seed);
    let mut none_oracle = |_: &mut StepView| -> Option<(String, String)> { None };
    for k in 0..n_short + n_long {
        if sum.oracle_violations.len() + sum.disagreements.len() >= max_fail { break; }
        let long = k >= n_short;
        let prof = profile(args.thorough, long);
        let len = if long { rng.usize(prof.long_len.0, prof.long_len.1) } else { rng.usize(prof.short_len.0, prof.short_len.1) };
        let mut r = rng.fork();
        let label = format!("{}-{k}", if long { "long" } else { "short" });
        if k % 3 == 1 {
            // generate on the implementation alone, add doctor runs, then run the fixed list on both sides
            let dry = run_history(Source::Gen { rng: &mut r, prof: &prof, len, long }, None, &mut none_oracle, false);
            if dry.dead.is_some() { record(&mut sum, &args, &mut drv, &mut oracle, &label, dry, budget); continue; }
            let ops = with_doctor(&dry.ops, &mut r);
            let out = run_history(Source::Fixed(&ops), drv.as_mut(), &mut oracle, false);
            sum.branch("doctor-inserted");
            record(&mut sum, &args, &mut drv, &mut oracle, &label, out, budget);
        } else {
            let out = run_history(Source::Gen { rng: &mut r, prof: &prof, len, long }, drv.as_mut(), &mut oracle, false);
            record(&mut sum, &args, &mut drv, &mut oracle, &label, out, budget);
        }
        if long { sum.branch("long-history"); }
    }
    sum.model_requests = drv.as_ref().map(|d| d.requests).unwrap_or(0);
    sum.finish(&args);
}
