/-
  Capacity — vocabulary of property C24 over the shared Core model, plus the handle as it was BEFORE the
  repair ed05539 (for the counterexample).

  Since ed05539 `put_internal` has two capacity tests and `MvModel/Core.lean` mirrors both (`Mem.putTail`:
  the early `cached_payload_end + prepared.len()` test, then `Mem.overCap`: `max(cached_payload_end, data_end)
  + pending_payload_bytes + stored bytes of this put > capacity_limit`, evaluated right before the WAL
  appends and skipped for a put that appends nothing).  This file only adds names the theorems use:

    Entry.isFresh / hasFresh     some pending record makes the next commit place a payload at `data_end`
    incomingBytes / appendsPayload   the two ingredients of `Mem.overCap` (`incoming_payload_bytes`, and
                                 `reuse_payload_from.is_none() || !chunk_entries.is_empty()`)
    Mem.prePut                   the handle when `put_internal` reaches the capacity tests (`enable_vec` and the
                                 early dimension note of an embedded put have already happened)
    updReuse                     `reuse_frame` of `update_frame`
    Mem.absEnd                   `cached_payload_end` (absolute)
    Mem.putTailU / putCoreU / stepU / runU / traceU
                                 the handle BEFORE ed05539: `put_internal` with the early test only
                                 (mutation.rs put_internal at a939ee7); every other operation is Core's `step`
-/
import MvModel.Core
namespace Mv.Core

/-- the record makes the next commit place a payload (possibly empty) at the data cursor -/
def Entry.isFresh : Entry → Bool
  | .insert e => e.reuseFrom.isNone
  | _ => false

def hasFresh : List (Nat × Entry) → Bool
  | [] => false
  | r :: rs => r.2.isFresh || hasFresh rs

/-- `incoming_payload_bytes`: the parent entry's own stored payload (nothing when the payload of an
    existing frame is reused) plus every chunk entry's payload -/
def incomingBytes (a : PutArgs) (reuse : Option Nat) : Nat :=
  (if reuse.isNone then a.len else 0) + chunkLenSum a.chunks

/-- the put makes the next commit append payloads: `reuse_payload_from.is_none() || !chunk_entries.is_empty()` -/
def appendsPayload (a : PutArgs) (reuse : Option Nat) : Bool := reuse.isNone || !a.chunks.isEmpty

/-- the handle when `put_internal` reaches the capacity tests -/
def Mem.prePut (m : Mem) (a : PutArgs) : Mem :=
  match embDims a with
  | d :: _ => m.enableVec.noteDim d
  | [] => m

/-- `reuse_frame` of `update_frame`: the old payload is reused when no new one is given -/
def updReuse (u : UpdArgs) (id : Nat) : Option Nat := if u.payload.isNone then some id else none

/-- absolute end of the payload region (`cached_payload_end`) -/
def Mem.absEnd (m : Mem) : Nat := m.base + m.payloadEnd

/-! ## The handle before the repair -/

/-- `put_internal` before ed05539: only the early test against the COMMITTED payload end -/
def Mem.putTailU (m : Mem) (a : PutArgs) (supersedes reuse : Option Nat) (t : Trace) : Mem × Out :=
  if m.base + m.payloadEnd + a.plen > m.capacityLimit then (m, .err "capacity") else
  ((((m.appendPut a supersedes reuse).afterAppend t).addCards a.nc m.nextFrameId), .seq (m.seq + 1))

def Mem.putCoreU (m : Mem) (a : PutArgs) (supersedes reuse : Option Nat) (t : Trace) : Mem × Out :=
  if !m.mutationAllowed then (m, .err "ticket-required") else
  match embDims a with
  | d :: rest =>
    if rest.any (· != d) then (m, .err "dim-mismatch") else
    if m.enableVec.vecDim ≠ 0 ∧ m.enableVec.vecDim ≠ d then (m.enableVec, .err "dim-mismatch") else
    (m.enableVec.noteDim d).putTailU a supersedes reuse t
  | [] => m.putTailU a supersedes reuse t

/-- one operation on the unrepaired handle (puts; everything else is unchanged by the repair) -/
def stepU (m : Mem) : Op → Mem × Out
  | .put a t => m.putCoreU a none none t
  | op => step m op

def runU (m : Mem) : List Op → Mem
  | [] => m
  | op :: ops => runU (stepU m op).1 ops

def traceU (m : Mem) : List Op → List (Op × Out)
  | [] => []
  | op :: ops => (op, (stepU m op).2) :: traceU (stepU m op).1 ops

end Mv.Core
