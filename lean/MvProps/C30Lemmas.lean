/-
  Helper lemmas for MvProps/C30.lean: header codec (image layout, decode characterisation),
  time index (i64 codec, read loop).  No property statements here.
-/
import MvModel.Header
import MvModel.TimeIndex
import MvModel.Footer
set_option linter.unusedSimpArgs false
set_option linter.unusedVariables false

namespace Mv.Header


theorem writeAt_zeros_step (pre w : Bytes) (n off : Nat) (hoff : off = pre.length) (h : w.length ≤ n) :
    writeAt (pre ++ zeros n) off w = (pre ++ w) ++ zeros (n - w.length) := by
  subst hoff
  simp [writeAt, zeros, List.drop_append, List.drop_replicate]

theorem encode_eq (h : Header) (wf : WellFormed h) (acc : Accepted h) :
    encode h = .ok (fieldBytes h ++ zeros (HEADER_SIZE - 80)) := by
  obtain ⟨hm, hv, hfo, hwo, hws, hcp, hsq, hck⟩ := wf
  obtain ⟨am, av, awo, aws⟩ := acc
  have h1 : ¬ (h.walOffset < WAL_OFFSET) := by omega
  have h2 : ¬ (h.walSize = 0) := by omega
  unfold encode
  simp only [am, av, ne_eq, not_true_eq_false, if_false, h1, h2]
  have z : zeros HEADER_SIZE = ([] : Bytes) ++ zeros HEADER_SIZE := rfl
  rw [z]
  rw [writeAt_zeros_step _ _ _ _ (by simp) (by simp [MAGIC_length, HEADER_SIZE_eq])]
  rw [writeAt_zeros_step _ _ _ _ (by simp [MAGIC_length, VERSION_OFFSET_eq]) (by simp [u16le, MAGIC_length, HEADER_SIZE_eq])]
  rw [writeAt_zeros_step _ _ _ _ (by simp [MAGIC_length, SPEC_BYTES_OFFSET_eq, u16le]) (by simp [u16le, MAGIC_length, HEADER_SIZE_eq])]
  rw [writeAt_zeros_step _ _ _ _ (by simp [MAGIC_length, SPEC_BYTES_OFFSET_eq, u16le]) (by simp [u16le, MAGIC_length, HEADER_SIZE_eq])]
  rw [writeAt_zeros_step _ _ _ _ (by simp [MAGIC_length, FOOTER_OFFSET_POS_eq, u16le]) (by simp [u16le, u64le, MAGIC_length, HEADER_SIZE_eq])]
  rw [writeAt_zeros_step _ _ _ _ (by simp [MAGIC_length, WAL_OFFSET_POS_eq, u16le, u64le]) (by simp [u16le, u64le, MAGIC_length, HEADER_SIZE_eq])]
  rw [writeAt_zeros_step _ _ _ _ (by simp [MAGIC_length, WAL_SIZE_POS_eq, u16le, u64le]) (by simp [u16le, u64le, MAGIC_length, HEADER_SIZE_eq])]
  rw [writeAt_zeros_step _ _ _ _ (by simp [MAGIC_length, WAL_CHECKPOINT_POS_eq, u16le, u64le]) (by simp [u16le, u64le, MAGIC_length, HEADER_SIZE_eq])]
  rw [writeAt_zeros_step _ _ _ _ (by simp [MAGIC_length, WAL_SEQUENCE_POS_eq, u16le, u64le]) (by simp [u16le, u64le, MAGIC_length, HEADER_SIZE_eq])]
  rw [writeAt_zeros_step _ _ _ _ (by simp [MAGIC_length, TOC_CHECKSUM_POS_eq, u16le, u64le]) (by simp [u16le, u64le, MAGIC_length, HEADER_SIZE_eq, hck])]
  simp [fieldBytes, am, av, HEADER_SIZE_eq, u16le, u64le, MAGIC_length, hck, List.append_assoc]




/-- the header a successful `decode` reads off an image -/
def readFields (b : Bytes) : Header :=
  { magic := slice b 0 4, version := leVal (slice b VERSION_OFFSET 2),
    footerOffset := leVal (slice b FOOTER_OFFSET_POS 8), walOffset := leVal (slice b WAL_OFFSET_POS 8),
    walSize := leVal (slice b WAL_SIZE_POS 8), walCheckpointPos := leVal (slice b WAL_CHECKPOINT_POS 8),
    walSequence := leVal (slice b WAL_SEQUENCE_POS 8), tocChecksum := slice b TOC_CHECKSUM_POS 32 }

/-- the checks `decode` performs, in order; `none` = all passed -/
def firstError (b : Bytes) : Option Err :=
  if b.length ≠ HEADER_SIZE then some .truncated
  else if slice b 0 4 ≠ MAGIC then some .magic
  else if leVal (slice b VERSION_OFFSET 2) ≠ EXPECTED_VERSION then some .version
  else if b[SPEC_BYTES_OFFSET]? ≠ some (UInt8.ofNat SPEC_MAJOR) ∨ b[SPEC_BYTES_OFFSET + 1]? ≠ some (UInt8.ofNat SPEC_MINOR) then some .spec
  else if leVal (slice b WAL_OFFSET_POS 8) < WAL_OFFSET then some .walOffset
  else if leVal (slice b WAL_SIZE_POS 8) = 0 then some .walSize
  else none

theorem decode_eq (b : Bytes) :
    decode b = match firstError b with | some e => .error e | none => .ok (readFields b) := by
  unfold decode firstError
  by_cases hl : b.length = HEADER_SIZE
  · have ea : ∀ o n, o + n ≤ HEADER_SIZE → extractArray b o n = .ok (slice b o n) := by
      intro o n h; simp [extractArray, hl, h]
    simp only [hl, ne_eq, not_true_eq_false, if_false, bind, Except.bind,
      ea 0 4 (by decide), ea VERSION_OFFSET 2 (by decide), ea FOOTER_OFFSET_POS 8 (by decide),
      ea WAL_OFFSET_POS 8 (by decide), ea WAL_SIZE_POS 8 (by decide), ea WAL_CHECKPOINT_POS 8 (by decide),
      ea WAL_SEQUENCE_POS 8 (by decide), ea TOC_CHECKSUM_POS 32 (by decide)]
    split
    · rfl
    · split
      · rfl
      · split
        · rfl
        · split
          · rfl
          · split
            · rfl
            · rfl
  · simp [hl]



theorem slice_flatten_idx (segs : List Bytes) (i : Nat) (hi : i < segs.length) :
    slice segs.flatten ((segs.take i).flatten.length) segs[i].length = segs[i] := by
  have : segs = segs.take i ++ segs[i] :: segs.drop (i+1) := by simp
  conv => lhs; arg 1; rw [this]
  simp only [List.flatten_append, List.flatten_cons, slice]
  simp

theorem slice_seg (pre w post : Bytes) (o l : Nat) (ho : o = pre.length) (hl : l = w.length) :
    slice (pre ++ w ++ post) o l = w := by
  subst ho hl
  simp [slice]

theorem slice_one (b : Bytes) (o : Nat) (x : UInt8) (h : slice b o 1 = [x]) : b[o]? = some x := by
  unfold slice at h
  have h0 : ((b.drop o).take 1)[0]? = some x := by rw [h]; rfl
  simpa [List.getElem?_take, List.getElem?_drop] using h0

def segs (h : Header) : List Bytes :=
  [h.magic, u16le h.version, [UInt8.ofNat SPEC_MAJOR], [UInt8.ofNat SPEC_MINOR], u64le h.footerOffset,
   u64le h.walOffset, u64le h.walSize, u64le h.walCheckpointPos, u64le h.walSequence, h.tocChecksum,
   zeros (HEADER_SIZE - 80)]

theorem segs_flatten (h : Header) : (segs h).flatten = fieldBytes h ++ zeros (HEADER_SIZE - 80) := by
  simp [segs, fieldBytes, List.append_assoc]

theorem fieldBytes_length (h : Header) (wf : WellFormed h) : (fieldBytes h).length = 80 := by
  obtain ⟨hm, hv, hfo, hwo, hws, hcp, hsq, hck⟩ := wf
  simp [fieldBytes, u16le, u64le, hm, hck]

/-- all reads of `decode` on the canonical image of `h` -/
theorem reads_canonical (h : Header) (wf : WellFormed h) :
    let B := fieldBytes h ++ zeros (HEADER_SIZE - 80)
    B.length = HEADER_SIZE ∧ slice B 0 4 = h.magic ∧ slice B VERSION_OFFSET 2 = u16le h.version ∧
    B[SPEC_BYTES_OFFSET]? = some (UInt8.ofNat SPEC_MAJOR) ∧ B[SPEC_BYTES_OFFSET + 1]? = some (UInt8.ofNat SPEC_MINOR) ∧
    slice B FOOTER_OFFSET_POS 8 = u64le h.footerOffset ∧ slice B WAL_OFFSET_POS 8 = u64le h.walOffset ∧
    slice B WAL_SIZE_POS 8 = u64le h.walSize ∧ slice B WAL_CHECKPOINT_POS 8 = u64le h.walCheckpointPos ∧
    slice B WAL_SEQUENCE_POS 8 = u64le h.walSequence ∧ slice B TOC_CHECKSUM_POS 32 = h.tocChecksum := by
  intro B
  have hlen := fieldBytes_length h wf
  obtain ⟨hm, hv, hfo, hwo, hws, hcp, hsq, hck⟩ := wf
  have hB : B = (segs h).flatten := (segs_flatten h).symm
  have sl : ∀ (i : Nat) (hi : i < (segs h).length) (o l : Nat) (w : Bytes), o = ((segs h).take i).flatten.length →
      (segs h)[i] = w → l = w.length → slice B o l = w := by
    intro i hi o l w ho hw hl
    rw [hB, ho, hl, ← hw]; exact slice_flatten_idx (segs h) i hi
  refine ⟨by simp [B, hlen, HEADER_SIZE_eq], ?_, ?_, ?_, ?_, ?_, ?_, ?_, ?_, ?_, ?_⟩
  · exact sl 0 (by simp [segs]) _ _ _ (by simp) (by simp [segs]) hm.symm
  · exact sl 1 (by simp [segs]) _ _ _ (by simp [segs, hm, VERSION_OFFSET_eq]) (by simp [segs]) (by simp [u16le])
  · exact slice_one _ _ _ (sl 2 (by simp [segs]) _ _ _ (by simp [segs, hm, u16le, SPEC_BYTES_OFFSET_eq]) (by simp [segs]) (by simp))
  · exact slice_one _ _ _ (sl 3 (by simp [segs]) _ _ _ (by simp [segs, hm, u16le, SPEC_BYTES_OFFSET_eq]) (by simp [segs]) (by simp))
  · exact sl 4 (by simp [segs]) _ _ _ (by simp [segs, hm, u16le, FOOTER_OFFSET_POS_eq]) (by simp [segs]) (by simp [u64le])
  · exact sl 5 (by simp [segs]) _ _ _ (by simp [segs, hm, u16le, u64le, WAL_OFFSET_POS_eq]) (by simp [segs]) (by simp [u64le])
  · exact sl 6 (by simp [segs]) _ _ _ (by simp [segs, hm, u16le, u64le, WAL_SIZE_POS_eq]) (by simp [segs]) (by simp [u64le])
  · exact sl 7 (by simp [segs]) _ _ _ (by simp [segs, hm, u16le, u64le, WAL_CHECKPOINT_POS_eq]) (by simp [segs]) (by simp [u64le])
  · exact sl 8 (by simp [segs]) _ _ _ (by simp [segs, hm, u16le, u64le, WAL_SEQUENCE_POS_eq]) (by simp [segs]) (by simp [u64le])
  · exact sl 9 (by simp [segs]) _ _ _ (by simp [segs, hm, u16le, u64le, TOC_CHECKSUM_POS_eq]) (by simp [segs]) hck.symm

theorem readFields_canonical (h : Header) (wf : WellFormed h) :
    readFields (fieldBytes h ++ zeros (HEADER_SIZE - 80)) = h := by
  obtain ⟨_, e0, e1, _, _, e2, e3, e4, e5, e6, e7⟩ := reads_canonical h wf
  obtain ⟨hm, hv, hfo, hwo, hws, hcp, hsq, hck⟩ := wf
  have h256 : (256:Nat)^8 = 2^64 := by decide
  have h2562 : (256:Nat)^2 = 2^16 := by decide
  have v1 : leVal (u16le h.version) = h.version := leVal_leBytes 2 _ (by omega)
  have v2 : leVal (u64le h.footerOffset) = h.footerOffset := leVal_leBytes 8 _ (by omega)
  have v3 : leVal (u64le h.walOffset) = h.walOffset := leVal_leBytes 8 _ (by omega)
  have v4 : leVal (u64le h.walSize) = h.walSize := leVal_leBytes 8 _ (by omega)
  have v5 : leVal (u64le h.walCheckpointPos) = h.walCheckpointPos := leVal_leBytes 8 _ (by omega)
  have v6 : leVal (u64le h.walSequence) = h.walSequence := leVal_leBytes 8 _ (by omega)
  simp only [readFields, e0, e1, e2, e3, e4, e5, e6, e7, v1, v2, v3, v4, v5, v6]

theorem firstError_canonical (h : Header) (wf : WellFormed h) (acc : Accepted h) :
    firstError (fieldBytes h ++ zeros (HEADER_SIZE - 80)) = none := by
  have hr := readFields_canonical h wf
  obtain ⟨hl, e0, _, s1, s2, _, _, _, _, _, _⟩ := reads_canonical h wf
  obtain ⟨am, av, awo, aws⟩ := acc
  have r1 : leVal (slice (fieldBytes h ++ zeros (HEADER_SIZE - 80)) VERSION_OFFSET 2) = h.version := by
    conv => rhs; rw [← hr]
    rfl
  have r2 : leVal (slice (fieldBytes h ++ zeros (HEADER_SIZE - 80)) WAL_OFFSET_POS 8) = h.walOffset := by
    conv => rhs; rw [← hr]
    rfl
  have r3 : leVal (slice (fieldBytes h ++ zeros (HEADER_SIZE - 80)) WAL_SIZE_POS 8) = h.walSize := by
    conv => rhs; rw [← hr]
    rfl
  have h1 : ¬ (h.walOffset < WAL_OFFSET) := by omega
  have h2 : ¬ (h.walSize = 0) := by omega
  unfold firstError
  simp only [hl, e0, r1, r2, r3, s1, s2, am, av, h1, h2, ne_eq, not_true_eq_false, if_false, or_self]



theorem slice_split (b : Bytes) (o l1 l2 : Nat) : slice b o (l1 + l2) = slice b o l1 ++ slice b (o + l1) l2 := by
  simp only [slice, List.take_add, List.drop_drop]

theorem slice_of_getElem? (b : Bytes) (o : Nat) (x : UInt8) (h : b[o]? = some x) : slice b o 1 = [x] := by
  obtain ⟨hlt, hx⟩ := List.getElem?_eq_some_iff.mp h
  unfold slice
  rw [List.drop_eq_getElem_cons hlt, hx]
  simp

theorem firstError_none (b : Bytes) (h : firstError b = none) :
    b.length = HEADER_SIZE ∧ slice b 0 4 = MAGIC ∧ leVal (slice b VERSION_OFFSET 2) = EXPECTED_VERSION ∧
    b[SPEC_BYTES_OFFSET]? = some (UInt8.ofNat SPEC_MAJOR) ∧ b[SPEC_BYTES_OFFSET + 1]? = some (UInt8.ofNat SPEC_MINOR) ∧
    WAL_OFFSET ≤ leVal (slice b WAL_OFFSET_POS 8) ∧ 0 < leVal (slice b WAL_SIZE_POS 8) := by
  unfold firstError at h
  split at h
  · cases h
  · split at h
    · cases h
    · split at h
      · cases h
      · split at h
        · cases h
        · split at h
          · cases h
          · split at h
            · cases h
            · rename_i a1 a2 a3 a4 a5 a6
              refine ⟨by simpa using a1, by simpa using a2, by simpa using a3, ?_, ?_, by omega, by omega⟩
              · exact Classical.byContradiction fun hn => a4 (Or.inl hn)
              · exact Classical.byContradiction fun hn => a4 (Or.inr hn)

theorem decode_sound_fields (b : Bytes) (h : firstError b = none) :
    WellFormed (readFields b) ∧ Accepted (readFields b) ∧ fieldBytes (readFields b) = slice b 0 80 := by
  obtain ⟨hl, hm, hv, s1, s2, hwo, hws⟩ := firstError_none b h
  have hl' : b.length = 4096 := by rw [hl, HEADER_SIZE_eq]
  have len : ∀ o n, o + n ≤ 4096 → (slice b o n).length = n := fun o n hh => slice_length b o n (by omega)
  have lt8 : ∀ o, o + 8 ≤ 4096 → leVal (slice b o 8) < 2^64 := by
    intro o ho
    have := leVal_lt (slice b o 8); rw [len o 8 ho] at this
    exact this
  have lt2 : leVal (slice b VERSION_OFFSET 2) < 2^16 := by
    have := leVal_lt (slice b VERSION_OFFSET 2); rw [len _ 2 (by decide)] at this
    exact this
  have rt8 : ∀ o, o + 8 ≤ 4096 → u64le (leVal (slice b o 8)) = slice b o 8 := by
    intro o ho
    have := leBytes_leVal (slice b o 8); rw [len o 8 ho] at this
    exact this
  have rt2 : u16le (leVal (slice b VERSION_OFFSET 2)) = slice b VERSION_OFFSET 2 := by
    have := leBytes_leVal (slice b VERSION_OFFSET 2); rw [len _ 2 (by decide)] at this
    exact this
  refine ⟨⟨?_, ?_, ?_, ?_, ?_, ?_, ?_, ?_⟩, ⟨?_, ?_, ?_, ?_⟩, ?_⟩
  · exact len 0 4 (by decide)
  · exact lt2
  · exact lt8 _ (by decide)
  · exact lt8 _ (by decide)
  · exact lt8 _ (by decide)
  · exact lt8 _ (by decide)
  · exact lt8 _ (by decide)
  · exact len _ 32 (by decide)
  · exact hm
  · exact hv
  · exact hwo
  · exact hws
  · have e1 := slice_of_getElem? b _ _ s1
    have e2 := slice_of_getElem? b _ _ s2
    simp only [fieldBytes, readFields, rt2, rt8 _ (show FOOTER_OFFSET_POS + 8 ≤ 4096 by decide),
      rt8 _ (show WAL_OFFSET_POS + 8 ≤ 4096 by decide), rt8 _ (show WAL_SIZE_POS + 8 ≤ 4096 by decide),
      rt8 _ (show WAL_CHECKPOINT_POS + 8 ≤ 4096 by decide), rt8 _ (show WAL_SEQUENCE_POS + 8 ≤ 4096 by decide)]
    have : ([UInt8.ofNat SPEC_MAJOR, UInt8.ofNat SPEC_MINOR] : Bytes) = slice b SPEC_BYTES_OFFSET 1 ++ slice b (SPEC_BYTES_OFFSET + 1) 1 := by
      rw [e1, e2]; rfl
    rw [this]
    simp only [VERSION_OFFSET_eq, SPEC_BYTES_OFFSET_eq, FOOTER_OFFSET_POS_eq, WAL_OFFSET_POS_eq, WAL_SIZE_POS_eq,
      WAL_CHECKPOINT_POS_eq, WAL_SEQUENCE_POS_eq, TOC_CHECKSUM_POS_eq]
    have s80 : slice b 0 80 = slice b 0 4 ++ slice b 4 2 ++ (slice b 6 1 ++ slice b 7 1) ++ slice b 8 8 ++ slice b 16 8 ++
        slice b 24 8 ++ slice b 32 8 ++ slice b 40 8 ++ slice b 48 32 := by
      rw [show (80:Nat) = 4 + (2 + (1 + (1 + (8 + (8 + (8 + (8 + (8 + 32)))))))) by rfl]
      simp only [slice_split, List.append_assoc]
    rw [s80]


theorem prefix_of_ok (b : Bytes) (h : firstError b = none) :
    slice b 0 8 = MAGIC ++ u16le EXPECTED_VERSION ++ [UInt8.ofNat SPEC_MAJOR, UInt8.ofNat SPEC_MINOR] := by
  obtain ⟨hl, hm, hv, s1, s2, _, _⟩ := firstError_none b h
  have hl' : b.length = 4096 := by rw [hl, HEADER_SIZE_eq]
  have rt2 : u16le (leVal (slice b VERSION_OFFSET 2)) = slice b VERSION_OFFSET 2 := by
    have := leBytes_leVal (slice b VERSION_OFFSET 2)
    rw [slice_length b _ 2 (by rw [hl', VERSION_OFFSET_eq]; omega)] at this
    exact this
  have e1 := slice_of_getElem? b _ _ s1
  have e2 := slice_of_getElem? b _ _ s2
  rw [hv] at rt2
  rw [show (8:Nat) = 4 + (2 + (1 + 1)) by rfl]
  simp only [slice_split]
  rw [VERSION_OFFSET_eq] at rt2
  rw [SPEC_BYTES_OFFSET_eq] at e1 e2
  simp only [Nat.zero_add, Nat.reduceAdd] at *
  rw [hm, ← rt2, e1, e2]
  simp

end Mv.Header

namespace Mv.TimeIndex


theorem le_trans' (a b c : Entry) (h1 : le a b = true) (h2 : le b c = true) : le a c = true := by
  simp only [le, Bool.or_eq_true, Bool.and_eq_true, decide_eq_true_eq] at *
  omega

theorem le_total' (a b : Entry) : (le a b || le b a) = true := by
  simp only [le, Bool.or_eq_true, Bool.and_eq_true, decide_eq_true_eq]
  omega

theorem i64_roundtrip (v : Int) (h1 : -(2^63 : Int) ≤ v) (h2 : v < 2^63) : i64Val (i64le v) = v := by
  unfold i64Val i64le
  have hnn : 0 ≤ v % 2^64 := Int.emod_nonneg _ (by decide)
  have hlt : v % 2^64 < 2^64 := Int.emod_lt_of_pos _ (by decide)
  have h256 : (256:Nat)^8 = 2^64 := by decide
  have hv : leVal (u64le (v % 2^64).toNat) = (v % 2^64).toNat := leVal_leBytes 8 _ (by omega)
  rw [hv]
  have : ((v % 2^64).toNat : Int) = v % 2^64 := Int.toNat_of_nonneg hnn
  split <;> omega

theorem i64le_length (v : Int) : (i64le v).length = 8 := by simp [i64le, u64le]

theorem encodeEntry_length (e : Entry) : (encodeEntry e).length = 16 := by
  simp [encodeEntry, i64le_length, u64le]

theorem encodeEntries_length (es : List Entry) : (encodeEntries es).length = 16 * es.length := by
  induction es with
  | nil => rfl
  | cons e es ih => simp [encodeEntries, encodeEntry_length, ih]; omega

/-- the loop reads back what `encodeEntries` wrote, given sortedness -/
theorem readLoop_encode (s : List Entry) (post : Bytes) (prev : Option Entry)
    (hs : s.Pairwise (fun a b => le a b = true))
    (hp : ∀ p, prev = some p → ∀ e, s.head? = some e → le p e = true)
    (hr : ∀ e ∈ s, InRange e) :
    readLoop s.length (encodeEntries s ++ post) prev = .ok s := by
  induction s generalizing prev with
  | nil => rfl
  | cons e es ih =>
    have hre := hr e (by simp)
    obtain ⟨r1, r2, r3⟩ := hre
    have h256 : (256:Nat)^8 = 2^64 := by decide
    have l1 : (i64le e.ts).length = 8 := i64le_length _
    have l2 : (u64le e.id).length = 8 := by simp [u64le]
    have d1 : (encodeEntries (e :: es) ++ post).take 8 = i64le e.ts := by
      simp [encodeEntries, encodeEntry, List.append_assoc, List.take_append, l1]
    have d2 : (encodeEntries (e :: es) ++ post).drop 8 = u64le e.id ++ (encodeEntries es ++ post) := by
      simp [encodeEntries, encodeEntry, List.append_assoc, List.drop_append, l1]
    have d3 : (u64le e.id ++ (encodeEntries es ++ post)).take 8 = u64le e.id := by
      simp [List.take_append, l2]
    have d4 : (u64le e.id ++ (encodeEntries es ++ post)).drop 8 = encodeEntries es ++ post := by
      simp [List.drop_append, l2]
    have g1 : ¬ ((encodeEntries (e :: es) ++ post).length < 8) := by
      simp [encodeEntries, encodeEntry_length]; omega
    have g2 : ¬ ((u64le e.id ++ (encodeEntries es ++ post)).length < 8) := by
      simp [l2]
    have v1 : i64Val (i64le e.ts) = e.ts := i64_roundtrip _ r1 r2
    have v2 : leVal (u64le e.id) = e.id := leVal_leBytes 8 _ (by omega)
    have hbad : outOfOrder prev e = false := by
      cases prev with
      | none => rfl
      | some p =>
        have := hp p rfl e rfl
        simp only [le, Bool.or_eq_true, Bool.and_eq_true, decide_eq_true_eq] at this
        simp only [outOfOrder, Bool.or_eq_false_iff, Bool.and_eq_false_iff, decide_eq_false_iff_not]
        omega
    have ih' := ih (some e) (List.Pairwise.of_cons hs)
      (by
        intro p hp' e' he'
        cases hp'
        have := List.rel_of_pairwise_cons hs (a' := e') (by
          cases es with
          | nil => simp at he'
          | cons x xs => simp at he'; simp [he'])
        exact this)
      (fun x hx => hr x (by simp [hx]))
    simp only [List.length_cons, readLoop, g1, if_false, d1, d2, g2, d3, d4, v1, v2, hbad, Bool.false_eq_true, ih']


theorem trackBytes_length (s : List Entry) : (trackBytes s).length = 12 + 16 * s.length := by
  simp [trackBytes, MAGIC_length, u64le, encodeEntries_length]; omega

theorem readTrack_written (pre post : Bytes) (s : List Entry)
    (hs : s.Pairwise (fun a b => le a b = true)) (hr : ∀ e ∈ s, InRange e) (hn : s.length * 16 < 2^64) :
    readTrack (pre ++ trackBytes s ++ post) pre.length (trackBytes s).length = .ok s := by
  have h256 : (256:Nat)^8 = 2^64 := by decide
  have hd : (pre ++ trackBytes s ++ post).drop pre.length = MAGIC ++ (u64le s.length ++ (encodeEntries s ++ post)) := by
    simp [trackBytes, List.append_assoc]
  have lu : (u64le s.length).length = 8 := by simp [u64le]
  have hv : leVal (u64le s.length) = s.length := leVal_leBytes 8 _ (by omega)
  have hl := trackBytes_length s
  unfold readTrack
  simp only [hd]
  have g1 : ¬ ((MAGIC ++ (u64le s.length ++ (encodeEntries s ++ post))).length < 4) := by simp [MAGIC_length]
  have t1 : (MAGIC ++ (u64le s.length ++ (encodeEntries s ++ post))).take 4 = MAGIC := by
    simp [List.take_append, MAGIC_length]
  have t2 : (MAGIC ++ (u64le s.length ++ (encodeEntries s ++ post))).drop 4 = u64le s.length ++ (encodeEntries s ++ post) := by
    simp [List.drop_append, MAGIC_length]
  have g2 : ¬ ((u64le s.length ++ (encodeEntries s ++ post)).length < 8) := by simp [lu]
  have t3 : (u64le s.length ++ (encodeEntries s ++ post)).take 8 = u64le s.length := by simp [List.take_append, lu]
  have t4 : (u64le s.length ++ (encodeEntries s ++ post)).drop 8 = encodeEntries s ++ post := by simp [List.drop_append, lu]
  have g3 : ¬ ((trackBytes s).length < 12) := by omega
  have g4 : ¬ (s.length * 16 ≥ 2^64) := by omega
  have g5 : ¬ ((trackBytes s).length - 12 ≠ s.length * 16) := by omega
  simp only [g1, if_false, t1, ne_eq, not_true_eq_false, t2, g2, t3, t4, hv, g3, g4, g5]
  exact readLoop_encode s post none hs (by intro p hp; cases hp) hr

theorem i64_roundtrip_bytes (bs : Bytes) (h : bs.length = 8) :
    i64le (i64Val bs) = bs ∧ -(2^63 : Int) ≤ i64Val bs ∧ i64Val bs < 2^63 := by
  have hlt := leVal_lt bs
  rw [h] at hlt
  have h256 : (256:Nat)^8 = 2^64 := by decide
  have key : ((i64Val bs) % 2^64).toNat = leVal bs := by
    unfold i64Val
    split <;> omega
  refine ⟨?_, ?_, ?_⟩
  · unfold i64le; rw [key]
    have := leBytes_leVal bs; rw [h] at this; exact this
  · unfold i64Val; split <;> omega
  · unfold i64Val; split <;> omega

theorem take_add_eq (b : Bytes) (n m : Nat) : b.take (n + m) = b.take n ++ (b.drop n).take m := List.take_add

/-- whatever the loop returns is sorted, in range, and is what the bytes say -/
theorem readLoop_sound (n : Nat) (data : Bytes) (prev : Option Entry) (es : List Entry)
    (h : readLoop n data prev = .ok es) :
    es.length = n ∧ 16 * n ≤ data.length ∧ data.take (16 * n) = encodeEntries es ∧
    es.Pairwise (fun a b => le a b = true) ∧ (∀ e ∈ es, InRange e) ∧
    (∀ p, prev = some p → ∀ e, es.head? = some e → le p e = true) := by
  induction n generalizing data prev es with
  | zero =>
    simp only [readLoop] at h
    cases h
    simp [encodeEntries]
  | succ n ih =>
    unfold readLoop at h
    split at h
    · cases h
    · rename_i g1
      dsimp only at h
      split at h
      · cases h
      · rename_i g2
        split at h
        · cases h
        · rename_i hb
          split at h
          · rename_i rest hrest
            cases h
            obtain ⟨i1, i2, i3, i4, i5, i6⟩ := ih _ _ _ hrest
            have l1 : (data.take 8).length = 8 := by simp; omega
            have l2 : ((data.drop 8).take 8).length = 8 := by simp at g2 ⊢; omega
            obtain ⟨b1, b2, b3⟩ := i64_roundtrip_bytes _ l1
            have hlt := leVal_lt ((data.drop 8).take 8)
            rw [l2] at hlt
            have h256 : (256:Nat)^8 = 2^64 := by decide
            have b4 : u64le (leVal ((data.drop 8).take 8)) = (data.drop 8).take 8 := by
              have := leBytes_leVal ((data.drop 8).take 8); rw [l2] at this; exact this
            simp only [List.length_drop] at i2 g2
            refine ⟨by simp [i1], by omega, ?_, ?_, ?_, ?_⟩
            · have : 16 * (n + 1) = 8 + (8 + 16 * n) := by omega
              rw [this, take_add_eq, take_add_eq, List.drop_drop]
              simp only [encodeEntries, encodeEntry, b1, b4, List.append_assoc]
              rw [← i3, List.drop_drop]
            · refine List.Pairwise.cons ?_ i4
              intro x hx
              -- le is transitive: head of rest is ≥ e, and rest is pairwise sorted
              cases rest with
              | nil => simp at hx
              | cons r rs =>
                have hr := i6 _ rfl r rfl
                rcases List.mem_cons.mp hx with hx | hx
                · subst hx; exact hr
                · exact le_trans' _ _ _ hr (List.rel_of_pairwise_cons i4 hx)
            · intro x hx
              rcases List.mem_cons.mp hx with hx | hx
              · subst hx; exact ⟨b2, b3, by simpa using (by omega : leVal ((data.drop 8).take 8) < 2^64)⟩
              · exact i5 x hx
            · intro p hp e he
              simp only [List.head?_cons, Option.some.injEq] at he
              subst he hp
              simp only [outOfOrder, Bool.or_eq_true, Bool.and_eq_true, decide_eq_true_eq, not_or, not_and] at hb
              simp only [le, Bool.or_eq_true, Bool.and_eq_true, decide_eq_true_eq]
              omega
          · cases h


/-- `read_track` never returns anything but the sorted, in-range entry list whose canonical
    encoding is exactly the `length` bytes at `offset` -/
theorem readTrack_sound (file : Bytes) (off len : Nat) (es : List Entry)
    (h : readTrack file off len = .ok es) :
    es.Pairwise (fun a b => le a b = true) ∧ (∀ e ∈ es, InRange e) ∧ len = 12 + 16 * es.length ∧
    es.length = leVal (slice file (off + 4) 8) ∧ es.length * 16 < 2^64 ∧
    off + len ≤ file.length ∧ slice file off len = trackBytes es := by
  unfold readTrack at h
  dsimp only at h
  split at h
  · cases h
  · rename_i g1
    split at h
    · cases h
    · rename_i g2
      split at h
      · cases h
      · rename_i g3
        split at h
        · cases h
        · rename_i g4
          split at h
          · cases h
          · rename_i g5
            split at h
            · cases h
            · rename_i g6
              obtain ⟨i1, i2, i3, i4, i5, _⟩ := readLoop_sound _ _ _ _ h
              simp only [List.length_drop] at g1 g3 i2
              have hm : (file.drop off).take 4 = MAGIC := by simpa using g2
              have l2 : (((file.drop off).drop 4).take 8).length = 8 := by simp; omega
              have b4 : u64le (leVal (((file.drop off).drop 4).take 8)) = ((file.drop off).drop 4).take 8 := by
                have := leBytes_leVal (((file.drop off).drop 4).take 8); rw [l2] at this; exact this
              have hcnt : slice file (off + 4) 8 = ((file.drop off).drop 4).take 8 := by
                simp [slice, List.drop_drop]
              refine ⟨i4, i5, by omega, by rw [hcnt]; exact i1, by omega, by omega, ?_⟩
              have hlen : len = 4 + (8 + 16 * leVal (((file.drop off).drop 4).take 8)) := by omega
              unfold slice trackBytes
              rw [hlen, take_add_eq, take_add_eq, hm, i3, i1, b4]
              simp [List.append_assoc]

/-- without the sortedness test the loop can only return the list that was encoded -/
theorem readLoop_encode_eq (s : List Entry) (post : Bytes) (prev : Option Entry) (es : List Entry)
    (hr : ∀ e ∈ s, InRange e) (h : readLoop s.length (encodeEntries s ++ post) prev = .ok es) : es = s := by
  induction s generalizing prev es with
  | nil => simp only [List.length_nil, readLoop] at h; cases h; rfl
  | cons e es' ih =>
    obtain ⟨r1, r2, r3⟩ := hr e (by simp)
    have h256 : (256:Nat)^8 = 2^64 := by decide
    have l1 : (i64le e.ts).length = 8 := i64le_length _
    have l2 : (u64le e.id).length = 8 := by simp [u64le]
    have d1 : (encodeEntries (e :: es') ++ post).take 8 = i64le e.ts := by
      simp [encodeEntries, encodeEntry, List.append_assoc, List.take_append, l1]
    have d2 : (encodeEntries (e :: es') ++ post).drop 8 = u64le e.id ++ (encodeEntries es' ++ post) := by
      simp [encodeEntries, encodeEntry, List.append_assoc, List.drop_append, l1]
    have d3 : (u64le e.id ++ (encodeEntries es' ++ post)).take 8 = u64le e.id := by
      simp [List.take_append, l2]
    have d4 : (u64le e.id ++ (encodeEntries es' ++ post)).drop 8 = encodeEntries es' ++ post := by
      simp [List.drop_append, l2]
    have v1 : i64Val (i64le e.ts) = e.ts := i64_roundtrip _ r1 r2
    have v2 : leVal (u64le e.id) = e.id := leVal_leBytes 8 _ (by omega)
    simp only [List.length_cons, readLoop, d1, d2, d3, d4, v1, v2] at h
    split at h
    · cases h
    · split at h
      · cases h
      · split at h
        · cases h
        · split at h
          · rename_i rest hrest
            cases h
            rw [ih (some _) rest (fun x hx => hr x (by simp [hx])) hrest]
          · cases h


end Mv.TimeIndex
