/-
  C14 — vector index membership = active embedded frames.

  Model: MvModel/Core.lean (the `Memvid` handle; the in-memory `vec_index` is `Mem.vec`, Uncompressed
  representation = default features; crash recovery with repair 5c6fd4b = fixes/C14.diff) +
  MvModel/VecIdx.lean (the crash recovery BEFORE that repair: `stepPre` / `runPre`, kept for the
  counterexample; the index representations of both build configurations: `VecRepr`).
  Reference: `embRun` (MvProps/C14Steps.lean) — for every frame id the embedding the ACKNOWLEDGED
  call gave that frame: directly (`put_with_embedding`), per chunk (`put_with_chunk_embeddings`), or
  carried over by `update_frame` without an embedding — together with C01's reference frame table
  `specRun` (which frames are active).

  Every theorem quantifies over ALL operation lists (unbounded length; put incl. chunked, update with /
  without payload and embedding, delete, commit, drop+open, crash+open, batch mode, finalize, vacuum,
  doctor incl. a requested vector-index rebuild, tickets) and arbitrary trace inputs (where automatic
  checkpoints fire, WAL growth, …), under `OpOk` for every call:
    * embeddings passed to a put / update are non-empty vectors (`embDims`; an empty `Vec<f32>` is not an
      embedding) and `update_frame` passes no chunk embeddings (its signature has none);
    * no `commit_skip_indexes`: it clears the persisted vector index until `finalize_indexes` runs, so a
      drop+open in between finds no index (witness in MvProps/C14Pending.lean); membership along the
      prescribed skip … finalize pattern is property C40.
-/
import MvProps.C14Steps
import MvProps.C01
namespace Mv.Core

/-- the vector index holds exactly `want`'s frames: entry `(id, dim, token)` is present iff `want` says so -/
def IndexIs (m : Mem) (want : Nat → Option Emb) : Prop :=
  (∀ e : VecEnt, e ∈ vecL m ↔ want e.id = some (e.dim, e.tok)) ∧ ((vecL m).map (·.id)).Nodup

/-- the embedding frame `id` must be findable with: the one the acknowledged calls gave it, as long
    as the frame is active in `S` -/
def wantOf (S : Spec) (E : List (Option Emb)) (id : Nat) : Option Emb :=
  if (S[id]?).map (·.status) = some Status.active then (E[id]?).join else none

theorem join_eq_some {α : Type} (o : Option (Option α)) (a : α) : o.join = some a ↔ o = some (some a) := by
  cases o with
  | none => simp
  | some x => cases x <;> simp

/-- **C14, at every moment.**  After ANY history the in-memory vector index holds exactly the
    COMMITTED frames that are active and were given an embedding, each once and with the embedding it
    was given — whether or not records are still pending. -/
theorem C14_index_is_committed_active_embedded (ops : List Op) (hok : ∀ op ∈ ops, OpOk op) :
    IndexIs (run Mem.create ops)
      (wantOf ((run Mem.create ops).frames.map view) (embRun [] (trace Mem.create ops))) := by
  have hv := run_vinv Mem.create [] ops create_vinv hok
  refine ⟨fun e => ?_, hv.nodup⟩
  rw [hv.mem e, isActive_iff, statusOf_view]
  unfold wantOf
  constructor
  · rintro ⟨h1, h2⟩
    rw [if_pos h1, join_eq_some]; exact h2
  · intro h
    by_cases h1 : ((List.map view (run Mem.create ops).frames)[e.id]?).map (·.status) = some Status.active
    · rw [if_pos h1, join_eq_some] at h; exact ⟨h1, h⟩
    · rw [if_neg h1] at h; cases h

/-- the property at full strength for a step function `stp` (the shared model's `step`, or the
    pre-repair `stepPre`): after any history that ends in a commit, a drop+open, a crash+open (WAL
    replay), a vacuum or a doctor run, the vector index holds exactly the frames that are ACTIVE BY THE
    ACKNOWLEDGED CALLS (C01's reference run) and were given an embedding, each with the embedding it
    was given -/
def C14_holds (runF : Mem → List Op → Mem) (traceF : Mem → List Op → List (Op × Out)) : Prop :=
  ∀ (ops : List Op) (last : Op), last.durable = true → (∀ op ∈ ops ++ [last], OpOk op) →
    IndexIs (runF Mem.create (ops ++ [last]))
      (wantOf (specRun [] (traceF Mem.create (ops ++ [last]))) (embRun [] (traceF Mem.create (ops ++ [last]))))

/-- the code as it is (with repair 5c6fd4b) -/
def C14_full : Prop := C14_holds run trace
/-- the code before the repair -/
def C14_full_before_repair : Prop := C14_holds runPre tracePre

/-- **C14.**  The property holds at full strength. -/
theorem C14_vector_index_is_active_embedded_frames : C14_full := by
  intro ops last hd hok
  have h := C14_index_is_committed_active_embedded (ops ++ [last]) hok
  have hdur : (run Mem.create (ops ++ [last])).frames.map view = abs (run Mem.create (ops ++ [last])) := by
    rw [run_append]
    exact durable_frames _ last (run_create_refines ops).1 hd
  rw [hdur, C01_refines] at h
  exact h

/-- the same at any quiescent moment (nothing but `Lex` records pending), however it came about -/
theorem C14_quiescent (ops : List Op) (hok : ∀ op ∈ ops, OpOk op) (hq : OnlyLex (run Mem.create ops).pending) :
    IndexIs (run Mem.create ops)
      (wantOf (specRun [] (trace Mem.create ops)) (embRun [] (trace Mem.create ops))) := by
  have h := C14_index_is_committed_active_embedded ops hok
  have : (run Mem.create ops).frames.map view = abs (run Mem.create ops) := by
    unfold Mv.Core.abs; rw [sApply_onlyLex _ _ hq]
  rw [this, C01_refines] at h
  exact h

/-- what is persisted is what is in memory: a drop+open finds the same index -/
theorem C14_persisted_index (ops : List Op) (hok : ∀ op ∈ ops, OpOk op) :
    (run Mem.create ops).pVec.getD [] = vecL (run Mem.create ops) :=
  (run_vinv Mem.create [] ops create_vinv hok).pv

/-- a concrete sufficient condition for `OpOk` of a put: every embedding passed is a non-empty vector
    and the dimensions of the chunk embeddings are listed in `cdims` (what the harness sends) -/
theorem OpOk_put_of_dims (a : PutArgs) (t : Trace) (h1 : ∀ d tk, a.emb = some (d, tk) → d ≠ 0)
    (h2 : ∀ c ∈ a.chunks, ∀ d tk, c.emb = some (d, tk) → d ≠ 0 ∧ d ∈ a.cdims) : OpOk (.put a t) := by
  rintro ⟨x, hx, hs⟩
  unfold embsOf at hx
  rcases List.mem_cons.mp hx with rfl | hx
  · cases he : a.emb with
    | none => rw [he] at hs; cases hs
    | some p =>
      obtain ⟨d, tk⟩ := p
      have := h1 d tk he
      simp [embDims, he, this]
  · simp only [List.mem_map] at hx
    obtain ⟨c, hc, rfl⟩ := hx
    cases he : c.emb with
    | none => rw [he] at hs; cases hs
    | some p =>
      obtain ⟨d, tk⟩ := p
      obtain ⟨hd, hm⟩ := h2 c hc d tk he
      intro h0
      unfold embDims at h0
      have hnil := (List.append_eq_nil_iff.mp h0).2
      have hmem : d ∈ a.cdims.filter (· ≠ 0) := by simp [hm, hd]
      rw [hnil] at hmem
      cases hmem

theorem applyRecords_ve (m : Mem) (recs : List (Nat × Entry)) (eng : Bool) (m1 : Mem) (δ : Delta)
    (h : applyRecords m recs eng = some (m1, δ)) : m1.vecEnabled = m.vecEnabled := by
  unfold applyRecords at h
  by_cases he : recs.isEmpty
  · simp only [he, if_true] at h; cases h; rfl
  · simp only [he] at h
    generalize applyLoop _ recs = r at h
    cases r with
    | none => simp at h
    | some st =>
      simp only [Bool.false_eq_true, if_false] at h
      cases h; rfl

/-! ## The code before repair 5c6fd4b: the property was false -/

def embE : Emb := (3, "e0")
/-- the witness: the first embedded put of a memory, then the process dies before any commit -/
def crashWitness : List Op := [.put { ts := 5, content := "aa", len := 10, plen := 10, emb := some embE } {}]

/-- `recover_wal` without the repair replays frame 0 (active, acknowledged with an embedding) and
    leaves the vector index without it: `vec_enabled` comes from the TOC on disk, which has no vector
    manifest yet, and `build_vec_artifact` returns nothing while vectors are disabled -/
theorem C14_counterexample : ¬ C14_full_before_repair := by
  intro h
  have h1 := (h crashWitness (.crash 40) rfl (by
    intro op hop
    simp only [crashWitness, List.cons_append, List.nil_append, List.mem_cons, List.not_mem_nil, or_false] at hop
    rcases hop with rfl | rfl
    · intro _; decide
    · trivial)).1 { id := 0, dim := 3, tok := "e0" }
  exact absurd (h1.mpr (by decide)) (by decide)

/-- the repaired recovery (the shared model) keeps the vector on the same witness -/
example : vecL (run Mem.create (crashWitness ++ [.crash 40])) = [{ id := 0, dim := 3, tok := "e0" }] := by decide
example : vecL (runPre Mem.create (crashWitness ++ [.crash 40])) = [] ∧
    (runPre Mem.create (crashWitness ++ [.crash 40])).frames.map (fun f => (f.id, f.status)) = [(0, .active)] := by decide

/-- the shared model's recovery is the pre-repair one plus `enableVecForEmbs`: they coincide whenever
    vectors are already enabled when the file is opened -/
theorem recoverWalPre_same (m1 : Mem) (ft : Nat) (h : m1.vecEnabled = true) :
    m1.recoverWalPre ft = m1.recoverWal ft := by
  unfold Mem.recoverWalPre Mem.recoverWal
  split
  · rfl
  · cases hx : applyRecords m1 m1.pending true with
    | none => rfl
    | some p =>
      obtain ⟨ma, δ⟩ := p
      have hve : ma.vecEnabled = true := by
        have := applyRecords_ve m1 m1.pending true ma δ hx
        rw [this]; exact h
      have : ma.enableVecForEmbs δ.embs = ma := by
        unfold Mem.enableVecForEmbs; simp [hve]
      simp only [this]

/-! ## The index representations of the two build configurations -/

/-- default features (no `vec`, no `hnsw_bench`): the index a commit builds is `Uncompressed` at every
    size and lists the surviving entries followed by the new ones — what `Core.Mem.rebuildVec` does -/
theorem C14_default_config_uncompressed (active : Nat → Bool) (v newDocs : List VecEnt) :
    buildVecArtifact false active (some (.uncompressed v)) newDocs = .uncompressed (v.filter (fun e => active e.id) ++ newDocs) := rfl

theorem rebuild_core (m : Mem) (newEmbs : List VecEnt) (h : m.vecEnabled = true) :
    (m.rebuildVec newEmbs).vec =
      some (buildVecArtifact false (isActive m.frames) (m.vec.map VecRepr.uncompressed) newEmbs).entries := by
  unfold Mem.rebuildVec
  simp only [h, if_true]
  cases m.vec <;> rfl

/-- in the default configuration the simulator keeps every active vector across rebuilds -/
theorem vsim_default_rebuild (s : VSim) (h : s.hnsw = false) (v : List VecEnt) (hi : s.idx = some (.uncompressed v)) :
    s.rebuild.searchable = v.filter (fun e => !s.inactive.contains e.id) ++ s.pend := by
  unfold VSim.rebuild VSim.searchable
  simp [h, hi, buildVecArtifact, VecRepr.build, VecRepr.entries, VecRepr.docs]

/-- **HNSW configuration (feature `vec` / `hnsw_bench`): the property is false.**  Once an index was
    built from `HNSW_THRESHOLD` or more vectors it is an `Hnsw` graph whose `entries()` is empty: the
    next rebuild (any later commit that changes anything) keeps NONE of its vectors — the new index
    consists of the new documents only. -/
theorem C14_hnsw_counterexample (active : Nat → Bool) (docs newDocs : List VecEnt)
    (hlen : docs.length ≥ Mv.Gen.C14.HNSW_THRESHOLD) :
    (VecRepr.build true docs).kind = "hnsw" ∧
    (buildVecArtifact true active (some (VecRepr.build true docs)) newDocs).docs = newDocs := by
  have hb : VecRepr.build true docs = .hnsw docs := by
    unfold VecRepr.build
    simp [hlen]
  refine ⟨by rw [hb]; rfl, ?_⟩
  rw [hb]
  unfold buildVecArtifact
  have he : (VecRepr.hnsw docs).entries = [] := by
    unfold VecRepr.entries
    simp [show Mv.Gen.C14.HNSW_ENTRIES_EMPTY = true from rfl]
  simp only [Option.map_some, Option.getD_some, he, List.filter_nil, List.nil_append]
  unfold VecRepr.build
  split <;> rfl

/-- … and `remove` is a no-op on it: a deleted or superseded frame stays findable until then -/
theorem C14_hnsw_remove_noop (docs : List VecEnt) (id : Nat) (hlen : docs.length ≥ Mv.Gen.C14.HNSW_THRESHOLD) :
    ((VecRepr.build true docs).remove id).docs = docs := by
  have hb : VecRepr.build true docs = .hnsw docs := by
    unfold VecRepr.build
    simp [hlen]
  rw [hb]
  unfold VecRepr.remove
  simp [show Mv.Gen.C14.HNSW_REMOVE_NOOP = true from rfl, VecRepr.docs]

/-- below the threshold the two configurations agree -/
theorem C14_hnsw_below_threshold (hnsw : Bool) (docs : List VecEnt) (hlen : docs.length < Mv.Gen.C14.HNSW_THRESHOLD) :
    VecRepr.build hnsw docs = .uncompressed docs := by
  unfold VecRepr.build
  have : ¬ docs.length ≥ Mv.Gen.C14.HNSW_THRESHOLD := by omega
  simp [this]

/-! ## Non-vacuity: a concrete history satisfies the hypotheses; the conclusion is also checked by evaluation -/

def e1 : Emb := (2, "e1")
def e2 : Emb := (2, "e2")
def e3 : Emb := (2, "e3")
def exDocE : PutArgs :=
  { ts := 6, uri := some "mv2://d", content := "E", len := 0, plen := 30, emb := some e1, cdims := [2, 2],
    chunks := [{ content := "c1", len := 5, emb := some e2 }, { content := "c2", len := 6, emb := none }] }
/-- embedded put, chunked put with chunk embeddings, crash before the first commit, update without
    embedding (carried), delete of an embedded chunk, update with a new embedding, automatic checkpoint,
    vacuum, doctor, finalize -/
def exHistoryE : List Op :=
  [.put { ts := 5, content := "aa", len := 10, plen := 10, emb := some e3 } {}, .put exDocE {}, .crash 40,
   .update 0 { tags := ["x"] } {}, .delete 2 {}, .update 1 { emb := some e3 } { ac := true, ft := 80 },
   .put { ts := 7, content := "bb", len := 4, plen := 4 } {}, .vacuum 90 95, .doctor true true false true 95 96 97 98,
   .finalizeIndexes 99]

theorem exHistoryE_ok : ∀ op ∈ exHistoryE ++ [Op.reopen 100 101], OpOk op := by
  intro op hop
  simp only [exHistoryE, List.cons_append, List.nil_append, List.mem_cons, List.not_mem_nil, or_false] at hop
  rcases hop with rfl | rfl | rfl | rfl | rfl | rfl | rfl | rfl | rfl | rfl | rfl
  · intro _; decide
  · intro _; decide
  · trivial
  · exact ⟨(by intro d t h; cases h), (by intro c hc; cases hc)⟩
  · trivial
  · exact ⟨(by intro d t h; cases h; decide), (by intro c hc; cases hc)⟩
  · intro h; obtain ⟨x, hx, hs⟩ := h; simp [embsOf] at hx; subst hx; cases hs
  · trivial
  · trivial
  · trivial
  · trivial

example : IndexIs (run Mem.create (exHistoryE ++ [.reopen 100 101]))
    (wantOf (specRun [] (trace Mem.create (exHistoryE ++ [.reopen 100 101])))
      (embRun [] (trace Mem.create (exHistoryE ++ [.reopen 100 101])))) :=
  C14_vector_index_is_active_embedded_frames exHistoryE (.reopen 100 101) rfl exHistoryE_ok

example : (vecL (run Mem.create (exHistoryE ++ [.reopen 100 101]))).map (fun e => (e.id, e.tok)) = [(4, "e3"), (5, "e3")] ∧
    embRun [] (trace Mem.create (exHistoryE ++ [.reopen 100 101])) =
      [some e3, some e1, some e2, none, some e3, some e3, none] ∧
    (specRun [] (trace Mem.create (exHistoryE ++ [.reopen 100 101]))).map (fun f => (f.id, f.status)) =
      [(0, .superseded), (1, .superseded), (2, .deleted), (3, .active), (4, .active), (5, .active), (6, .active)] := by decide

end Mv.Core
