/-
  C39 helper lemmas: byte-level bit facts, monotonicity of the filter construction, and the
  entry/track codec lemmas used by MvProps/C39.lean.
-/
import MvModel.Sketch
open Mv Mv.Sketch Mv.Gen.C39
namespace Mv.Sketch

theorem bitMask_toNat : ∀ k, k < 8 → (bitMask k).toNat = 2 ^ k := by decide

theorem and_two_pow_ne_zero (x k : Nat) : (x &&& 2^k ≠ 0) ↔ x.testBit k = true := by
  constructor
  · intro h
    apply Classical.byContradiction
    intro hc
    apply h
    apply Nat.eq_of_testBit_eq
    intro i
    simp only [Nat.testBit_and, Nat.testBit_two_pow, Nat.zero_testBit]
    by_cases hik : k = i
    · subst hik; simpa using hc
    · simp [hik]
  · intro h hz
    have : (x &&& 2^k).testBit k = true := by simp [Nat.testBit_and, h]
    rw [hz] at this; simp at this

/-- the byte-level bit test is `Nat.testBit` of the byte's value -/
theorem byteTest_eq (b : UInt8) (k : Nat) (hk : k < 8) :
    ((b &&& bitMask k) != 0) = b.toNat.testBit k := by
  have h1 : ((b &&& bitMask k) != 0) = true ↔ b.toNat.testBit k = true := by
    rw [← and_two_pow_ne_zero, ← bitMask_toNat k hk, ← UInt8.toNat_and]
    simp only [bne_iff_ne, ne_eq]
    constructor
    · intro h hz; apply h; exact UInt8.toNat_inj.mp (by simpa using hz)
    · intro h hz; apply h; rw [hz]; rfl
  cases h : b.toNat.testBit k <;> cases h2 : ((b &&& bitMask k) != 0) <;> simp_all

theorem byteOr_testBit (b : UInt8) (j k : Nat) (hj : j < 8) :
    (b ||| bitMask j).toNat.testBit k = (b.toNat.testBit k || decide (j = k)) := by
  rw [UInt8.toNat_or, Nat.testBit_or, bitMask_toNat j hj, Nat.testBit_two_pow]

@[simp] theorem setBit_length (f : Bytes) (p : Nat) : (setBit f p).length = f.length := by
  simp [setBit]

theorem getElem?_setBit (f : Bytes) (p j : Nat) :
    (setBit f p)[j]? = (f[j]?).map (fun a => if p / 8 = j then a ||| bitMask (p % 8) else a) := by
  simp only [setBit, List.getElem?_modify]; rfl

/-- the bit just set reads back as set -/
theorem testBit_setBit_self (f : Bytes) (p : Nat) (hp : p / 8 < f.length) : testBit (setBit f p) p = true := by
  have hk : p % 8 < 8 := Nat.mod_lt _ (by decide)
  simp only [testBit, getElem?_setBit, List.getElem?_eq_getElem hp, Option.map_some, if_true]
  rw [byteTest_eq _ _ hk, byteOr_testBit _ _ _ hk]; simp

/-- setting a bit never clears another one (monotonicity of `|=`) -/
theorem testBit_setBit_mono (f : Bytes) (p q : Nat) (h : testBit f q = true) : testBit (setBit f p) q = true := by
  have hk : q % 8 < 8 := Nat.mod_lt _ (by decide)
  have hj : p % 8 < 8 := Nat.mod_lt _ (by decide)
  unfold testBit at h ⊢
  rw [getElem?_setBit]
  cases hq : f[q / 8]? with
  | none => simp [hq] at h
  | some b =>
    simp only [hq] at h
    simp only [Option.map_some]
    split
    · rw [byteTest_eq _ _ hk, byteOr_testBit _ _ _ hj]
      rw [byteTest_eq _ _ hk] at h
      simp [h]
    · exact h


theorem foldl_setBit_length (ps : List Nat) (f : Bytes) : (ps.foldl setBit f).length = f.length := by
  induction ps generalizing f with
  | nil => rfl
  | cons p ps ih => simp [List.foldl_cons, ih]

theorem foldl_setBit_mono (ps : List Nat) (f : Bytes) (q : Nat) (h : testBit f q = true) :
    testBit (ps.foldl setBit f) q = true := by
  induction ps generalizing f with
  | nil => exact h
  | cons p ps ih => exact ih _ (testBit_setBit_mono f p q h)

theorem foldl_setBit_sets (ps : List Nat) (f : Bytes) (p : Nat) (hp : p ∈ ps) (hlt : p / 8 < f.length) :
    testBit (ps.foldl setBit f) p = true := by
  induction ps generalizing f with
  | nil => cases hp
  | cons a ps ih =>
    rw [List.foldl_cons]
    rcases List.mem_cons.mp hp with rfl | hin
    · exact foldl_setBit_mono ps _ _ (testBit_setBit_self f p hlt)
    · exact ih _ hin (by simpa using hlt)

theorem addHash_length (bits : Nat) (f : Bytes) (h : Nat) : (addHash bits f h).length = f.length :=
  foldl_setBit_length _ _

theorem foldl_addHash_length (bits : Nat) (hs : List Nat) (f : Bytes) :
    (hs.foldl (addHash bits) f).length = f.length := by
  induction hs generalizing f with
  | nil => rfl
  | cons h hs ih => simp [List.foldl_cons, ih, addHash_length]

theorem foldl_addHash_mono (bits : Nat) (hs : List Nat) (f : Bytes) (q : Nat) (h : testBit f q = true) :
    testBit (hs.foldl (addHash bits) f) q = true := by
  induction hs generalizing f with
  | nil => exact h
  | cons a hs ih => exact ih _ (foldl_setBit_mono _ f q h)

theorem buildPositions_lt (h bits p : Nat) (hb : 0 < bits) (hp : p ∈ buildPositions h bits) : p < bits := by
  simp only [buildPositions, List.mem_cons, List.not_mem_nil, or_false] at hp
  rcases hp with rfl | rfl | rfl <;> exact Nat.mod_lt _ hb

/-- after the loop, the three positions of every inserted hash are set -/
theorem foldl_addHash_sets (hs : List Nat) (f : Bytes) (h p : Nat) (hin : h ∈ hs) (hpos : 0 < f.length)
    (hp : p ∈ buildPositions h (f.length * 8)) : testBit (hs.foldl (addHash (f.length * 8)) f) p = true := by
  induction hs generalizing f with
  | nil => cases hin
  | cons a hs ih =>
    rw [List.foldl_cons]
    rcases List.mem_cons.mp hin with rfl | hin'
    · apply foldl_addHash_mono
      apply foldl_setBit_sets _ _ _ hp
      have := buildPositions_lt h _ p (by omega) hp
      omega
    · have hl : (addHash (f.length * 8) f a).length = f.length := addHash_length _ _ _
      have := ih (addHash (f.length * 8) f a) hin' (by omega) (by rw [hl]; exact hp)
      rw [hl] at this; exact this

theorem positions_agree (h bits : Nat) : testPositions h bits = buildPositions h bits := by
  have h2 : TEST_SHIFT2 = BUILD_SHIFT2 := by decide
  have h3 : TEST_SHIFT3 = BUILD_SHIFT3 := by decide
  simp [testPositions, buildPositions, h2, h3]

/-- **bloom_no_fn** — for a non-empty filter size, building never panics and every inserted hash tests true -/
theorem bloom_no_fn (hs : List Nat) (size : Nat) (hsz : 0 < size) :
    ∃ f, buildTermFilter hs size = some f ∧ f.length = size ∧ ∀ h ∈ hs, maybeContains f h = some true := by
  have hne : ¬ (size = 0 ∧ hs ≠ []) := by omega
  refine ⟨hs.foldl (addHash (size * 8)) (zeros size), by simp only [buildTermFilter, hne, if_false], ?_, ?_⟩
  · simp [foldl_addHash_length]
  · intro h hin
    have hl : (hs.foldl (addHash (size * 8)) (zeros size)).length = size := by simp [foldl_addHash_length]
    have hs0 : ¬ (size = 0) := by omega
    simp only [maybeContains, hl, hs0, if_false, Option.some.injEq, List.all_eq_true, positions_agree]
    intro p hp
    have := foldl_addHash_sets hs (zeros size) h p hin (by simpa using hsz) (by simpa using hp)
    simpa using this

/-! ### sketch generation -/

theorem mem_dedup (t : Bytes) (ts : List Bytes) : t ∈ dedup ts ↔ t ∈ ts := by
  induction ts with
  | nil => simp [dedup]
  | cons a ts ih =>
    simp only [dedup, List.mem_cons, List.mem_filter, ih]
    by_cases h : t = a
    · simp [h]
    · simp [h]

theorem filterSize_pos (v : Variant) : 0 < v.filterSize := by
  cases v <;> decide

theorem mem_insertPair (x a : Nat × Nat) (l : List (Nat × Nat)) : x ∈ insertPair a l ↔ x = a ∨ x ∈ l := by
  induction l with
  | nil => simp [insertPair]
  | cons b bs ih =>
    simp only [insertPair]
    split
    · simp
    · simp only [List.mem_cons, ih]
      constructor
      · rintro (h | h | h) <;> simp [h]
      · rintro (h | h | h) <;> simp [h]

theorem mem_sortPairs (x : Nat × Nat) (l : List (Nat × Nat)) : x ∈ sortPairs l ↔ x ∈ l := by
  induction l with
  | nil => simp [sortPairs]
  | cons a as ih => simp [sortPairs, mem_insertPair, ih]

theorem length_insertPair (a : Nat × Nat) (l : List (Nat × Nat)) : (insertPair a l).length = l.length + 1 := by
  induction l with
  | nil => rfl
  | cons b bs ih =>
    simp only [insertPair]
    split
    · simp
    · simp [ih]

theorem length_sortPairs (l : List (Nat × Nat)) : (sortPairs l).length = l.length := by
  induction l with
  | nil => rfl
  | cons a as ih => simp [sortPairs, length_insertPair, ih]

/-- the hash of every token is among the hashes the filter is built from -/
theorem hash_mem_weighted (hash : Bytes → Nat) (wt : Bytes → Nat → Nat) (tokens : List Bytes) (t : Bytes)
    (ht : t ∈ tokens) : hash t ∈ (computeTokenWeights hash wt tokens).map (·.1) := by
  simp only [computeTokenWeights, List.mem_map, mem_sortPairs]
  exact ⟨(hash t, wt t (tokens.count t)), ⟨t, (mem_dedup t tokens).mpr ht, rfl⟩, rfl⟩

theorem sum_map_le {α : Type} (l : List α) (f : α → Nat) (W : Nat) (h : ∀ p ∈ l, f p ≤ W) :
    (l.map f).sum ≤ l.length * W := by
  induction l with
  | nil => simp
  | cons a l ih =>
    have h1 := h a (List.mem_cons_self)
    have h2 := ih (fun p hp => h p (List.mem_cons_of_mem _ hp))
    simp only [List.map_cons, List.sum_cons, List.length_cons, Nat.add_mul]
    omega

/-- two filters with a common set bit overlap -/
theorem overlaps_of_testBit (a b : Bytes) (p : Nat) (ha : testBit a p = true) (hb : testBit b p = true) :
    maybeOverlaps a b = true := by
  have hk : p % 8 < 8 := Nat.mod_lt _ (by decide)
  unfold testBit at ha hb
  cases hxa : a[p / 8]? with
  | none => simp [hxa] at ha
  | some x =>
    cases hxb : b[p / 8]? with
    | none => simp [hxb] at hb
    | some y =>
      simp only [hxa, hxb] at ha hb
      rw [byteTest_eq _ _ hk] at ha hb
      unfold maybeOverlaps
      rw [List.any_eq_true]
      refine ⟨(x, y), List.mem_iff_getElem?.mpr ⟨p / 8, List.getElem?_zip_eq_some.mpr ⟨hxa, hxb⟩⟩, ?_⟩
      simp only [bne_iff_ne, ne_eq]
      intro hz
      have : (x &&& y).toNat.testBit (p % 8) = true := by
        rw [UInt8.toNat_and, Nat.testBit_and, ha, hb]; rfl
      rw [hz] at this
      simp at this

theorem overlaps_of_common {a b : Bytes} {n h : Nat} (ha : a.length = n) (hb : b.length = n) (hn : 0 < n)
    (hca : maybeContains a h = some true) (hcb : maybeContains b h = some true) : maybeOverlaps a b = true := by
  have hn0 : ¬ n = 0 := by omega
  simp only [maybeContains, ha, hb, hn0, if_false, Option.some.injEq, List.all_eq_true] at hca hcb
  have hp : h % (n * 8) ∈ testPositions h (n * 8) := by simp [testPositions]
  exact overlaps_of_testBit a b _ (hca _ hp) (hcb _ hp)

/-! ### codec -/

theorem slice_append_skip (a b : Bytes) (o n : Nat) (h : a.length ≤ o) :
    slice (a ++ b) o n = slice b (o - a.length) n := by
  simp only [slice, List.drop_append, List.drop_of_length_le h, List.nil_append]

theorem slice_append_here (a b : Bytes) (n : Nat) (h : a.length = n) : slice (a ++ b) 0 n = a := by
  simp only [slice, List.drop_zero, List.take_left' h]

theorem slice_self (a : Bytes) (n : Nat) (h : a.length = n) : slice a 0 n = a := by
  simp [slice, ← h]

theorem padTake_length {α : Type} (n : Nat) (l : List α) (z : α) : (padTake n l z).length = n := by
  simp [padTake]; omega

theorem list_len2 {α : Type} (l : List α) (h : l.length = 2) : ∃ a b, l = [a, b] := by
  match l, h with
  | [a, b], _ => exact ⟨a, b, rfl⟩

theorem list_len4 {α : Type} (l : List α) (h : l.length = 4) : ∃ a b c d, l = [a, b, c, d] := by
  match l, h with
  | [a, b, c, d], _ => exact ⟨a, b, c, d, rfl⟩

theorem smallFilter_length (f : Bytes) : (smallFilter f).length = 16 := by
  unfold smallFilter
  split
  · rename_i h; simp [FS_eq] at *; omega
  · simp [FS_eq]

theorem u64_rt (v : Nat) (h : v < 2 ^ 64) : leVal (u64le v) = v := leVal_leBytes 8 v (by simpa using h)
theorem u32_rt (v : Nat) (h : v < 2 ^ 32) : leVal (u32le v) = v := leVal_leBytes 4 v (by simpa using h)
theorem u16_rt (v : Nat) (h : v < 2 ^ 16) : leVal (u16le v) = v := leVal_leBytes 2 v (by simpa using h)

theorem padTake_range (n : Nat) (l : List Nat) (B : Nat) (hB : 0 < B) (h : ∀ x ∈ l, x < B) :
    ∀ x ∈ padTake n l 0, x < B := by
  intro x hx
  simp only [padTake, List.mem_append, List.mem_replicate] at hx
  rcases hx with hx | ⟨_, rfl⟩
  · exact h x (List.mem_of_mem_take hx)
  · exact hB

theorem toSmallBytes_length (e : Entry) : (toSmallBytes e).length = 32 := by
  obtain ⟨a, b, hab⟩ := list_len2 _ (padTake_length TS e.topTerms 0 |>.trans TS_eq)
  simp [toSmallBytes, hab, smallFilter_length, u64le, u32le]

theorem fromSmall_parts (i s : Nat) (sf : Bytes) (a b : Nat) (hs : s < 2 ^ 64) (lf : sf.length = 16)
    (ha : a < 2 ^ 32) (hb : b < 2 ^ 32) :
    fromSmallBytes i (u64le s ++ (sf ++ (u32le a ++ u32le b))) =
      { frameId := i, simhash := s, termFilter := sf, topTerms := [a, b], termWeightSum := 0,
        flags := FLAGS_ALL, lengthHint := 0 } := by
  have l8 : (u64le s).length = 8 := by simp [u64le]
  have l4a : (u32le a).length = 4 := by simp [u32le]
  have l4b : (u32le b).length = 4 := by simp [u32le]
  have e1 : slice (u64le s ++ (sf ++ (u32le a ++ u32le b))) 0 8 = u64le s := slice_append_here _ _ 8 l8
  have e2 : slice (u64le s ++ (sf ++ (u32le a ++ u32le b))) 8 16 = sf := by
    rw [slice_append_skip _ _ _ _ (by omega), l8]; exact slice_append_here _ _ 16 lf
  have e3 : slice (u64le s ++ (sf ++ (u32le a ++ u32le b))) 24 4 = u32le a := by
    rw [slice_append_skip _ _ _ _ (by omega), l8, slice_append_skip _ _ _ _ (by omega), lf]
    exact slice_append_here _ _ 4 l4a
  have e4 : slice (u64le s ++ (sf ++ (u32le a ++ u32le b))) 28 4 = u32le b := by
    rw [slice_append_skip _ _ _ _ (by omega), l8, slice_append_skip _ _ _ _ (by omega), lf,
      slice_append_skip _ _ _ _ (by omega), l4a]
    exact slice_self _ 4 l4b
  simp only [fromSmallBytes, FS_eq, TS_eq]
  simp [List.range, List.range.loop, e1, e2, e3, e4, u64_rt _ hs, u32_rt _ ha, u32_rt _ hb]

theorem fromSmall_toSmall (i : Nat) (e : Entry) (hr : e.InRange) :
    fromSmallBytes i (toSmallBytes e) = normEntry .small i e := by
  obtain ⟨hs, ht, _, _, _⟩ := hr
  have hpr := padTake_range TS e.topTerms (2 ^ 32) (by decide) ht
  obtain ⟨a, b, hab⟩ := list_len2 _ (padTake_length TS e.topTerms 0 |>.trans TS_eq)
  rw [hab] at hpr
  unfold toSmallBytes normEntry
  rw [hab]
  simp only [List.flatMap_cons, List.flatMap_nil, List.append_nil, List.append_assoc]
  exact fromSmall_parts i _ _ a b hs (smallFilter_length _) (hpr a (by simp)) (hpr b (by simp))

theorem fromMedium_parts (i s : Nat) (mf : Bytes) (a b c d w fl lh : Nat) (hs : s < 2 ^ 64) (lf : mf.length = 32)
    (ha : a < 2 ^ 32) (hb : b < 2 ^ 32) (hc : c < 2 ^ 32) (hd : d < 2 ^ 32)
    (hw : w < 2 ^ 16) (hfl : fl < 2 ^ 16) (hlh : lh < 2 ^ 16) :
    fromMediumBytes i (u64le s ++ (mf ++ (u32le a ++ (u32le b ++ (u32le c ++ (u32le d ++
        (u16le w ++ (u16le fl ++ (u16le lh ++ u16le 0))))))))) =
      { frameId := i, simhash := s, termFilter := mf, topTerms := [a, b, c, d], termWeightSum := w,
        flags := fl, lengthHint := lh } := by
  have l8 : (u64le s).length = 8 := by simp [u64le]
  have l4 : ∀ x, (u32le x).length = 4 := by simp [u32le]
  have l2 : ∀ x, (u16le x).length = 2 := by simp [u16le]
  have e1 : ∀ r, slice (u64le s ++ r) 0 8 = u64le s := fun r => slice_append_here _ _ 8 l8
  have k0 : ∀ r o n, 8 ≤ o → slice (u64le s ++ r) o n = slice r (o - 8) n := by
    intro r o n h; rw [slice_append_skip _ _ _ _ (by omega), l8]
  have k1 : ∀ r o n, 32 ≤ o → slice (mf ++ r) o n = slice r (o - 32) n := by
    intro r o n h; rw [slice_append_skip _ _ _ _ (by omega), lf]
  have k4 : ∀ x r o n, 4 ≤ o → slice (u32le x ++ r) o n = slice r (o - 4) n := by
    intro x r o n h; rw [slice_append_skip _ _ _ _ (by rw [l4]; omega), l4]
  have k2 : ∀ x r o n, 2 ≤ o → slice (u16le x ++ r) o n = slice r (o - 2) n := by
    intro x r o n h; rw [slice_append_skip _ _ _ _ (by rw [l2]; omega), l2]
  have h4 : ∀ x r, slice (u32le x ++ r) 0 4 = u32le x := fun x r => slice_append_here _ _ 4 (l4 x)
  have h2 : ∀ x r, slice (u16le x ++ r) 0 2 = u16le x := fun x r => slice_append_here _ _ 2 (l2 x)
  have hm : ∀ r, slice (mf ++ r) 0 32 = mf := fun r => slice_append_here _ _ 32 lf
  simp only [fromMediumBytes, FM_eq, TM_eq]
  simp [List.range, List.range.loop, e1, k0, k1, k4, k2, h4, h2, hm, u64_rt _ hs, u32_rt _ ha, u32_rt _ hb,
    u32_rt _ hc, u32_rt _ hd, u16_rt _ hw, u16_rt _ hfl, u16_rt _ hlh]

theorem toMediumBytes_length (e : Entry) : (toMediumBytes e).length = 64 := by
  obtain ⟨a, b, c, d, hab⟩ := list_len4 _ (padTake_length TM e.topTerms 0 |>.trans TM_eq)
  have := padTake_length FM e.termFilter 0 |>.trans FM_eq
  simp [toMediumBytes, hab, this, u64le, u32le, u16le]

theorem fromMedium_toMedium (i : Nat) (e : Entry) (hr : e.InRange) (v : Variant) (hv : v ≠ .small) :
    fromMediumBytes i (toMediumBytes e) = normEntry v i e := by
  obtain ⟨hs, ht, hw, hfl, hlh⟩ := hr
  have hpr := padTake_range TM e.topTerms (2 ^ 32) (by decide) ht
  obtain ⟨a, b, c, d, hab⟩ := list_len4 _ (padTake_length TM e.topTerms 0 |>.trans TM_eq)
  rw [hab] at hpr
  have hn : normEntry v i e = ⟨i, e.simhash, padTake FM e.termFilter 0, padTake TM e.topTerms 0, e.termWeightSum,
      e.flags, e.lengthHint⟩ := by
    cases v
    · exact absurd rfl hv
    · rfl
    · rfl
  rw [hn]
  unfold toMediumBytes
  rw [hab]
  simp only [List.flatMap_cons, List.flatMap_nil, List.append_nil, List.append_assoc]
  exact fromMedium_parts i _ _ a b c d _ _ _ hs (padTake_length FM _ 0 |>.trans FM_eq) (hpr a (by simp)) (hpr b (by simp))
    (hpr c (by simp)) (hpr d (by simp)) hw hfl hlh

theorem entryBytes_length (v : Variant) (e : Entry) : (entryBytes v e).length = v.entrySize := by
  cases v
  · simpa [entryBytes, Variant.entrySize, ES_eq] using toSmallBytes_length e
  · simpa [entryBytes, Variant.entrySize, EM_eq] using toMediumBytes_length e
  · simp [entryBytes, Variant.entrySize, EL_eq, EM_eq, toMediumBytes_length e]

theorem decode_entryBytes (v : Variant) (i : Nat) (e : Entry) (rest : Bytes) (hr : e.InRange) :
    decodeEntry v i (entryBytes v e ++ rest) = normEntry v i e := by
  cases v
  · simp only [decodeEntry, entryBytes]
    rw [List.take_left' (by rw [toSmallBytes_length, ES_eq])]
    exact fromSmall_toSmall i e hr
  · simp only [decodeEntry, entryBytes]
    rw [List.take_left' (by rw [toMediumBytes_length, EM_eq])]
    exact fromMedium_toMedium i e hr .medium (by decide)
  · simp only [decodeEntry, entryBytes, List.append_assoc]
    rw [List.take_left' (by rw [toMediumBytes_length, EM_eq])]
    exact fromMedium_toMedium i e hr .large (by decide)

/-- the reader loop over what the writer loop produced -/
theorem readEntries_written (v : Variant) (es : List Entry) (id : Nat) (post : Bytes)
    (hr : ∀ e ∈ es, e.InRange) :
    readEntries v es.length id (es.flatMap (entryBytes v) ++ post) = .ok (normFrom v id es) := by
  induction es generalizing id with
  | nil => rfl
  | cons e es ih =>
    have hl := entryBytes_length v e
    simp only [List.flatMap_cons, List.length_cons, List.append_assoc, readEntries]
    have h1 : ¬ ((entryBytes v e ++ (es.flatMap (entryBytes v) ++ post)).length < v.entrySize) := by
      simp [hl]
    rw [if_neg h1, List.drop_left' hl, ih (id + 1) (fun x hx => hr x (List.mem_cons_of_mem _ hx))]
    simp only [normFrom]
    rw [decode_entryBytes v id e _ (hr e (List.mem_cons_self))]

theorem headerBytes_length (v : Variant) (n : Nat) : (headerBytes v n).length = 24 := by
  simp [headerBytes, MAGIC_eq, u16le, u32le, u64le]

theorem entrySize_lt (v : Variant) : v.entrySize < 2 ^ 16 := by cases v <;> decide

theorem ofEntrySize_entrySize (v : Variant) : Variant.ofEntrySize v.entrySize = some v := by
  cases v <;> decide

theorem header_fields (v : Variant) (n : Nat) (hn : n < 2 ^ 64) :
    slice (headerBytes v n) 0 4 = MAGIC ∧ leVal (slice (headerBytes v n) 6 2) = v.entrySize ∧
      leVal (slice (headerBytes v n) 8 8) = n := by
  have lm : MAGIC.length = 4 := by decide
  have l2 : ∀ x, (u16le x).length = 2 := by simp [u16le]
  have l8 : (u64le n).length = 8 := by simp [u64le]
  unfold headerBytes
  simp only [List.append_assoc]
  refine ⟨slice_append_here _ _ 4 lm, ?_, ?_⟩
  · rw [slice_append_skip _ _ _ _ (by omega), lm, slice_append_skip _ _ _ _ (by rw [l2]; omega), l2,
      slice_append_here _ _ 2 (l2 _)]
    exact u16_rt _ (entrySize_lt v)
  · rw [slice_append_skip _ _ _ _ (by omega), lm, slice_append_skip _ _ _ _ (by rw [l2]; omega), l2,
      slice_append_skip _ _ _ _ (by rw [l2]; omega), l2, slice_append_here _ _ 8 l8]
    exact u64_rt _ hn

theorem normFrom_ids (v : Variant) (i : Nat) (es : List Entry) :
    (normFrom v i es).map (·.frameId) = List.range' i es.length := by
  induction es generalizing i with
  | nil => rfl
  | cons e es ih =>
    simp only [normFrom, List.map_cons, List.length_cons, List.range'_succ, ih]
    cases v <;> rfl

theorem normFrom_length (v : Variant) (i : Nat) (es : List Entry) : (normFrom v i es).length = es.length := by
  induction es generalizing i with
  | nil => rfl
  | cons e es ih => simp [normFrom, ih]

theorem foldl_insert_nodup (v : Variant) (acc es : List Entry)
    (h : ((acc ++ es).map (·.frameId)).Nodup) :
    es.foldl Track.insert ⟨v, acc⟩ = ⟨v, acc ++ es⟩ := by
  induction es generalizing acc with
  | nil => simp
  | cons e es ih =>
    have hnot : acc.any (fun x => x.frameId == e.frameId) = false := by
      rw [List.any_eq_false]
      intro x hx hxe
      simp only [beq_iff_eq] at hxe
      simp only [List.map_append, List.map_cons] at h
      have := (List.nodup_append.mp h).2.2 x.frameId (List.mem_map_of_mem hx) e.frameId (by simp)
      exact this hxe
    rw [List.foldl_cons]
    have : Track.insert ⟨v, acc⟩ e = ⟨v, acc ++ [e]⟩ := by simp [Track.insert, hnot]
    rw [this, ih (acc ++ [e]) (by simpa using h)]
    simp

theorem ofInserts_nodup (v : Variant) (es : List Entry) (h : (es.map (·.frameId)).Nodup) :
    Track.ofInserts v es = ⟨v, es⟩ := by
  simpa [Track.ofInserts, Track.new] using foldl_insert_nodup v [] es (by simpa using h)

theorem flatMap_entryBytes_length (v : Variant) (es : List Entry) :
    (es.flatMap (entryBytes v)).length = es.length * v.entrySize := by
  induction es with
  | nil => simp
  | cons e es ih => simp [List.flatMap_cons, ih, entryBytes_length, Nat.add_mul]; omega

theorem writeTrack_length (t : Track) : (writeTrack t).length = HDR + t.entries.length * t.variant.entrySize := by
  unfold writeTrack
  rw [List.length_append, headerBytes_length, flatMap_entryBytes_length, HDR_eq]

theorem entrySize_pos (v : Variant) : 0 < v.entrySize := by cases v <;> decide

theorem read_write_normal (t : Track) (pre post : Bytes) (L : Nat) (hr : t.InRange)
    (hL : (writeTrack t).length ≤ L) :
    readTrack (pre ++ writeTrack t ++ post) pre.length L = .ok (normalize t) := by
  obtain ⟨hre, hfit⟩ := hr
  have hn : t.entries.length < 2 ^ 64 := by
    have := entrySize_pos t.variant
    have : t.entries.length ≤ t.entries.length * t.variant.entrySize := Nat.le_mul_of_pos_right _ this
    omega
  obtain ⟨hmagic, hes, hcnt⟩ := header_fields t.variant t.entries.length hn
  have hhl := headerBytes_length t.variant t.entries.length
  have hfile : pre ++ writeTrack t ++ post =
      pre ++ (headerBytes t.variant t.entries.length ++ (t.entries.flatMap (entryBytes t.variant) ++ post)) := by
    simp [writeTrack, List.append_assoc]
  have hslice : slice (pre ++ writeTrack t ++ post) pre.length HDR = headerBytes t.variant t.entries.length := by
    rw [hfile, slice_append_skip _ _ _ _ (Nat.le_refl _), Nat.sub_self, HDR_eq]
    exact slice_append_here _ _ 24 hhl
  have hdrop : (pre ++ writeTrack t ++ post).drop (pre.length + HDR) =
      t.entries.flatMap (entryBytes t.variant) ++ post := by
    rw [hfile, List.drop_length_add_append, HDR_eq, List.drop_left' hhl]
  rw [writeTrack_length] at hL
  rw [HDR_eq] at hslice hdrop
  unfold readTrack
  simp only [hslice, hdrop, hhl, HDR_eq, Nat.lt_irrefl, if_false, hmagic, ne_eq, not_true_eq_false, hes, hcnt,
    ofEntrySize_entrySize]
  have hexp : expectedLength t.entries.length t.variant.entrySize = .ok (HDR + t.entries.length * t.variant.entrySize) := by
    unfold expectedLength
    rw [if_neg (by omega), if_neg (by omega)]
  rw [hexp]
  simp only
  rw [if_neg (by omega), readEntries_written _ _ _ _ hre]
  simp only
  rw [ofInserts_nodup]
  · rfl
  · rw [normFrom_ids]; exact List.nodup_range'

theorem padTake_eq_self_iff {α : Type} (n : Nat) (l : List α) (z : α) : padTake n l z = l ↔ l.length = n := by
  constructor
  · intro h; rw [← h]; exact padTake_length n l z
  · intro h; simp [padTake, h, List.take_of_length_le (Nat.le_of_eq h)]

theorem smallFilter_eq_self_iff (f : Bytes) : smallFilter f = f ↔ f.length = FS := by
  constructor
  · intro h; rw [← h, smallFilter_length, FS_eq]
  · intro h; simp [smallFilter, h, List.take_of_length_le (Nat.le_of_eq h)]

/-! ### canonical tracks, reader errors -/

theorem normEntry_eq_iff (v : Variant) (i : Nat) (e : Entry) : normEntry v i e = e ↔ (e.frameId = i ∧ e.Stored v) := by
  cases e with
  | mk fid sh tf tt tws fl lh =>
    cases v
    · simp only [normEntry, Entry.Stored, Entry.mk.injEq, padTake_eq_self_iff, smallFilter_eq_self_iff, true_and]
      constructor
      · rintro ⟨h1, h2, h3, h4, h5, h6⟩; exact ⟨h1.symm, h2, h3, h4.symm, h5.symm, h6.symm⟩
      · rintro ⟨h1, h2, h3, h4, h5, h6⟩; exact ⟨h1.symm, h2, h3, h4.symm, h5.symm, h6.symm⟩
    · simp only [normEntry, Entry.Stored, Entry.mk.injEq, padTake_eq_self_iff, true_and, and_true]
      constructor
      · rintro ⟨h1, h2, h3⟩; exact ⟨h1.symm, h2, h3⟩
      · rintro ⟨h1, h2, h3⟩; exact ⟨h1.symm, h2, h3⟩
    · simp only [normEntry, Entry.Stored, Entry.mk.injEq, padTake_eq_self_iff, true_and, and_true]
      constructor
      · rintro ⟨h1, h2, h3⟩; exact ⟨h1.symm, h2, h3⟩
      · rintro ⟨h1, h2, h3⟩; exact ⟨h1.symm, h2, h3⟩

theorem normFrom_eq_iff (v : Variant) (i : Nat) (es : List Entry) : normFrom v i es = es ↔ CanonFrom v i es := by
  induction es generalizing i with
  | nil => simp [normFrom, CanonFrom]
  | cons e es ih => simp only [normFrom, CanonFrom, List.cons.injEq, normEntry_eq_iff, ih]

theorem normalize_eq_iff (t : Track) : normalize t = t ↔ t.Canonical := by
  cases t with
  | mk v es => simp [normalize, Track.Canonical, normFrom_eq_iff]

theorem normFrom_getElem? (v : Variant) (s : Nat) (es : List Entry) (i : Nat) :
    (normFrom v s es)[i]? = (es[i]?).map (normEntry v (s + i)) := by
  induction es generalizing s i with
  | nil => simp [normFrom]
  | cons e es ih =>
    cases i with
    | zero => simp [normFrom]
    | succ i => simp only [normFrom, List.getElem?_cons_succ, ih]; congr 2; omega

/-- `generate_sketch` output: filter of the variant's size (restated from C39_filter's proof) -/
theorem generated_filter_length (hash : Bytes → Nat) (wt : Bytes → Nat → Nat) (frameId : Nat) (tokens : List Bytes)
    (v : Variant) (e : Entry) (hg : generateSketch hash wt frameId tokens v = some e) :
    e.termFilter.length = v.filterSize := by
  unfold generateSketch at hg
  split at hg
  · cases hg; simp [Entry.new]
  · obtain ⟨f, hb, hlen, _⟩ := bloom_no_fn ((computeTokenWeights hash wt tokens).map (·.1)) v.filterSize (filterSize_pos v)
    simp only [hb] at hg
    split at hg
    · cases hg
    · cases hg; exact hlen

theorem wtNoIdf_pos (t : Bytes) (c : Nat) : 1 ≤ wtNoIdf t c := by
  have h1 : WEIGHT_MIN = 1 := by decide
  simp only [wtNoIdf, h1]; omega

/-- `SketchTrack::insert` keeps the frame ids pairwise distinct (the hypothesis of `C39_track_full`) -/
theorem insert_nodup (t : Track) (e : Entry) (h : (t.entries.map (·.frameId)).Nodup) :
    ((t.insert e).entries.map (·.frameId)).Nodup := by
  unfold Track.insert
  split
  · have : (t.entries.map fun x => if x.frameId = e.frameId then e else x).map (·.frameId) = t.entries.map (·.frameId) := by
      rw [List.map_map]
      apply List.map_congr_left
      intro x _
      simp only [Function.comp]
      split
      · rename_i hx; exact hx.symm
      · rfl
    simpa [this] using h
  · rename_i hany
    simp only [List.map_append, List.map_cons, List.map_nil]
    rw [List.nodup_append]
    refine ⟨h, by simp, ?_⟩
    intro a ha b hb
    simp only [List.mem_cons, List.not_mem_nil, or_false] at hb
    subst hb
    intro hab
    apply hany
    rw [List.any_eq_true]
    obtain ⟨x, hx, rfl⟩ := List.mem_map.mp ha
    exact ⟨x, hx, by simp [hab]⟩

theorem readEntries_error (v : Variant) (n id : Nat) (data : Bytes) (e : RErr)
    (h : readEntries v n id data = .error e) : e = .io := by
  induction n generalizing id data with
  | zero => simp [readEntries] at h
  | succ n ih =>
    unfold readEntries at h
    split at h
    · cases h; rfl
    · split at h
      · rename_i e' he; cases h; exact ih _ _ he
      · cases h

theorem ofEntrySize_some (n : Nat) (v : Variant) (h : Variant.ofEntrySize n = some v) : n = v.entrySize := by
  unfold Variant.ofEntrySize at h
  split at h
  · cases h; assumption
  · split at h
    · cases h; assumption
    · split at h
      · cases h; assumption
      · cases h

/-- for the three valid entry sizes the addition can never be the operation that overflows -/
theorem expectedLength_valid (c : Nat) (v : Variant) :
    expectedLength c v.entrySize =
      if c * v.entrySize ≥ 2 ^ 64 then .error (if READER_CHECKED_ARITH then .overflow else .panicMul)
      else .ok (HDR + c * v.entrySize) := by
  unfold expectedLength
  split
  · rfl
  · rename_i h
    have : ¬ (HDR + c * v.entrySize ≥ 2 ^ 64) := by
      cases v <;> simp only [Variant.entrySize, ES_eq, EM_eq, EL_eq, HDR_eq] at h ⊢ <;> omega
    rw [if_neg this]

/-! ### `sortPairs` returns THE sorted permutation: the result of `compute_token_weights` does not depend
    on the order in which the hash map yields the tokens, nor on the sorting algorithm -/

theorem pairLe_total (a b : Nat × Nat) : pairLe a b = true ∨ pairLe b a = true := by
  simp only [pairLe, Bool.or_eq_true, Bool.and_eq_true, decide_eq_true_eq, beq_iff_eq]
  omega

theorem pairLe_trans (a b c : Nat × Nat) (h1 : pairLe a b = true) (h2 : pairLe b c = true) : pairLe a c = true := by
  simp only [pairLe, Bool.or_eq_true, Bool.and_eq_true, decide_eq_true_eq, beq_iff_eq] at *
  omega

theorem pairLe_antisymm (a b : Nat × Nat) (h1 : pairLe a b = true) (h2 : pairLe b a = true) : a = b := by
  simp only [pairLe, Bool.or_eq_true, Bool.and_eq_true, decide_eq_true_eq, beq_iff_eq] at *
  apply Prod.ext <;> omega

theorem insertPair_perm (a : Nat × Nat) (l : List (Nat × Nat)) : (insertPair a l).Perm (a :: l) := by
  induction l with
  | nil => exact List.Perm.refl _
  | cons b bs ih =>
    simp only [insertPair]
    split
    · exact List.Perm.refl _
    · exact (List.Perm.cons b ih).trans (List.Perm.swap a b bs)

theorem sortPairs_perm (l : List (Nat × Nat)) : (sortPairs l).Perm l := by
  induction l with
  | nil => exact List.Perm.refl _
  | cons a as ih => exact (insertPair_perm a _).trans (List.Perm.cons a ih)

theorem insertPair_sorted (a : Nat × Nat) (l : List (Nat × Nat)) (h : SortedPairs l) : SortedPairs (insertPair a l) := by
  induction l with
  | nil => simp [insertPair, SortedPairs]
  | cons b bs ih =>
    unfold SortedPairs at h ih ⊢
    rw [List.pairwise_cons] at h
    simp only [insertPair]
    split
    · rename_i hab
      rw [List.pairwise_cons]
      refine ⟨?_, List.pairwise_cons.mpr h⟩
      intro x hx
      rcases List.mem_cons.mp hx with rfl | hx
      · exact hab
      · exact pairLe_trans _ _ _ hab (h.1 x hx)
    · rename_i hab
      have hba : pairLe b a = true := by
        rcases pairLe_total a b with h' | h'
        · exact absurd h' hab
        · exact h'
      rw [List.pairwise_cons]
      refine ⟨?_, ih h.2⟩
      intro x hx
      rcases (mem_insertPair x a bs).mp hx with rfl | hx
      · exact hba
      · exact h.1 x hx

theorem sortPairs_sorted (l : List (Nat × Nat)) : SortedPairs (sortPairs l) := by
  induction l with
  | nil => simp [sortPairs, SortedPairs]
  | cons a as ih => exact insertPair_sorted a _ ih

/-- two sorted lists with the same elements (as multisets) are equal -/
theorem sorted_perm_unique (l1 l2 : List (Nat × Nat)) (h1 : SortedPairs l1) (h2 : SortedPairs l2)
    (hp : l1.Perm l2) : l1 = l2 := by
  induction l1 generalizing l2 with
  | nil => exact (List.Perm.nil_eq hp)
  | cons a t1 ih =>
    cases l2 with
    | nil => exact absurd hp.symm (by simp)
    | cons b t2 =>
      unfold SortedPairs at h1 h2
      rw [List.pairwise_cons] at h1 h2
      have hab : a = b := by
        have ha : a ∈ b :: t2 := hp.mem_iff.mp (List.mem_cons_self)
        have hb : b ∈ a :: t1 := hp.mem_iff.mpr (List.mem_cons_self)
        rcases List.mem_cons.mp ha with h | h
        · exact h
        · rcases List.mem_cons.mp hb with h' | h'
          · exact h'.symm
          · exact pairLe_antisymm a b (h1.1 b h') (h2.1 a h)
      subst hab
      rw [ih t2 h1.2 h2.2 (List.Perm.cons_inv hp)]

/-- **sortPairs is the unique sorted permutation** — any list that is sorted by the comparator of
    `compute_token_weights` and is a permutation of the input (what Rust's `sort_by` returns, for any
    iteration order of the hash map) equals the model's `sortPairs`. -/
theorem sortPairs_unique (l r : List (Nat × Nat)) (hs : SortedPairs r) (hp : r.Perm l) : r = sortPairs l :=
  sorted_perm_unique r (sortPairs l) hs (sortPairs_sorted l) (hp.trans (sortPairs_perm l).symm)

theorem sortPairs_perm_invariant (l l' : List (Nat × Nat)) (hp : l.Perm l') : sortPairs l = sortPairs l' :=
  sortPairs_unique l' (sortPairs l) (sortPairs_sorted l) ((sortPairs_perm l).trans hp)

end Mv.Sketch
