//! Shared history machinery for the Core family (C01, C06, C07, C08, C14, C24, C26, C40, C42 …):
//! operation histories over the real `Memvid` API on a temp .mv2 file, canonical observations,
//! and the line protocol to the Lean Core model driver.  Owned by the Core agent.
