/- Driver for C23 (determinism).
   request:  run <ops> <queries>
     ops      `-` or `;`-separated:  p:<ts>:<hex payload>:<uri>:<instant 0|1>:<triplets>   (triplets `-` or `slot.value,slot.value`)
                                      u:<id>:<ts|~>:<hex|~>     d:<id>     k:<slot>:<value>:<source>:<createdAt>
                                      c (commit)    r (reopen)    s:<query byte>
     queries  `-` or comma separated bytes
   answer (one line, `|`-separated fields), the model run TWICE with two different oracle valuations:
     res=<per call: ok<n> | done | err | hits>  live=<frames>  final=<frames>  tl=<timeline live>/<timeline final>
     cards=<n>  present=<kinds in file order>  may=<kinds that may differ>  causes=<oracle:what,...>
     twin=<kinds whose bytes differ between the two model runs under the toy encoders>  logical=<same|DIFFERENT>
   frames: `<ts>:<a|s|x>:<supersedes|~>:<supersededBy|~>:<payload length>` comma separated, `-` when none          -/
import MvModel.Determinism
import MvModel.DrvUtil
open Mv Mv.Det

def optNat (s : String) : Option (Option Nat) := if s == "~" then some none else s.toNat?.map some
def optInt (s : String) : Option (Option Int) := if s == "~" then some none else (parseInt s).map some
def optHex (s : String) : Option (Option Bytes) := if s == "~" then some none else (ofHex s).map some

def parseTrip (s : String) : Option (List (Nat × Nat)) :=
  if s == "-" then some [] else
    (s.splitOn ",").mapM fun t => match t.splitOn "." with
      | [a, b] => match a.toNat?, b.toNat? with
        | some a, some b => some (a, b)
        | _, _ => none
      | _ => none

def parseOp (s : String) : Option Op :=
  match s.splitOn ":" with
  | ["p", ts, hex, uri, inst, trip] =>
      match parseInt ts, ofHex hex, uri.toNat?, parseTrip trip with
      | some ts, some p, some u, some t => some (.put ts p u (inst == "1") t)
      | _, _, _, _ => none
  | ["u", id, ts, hex] =>
      match id.toNat?, optInt ts, optHex hex with
      | some id, some ts, some p => some (.update id ts p)
      | _, _, _ => none
  | ["d", id] => id.toNat?.map .delete
  | ["k", sk, v, src, created] =>
      match sk.toNat?, v.toNat?, src.toNat?, parseInt created with
      | some sk, some v, some src, some c => some (.card sk v src c)
      | _, _, _, _ => none
  | ["c"] => some .commit
  | ["r"] => some .reopen
  | ["s", q] => q.toNat?.map .search
  | _ => none

def parseOps (s : String) : Option (List Op) := if s == "-" then some [] else (s.splitOn ";").mapM parseOp

def showRes : Res → String
  | .ok n => s!"ok{n}"
  | .done => "done"
  | .err => "err"
  | .hits _ => "hits"

def showOpt : Option Nat → String
  | none => "~"
  | some n => toString n

def showStatus : Status → String
  | .active => "a"
  | .superseded => "s"
  | .deleted => "x"

def showFrames (fs : List Frame) : String :=
  if fs.isEmpty then "-" else
    ",".intercalate (fs.map fun f => s!"{f.ts}:{showStatus f.status}:{showOpt f.supersedes}:{showOpt f.supersededBy}:{f.payload.length}")

def showKind : Kind → String
  | .header => "header" | .wal => "wal" | .payload => "payload" | .time => "time" | .lex => "lex"
  | .memories => "memories" | .sketch => "sketch" | .toc => "toc" | .footer => "footer" | .gap => "gap"

def showKinds (ks : List Kind) : String := if ks.isEmpty then "-" else ",".intercalate (ks.map showKind)

/-- second oracle valuation: everything different from `zeroOracles` -/
def otherOracles : Oracles :=
  { clock := fun k => 1000 + 3 * k, uuid := fun k => 17 + 5 * k, hashSeed := 1, tmp := fun k => 99 + k, sched := fun k => k }

def answer (h : List Op) (qs : List Nat) : String :=
  let r1 := run E0 true zeroOracles h
  let f1 := final E0 true zeroOracles h
  let f2 := final E0 true otherOracles h
  let twin := (fileOrder.filter fun k => region X0 zeroOracles f1 k != region X0 otherOracles f2 k)
  let same := logical E0 qs true zeroOracles h == logical E0 qs true otherOracles h
  let res := if r1.2.isEmpty then "-" else ",".intercalate (r1.2.map showRes)
  s!"res={res} | live={showFrames r1.1.frames} | final={showFrames f1.frames} | tl={showNats (timeline r1.1.frames)}/{showNats (timeline f1.frames)}"
  ++ s!" | cards={f1.cards.length} | present={showKinds (present f1)} | may={showKinds (mayDiffer f1)}"
  ++ s!" | causes={if (causes f1).isEmpty then "-" else ",".intercalate (causes f1)} | twin={showKinds twin} | logical={if same then "same" else "DIFFERENT"}"

def step (_ : Unit) (ws : List String) : Unit × String :=
  match ws with
  | ["run", ops, qs] =>
      match parseOps ops, natList qs with
      | some h, some qs => ((), answer h qs)
      | _, _ => ((), "bad-op")
  | _ => ((), "bad-op")

def main : IO Unit := runDriver () step
