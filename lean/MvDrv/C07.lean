/- Driver for C07.
   * every request of the shared Core protocol (MvModel/CoreDrv.lean) is answered by the shared `drvStep`
     (operation histories of the Core family: content tokens);
   * requests starting with `c7` drive the byte-level store model MvModel/Content.lean:
       c7new                                         fresh store, empty codec table
       c7codec lvl=<int> p=<hex> s=<hex>             codec table entry: zstd(level, p) = s  (trace input)
       c7put p=<hex> lvl=<int> plan=<hex,hex…|-> raw=<0|1> role=<d|c|i> search=<n|t|e> mime=<n|t|b>
             csearch=<t,n,…|-> ac=<0|1>              → ok | err <kind>
       c7commit | c7reopen ft=<n> | c7crash ft=<n>   → ok | err <kind>
       c7pend                                        pending records
       c7obs                                         pe= de= | frames with their reads
     The store model runs with `early` = the flag the translator reads off apply_records (is `data_end`
     advanced right after the payload write?), i.e. it mirrors the code that is there.
   Bytes are hex; a read is printed as `ok:<len>:<first 16 hex of blake3>` or `err:<kind>`. -/
import MvModel.CoreDrv
import MvModel.Content
import MvModel.Blake3
namespace Mv.Content
open Mv

structure DState where
  core : Mv.Core.Mem := Mv.Core.Mem.create
  st : Store := {}
  table : List (Int × Bytes × Bytes) := []

/-- the codec the real run exhibited: a finite table of (level, plain) ↦ stored -/
def tableCodec (t : List (Int × Bytes × Bytes)) : Codec :=
  { enc := fun lvl p => match t.find? (fun e => e.1 == lvl && e.2.1 == p) with
      | some e => e.2.2
      | none => p
    dec := fun s => (t.find? (fun e => e.2.2 == s)).map (·.2.1) }

def getHex (kv : List (String × String)) (k : String) : Bytes :=
  match kv.lookup k with
  | some "-" => []
  | some v => (Mv.ofHex v).getD []
  | none => []

def getHexList (kv : List (String × String)) (k : String) : Option (List Bytes) :=
  match kv.lookup k with
  | some "-" => none
  | some v => some ((v.splitOn ",").map fun h => if h == "E" then [] else (Mv.ofHex h).getD [])
  | none => none

def parseTri (s : String) : Option Bool :=
  if s == "t" then some true else if s == "e" || s == "b" then some false else none

def showTri (yes no : String) : Option Bool → String
  | none => "n"
  | some true => yes
  | some false => no

def short (b : Bytes) : String := Mv.toHex ((Mv.Blake3.hash b).take 8)

def showErr : Err → String
  | .tooLarge => "too-large" | .pastData => "past-data" | .pastFile => "past-file" | .decode => "decode"
  | .canonLen => "canon-len" | .noChildren => "no-children" | .manifestLen => "manifest-len" | .orphan => "orphan"
  | .checksum => "checksum"

def showRead : Except Err Bytes → String
  | .ok b => s!"ok:{b.length}:{if b.isEmpty then "E" else short b}"
  | .error e => s!"err:{showErr e}"

def showOpt : Option Nat → String
  | some n => toString n
  | none => "-"

def showRole : Role → String
  | .document => "d" | .chunk => "c" | .image => "i"

def showEnc : Enc → String
  | .plain => "p" | .zstd => "z"

def showOut : Out → String
  | .ok => "ok"
  | .err e => s!"err {showErr e}"

def H : Bytes → Bytes := Mv.Blake3.hash

/-- `id,off,len,enc,canonLen,checksum16,role,parent,chunkIndex,manifest,search,mime,canon,blob` -/
def showFrame (c : Codec) (s : Store) (f : Frame) : String :=
  ",".intercalate
    [toString f.id, toString (if f.len = 0 then 0 else f.off), toString f.len, showEnc f.enc, toString f.canonLen,
     Mv.toHex (f.checksum.take 8), showRole f.role, showOpt f.parent, showOpt f.chunkIndex, showOpt f.manifest,
     showTri "t" "e" f.search, showTri "t" "b" f.mime, showRead (canonicalBytes c H s f), showRead (blobReader c H s f)]

def showObs (c : Codec) (s : Store) : String :=
  s!"pe={s.payloadEnd} de={s.dataEnd} | " ++
    (if s.frames.isEmpty then "-" else ";".intercalate (s.frames.map (showFrame c s)))

/-- `pos,len,payload16,enc,canonLen,role,manifest,parentPos,chunkIndex,search,mime` (positions within the
    pending list instead of sequence numbers) -/
def showPending (pend : List (Nat × Entry)) : String :=
  let posOf (q : Nat) : String :=
    match pend.findIdx? (fun r => r.1 == q) with
    | some i => toString i
    | none => "?"
  if pend.isEmpty then "-" else
  ";".intercalate ((List.range pend.length).zip pend |>.map fun (i, r) =>
    let e := r.2
    ",".intercalate
      [toString i, toString e.payload.length, (if e.payload.isEmpty then "E" else short e.payload), showEnc e.enc,
       toString e.canonLen, showRole e.role, showOpt e.manifest,
       (match e.parentSeq with | some q => posOf q | none => "-"), showOpt e.chunkIndex,
       showTri "t" "e" e.search, showTri "t" "b" e.mime])

def EARLY : Bool := Mv.Gen.C07.DATA_END_ADVANCED_EARLY


def drvStep (d : DState) (ws : List String) : DState × String :=
  match ws with
  | [] => (d, "bad-op")
  | op :: rest =>
    if !op.startsWith "c7" then
      let r := Mv.Core.drvStep d.core ws
      ({ d with core := r.1 }, r.2)
    else
    let kv := Mv.Core.kvs rest
    let c := tableCodec d.table
    let fin (r : Store × Out) : DState × String := ({ d with st := r.1 }, showOut r.2)
    match op with
    | "c7new" => ({ d with st := {}, table := [] }, "ok")
    | "c7codec" =>
      match Mv.Core.getI kv "lvl" with
      | some lvl => ({ d with table := (lvl, getHex kv "p", getHex kv "s") :: d.table }, "ok")
      | none => (d, "bad-op")
    | "c7put" =>
      match Mv.Core.getI kv "lvl" with
      | none => (d, "bad-op")
      | some lvl =>
        let a : PutArgs :=
          { payload := getHex kv "p", level := lvl, plan := getHexList kv "plan", rawPlan := Mv.Core.getB kv "raw",
            role := (match kv.lookup "role" with | some "c" => .chunk | some "i" => .image | _ => .document),
            search := parseTri ((kv.lookup "search").getD "n"), mime := parseTri ((kv.lookup "mime").getD "n"),
            chunkSearch := (Mv.Core.getL kv "csearch").map parseTri }
        fin (put c H EARLY d.st a (Mv.Core.getB kv "ac"))
    | "c7commit" => fin (commit c H EARLY d.st)
    | "c7reopen" => fin (reopen c H EARLY d.st (Mv.Core.getN kv "ft"))
    | "c7crash" => fin (crash c H EARLY d.st (Mv.Core.getN kv "ft"))
    | "c7pend" => (d, showPending d.st.pending)
    | "c7obs" => (d, showObs c d.st)
    | _ => (d, "bad-op")

end Mv.Content

def main : IO Unit := Mv.runDriver ({} : Mv.Content.DState) Mv.Content.drvStep
