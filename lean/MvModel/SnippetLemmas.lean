/-
  Lemmas about the snippet-slice model (MvModel/Snippet.lean): char-boundary helpers, totality of
  the sentence scans, `advance_boundary`.  Used by MvProps/C35.lean.
-/
import MvModel.Snippet
namespace Mv.Snippet

theorem isCharBoundary_zero (c : Bytes) : isCharBoundary c 0 = true := by
  simp [isCharBoundary]

theorem isCharBoundary_length (c : Bytes) : isCharBoundary c c.length = true := by
  unfold isCharBoundary
  split
  · rfl
  · simp

theorem prevLoop_le (c : Bytes) (i : Nat) : prevLoop c i ≤ i := by
  induction i with
  | zero => simp [prevLoop]
  | succ n ih => unfold prevLoop; split <;> omega

theorem prevLoop_boundary (c : Bytes) (i : Nat) : isCharBoundary c (prevLoop c i) = true := by
  induction i with
  | zero => simp [prevLoop, isCharBoundary_zero]
  | succ n ih => unfold prevLoop; split <;> assumption

theorem prevLoop_fix (c : Bytes) (i : Nat) (h : isCharBoundary c i = true) : prevLoop c i = i := by
  cases i with
  | zero => rfl
  | succ n => simp [prevLoop, h]

theorem prevCharBoundary_le_length (c : Bytes) (i : Nat) : prevCharBoundary c i ≤ c.length := by
  unfold prevCharBoundary
  split
  · exact prevLoop_le _ _
  · have := prevLoop_le c i; omega

theorem prevCharBoundary_le (c : Bytes) (i : Nat) : prevCharBoundary c i ≤ i := by
  unfold prevCharBoundary
  split
  · have := prevLoop_le c c.length; omega
  · exact prevLoop_le _ _

theorem prevCharBoundary_boundary (c : Bytes) (i : Nat) : isCharBoundary c (prevCharBoundary c i) = true :=
  prevLoop_boundary _ _

theorem nextLoop_ge (c : Bytes) (f i : Nat) : i ≤ nextLoop c f i := by
  induction f generalizing i with
  | zero => simp [nextLoop]
  | succ n ih => unfold nextLoop; split
                 · have := ih (i+1); omega
                 · omega

theorem nextLoop_le (c : Bytes) (f i : Nat) (h : i ≤ c.length) : nextLoop c f i ≤ c.length := by
  induction f generalizing i with
  | zero => simpa [nextLoop]
  | succ n ih => unfold nextLoop; split
                 · apply ih; omega
                 · omega

theorem nextLoop_boundary (c : Bytes) (f i : Nat) (h : c.length ≤ i + f) (hi : i ≤ c.length) :
    isCharBoundary c (nextLoop c f i) = true := by
  induction f generalizing i with
  | zero => have : i = c.length := by omega
            subst this; simp [nextLoop, isCharBoundary_length]
  | succ n ih =>
    unfold nextLoop; split
    · apply ih <;> omega
    · rename_i hh
      by_cases hl : i < c.length
      · simp [hl] at hh; exact hh
      · have : i = c.length := by omega
        subst this; exact isCharBoundary_length c

theorem nextCharBoundary_le_length (c : Bytes) (i : Nat) : nextCharBoundary c i ≤ c.length := by
  unfold nextCharBoundary
  apply nextLoop_le; split <;> omega

theorem nextCharBoundary_boundary (c : Bytes) (i : Nat) : isCharBoundary c (nextCharBoundary c i) = true := by
  unfold nextCharBoundary
  apply nextLoop_boundary <;> split <;> omega

theorem nextCharBoundary_ge (c : Bytes) (i : Nat) (h : i ≤ c.length) : i ≤ nextCharBoundary c i := by
  unfold nextCharBoundary
  have : (if i > c.length then c.length else i) = i := by split <;> omega
  simp only [this]; exact nextLoop_ge _ _ _

theorem sliceOk_prefix (c : Bytes) (i : Nat) : sliceOk c 0 (prevCharBoundary c i) = true := by
  simp [sliceOk, isCharBoundary_zero, prevCharBoundary_boundary, prevCharBoundary_le_length]

theorem sliceOk_suffix (c : Bytes) (i : Nat) : sliceOk c (prevCharBoundary c i) c.length = true := by
  simp [sliceOk, isCharBoundary_length, prevCharBoundary_boundary, prevCharBoundary_le_length]

/-- `sentence_start_before` never panics -/
theorem sentenceStartBefore_total (c : Bytes) (i : Nat) : ∃ r, sentenceStartBefore c i = some r := by
  unfold sentenceStartBefore
  split
  · exact ⟨_, rfl⟩
  · simp only [sliceOk_prefix, Bool.true_eq_false, if_false]
    split <;> exact ⟨_, rfl⟩

/-- `sentence_end_after` never panics -/
theorem sentenceEndAfter_total (c : Bytes) (i : Nat) : ∃ r, sentenceEndAfter c i = some r := by
  unfold sentenceEndAfter
  split
  · exact ⟨_, rfl⟩
  · simp only [sliceOk_suffix, Bool.true_eq_false, if_false]
    exact ⟨_, rfl⟩

theorem advLoop_spec (c : Bytes) (bs : Bytes) (pos w last : Nat)
    (hbs : bs = c.drop pos) (hpos : pos ≤ c.length) (hlast : last ≤ c.length) :
    pos ≤ advLoop c.length bs pos w last ∧ advLoop c.length bs pos w last ≤ c.length ∧
      isCharBoundary c (advLoop c.length bs pos w last) = true := by
  induction bs generalizing pos w last with
  | nil =>
    simp only [advLoop]
    have : max c.length last = c.length := by omega
    rw [this]
    have hl : c.length ≤ pos := by
      have := congrArg List.length hbs
      simp at this; omega
    exact ⟨by omega, Nat.le_refl _, isCharBoundary_length c⟩
  | cons b rest ih =>
    have hlt : pos < c.length := by
      have := congrArg List.length hbs
      simp at this; omega
    have hget : c[pos]? = some b := by
      have := congrArg (·[0]?) hbs
      simp at this
      rw [← this]
    have hrest : rest = c.drop (pos + 1) := by
      have := congrArg List.tail hbs
      simp at this
      rw [this]
    unfold advLoop
    split
    · have := ih (pos + 1) w last hrest (by omega) hlast
      exact ⟨by omega, this.2.1, this.2.2⟩
    · rename_i hc
      split
      · refine ⟨Nat.le_refl _, by omega, ?_⟩
        unfold isCharBoundary
        split
        · rfl
        · simp [hget, hc]
      · rename_i w'
        have := ih (pos + 1) w' pos hrest (by omega) (by omega)
        exact ⟨by omega, this.2.1, this.2.2⟩

/-- `advance_boundary(content, 0, window)` never panics; its result is a char boundary inside
    the text -/
theorem advanceBoundary_zero_spec (c : Bytes) (w : Nat) :
    ∃ e, advanceBoundary c 0 w = some e ∧ e ≤ c.length ∧ isCharBoundary c e = true := by
  unfold advanceBoundary
  split
  · exact ⟨_, rfl, Nat.le_refl _, isCharBoundary_length c⟩
  · have : sliceOk c 0 c.length = true := by simp [sliceOk, isCharBoundary_zero, isCharBoundary_length]
    simp only [this, Bool.true_eq_false, if_false]
    have := advLoop_spec c (c.drop 0) 0 w c.length rfl (by omega) (Nat.le_refl _)
    exact ⟨_, rfl, this.2.1, this.2.2⟩

/-- with `window ≥ 1` on a non-empty text the fallback slice is non-empty -/
theorem advanceBoundary_zero_pos (c : Bytes) (w : Nat) (hc : c ≠ []) (hw : 1 ≤ w) :
    ∀ e, advanceBoundary c 0 w = some e → 0 < e := by
  intro e he
  unfold advanceBoundary at he
  have hlen : 0 < c.length := by cases c <;> simp_all
  split at he
  · omega
  · have : sliceOk c 0 c.length = true := by simp [sliceOk, isCharBoundary_zero, isCharBoundary_length]
    simp only [this, Bool.true_eq_false, if_false] at he
    cases c with
    | nil => contradiction
    | cons b rest =>
      simp only [List.drop_zero] at he
      unfold advLoop at he
      split at he
      · have := advLoop_spec (b :: rest) rest 1 w (b :: rest).length (by simp) (by simp) (Nat.le_refl _)
        simp only [Nat.zero_add, Option.some.injEq] at he; omega
      · cases w with
        | zero => omega
        | succ w' =>
          simp only at he
          have := advLoop_spec (b :: rest) rest 1 w' 0 (by simp) (by simp) (by simp)
          simp only [Nat.zero_add, Option.some.injEq] at he; omega

/-- a valid output slice: non-empty, inside the text, on char boundaries -/
def OkSlice (c : Bytes) (p : Nat × Nat) : Prop :=
  p.1 < p.2 ∧ p.2 ≤ c.length ∧ isCharBoundary c p.1 = true ∧ isCharBoundary c p.2 = true

/-- the repaired `end.saturating_add(window / 2)` never panics, and the per-occurrence window is
    a pair of char boundaries inside the text -/
theorem windowOf_spec (c : Bytes) (w s e : Nat) :
    ∃ ss se, windowOf true c w s e = some (ss, se) ∧ ss ≤ c.length ∧ se ≤ c.length ∧
      isCharBoundary c ss = true ∧ isCharBoundary c se = true := by
  obtain ⟨r1, h1⟩ := sentenceStartBefore_total c (s - w / WINDOW_DIV)
  obtain ⟨r2, h2⟩ := sentenceEndAfter_total c (min (min (e + w / WINDOW_DIV) USIZE_MAX) c.length)
  have hw : windowOf true c w s e =
      some (prevCharBoundary c (match r1 with | some a => a | none => s - w / WINDOW_DIV),
            nextCharBoundary c (match r2 with | some a => a | none => min (min (e + w / WINDOW_DIV) USIZE_MAX) c.length)) := by
    simp only [windowOf, addUsize, if_true, h1, h2, bind, Option.bind]
    cases r1 <;> cases r2 <;> rfl
  exact ⟨_, _, hw, prevCharBoundary_le_length c _, nextCharBoundary_le_length c _,
    prevCharBoundary_boundary c _, nextCharBoundary_boundary c _⟩


/-- invariant of `merged` (held reversed: head = last pushed): every slice is valid and each
    slice starts more than MERGE_GAP bytes after the end of every earlier one -/
def Inv (c : Bytes) (acc : List (Nat × Nat)) : Prop :=
  (∀ p ∈ acc, OkSlice c p) ∧ acc.Pairwise (fun newer older => older.2 + MERGE_GAP < newer.1)

theorem Inv_nil (c : Bytes) : Inv c [] := ⟨by simp, List.Pairwise.nil⟩

theorem place_spec (c : Bytes) (acc : List (Nat × Nat)) (ss se : Nat) (hinv : Inv c acc)
    (h : ss < se) (hse : se ≤ c.length)
    (bss : isCharBoundary c ss = true) (bse : isCharBoundary c se = true) :
    match place c acc ss se with
    | some (acc', pushed) =>
        Inv c acc' ∧ acc'.length = acc.length + (if pushed then 1 else 0) ∧ acc' ≠ []
    | none => USIZE_MAX < c.length + MERGE_GAP := by
  have hss : ss ≤ c.length := by omega
  have hm1 : min ss c.length = ss := by omega
  have hm2 : min se c.length = se := by omega
  have hnew : OkSlice c (ss, se) := ⟨h, hse, bss, bse⟩
  cases acc with
  | nil =>
    simp only [place, hm1, hm2]
    refine ⟨⟨?_, ?_⟩, by simp, by simp⟩
    · intro p hp; simp at hp; subst hp; exact hnew
    · simp
  | cons hd tl =>
    obtain ⟨ls, le⟩ := hd
    obtain ⟨hok, hpw⟩ := hinv
    have hhd : OkSlice c (ls, le) := hok _ (by simp)
    rw [List.pairwise_cons] at hpw
    by_cases hov : le + MERGE_GAP > USIZE_MAX
    · simp only [place, addChecked, hov, if_true]
      have := hhd.2.1; simp only at this; omega
    · simp only [place, addChecked, hov, if_false]
      by_cases hmerge : ss ≤ le + MERGE_GAP
      · simp only [hmerge, if_true]
        refine ⟨⟨?_, ?_⟩, by simp, by simp⟩
        · intro p hp
          simp only [List.mem_cons] at hp
          rcases hp with hp | hp
          · subst hp
            obtain ⟨h1, h2, h3, h4⟩ := hhd
            simp only at h1 h2 h3 h4
            refine ⟨?_, ?_, h3, ?_⟩
            · simp only; omega
            · simp only; omega
            · simp only
              by_cases hle : le ≤ se
              · have : max le se = se := by omega
                rw [this]; exact bse
              · have : max le se = le := by omega
                rw [this]; exact h4
          · exact hok p (by simp [hp])
        · rw [List.pairwise_cons]
          exact ⟨hpw.1, hpw.2⟩
      · simp only [hmerge, if_false]
        simp only [hm1, hm2]
        refine ⟨⟨?_, ?_⟩, by simp, by simp⟩
        · intro p hp
          simp only [List.mem_cons] at hp
          rcases hp with hp | hp
          · subst hp; exact hnew
          · exact hok p (by simpa using hp)
        · rw [List.pairwise_cons]
          refine ⟨?_, List.pairwise_cons.mpr hpw⟩
          intro q hq
          simp only [List.mem_cons] at hq
          rcases hq with hq | hq
          · subst hq; simp only; omega
          · have h1 := hpw.1 q hq
            have h2 := hhd.1
            simp only at h1 h2 ⊢
            omega

/-- the occurrence loop of the repaired code: the only possible panic is `last.1 + 20` on a text
    within 20 bytes of `usize::MAX`; otherwise `merged` satisfies the invariant, holds at most
    `maxS` slices, and is not emptied -/
theorem loop_spec (c : Bytes) (w maxS : Nat) (occ acc : List (Nat × Nat))
    (hinv : Inv c acc) (hlt : acc.length < maxS) :
    match loop true c w maxS occ acc with
    | some r => Inv c r ∧ r.length ≤ maxS ∧ (acc ≠ [] → r ≠ [])
    | none => USIZE_MAX < c.length + MERGE_GAP := by
  induction occ generalizing acc with
  | nil => simp only [loop]; exact ⟨hinv, by omega, fun h => h⟩
  | cons o rest ih =>
    obtain ⟨s, e⟩ := o
    obtain ⟨ss, se, hw, hss, hse, bss, bse⟩ := windowOf_spec c w s e
    simp only [loop, hw]
    by_cases hempty : se ≤ ss
    · simp only [hempty, if_true]; exact ih acc hinv hlt
    · simp only [hempty, if_false]
      have hp := place_spec c acc ss se hinv (by omega) hse bss bse
      cases hpl : place c acc ss se with
      | none => simp only [hpl] at hp ⊢; exact hp
      | some res =>
        obtain ⟨acc', pushed⟩ := res
        simp only [hpl] at hp ⊢
        obtain ⟨hinv', hlen', hne'⟩ := hp
        by_cases hbrk : (pushed && decide (acc'.length ≥ maxS)) = true
        · simp only [hbrk, if_true]
          refine ⟨hinv', ?_, fun _ => hne'⟩
          cases pushed <;> simp at hbrk hlen' <;> omega
        · simp only [hbrk]
          have hlt' : acc'.length < maxS := by
            cases pushed <;> simp at hbrk hlen' <;> omega
          have := ih acc' hinv' hlt'
          split at this
          · rename_i r hr
            simp only [hr]
            exact ⟨this.1, this.2.1, fun _ => this.2.2 hne'⟩
          · rename_i hr
            simp only [hr]; exact this

/-- what the property demands of the returned list (in output order) -/
def Valid (c : Bytes) (maxS : Nat) (r : List (Nat × Nat)) : Prop :=
  (∀ p ∈ r, OkSlice c p) ∧ r.Pairwise (fun x y => x.2 + MERGE_GAP < y.1) ∧ r.length ≤ maxS

theorem fallback_spec (c : Bytes) (w maxS : Nat) (hm : 1 ≤ maxS) :
    ∃ r, fallback true c w = some r ∧ Valid c maxS r := by
  obtain ⟨e, he, hle, hb⟩ := advanceBoundary_zero_spec c w
  simp only [fallback, he, Bool.true_and]
  by_cases h0 : e = 0
  · simp [h0, Valid]
  · have : (e == 0) = false := by simp [h0]
    simp only [this]
    refine ⟨_, rfl, ?_, by simp, by simp; omega⟩
    intro p hp
    simp at hp; subst hp
    exact ⟨by simp only; omega, hle, isCharBoundary_zero c, hb⟩

/-- `compute_snippet_slices` (repaired): it can panic only through `last.1 + 20` on a text within
    20 bytes of `usize::MAX`; every list it returns is valid -/
theorem compute_spec (c : Bytes) (occ : List (Nat × Nat)) (w maxS : Nat) :
    match compute true c occ w maxS with
    | some r => Valid c maxS r
    | none => USIZE_MAX < c.length + MERGE_GAP := by
  unfold compute
  by_cases h0 : (c.isEmpty || (true && maxS == 0)) = true
  · simp only [h0, if_true]; simp [Valid]
  · simp only [h0]
    have hm : 1 ≤ maxS := by
      simp at h0; omega
    obtain ⟨fr, hfr, hfv⟩ := fallback_spec c w maxS hm
    by_cases hocc : occ.isEmpty = true
    · simp only [hocc, if_true, hfr]; exact hfv
    · simp only [hocc]
      have hl := loop_spec c w maxS occ [] (Inv_nil c) (by simp; omega)
      cases hlr : loop true c w maxS occ [] with
      | none => simp only [hlr] at hl ⊢; exact hl
      | some acc =>
        simp only [hlr] at hl ⊢
        by_cases hae : acc.isEmpty = true
        · simp only [hae, if_true, hfr]; exact hfv
        · simp only [hae]
          obtain ⟨⟨hok, hpw⟩, hlen, _⟩ := hl
          refine ⟨?_, ?_, by simpa using hlen⟩
          · intro p hp; exact hok p (by simpa using hp)
          · rw [List.pairwise_reverse]; exact hpw

/-! ### the code as found vs the repaired code -/

theorem addUsize_found_eq (a b : Nat) (h : a + b ≤ USIZE_MAX) : addUsize false a b = addUsize true a b := by
  have : ¬ (a + b > USIZE_MAX) := by omega
  simp only [addUsize, this, if_false, if_true]
  have : min (a + b) USIZE_MAX = a + b := by omega
  simp [this]

theorem windowOf_found_eq (c : Bytes) (w s e : Nat) (h : e + w / WINDOW_DIV ≤ USIZE_MAX) :
    windowOf false c w s e = windowOf true c w s e := by
  simp only [windowOf, addUsize_found_eq _ _ h]

theorem loop_found_eq (c : Bytes) (w maxS : Nat) (occ acc : List (Nat × Nat))
    (h : ∀ p ∈ occ, p.2 + w / WINDOW_DIV ≤ USIZE_MAX) :
    loop false c w maxS occ acc = loop true c w maxS occ acc := by
  induction occ generalizing acc with
  | nil => simp [loop]
  | cons o rest ih =>
    obtain ⟨s, e⟩ := o
    have he : e + w / WINDOW_DIV ≤ USIZE_MAX := h (s, e) (by simp)
    have hr : ∀ p ∈ rest, p.2 + w / WINDOW_DIV ≤ USIZE_MAX := fun p hp => h p (by simp [hp])
    simp only [loop, windowOf_found_eq c w s e he]
    split
    · rfl
    · split
      · exact ih _ hr
      · split
        · rfl
        · split
          · rfl
          · exact ih _ hr

theorem fallback_found_eq (c : Bytes) (w : Nat) (hc : c ≠ []) (hw : 1 ≤ w) :
    fallback false c w = fallback true c w := by
  simp only [fallback]
  split
  · rfl
  · rename_i e he
    have := advanceBoundary_zero_pos c w hc hw e he
    have : (e == 0) = false := by simp; omega
    simp [this]

/-- On these inputs the code as found and the repaired code compute the same thing. -/
theorem compute_found_eq (c : Bytes) (occ : List (Nat × Nat)) (w maxS : Nat)
    (hm : 1 ≤ maxS) (hw : 1 ≤ w) (h : ∀ p ∈ occ, p.2 + w / WINDOW_DIV ≤ USIZE_MAX) :
    compute false c occ w maxS = compute true c occ w maxS := by
  unfold compute
  have hm0 : (maxS == 0) = false := by simp; omega
  by_cases hc : c.isEmpty = true
  · simp [hc]
  · have hne : c ≠ [] := by intro h; simp [h] at hc
    simp only [hc, hm0, Bool.and_false, Bool.or_false, Bool.false_eq_true, if_false,
      loop_found_eq c w maxS occ [] h, fallback_found_eq c w hne hw]

end Mv.Snippet
