/- Driver for C07.
   * every request of the shared Core protocol (MvModel/CoreDrv.lean) is answered by the shared `drvStep`
     (operation histories of the Core family: content tokens);
   * requests starting with `c7` drive the byte-level store model MvModel/Content.lean:
       c7new                                         fresh store, empty codec table
       c7codec lvl=<int> p=<hex> s=<hex>             codec table entry: zstd(level, p) = s  (trace input)
       c7put p=<hex> lvl=<int> plan=<hex,hex…|-> raw=<0|1> role=<d|c|i> search=<n|t|e> mime=<n|t|b>
             csearch=<t,n,…|-> ac=<0|1>              → ok | err <kind>
       c7commit | c7reopen ft=<n> | c7crash ft=<n>   → ok | err <kind>
       c7pend                                        pending records
       c7obs                                         pe= de= | frames with their reads
     The store model runs with `early` = the flag the translator reads off apply_records (is `data_end`
     advanced right after the payload write?), i.e. it mirrors the code that is there.
   Bytes are hex; a read is printed as `ok:<len>:<first 16 hex of blake3>` or `err:<kind>`. -/
import MvModel.CoreDrv
import MvModel.Content
import MvModel.Blake3
import MvModel.BlobReader
namespace Mv.Content
open Mv

structure DState where
  core : Mv.Core.Mem := Mv.Core.Mem.create
  st : Store := {}
  table : List (Int × Bytes × Bytes) := []
  /-- streaming readers (MvModel/BlobReader.lean): the file region `[bbase, bbase + file.length)` -/
  bsys : Mv.Blob.Sys := { w := { file := [], off := 0 }, rs := [] }
  bbase : Nat := 0
  /-- handle `h` is an in-memory cursor when `bmem[h] = some _` -/
  bmem : List (Option Mv.Blob.MemReader) := []

/-- the codec the real run exhibited: a finite table of (level, plain) ↦ stored -/
def tableCodec (t : List (Int × Bytes × Bytes)) : Codec :=
  { enc := fun lvl p => match t.find? (fun e => e.1 == lvl && e.2.1 == p) with
      | some e => e.2.2
      | none => p
    dec := fun s => (t.find? (fun e => e.2.2 == s)).map (·.2.1) }

def getHex (kv : List (String × String)) (k : String) : Bytes :=
  match kv.lookup k with
  | some "-" => []
  | some v => (Mv.ofHex v).getD []
  | none => []

def getHexList (kv : List (String × String)) (k : String) : Option (List Bytes) :=
  match kv.lookup k with
  | some "-" => none
  | some v => some ((v.splitOn ",").map fun h => if h == "E" then [] else (Mv.ofHex h).getD [])
  | none => none

def parseTri (s : String) : Option Bool :=
  if s == "t" then some true else if s == "e" || s == "b" then some false else none

def showTri (yes no : String) : Option Bool → String
  | none => "n"
  | some true => yes
  | some false => no

def short (b : Bytes) : String := Mv.toHex ((Mv.Blake3.hash b).take 8)

def showErr : Err → String
  | .tooLarge => "too-large" | .pastData => "past-data" | .pastFile => "past-file" | .decode => "decode"
  | .canonLen => "canon-len" | .noChildren => "no-children" | .manifestLen => "manifest-len" | .orphan => "orphan"
  | .checksum => "checksum"

def showRead : Except Err Bytes → String
  | .ok b => s!"ok:{b.length}:{if b.isEmpty then "E" else short b}"
  | .error e => s!"err:{showErr e}"

def showOpt : Option Nat → String
  | some n => toString n
  | none => "-"

def showRole : Role → String
  | .document => "d" | .chunk => "c" | .image => "i"

def showEnc : Enc → String
  | .plain => "p" | .zstd => "z"

def showOut : Out → String
  | .ok => "ok"
  | .err e => s!"err {showErr e}"

def H : Bytes → Bytes := Mv.Blake3.hash

/-- `id,off,len,enc,canonLen,checksum16,role,parent,chunkIndex,manifest,search,mime,canon,blob` -/
def showFrame (c : Codec) (s : Store) (f : Frame) : String :=
  ",".intercalate
    [toString f.id, toString (if f.len = 0 then 0 else f.off), toString f.len, showEnc f.enc, toString f.canonLen,
     Mv.toHex (f.checksum.take 8), showRole f.role, showOpt f.parent, showOpt f.chunkIndex, showOpt f.manifest,
     showTri "t" "e" f.search, showTri "t" "b" f.mime, showRead (canonicalBytes c H s f), showRead (blobReader c H s f)]

def showObs (c : Codec) (s : Store) : String :=
  s!"pe={s.payloadEnd} de={s.dataEnd} | " ++
    (if s.frames.isEmpty then "-" else ";".intercalate (s.frames.map (showFrame c s)))

/-- `pos,len,payload16,enc,canonLen,role,manifest,parentPos,chunkIndex,search,mime` (positions within the
    pending list instead of sequence numbers) -/
def showPending (pend : List (Nat × Entry)) : String :=
  let posOf (q : Nat) : String :=
    match pend.findIdx? (fun r => r.1 == q) with
    | some i => toString i
    | none => "?"
  if pend.isEmpty then "-" else
  ";".intercalate ((List.range pend.length).zip pend |>.map fun (i, r) =>
    let e := r.2
    ",".intercalate
      [toString i, toString e.payload.length, (if e.payload.isEmpty then "E" else short e.payload), showEnc e.enc,
       toString e.canonLen, showRole e.role, showOpt e.manifest,
       (match e.parentSeq with | some q => posOf q | none => "-"), showOpt e.chunkIndex,
       showTri "t" "e" e.search, showTri "t" "b" e.mime])

def EARLY : Bool := Mv.Gen.C07.DATA_END_ADVANCED_EARLY

def showSeek : Mv.Blob.SeekRes → String
  | .ok a => s!"ok {a}"
  | .error .overflow => "err overflow"
  | .error .beforeStart => "err before-start"
  | .error .beyondEnd => "err beyond-end"

def parseWhence (w : String) (d : String) : Option Mv.Blob.Whence :=
  match w with
  | "s" => d.toNat?.map .start
  | "c" => (Mv.parseInt d).map .cur
  | "e" => (Mv.parseInt d).map .fromEnd
  | _ => none

/-- requests `c7b…` — streaming readers:
      c7bfile base=<n> bytes=<hex>       the file region the readers live in; drops all readers
      c7bopen start=<n> len=<n>          File reader over [start, start+len)   → ok <handle>
      c7bopenm data=<hex>                Memory reader (Cursor)                → ok <handle>
      c7bread h=<n> n=<n>                → <hex bytes | ->
      c7bseek h=<n> w=<s|c|e> d=<int>    → ok <pos> | err <overflow|before-start|beyond-end>
      c7btouch o=<n>                     another access leaves the shared offset at o -/
def blobStep (d : DState) (op : String) (kv : List (String × String)) : DState × String :=
  let hexOut (b : Bytes) : String := if b.isEmpty then "-" else Mv.toHex b
  match op with
  | "c7bfile" =>
    ({ d with bsys := { w := { file := getHex kv "bytes", off := 0 }, rs := [] }, bbase := Mv.Core.getN kv "base", bmem := [] }, "ok")
  | "c7bopen" =>
    let r : Mv.Blob.FileReader := { start := Mv.Core.getN kv "start" - d.bbase, len := Mv.Core.getN kv "len", pos := 0 }
    -- blob_reader_from_frame leaves the shared offset at the payload start
    ({ d with bsys := { w := { d.bsys.w with off := r.start }, rs := d.bsys.rs ++ [r] }, bmem := d.bmem ++ [none] },
     s!"ok {d.bsys.rs.length}")
  | "c7bopenm" =>
    ({ d with bsys := { d.bsys with rs := d.bsys.rs ++ [{ start := 0, len := 0, pos := 0 }] },
              bmem := d.bmem ++ [some { data := getHex kv "data", pos := 0 }] }, s!"ok {d.bsys.rs.length}")
  | "c7bread" =>
    let h := Mv.Core.getN kv "h"
    let n := Mv.Core.getN kv "n"
    match d.bmem[h]? with
    | none => (d, "bad-handle")
    | some (some m) => let (m', b) := m.read n; ({ d with bmem := d.bmem.set h (some m') }, hexOut b)
    | some none =>
      match d.bsys.step (.read h n) with
      | (s', .bytes b) => ({ d with bsys := s' }, hexOut b)
      | (s', _) => ({ d with bsys := s' }, "bad-handle")
  | "c7bseek" =>
    let h := Mv.Core.getN kv "h"
    match parseWhence ((kv.lookup "w").getD "") ((kv.lookup "d").getD "") with
    | none => (d, "bad-op")
    | some wh =>
      match d.bmem[h]? with
      | none => (d, "bad-handle")
      | some (some m) => let (m', o) := m.seekCursor wh; ({ d with bmem := d.bmem.set h (some m') }, showSeek o)
      | some none =>
        match d.bsys.step (.seek h wh) with
        | (s', .seeked o) => ({ d with bsys := s' }, showSeek o)
        | (s', _) => ({ d with bsys := s' }, "bad-handle")
  | "c7btouch" => ({ d with bsys := (d.bsys.step (.disturb (Mv.Core.getN kv "o"))).1 }, "ok")
  | _ => (d, "bad-op")


def drvStep (d : DState) (ws : List String) : DState × String :=
  match ws with
  | [] => (d, "bad-op")
  | op :: rest =>
    if !op.startsWith "c7" then
      let r := Mv.Core.drvStep d.core ws
      ({ d with core := r.1 }, r.2)
    else
    let kv := Mv.Core.kvs rest
    if op.startsWith "c7b" then blobStep d op kv else
    let c := tableCodec d.table
    let fin (r : Store × Out) : DState × String := ({ d with st := r.1 }, showOut r.2)
    match op with
    | "c7new" => ({ d with st := {}, table := [] }, "ok")
    | "c7codec" =>
      match Mv.Core.getI kv "lvl" with
      | some lvl => ({ d with table := (lvl, getHex kv "p", getHex kv "s") :: d.table }, "ok")
      | none => (d, "bad-op")
    | "c7put" =>
      match Mv.Core.getI kv "lvl" with
      | none => (d, "bad-op")
      | some lvl =>
        let a : PutArgs :=
          { payload := getHex kv "p", level := lvl, plan := getHexList kv "plan", rawPlan := Mv.Core.getB kv "raw",
            role := (match kv.lookup "role" with | some "c" => .chunk | some "i" => .image | _ => .document),
            search := parseTri ((kv.lookup "search").getD "n"), mime := parseTri ((kv.lookup "mime").getD "n"),
            chunkSearch := (Mv.Core.getL kv "csearch").map parseTri }
        fin (put c H EARLY d.st a (Mv.Core.getB kv "ac"))
    | "c7commit" => fin (commit c H EARLY d.st)
    | "c7reopen" => fin (reopen c H EARLY d.st (Mv.Core.getN kv "ft"))
    | "c7crash" => fin (crash c H EARLY d.st (Mv.Core.getN kv "ft"))
    | "c7pend" => (d, showPending d.st.pending)
    | "c7obs" => (d, showObs c d.st)
    | _ => (d, "bad-op")

end Mv.Content

def main : IO Unit := Mv.runDriver ({} : Mv.Content.DState) Mv.Content.drvStep
