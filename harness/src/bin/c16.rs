//! C16 — search pagination partitions the result stream.
//! impl: Memvid::search with cursor/top_k on real .mv2 files; model: drv_c16 (assembly loop + parse_cursor);
//! oracle: pages of size k concatenate to the one-big-request stream; total_hits constant per chain.
use memvid_core::verif_hooks as vh;
use memvid_core::{Memvid, PutOptions, SearchRequest};
use mvh::*;

const WORDS: &[&str] = &["kiwi", "zebra", "quartz", "walnut", "falcon"];
const FILLER: &[&str] = &["lorem", "ipsum", "dolor", "amet", "tempor", "magna", "aliqua", "minim", "veniam", "nostrud",
    "ullamco", "laboris", "nisi", "commodo", "consequat", "duis", "aute", "irure", "velit", "esse"];

#[derive(Clone, Debug)]
struct DocSpec { uri: String, ts: i64, text: String }

fn gen_text(rng: &mut Rng, word: &str, occurrences: usize, gap_lo: usize, gap_hi: usize) -> String {
    let mut s = String::new();
    let filler = |rng: &mut Rng, n: usize, s: &mut String| {
        let start = s.len();
        while s.len() - start < n {
            s.push_str(*rng.pick(FILLER));
            s.push(if rng.chance(1, 9) { '.' } else { ' ' });
            if s.ends_with('.') { s.push(' '); }
        }
    };
    let n0 = rng.usize(10, 120);
    filler(rng, n0, &mut s);
    for _ in 0..occurrences {
        s.push_str(word);
        s.push(' ');
        let n = rng.usize(gap_lo, gap_hi);
        filler(rng, n, &mut s);
    }
    s.trim_end().to_string()
}

fn gen_corpus(rng: &mut Rng) -> (String, Vec<DocSpec>) {
    let word = rng.pick(WORDS).to_string();
    let n = rng.usize(1, 8);
    let mut docs = vec![];
    let base_ts = 1_700_000_000i64;
    for i in 0..n {
        let occ = match rng.below(10) { 0 => 0, 1..=4 => 1, 5..=6 => 2, 7..=8 => 3, _ => rng.usize(4, 6) };
        // gaps either far apart (separate slices) or close (merged slices)
        let (lo, hi) = if rng.chance(3, 4) { (260, 420) } else { (5, 60) };
        let text = gen_text(rng, &word, occ, lo, hi);
        let ts = if rng.chance(1, 3) { base_ts } else { base_ts + rng.i64(-500_000, 500_000) };
        docs.push(DocSpec { uri: format!("mv2://c16/doc{i}"), ts, text });
    }
    (word, docs)
}

struct Resp { hits: Vec<(u64, usize, usize)>, total: usize, next: Option<String>, chunk: Vec<(u64, String, (usize, usize))> }

fn do_search(mem: &mut Memvid, q: &str, k: usize, cursor: Option<String>, snippet: usize, no_sketch: bool) -> Result<Resp, String> {
    let req = SearchRequest {
        query: q.to_string(), top_k: k, snippet_chars: snippet, uri: None, scope: None, cursor,
        as_of_frame: None, as_of_ts: None, no_sketch,
        acl_context: None, acl_enforcement_mode: Default::default(),
    };
    let r = mem.search(req).map_err(|e| format!("{e}"))?;
    Ok(Resp {
        hits: r.hits.iter().map(|h| (h.frame_id, h.range.0, h.range.1)).collect(),
        total: r.total_hits,
        next: r.next_cursor.clone(),
        chunk: r.hits.iter().map(|h| (h.frame_id, h.chunk_text.clone().unwrap_or_default(), h.chunk_range.unwrap_or((0, 0)))).collect(),
    })
}

fn show_hits(h: &[(u64, usize, usize)]) -> String {
    if h.is_empty() { "-".into() } else { h.iter().map(|(f, a, b)| format!("{f}:{a}:{b}")).collect::<Vec<_>>().join(",") }
}

/// evaluated list for slice budget `maxs`, in the ranking order the big request showed
fn evaluated(order: &[(u64, String, (usize, usize))], toks: &[String], window: usize, maxs: usize) -> Vec<(u64, usize, usize, Vec<(usize, usize)>)> {
    let mut out = vec![];
    for (frame, text, range) in order {
        let lower = text.to_ascii_lowercase();
        let occ = vh::collect_token_occurrences(&lower, toks);
        let slices = vh::compute_snippet_slices(text, &occ, window, maxs);
        if slices.is_empty() { continue; }
        out.push((*frame, range.0, text.len(), slices));
    }
    out
}

fn enc_docs(ev: &[(u64, usize, usize, Vec<(usize, usize)>)]) -> String {
    if ev.is_empty() { return "-".into(); }
    ev.iter().map(|(f, cs, cl, sl)| format!("{f}:{cs}:{cl}:{}", sl.iter().map(|(a, b)| format!("{a}-{b}")).collect::<Vec<_>>().join(","))).collect::<Vec<_>>().join(";")
}

fn run_case(word: &str, docs: &[DocSpec], ks: &[usize], snippet: usize, drv: &mut Option<Driver>, sum: &mut Summary, known: &[String], verbose: bool) {
    let dir = tempfile::tempdir().expect("tempdir");
    let path = dir.path().join("c16.mv2");
    let case_json = json!({"word": word, "snippet": snippet, "ks": ks,
        "docs": docs.iter().map(|d| json!({"uri": d.uri, "ts": d.ts, "text": d.text})).collect::<Vec<_>>()});
    let mut mem = match Memvid::create(&path) { Ok(m) => m, Err(e) => { sum.notes.push(format!("create failed: {e}")); return; } };
    let _ = mem.enable_lex();
    for d in docs {
        let opts = PutOptions { uri: Some(d.uri.clone()), search_text: Some(d.text.clone()), timestamp: Some(d.ts),
            auto_tag: false, extract_dates: false, extract_triplets: false, instant_index: false, ..Default::default() };
        if let Err(e) = mem.put_bytes_with_options(d.text.as_bytes(), opts) { sum.notes.push(format!("put failed: {e}")); return; }
    }
    if let Err(e) = mem.commit() { sum.notes.push(format!("commit failed: {e}")); return; }
    let toks = vh::analysed_tokens(&mem, &[word.to_string()]).unwrap_or_default();
    let window = snippet.max(80);
    let big = match do_search(&mut mem, word, 50, None, snippet, true) { Ok(r) => r, Err(e) => { sum.notes.push(format!("big search failed: {e}")); return; } };
    // ranking order of documents = order of first appearance in the big request
    let mut order: Vec<(u64, String, (usize, usize))> = vec![];
    for c in &big.chunk { if !order.iter().any(|o| o.0 == c.0) { order.push(c.clone()); } }
    let ev_big = evaluated(&order, &toks, window, 50);
    if verbose { println!("big: {} total={} next={:?}", show_hits(&big.hits), big.total, big.next); }
    // model vs impl for the big request
    if let Some(d) = drv.as_mut() {
        let m = d.ask(&format!("page 0 50 {}", enc_docs(&ev_big)));
        let i = format!("hits {} | total {} | next {}", show_hits(&big.hits), big.total, big.next.clone().unwrap_or("none".into()));
        if m != i { sum.disagreement("big request (top_k=50) vs model page", case_json.clone(), &m, &i); return; }
    }
    let max_slices_per_doc = ev_big.iter().map(|d| d.3.len()).max().unwrap_or(0);
    if max_slices_per_doc >= 2 { sum.branch("doc-with-several-slices"); }
    if big.hits.is_empty() { sum.branch("no-hits"); }
    let mut nontrivial = false;
    let mut disagreed = false;
    for &k in ks {
        // follow the cursor chain with page size k
        let ev_k = evaluated(&order, &toks, window, k.max(1));
        let prefix_ok = ev_k.iter().all(|d| ev_big.iter().find(|b| b.0 == d.0).map(|b| b.3.iter().take(k.max(1)).cloned().collect::<Vec<_>>() == d.3).unwrap_or(false));
        if !prefix_ok { sum.branch("slice-budget-not-a-prefix"); }
        let mut cursor: Option<String> = None;
        let mut pages: Vec<Resp> = vec![];
        let mut guard = 0;
        loop {
            guard += 1;
            if guard > 200 { sum.oracle_violation("cursor-chain-does-not-terminate", &format!("k={k}"), case_json.clone()); return; }
            let off: usize = cursor.as_deref().and_then(|c| c.parse().ok()).unwrap_or(0);
            let r = match do_search(&mut mem, word, k, cursor.clone(), snippet, true) {
                Ok(r) => r,
                Err(e) => { sum.oracle_violation("page-request-failed", &format!("k={k} cursor={cursor:?}: {e}"), case_json.clone()); return; }
            };
            if verbose { println!("k={k} cursor={cursor:?}: {} total={} next={:?}", show_hits(&r.hits), r.total, r.next); }
            if let Some(d) = drv.as_mut() {
                let m = d.ask(&format!("page {off} {k} {}", enc_docs(&ev_k)));
                let i = format!("hits {} | total {} | next {}", show_hits(&r.hits), r.total, r.next.clone().unwrap_or("none".into()));
                // keep going after a disagreement: the oracle below decides whether the implementation
                // (not just the model) is wrong on this input
                if m != i && !disagreed { disagreed = true; sum.disagreement(&format!("page k={k} offset={off}"), case_json.clone(), &m, &i); }
            }
            let next = r.next.clone();
            pages.push(r);
            match next { Some(c) => cursor = Some(c), None => break }
        }
        if pages.len() > 1 { sum.branch("multi-page-chain"); nontrivial = true; }
        let concat: Vec<(u64, usize, usize)> = pages.iter().flat_map(|p| p.hits.clone()).collect();
        let totals: Vec<usize> = pages.iter().map(|p| p.total).collect();
        let too_big_page = pages.iter().any(|p| p.hits.len() > k.max(1));
        if too_big_page { sum.oracle_violation("page-larger-than-top-k", &format!("k={k}"), case_json.clone()); return; }
        let totals_const = totals.windows(2).all(|w| w[0] == w[1]);
        let mut dup = concat.clone(); dup.sort(); dup.dedup();
        let repeated = dup.len() != concat.len();
        if concat != big.hits || !totals_const || repeated {
            // is this exactly the recorded finding?  the model (fed with the k-budget slice lists) predicted every page above,
            // and the divergence from the big request is explained by a document holding more slices than the page size
            let sig = "page-size-changes-per-document-slice-budget";
            let budget_changed_slices = ev_k != ev_big;
            if max_slices_per_doc > k.max(1) { sum.branch("budget-drops-slices"); } else if budget_changed_slices { sum.branch("budget-cuts-merged-slice"); }
            let explained = budget_changed_slices && totals_const && !repeated && drv.is_some() && !disagreed
                && concat == ev_k.iter().flat_map(|d| d.3.iter().filter_map(|(a, b)| { let (a, b) = ((*a).min(d.2), (*b).min(d.2)); if b > a { Some((d.0, d.1 + a, d.1 + b)) } else { None } }).collect::<Vec<_>>()).collect::<Vec<_>>();
            let what = format!("k={k}: pages give {} (totals {:?}); one request with top_k=50 gives {} (total {})", show_hits(&concat), totals, show_hits(&big.hits), big.total);
            if explained && known.iter().any(|s| s == sig) { sum.known_finding(sig, &what, case_json.clone()); sum.branch("known-finding-reproduced"); }
            else {
                let s = if repeated { "hit-repeated-across-pages" } else if !totals_const { "total-hits-differs-between-pages" } else { "pages-differ-from-single-request" };
                sum.oracle_violation(s, &what, case_json.clone());
                return;
            }
        } else { sum.branch("pages-equal-big-request"); }
    }
    let canon = format!("{word}|{snippet}|{ks:?}|{}", docs.iter().map(|d| b3short(d.text.as_bytes())).collect::<Vec<_>>().join(","));
    sum.case(&canon, nontrivial, || json!({"word": word, "docs": docs.len(), "ks": ks, "big_hits": big.hits.len(), "max_slices_per_doc": max_slices_per_doc}));
}

fn cursor_cases(rng: &mut Rng, drv: &mut Option<Driver>, sum: &mut Summary, n: usize) {
    for _ in 0..n {
        let total = rng.usize(0, 30);
        let tok: String = match rng.below(8) {
            0 => "~".into(),
            1 => total.to_string(),
            2 => (total + 1).to_string(),
            3 => format!("{}", rng.below(40)),
            4 => "abc".into(),
            5 => "-1".into(),
            6 => (*rng.pick(&["18446744073709551616", "18446744073709551615", "+3", "+", "1_0", "٣", "0x10", ""])).to_string(),
            _ => format!("0{}", rng.below(20)),
        };
        if tok.is_empty() { continue; }
        let imp = match vh::parse_cursor(if tok == "~" { None } else { Some(tok.as_str()) }, total) {
            Ok(v) => format!("ok {v}"),
            Err(e) => if e.contains("not an integer") { "err notint".into() } else if e.contains("beyond") { "err beyond".into() } else { format!("err other {e}") },
        };
        sum.branch(if imp.starts_with("ok") { "cursor-accepted" } else { "cursor-rejected" });
        if let Some(d) = drv.as_mut() {
            let m = d.ask(&format!("cursor {tok} {total}"));
            if m != imp { sum.disagreement("parse_cursor", json!({"cursor": tok, "total": total}), &m, &imp); }
        }
        // oracle: accepted exactly when the value is an integer in 0..=total
        let digits = tok.strip_prefix('+').unwrap_or(&tok);
        let expect_ok = tok == "~" || (!digits.is_empty() && digits.bytes().all(|b| b.is_ascii_digit())
            && digits.trim_start_matches('0').len() <= 20 && digits.parse::<u128>().map(|v| v <= total as u128).unwrap_or(false));
        if expect_ok != imp.starts_with("ok") {
            sum.oracle_violation("cursor-acceptance-wrong", &format!("cursor {tok} total {total}: {imp}"), json!({"cursor": tok, "total": total}));
        }
        sum.case(&format!("cursor|{tok}|{total}"), false, || json!({}));
    }
}

fn main() {
    let args = parse_args();
    let mut drv = if args.driver.to_str() == Some("none") { None } else { Some(Driver::spawn(&args.driver).expect("spawn driver")) };
    let known: Vec<String> = args.extra.get("known").map(|s| s.split(',').map(|x| x.to_string()).collect()).unwrap_or_default();
    let mut sum = Summary::new("C16", &args,
        "real .mv2 corpora (1-8 documents, 0-6 occurrences of a stem-stable query word, gaps either wider than the snippet window \
         (separate slices) or narrow (merged)), one request with top_k=50 and cursor chains for page sizes 1..10; every page compared \
         with the Lean assembly loop fed with the slice lists compute_snippet_slices yields for that page size; random cursor tokens \
         through parse_cursor; non-trivial = some chain had more than one page; distinct = corpus digest + page sizes");
    sum.expect_branches(&["multi-page-chain", "doc-with-several-slices", "pages-equal-big-request", "cursor-accepted", "cursor-rejected"]);
    if args.mode == "replay" {
        let case = load_replay(args.replay_file.as_ref().expect("replay file"));
        let input = case.get("input").unwrap_or(&case);
        if input.get("cursor").is_some() {
            println!("cursor case: {input}");
            sum.finish(&args);
        }
        let word = input["word"].as_str().unwrap().to_string();
        let docs: Vec<DocSpec> = input["docs"].as_array().unwrap().iter().map(|d| DocSpec { uri: d["uri"].as_str().unwrap().into(), ts: d["ts"].as_i64().unwrap(), text: d["text"].as_str().unwrap().into() }).collect();
        let ks: Vec<usize> = input["ks"].as_array().unwrap().iter().map(|k| k.as_u64().unwrap() as usize).collect();
        let snippet = input["snippet"].as_u64().unwrap() as usize;
        run_case(&word, &docs, &ks, snippet, &mut drv, &mut sum, &known, true);
        sum.finish(&args);
    }
    let mut rng = Rng::new(args.seed);
    // corpus: the recorded finding's witness (4 documents x 3 well separated occurrences, page size 1)
    {
        let mut wr = Rng::new(7);
        let docs: Vec<DocSpec> = (0..4).map(|i| DocSpec { uri: format!("mv2://c16/w{i}"), ts: 1_700_000_000, text: gen_text(&mut wr, "kiwi", 3, 300, 320) }).collect();
        run_case("kiwi", &docs, &[1, 2, 3, 50], 120, &mut drv, &mut sum, &known, false);
    }
    let n = if args.thorough { 400 } else { 24 };
    for _ in 0..n {
        let (word, docs) = gen_corpus(&mut rng);
        let mut ks: Vec<usize> = (0..rng.usize(2, 4)).map(|_| rng.usize(1, 10)).collect();
        if rng.chance(1, 5) { ks.push(0); }
        ks.sort(); ks.dedup();
        let snippet = *rng.pick(&[0usize, 80, 120, 200]);
        run_case(&word, &docs, &ks, snippet, &mut drv, &mut sum, &known, false);
        if sum.oracle_violations.len() + sum.disagreements.len() >= 5 { break; }
    }
    cursor_cases(&mut rng, &mut drv, &mut sum, if args.thorough { 3000 } else { 300 });
    if let Some(d) = drv.as_ref() { sum.model_requests = d.requests; }
    sum.finish(&args);
}
