/-
  C21 — doctor preserves committed data, heals, and is idempotent (for the repaired doctor, fixes/C21.diff).

  Main statements (about `Mv.Doctor.doctor`, the model of `Memvid::doctor`, every option combination):
  * `C21_preserve`  : whatever the doctor reports, the acknowledged active frames (committed ∪ pending WAL records)
                      are the same afterwards, for every file whose WAL region scans;
  * `C21_heals`     : on every healable file a repairing run reports Clean/Healed and leaves a file that opens,
                      verifies as Passed and has nothing left to repair;
  * `C21_idem`      : an immediate second run reports Clean (default options; Healed when work is forced) and changes
                      nothing a reader sees;
  * `C21_single_fault` : one damaged structure (header pointer, header checksum copy, footer, an index segment) on an
                      otherwise healthy, possibly crash-left file is healable; a damaged TOC checksum FIELD is healable
                      exactly when WAL records are pending;
  * `C21_counterexample` : the literal property (every single damaged structure heals) is false: TOC checksum field;
  * `C21_unhealable_failed`, `C21_dry_run`, `C21_assert_panics`, `C21_wal_corruption_drops_pending`.
-/
import MvProps.C21Lemmas
namespace Mv.Doctor

/-! ### control level -/

theorem probe_walBad_of_walOk (o : Opts) (c : Cond) (h : c.walOk = true) : (probe o c).walBad = false := by
  unfold probe
  split <;> simp [h, Probe.none]

theorem doctorC_healable (o : Opts) (c : Cond) (hd : o.dryRun = false) (h : Healable c = true) :
    doctorC false o c = runOpened (planOf o (probe o c)) .keep (openMem c) := by
  have hw : c.walOk = true := by
    unfold Healable at h
    simp only [Bool.and_eq_true] at h
    exact h.2
  unfold doctorC
  simp [hd, probe_walBad_of_walOk o c hw, tryOpen_healable h]

/-- the handle right after opening a healable file -/
def exec0 (c : Cond) : Exec := ⟨openMem c, false, false, false⟩

theorem exec0_inv {c : Cond} (h : Healable c = true) : Inv (exec0 c) := by
  obtain ⟨hp, hs, ts, ft, t, l, v, w, pe, fr⟩ := c
  cases hp <;> cases ft <;> cases ts <;> cases pe <;> cases w <;>
    simp_all [Healable, exec0, openMem, healedHdr, readToc, footerValid, rewritten] <;>
    (refine ⟨?_, ?_, ?_⟩ <;> simp)

theorem exec0_noflags (c : Cond) : NoFlags (exec0 c) := ⟨rfl, rfl, rfl⟩

/-- the result of a repairing run on a healable condition -/
structure HealSpec (o : Opts) (c : Cond) (r : CResult) : Prop where
  status : statusOf r.out = some (if (planOf o (probe o c)).noop then .clean else .healed)
  ok : okStatus r.out = true
  good : Good r.c = true
  act : r.act = if c.hasPending then .replayed else .keep
  frames : c.hasPending = false → r.c.hasFrames = c.hasFrames
  time : c.hasPending = true → r.c.time = .ok
  vec : c.vec = .ok → r.c.vec = .ok

theorem shape_facts (o : Opts) (c : Cond) (h : Healable c = true) :
    ((c.time = .corrupt ∨ (c.time = .missing ∧ c.hasFrames = true)) → (shapeOf o (probe o c)).idx = true) ∧
    (c.vec = .corrupt → (shapeOf o (probe o c)).i3 = true) ∧
    (c.lex = .corrupt → (shapeOf o (probe o c)).i2 = true) ∧
    ((shapeOf o (probe o c)).fin = false → readToc c = true ∧ c.hdrSum = true ∧ c.hasPending = false) := by
  have hrc : (readToc c || recoverToc c) = true := by
    obtain ⟨hp, hs, ts, ft, t, l, v, w, pe, fr⟩ := c
    cases hp <;> cases ft <;> simp_all [Healable, readToc, recoverToc, footerValid]
  have hw : c.walOk = true := by
    unfold Healable at h
    simp only [Bool.and_eq_true] at h
    exact h.2
  simp only [shapeOf, probe, hrc, if_true, Shape.idx, Shape.fin, Shape.hdr, hw, Bool.true_and]
  refine ⟨?_, ?_, ?_, ?_⟩
  · rintro (h1 | ⟨h1, h2⟩)
    · simp [h1]
    · simp [h1, h2]
  · intro h1; simp [h1]
  · intro h1; simp [h1]
  · intro h1
    simp only [Bool.or_eq_false_iff, Bool.and_eq_false_imp, Bool.not_eq_false', Bool.not_eq_true'] at h1
    obtain ⟨h2, ⟨⟨⟨h3, h4⟩, h5⟩, h6⟩, h7⟩ := h1
    simp_all

theorem heals_cond (o : Opts) (c : Cond) (hd : o.dryRun = false) (h : Healable c = true) :
    HealSpec o c (doctorC false o c) := by
  rw [doctorC_healable o c hd h]
  have hrb := runBody_planOfShape (shapeOf o (probe o c)) (exec0 c)
  have hA := afterBody_spec (shapeOf o (probe o c)) (exec0 c) (exec0_inv h) (exec0_noflags c)
  have hN := afterBody_nofin (shapeOf o (probe o c)) (exec0 c)
  obtain ⟨hF1, hF2, hF4, hF3⟩ := shape_facts o c h
  unfold runOpened
  have hpl := planOf_eq o (probe o c)
  rw [hpl]
  generalize shapeOf o (probe o c) = s at *
  rcases hb : runBody { mem := openMem c, pTime := false, pLex := false, pVec := false } (planOfShape s) with ⟨eF, sts⟩
  have heF : eF = afterBody s (exec0 c) := by
    rw [← hrb]; unfold exec0; rw [hb]
  simp only []
  rw [heF]
  generalize afterBody s (exec0 c) = x at *
  obtain ⟨hI, hS, hT, hV, hL, hFin⟩ := hA
  -- facts about the opened handle
  have hm : (openMem c).moved = c.hasPending := by unfold openMem; split <;> simp_all
  have h0f : c.hasPending = false → (exec0 c).mem.c.hasFrames = c.hasFrames ∧ (exec0 c).mem.c.time = c.time ∧
      (exec0 c).mem.c.vec = c.vec := by
    intro hp
    simp only [exec0, openMem, hp, Bool.false_eq_true, if_false, healedHdr]
    split <;> simp
  have h0t : c.hasPending = true → (exec0 c).mem.c.time = .ok := by
    intro hp
    unfold exec0 openMem
    simp [hp, rewritten]
  have h0v : (exec0 c).mem.c.vec = c.vec := by
    unfold exec0 openMem healedHdr rewritten
    split <;> (try split) <;> simp
  have h0l : (exec0 c).mem.c.lex = c.lex := by
    unfold exec0 openMem healedHdr rewritten
    split <;> (try split) <;> simp
  -- foot / hdrSum at the end
  have hfoot : x.mem.c.foot = .ok ∧ x.mem.c.hdrSum = true := by
    cases hfin : s.fin
    · obtain ⟨hrt, hsum, hpe⟩ := hF3 hfin
      rw [hN hfin]
      unfold exec0 openMem healedHdr
      simp only [hpe, hrt]
      simp only [readToc, footerValid, Bool.and_eq_true, beq_iff_eq] at hrt
      simp [hrt.2, hsum]
    · exact hFin hfin
  -- time at the end
  have htime : x.mem.c.time ≠ .corrupt ∧ ¬(x.mem.c.time = .missing ∧ x.mem.c.hasFrames = true) ∧
      (c.hasPending = true → x.mem.c.time = .ok) := by
    cases hp : c.hasPending
    · obtain ⟨hfr, htm, _⟩ := h0f hp
      by_cases hn : c.time = .corrupt ∨ (c.time = .missing ∧ c.hasFrames = true)
      · have := hT (hF1 hn)
        simp [this]
      · have hfr' : x.mem.c.hasFrames = c.hasFrames := by rw [hS.frames, hfr]
        rcases hS.time with ht | ht
        · rw [htm] at ht
          rw [ht, hfr']
          refine ⟨fun hc => hn (.inl hc), fun hc => hn (.inr hc), by simp⟩
        · simp [ht]
    · have h1 := h0t hp
      rcases hS.time with ht | ht
      · rw [h1] at ht; simp [ht]
      · simp [ht]
  -- vec at the end
  have hvec : x.mem.c.vec ≠ .corrupt ∧ (c.vec = .ok → x.mem.c.vec = .ok) := by
    refine ⟨?_, fun hv => hS.vecOk (by rw [h0v]; exact hv)⟩
    by_cases hc : c.vec = .corrupt
    · exact hV (hF2 hc)
    · exact hS.vecNc (by rw [h0v]; exact hc)
  have hlex : x.mem.c.lex ≠ .corrupt := by
    by_cases hc : c.lex = .corrupt
    · exact hL (hF4 hc)
    · exact hS.lexNc (by rw [h0l]; exact hc)
  have hver : verify { x.mem.c with hasPending := false, walOk := true } = some true := by
    simp [verify, footerValid, hfoot.1, hI.toc, htime.1, hvec.1, hlex]
  simp only [hver]
  refine ⟨by simp [statusOf, hpl], ?_, ?_, by simp [hm], ?_, ?_, ?_⟩
  · cases (planOfShape s).noop <;> simp [okStatus]
  · have := htime.2.1
    simp only [Good, hI.ptr, hfoot.2, hI.toc, hfoot.1, Bool.true_and, Bool.and_true, beq_self_eq_true, Bool.not_false,
      Bool.and_eq_true, bne_iff_ne, ne_eq, Bool.not_eq_true', Bool.and_eq_false_imp, beq_iff_eq]
    refine ⟨⟨⟨htime.1, ?_⟩, hvec.1⟩, hlex⟩
    intro hmiss
    cases hfr : x.mem.c.hasFrames
    · rfl
    · exact absurd ⟨hmiss, hfr⟩ this
  · intro hp
    simp only []
    rw [hS.frames]
    exact (h0f hp).1
  · intro hp
    exact htime.2.2 hp
  · intro hv
    exact hvec.2 hv


/-! ### conditions with nothing to repair -/

theorem good_facts {c : Cond} (h : Good c = true) :
    c.hdrPtr = true ∧ c.hdrSum = true ∧ c.tocSum = true ∧ c.foot = .ok ∧ c.time ≠ .corrupt ∧
      (c.time == Idx.missing && c.hasFrames) = false ∧ c.vec ≠ .corrupt ∧ c.lex ≠ .corrupt ∧ c.walOk = true ∧
      c.hasPending = false := by
  simp only [Good, Bool.and_eq_true, bne_iff_ne, ne_eq, beq_iff_eq, Bool.not_eq_true'] at h
  obtain ⟨⟨⟨⟨⟨⟨⟨⟨⟨h1, h2⟩, h3⟩, h4⟩, h5⟩, h6⟩, h7⟩, h8⟩, h9⟩, h10⟩ := h
  exact ⟨h1, h2, h3, h4, h5, h6, h7, h8, h9, h10⟩

theorem good_healable {c : Cond} (h : Good c = true) : Healable c = true := by
  obtain ⟨h1, _, h3, _, _, _, _, _, h9, _⟩ := good_facts h
  simp [Healable, h1, h3, h9]

theorem good_set_frames {c : Cond} (h : Good c = true) (ht : c.time = .ok) (b : Bool) :
    Good { c with hasFrames := b } = true := by
  obtain ⟨h1, h2, h3, h4, h5, h6, h7, h8, h9, h10⟩ := good_facts h
  simp [Good, h1, h2, h3, h4, ht, h7, h8, h9, h10]

/-- a default-options run on a condition with nothing to repair: Clean, nothing changes -/
theorem good_default {c : Cond} (h : Good c = true) :
    doctorC false Opts.default c = ⟨.report .clean .none [(.verify, .executed)], c, .keep⟩ := by
  obtain ⟨hp, hs, ts, ft, t, l, v, w, pe, fr⟩ := c
  cases hp <;> cases hs <;> cases ts <;> cases ft <;> cases w <;> cases pe <;> simp [Good] at h
  cases t <;> cases l <;> cases v <;> cases fr <;> first | rfl | simp at h

theorem good_opens_verifies {c : Cond} (h : Good c = true) : opens c = true ∧ verifyPassed c = true := by
  have ho := tryOpen_healable (good_healable h)
  obtain ⟨h1, h2, h3, h4, h5, h6, h7, h8, h9, h10⟩ := good_facts h
  refine ⟨by simp [opens, ho], ?_⟩
  simp [verifyPassed, verify, footerValid, h3, h4, h5, h7, h8, h9, h10]

theorem planOfShape_noop (s : Shape) : (planOfShape s).noop = !s.fin := by
  obtain ⟨h1, h2, wp, vac, i1, i2, i3, rc⟩ := s
  cases h1 <;> cases h2 <;> cases wp <;> cases vac <;> cases i1 <;> cases i2 <;> cases i3 <;> cases rc <;> rfl

/-- on a condition with nothing to repair the plan is a no-op exactly when no work is forced -/
theorem good_noop (o : Opts) {c : Cond} (h : Good c = true) : (planOf o (probe o c)).noop = !o.forced := by
  rw [planOf_eq, planOfShape_noop]
  obtain ⟨h1, h2, h3, h4, h5, h6, h7, h8, h9, h10⟩ := good_facts h
  have hrt : readToc c = true := by simp [readToc, footerValid, h1, h4]
  obtain ⟨rt, rl, rv, va, dr⟩ := o
  simp only [shapeOf, probe, hrt, Bool.true_or, if_true, Shape.fin, Shape.hdr, Shape.idx, Opts.forced, h1, h2, h9, h10,
    Bool.not_true, Bool.and_false, Bool.false_or]
  have hnt : (c.time == Idx.corrupt || c.time == Idx.missing && c.hasFrames) = false := by
    cases ht : c.time <;> simp_all
  have hnv : (c.vec == Idx.corrupt) = false := by
    cases hv : c.vec <;> simp_all
  have hnl : (c.lex == Idx.corrupt) = false := by
    cases hv : c.lex <;> simp_all
  simp only [hnt, hnv, hnl, Bool.false_or]
  cases rt <;> cases rl <;> cases rv <;> cases va <;> cases (c.lex == Idx.missing) <;> cases (c.vec == Idx.missing) <;> rfl

/-! ### the other outcomes -/

theorem runOpened_act (pl : Plan) (a : DataAct) (m : Mem) :
    (runOpened pl a m).act = if m.moved then .replayed else a := by
  unfold runOpened
  rcases runBody { mem := m, pTime := false, pLex := false, pVec := false } pl with ⟨e, sts⟩
  simp only []
  split <;> rfl

/-- a dry run reports the plan and touches nothing -/
theorem dry_cond (o : Opts) (c : Cond) (hd : o.dryRun = true) :
    doctorC false o c = ⟨.report (if (planOf o (probe o c)).noop then .clean else .planOnly) .none [], c, .keep⟩ := by
  unfold doctorC
  simp [hd]

/-- the unrepaired debug build: the planner's assertion fires on every crash-left file it can read -/
theorem assert_cond (o : Opts) (c : Cond) (hw : c.walOk = true) (hp : c.hasPending = true)
    (hr : (c.hdrPtr || c.foot == .ok) = true) : doctorC true o c = ⟨.panic, c, .keep⟩ := by
  have hrc : (readToc c || recoverToc c) = true := by
    obtain ⟨hp', hs, ts, ft, t, l, v, w, pe, fr⟩ := c
    cases hp' <;> cases ft <;> simp_all [readToc, recoverToc, footerValid]
  unfold doctorC
  simp [probe, hrc, hw, hp]

/-- with an intact WAL region no run discards pending records -/
theorem act_walOk (dbg : Bool) (o : Opts) (c : Cond) (hw : c.walOk = true) : (doctorC dbg o c).act ≠ .dropped := by
  unfold doctorC
  simp only [probe_walBad_of_walOk o c hw]
  repeat' split
  all_goals (first | contradiction | (simp only [runOpened_act]; split <;> simp) | simp)

/-- a file the doctor cannot open: Failed, nothing touched, still unopenable -/
theorem unhealable_cond (o : Opts) (c : Cond) (hd : o.dryRun = false) (h : Healable c = false) (hw : c.walOk = true) :
    statusOf (doctorC false o c).out = some .failed ∧ (doctorC false o c).act = .keep ∧
      Healable (doctorC false o c).c = false ∧ (doctorC false o c).c.hasPending = c.hasPending ∧
      (doctorC false o c).c.walOk = true := by
  obtain ⟨hp, hs, ts, ft, t, l, v, w, pe, fr⟩ := c
  simp only at hw
  subst hw
  cases hp <;> cases ft <;> cases ts <;> cases pe <;>
    simp_all [Healable, doctorC, probe, tryOpen, aggressiveRepair, readToc, recoverToc, footerValid, statusOf, Probe.none]

theorem tryOpen_moved {c : Cond} {m : Mem} (h : tryOpen c = .ok m) : m.moved = c.hasPending := by
  obtain ⟨hp, hs, ts, ft, t, l, v, w, pe, fr⟩ := c
  cases hp <;> cases ft <;> cases ts <;> cases pe <;> cases w <;>
    simp [tryOpen, readToc, recoverToc, footerValid] at h <;> (subst h; rfl)

/-- a damaged WAL region (outside the property's quantifier): the region is zeroed, pending records are gone -/
theorem wal_corrupt_cond (o : Opts) (c : Cond) (hd : o.dryRun = false) (hw : c.walOk = false)
    (hr : (c.hdrPtr || c.foot == .ok) = true) : (doctorC false o c).act = .dropped := by
  have hrc : (readToc c || recoverToc c) = true := by
    obtain ⟨hp', hs, ts, ft, t, l, v, w, pe, fr⟩ := c
    cases hp' <;> cases ft <;> simp_all [readToc, recoverToc, footerValid]
  unfold doctorC
  simp only [probe, hrc, if_true, hw, hd, Bool.false_and, Bool.not_false, Bool.and_false, Bool.false_eq_true, if_false]
  cases hto : tryOpen (zeroWal c) with
  | error e => rfl
  | ok m =>
    simp only [runOpened_act]
    have := tryOpen_moved hto
    simp [this, zeroWal]


/-! ### files: the property theorems -/

/-- **C21 (preserve).**  For every build, every option combination and every file whose WAL region scans —
    healable or not, dry run or not, whatever the doctor reports — the acknowledged active frames (committed frames
    with the pending WAL operations applied) are exactly the same after the run. -/
theorem C21_preserve (dbg : Bool) (o : Opts) (f : File) (hw : f.walOk = true) :
    logical (doctor dbg o f).file = logical f := by
  have h := act_walOk dbg o f.cond hw
  unfold logical doctor
  simp only []
  cases ha : (doctorC dbg o f.cond).act
  · simp [applyData]
  · simp [applyData, replay]
  · exact absurd ha h

example : logical (doctor false Opts.default
    ⟨[⟨0, true, 5⟩, ⟨1, true, 6⟩], [.put 7, .del 0], false, true, true, .ok, .ok, .ok, .ok, true⟩).file = [(1, 6), (2, 7)] := by
  decide

/-- a run healed the file -/
structure Healed (r : Result) : Prop where
  ok : okStatus r.out = true
  good : Good r.file.cond = true
  opens : opens r.file.cond = true
  verifies : verifyPassed r.file.cond = true

theorem result_cond_good {o : Opts} {c : Cond} {r : CResult} (spec : HealSpec o c r) (frames : List Frame)
    (pending : List Op) (hc : c.hasPending = !pending.isEmpty) (hf : c.hasFrames = !frames.isEmpty) :
    Good { r.c with hasPending := !(applyData r.act (frames, pending)).2.isEmpty,
                    hasFrames := !(applyData r.act (frames, pending)).1.isEmpty } = true := by
  have hg := spec.good
  have hpe : r.c.hasPending = false := (good_facts hg).2.2.2.2.2.2.2.2.2
  cases hp : c.hasPending
  · have ha : r.act = .keep := by rw [spec.act, hp]; rfl
    have h1 : (!pending.isEmpty) = r.c.hasPending := by rw [← hc, hp, hpe]
    have h2 : (!frames.isEmpty) = r.c.hasFrames := by rw [← hf, spec.frames hp]
    simp only [ha, applyData, h1, h2]
    exact hg
  · have ha : r.act = .replayed := by rw [spec.act, hp]; rfl
    simp only [ha, applyData, List.isEmpty_nil, Bool.not_true]
    have := good_set_frames hg (spec.time hp) (!(replay frames pending).isEmpty)
    rw [hpe] at *
    exact this

/-- **C21 (heals).**  Every option combination that repairs (no dry run), every healable file (the TOC can be
    located through the header pointer or the commit footer; its checksum field is intact or WAL records are pending;
    the WAL region scans): the doctor reports Clean or Healed, the file opens, `verify(deep)` passes, and nothing is
    left to repair — whatever was damaged among header pointer, header checksum copy, footer and the index segments. -/
theorem C21_heals (o : Opts) (f : File) (hd : o.dryRun = false) (h : Healable f.cond = true) :
    Healed (doctor false o f) := by
  have spec := heals_cond o f.cond hd h
  have hg : Good (doctor false o f).file.cond = true :=
    result_cond_good spec f.frames f.pending rfl rfl
  exact ⟨spec.ok, hg, (good_opens_verifies hg).1, (good_opens_verifies hg).2⟩

example : Healable (File.cond ⟨[⟨0, true, 5⟩], [.put 7], false, false, true, .ok, .corrupt, .ok, .corrupt, true⟩) = true := by decide

-- non-vacuity: a crash-left file with a damaged header pointer, forced vacuum + vec rebuild: healed, second run clean
example : statusOf (doctor false ⟨false, false, true, true, false⟩
      ⟨[⟨0, true, 5⟩], [.put 7], false, true, true, .ok, .ok, .ok, .ok, true⟩).out = some .healed ∧
    (doctor false Opts.default (doctor false ⟨false, false, true, true, false⟩
      ⟨[⟨0, true, 5⟩], [.put 7], false, true, true, .ok, .ok, .ok, .ok, true⟩).file).out
      = .report .clean .none [(.verify, .executed)] := by
  decide

/-- a run on a file with nothing to repair -/
theorem good_second_run (o : Opts) (f1 : File) (hd : o.dryRun = false) (hg : Good f1.cond = true) :
    doctor false Opts.default f1 = ⟨.report .clean .none [(.verify, .executed)], f1⟩ ∧
    statusOf (doctor false o f1).out = some (if o.forced then .healed else .clean) ∧
    Healed (doctor false o f1) ∧
    logical (doctor false o f1).file = logical f1 := by
  have hw : f1.walOk = true := (good_facts hg).2.2.2.2.2.2.2.2.1
  refine ⟨?_, ?_, C21_heals o f1 hd (good_healable hg), C21_preserve false o f1 hw⟩
  · unfold doctor
    rw [good_default hg]
    simp [applyData, File.cond]
  · have spec := heals_cond o f1.cond hd (good_healable hg)
    show statusOf (doctorC false o f1.cond).out = _
    rw [spec.status, good_noop o hg]
    cases o.forced <;> rfl

/-- **C21 (idempotent).**  After a repairing run on a healable file, an immediate second run
    * with default options reports exactly Clean (only the Verify phase runs) and leaves the file as it is;
    * with the same options reports Clean — Healed when the options force a rebuild or vacuum — heals again,
      and shows a reader the same active frames, which are the acknowledged frames of the original file. -/
theorem C21_idem (o : Opts) (f : File) (hd : o.dryRun = false) (h : Healable f.cond = true) :
    doctor false Opts.default (doctor false o f).file
        = ⟨.report .clean .none [(.verify, .executed)], (doctor false o f).file⟩ ∧
    statusOf (doctor false o (doctor false o f).file).out = some (if o.forced then .healed else .clean) ∧
    Healed (doctor false o (doctor false o f).file) ∧
    logical (doctor false o (doctor false o f).file).file = logical f := by
  have h1 := C21_heals o f hd h
  have hw0 : f.walOk = true := by
    have := h
    simp only [Healable, Bool.and_eq_true] at this
    exact this.2
  obtain ⟨a, b, c, d⟩ := good_second_run o (doctor false o f).file hd h1.good
  exact ⟨a, b, c, d.trans (C21_preserve false o f hw0)⟩

/-! ### single faults -/



/-- damage of the structures the property names (true = damaged) -/
structure Dmg where
  hdrPtr : Bool
  hdrSum : Bool
  tocSum : Bool
  foot : Foot
  time : Bool
  lex : Bool
  vec : Bool

def Dmg.count (d : Dmg) : Nat :=
  d.hdrPtr.toNat + d.hdrSum.toNat + d.tocSum.toNat + (if d.foot = .ok then 0 else 1) + d.time.toNat + d.lex.toNat + d.vec.toNat

/-- a file as a clean shutdown or a crash leaves it: everything consistent, indexes present or absent, possibly pending records -/
def Healthy (f : File) : Prop :=
  f.hdrPtr = true ∧ f.hdrSum = true ∧ f.tocSum = true ∧ f.foot = .ok ∧ f.time ≠ .corrupt ∧ f.lex ≠ .corrupt ∧
    f.vec ≠ .corrupt ∧ f.walOk = true

def hit (b : Bool) (i : Idx) : Idx := if b && i == .ok then .corrupt else i

/-- the condition of a healthy file after the damage: a flipped checksum field also breaks the header's copy
    comparison and the footer hash over the TOC bytes -/
def damage (d : Dmg) (f : File) : File :=
  { f with hdrPtr := f.hdrPtr && !d.hdrPtr, hdrSum := f.hdrSum && !d.hdrSum && !d.tocSum, tocSum := f.tocSum && !d.tocSum,
           foot := if d.foot = .ok then (if d.tocSum then .body else f.foot) else d.foot,
           time := hit d.time f.time, lex := hit d.lex f.lex, vec := hit d.vec f.vec }

/-- **C21 (single fault).**  One damaged structure on a healthy or crash-left file is healable, for the header pointer,
    the header's checksum copy, the commit footer and each index segment always, and for the TOC's checksum field
    exactly when WAL records are pending. -/
theorem C21_single_fault (d : Dmg) (f : File) (hf : Healthy f) (h1 : d.count ≤ 1) :
    Healable (damage d f).cond = (!d.tocSum || !f.pending.isEmpty) := by
  obtain ⟨h_1, h_2, h_3, h_4, _, _, _, h_8⟩ := hf
  obtain ⟨dp, ds, dt, df, dti, dl, dv⟩ := d
  cases dp <;> cases ds <;> cases dt <;> cases df <;>
    simp_all [Dmg.count, Healable, damage, File.cond] <;> omega

theorem C21_single_fault_heals (o : Opts) (d : Dmg) (f : File) (hd : o.dryRun = false) (hf : Healthy f)
    (h1 : d.count ≤ 1) (hp : d.tocSum = false ∨ f.pending ≠ []) : Healed (doctor false o (damage d f)) := by
  apply C21_heals o _ hd
  rw [C21_single_fault d f hf h1]
  rcases hp with hp | hp
  · simp [hp]
  · cases hq : f.pending with
    | nil => exact absurd hq hp
    | cons a l => simp

/-- the property as literally worded: every single damaged structure heals -/
def C21_full : Prop :=
  ∀ (o : Opts) (d : Dmg) (f : File), o.dryRun = false → Healthy f → d.count ≤ 1 → okStatus (doctor false o (damage d f)).out = true

def witnessFile : File := ⟨[⟨0, true, 5⟩], [], true, true, true, .ok, .ok, .ok, .ok, true⟩
def witnessDmg : Dmg := ⟨false, false, true, .ok, false, false, false⟩

example : Healthy witnessFile ∧ Dmg.count ⟨true, false, false, .ok, false, false, false⟩ ≤ 1 := by
  refine ⟨by simp [Healthy, witnessFile], by decide⟩

/-- **C21 counterexample.**  A flipped byte in the TOC's own checksum field (no WAL records pending): open refuses the
    TOC, the doctor reports Failed and the file still does not open. -/
theorem C21_counterexample : ¬ C21_full := by
  intro h
  have := h Opts.default witnessDmg witnessFile rfl (by simp [Healthy, witnessFile]) (by decide)
  revert this
  decide

/-- **C21 (not healable).**  Outside `Healable` (WAL region intact) a repairing run reports Failed, changes no frame
    and no pending record, and the file still cannot be opened. -/
theorem C21_unhealable_failed (o : Opts) (f : File) (hd : o.dryRun = false) (h : Healable f.cond = false)
    (hw : f.walOk = true) :
    statusOf (doctor false o f).out = some .failed ∧ (doctor false o f).file.frames = f.frames ∧
      (doctor false o f).file.pending = f.pending ∧ Healable (doctor false o f).file.cond = false := by
  obtain ⟨a, b, c, d, _⟩ := unhealable_cond o f.cond hd h hw
  have hdoc : doctor false o f = ⟨(doctorC false o f.cond).out,
      { frames := (applyData (doctorC false o f.cond).act (f.frames, f.pending)).1,
        pending := (applyData (doctorC false o f.cond).act (f.frames, f.pending)).2,
        hdrPtr := (doctorC false o f.cond).c.hdrPtr, hdrSum := (doctorC false o f.cond).c.hdrSum,
        tocSum := (doctorC false o f.cond).c.tocSum, foot := (doctorC false o f.cond).c.foot,
        time := (doctorC false o f.cond).c.time, lex := (doctorC false o f.cond).c.lex,
        vec := (doctorC false o f.cond).c.vec, walOk := (doctorC false o f.cond).c.walOk }⟩ := rfl
  rw [hdoc]
  generalize doctorC false o f.cond = r at a b c d
  have d' : r.c.hasPending = !f.pending.isEmpty := d
  refine ⟨a, by simp [b, applyData], by simp [b, applyData], ?_⟩
  unfold Healable at c ⊢
  simp only [File.cond, b, applyData]
  rw [← d']
  exact c

/-- **C21 (dry run).**  A dry run leaves the file as it is and reports Clean exactly when the plan is a no-op. -/
theorem C21_dry_run (o : Opts) (f : File) (hd : o.dryRun = true) :
    doctor false o f = ⟨.report (if (planOf o (probe o f.cond)).noop then .clean else .planOnly) .none [], f⟩ := by
  unfold doctor
  rw [dry_cond o f.cond hd]
  simp [applyData, File.cond]

/-- **C21 (the planner's assertion).**  In a build that keeps `debug_assert!(probe.wal_pending == 0)` (the unrepaired
    tree, debug profile) the doctor panics on every crash-left file with pending records whose TOC it can locate. -/
theorem C21_assert_panics (o : Opts) (f : File) (hw : f.walOk = true) (hp : f.pending ≠ [])
    (hr : (f.hdrPtr || f.foot == .ok) = true) : doctor true o f = ⟨.panic, f⟩ := by
  have hp' : f.cond.hasPending = true := by
    cases hq : f.pending with
    | nil => exact absurd hq hp
    | cons a l => simp [File.cond, hq]
  unfold doctor
  rw [assert_cond o f.cond hw hp' hr]
  simp [applyData, File.cond]

/-- **C21 (WAL corruption, outside the quantifier).**  When the WAL region does not scan, a repairing run zeroes it:
    a reader then sees the committed frames only — acknowledged pending records are gone. -/
theorem C21_wal_corruption_drops_pending (o : Opts) (f : File) (hd : o.dryRun = false) (hw : f.walOk = false)
    (hr : (f.hdrPtr || f.foot == .ok) = true) :
    logical (doctor false o f).file = activeOf f.frames := by
  have ha := wal_corrupt_cond o f.cond hd hw hr
  unfold logical doctor
  simp [ha, applyData, replay]

end Mv.Doctor
