#!/usr/bin/env python3
"""C34: chunk planning constants from src/memvid/chunks.rs.

DEFAULT_CHUNK_CHARS, CHUNK_MIN_CHARS, the slack rule `(chunk_chars / D).max(M)` of
build_chunk_manifest, and the character set of is_sentence_terminal."""
from common import *


def fn_body(src, name):
    m = re.search(r"\bfn\s+" + re.escape(name) + r"\b", src)
    if not m:
        raise TranslateError(f"fn {name} not found")
    i = src.find("{", m.end())
    depth, j = 0, i
    while j < len(src):
        if src[j] == "{":
            depth += 1
        elif src[j] == "}":
            depth -= 1
            if depth == 0:
                return src[i:j + 1]
        j += 1
    raise TranslateError(f"fn {name}: unbalanced braces")


def run():
    raw = read("src/memvid/chunks.rs")
    src = strip_comments(raw)
    dflt = const_int(src, "DEFAULT_CHUNK_CHARS")
    cmin = const_int(src, "CHUNK_MIN_CHARS", {"DEFAULT_CHUNK_CHARS": dflt})
    # slack rule
    body = fn_body(src, "build_chunk_manifest")
    m = re.search(r"let\s+slack\s*=\s*\(\s*chunk_chars\s*/\s*(\d+)\s*\)\s*\.max\(\s*(\d+)\s*\)\s*;", body)
    if not m:
        raise TranslateError("slack rule `(chunk_chars / D).max(M)` not found in build_chunk_manifest")
    sdiv, smin = int(m.group(1)), int(m.group(2))
    if sdiv == 0:
        raise TranslateError("slack divisor is 0")
    # sentence terminals
    body = fn_body(src, "is_sentence_terminal")
    m = re.search(r"matches!\(\s*ch\s*,\s*((?:'(?:[^'\\]|\\.)'\s*\|?\s*)+)\)", body)
    if not m:
        raise TranslateError("is_sentence_terminal is not `matches!(ch, 'a' | 'b' ...)`")
    terms = []
    for lit in re.findall(r"'((?:[^'\\]|\\.))'", m.group(1)):
        if lit.startswith("\\"):
            esc = {"\\n": "\n", "\\t": "\t", "\\r": "\r", "\\\\": "\\", "\\'": "'", "\\0": "\0"}
            if lit not in esc:
                raise TranslateError(f"unsupported char escape {lit!r}")
            lit = esc[lit]
        terms.append(ord(lit))
    if not terms:
        raise TranslateError("no sentence terminal characters found")
    # the plan_text_chunks threshold test must still be `< CHUNK_MIN_CHARS`
    body = fn_body(src, "plan_text_chunks")
    if not re.search(r"normalized\.chars\(\)\.count\(\)\s*<\s*CHUNK_MIN_CHARS", body):
        raise TranslateError("plan_text_chunks threshold test `chars().count() < CHUNK_MIN_CHARS` not found")
    body = fn_body(src, "plan_naive_chunks")
    if not re.search(r"build_chunk_manifest\(\s*text\s*,\s*DEFAULT_CHUNK_CHARS\s*\)", body):
        raise TranslateError("plan_naive_chunks no longer calls build_chunk_manifest(text, DEFAULT_CHUNK_CHARS)")
    out = (f"def DEFAULT_CHUNK_CHARS : Nat := {dflt}\n"
           f"def CHUNK_MIN_CHARS : Nat := {cmin}\n"
           f"def SLACK_DIV : Nat := {sdiv}\n"
           f"def SLACK_MIN : Nat := {smin}\n"
           "/-- code points accepted by `is_sentence_terminal` -/\n"
           f"def SENTENCE_TERMINALS : List Nat := [{', '.join(str(t) for t in terms)}]\n")
    return emit("C34", out)


main(run)
