//! C35 — snippet slices are valid, ordered, bounded ranges.
//! impl: memvid_core::verif_hooks::compute_snippet_slices (= lex::compute_snippet_slices), in-process
//! under `guarded`; model: drv_c35 `slices 1 …` (the code with fixes/C35.diff; `slices 0 …` = the code
//! as found, used only to label a disagreement; `slicesc 1 …` = the char-level transcription, must equal
//! `slices 1 …`); oracle: the property's clauses on the real output.
use memvid_core::verif_hooks::compute_snippet_slices;
use mvh::*;

#[derive(Clone, Debug)]
struct Case {
    text: String,
    occ: Vec<(usize, usize)>,
    window: usize,
    max: usize,
}

fn show_pairs(v: &[(usize, usize)]) -> String {
    if v.is_empty() { "-".into() } else { v.iter().map(|(a, b)| format!("{a}:{b}")).collect::<Vec<_>>().join(",") }
}

fn parse_pairs(s: &str) -> Vec<(usize, usize)> {
    if s == "-" || s.is_empty() { return vec![]; }
    s.split(',').map(|p| {
        let (a, b) = p.split_once(':').expect("pair");
        (a.parse().expect("start"), b.parse().expect("end"))
    }).collect()
}

fn case_json(c: &Case) -> Value {
    json!({"text_hex": hexw(c.text.as_bytes()), "text": c.text, "occ": show_pairs(&c.occ),
           "window": c.window.to_string(), "max": c.max.to_string()})
}

fn case_from_json(v: &Value) -> Case {
    let text = String::from_utf8(unhexw(v["text_hex"].as_str().expect("text_hex")).expect("hex")).expect("utf8");
    let num = |k: &str| -> usize {
        match &v[k] {
            Value::String(s) => s.parse().expect("number"),
            other => other.as_u64().expect("number") as usize,
        }
    };
    Case { text, occ: parse_pairs(v["occ"].as_str().unwrap_or("-")), window: num("window"), max: num("max") }
}

/// the real function; a panic becomes Err
fn real(c: &Case) -> Result<Vec<(usize, usize)>, String> {
    let (t, o, w, m) = (c.text.clone(), c.occ.clone(), c.window, c.max);
    guarded(move || compute_snippet_slices(&t, &o, w, m))
}

fn show_real(r: &Result<Vec<(usize, usize)>, String>) -> String {
    match r { Ok(v) => format!("ok {}", show_pairs(v)), Err(_) => "panic".into() }
}

/// The property, clause by clause, on the implementation's own output.
/// Returns (signature, description) of the first failing clause.
fn oracle(c: &Case, r: &Result<Vec<(usize, usize)>, String>) -> Option<(&'static str, String)> {
    let slices = match r {
        Err(msg) => return Some(("compute-panics", format!("compute_snippet_slices panicked: {msg}"))),
        Ok(v) => v,
    };
    let len = c.text.len();
    for (i, &(a, b)) in slices.iter().enumerate() {
        if a >= b { return Some(("slice-empty", format!("slice #{i} = {a}..{b} is empty or reversed"))); }
        if b > len { return Some(("slice-out-of-text", format!("slice #{i} = {a}..{b} exceeds the text length {len}"))); }
        if !c.text.is_char_boundary(a) || !c.text.is_char_boundary(b) {
            return Some(("slice-not-on-char-boundary", format!("slice #{i} = {a}..{b} is not on char boundaries")));
        }
        let t = c.text.clone();
        match guarded(move || t[a..b].len()) {
            Ok(n) if n == b - a => {}
            _ => return Some(("slicing-panics", format!("&text[{a}..{b}] panicked"))),
        }
        if i > 0 {
            let (pa, pb) = slices[i - 1];
            if !(pa < a && pb <= a) {
                return Some(("slices-not-increasing", format!("slice #{} = {pa}..{pb} is not strictly before slice #{i} = {a}..{b}", i - 1)));
            }
        }
    }
    if slices.len() > c.max {
        return Some(("more-slices-than-max", format!("{} slices for max_snippets = {}", slices.len(), c.max)));
    }
    None
}

// ------------------------------------------------------------------------------------ generators
const WORDS: &[&str] = &["memory", "video", "frame", "search", "index", "the", "a", "of", "naïve", "café", "Zürich",
    "日本語", "検索", "данные", "поиск", "😀", "👩‍💻", "e\u{301}", "ﬁ", "ß", "x", "Ω", "٣", "𝔘"];
const SEPS: &[&str] = &[" ", " ", " ", "  ", "\t", ", ", "; ", " — ", "\u{a0}", "\u{3000}", "\u{2028}", "\r\n", "\u{b}", "\u{c}", "-"];
const ENDS: &[&str] = &[". ", ".", "! ", "? ", "?!", "...", ".\n", "\n", "\n\n", ".  \t ", "。", "！", ".\u{a0}", ".x", "!\r\n"];

fn gen_text(rng: &mut Rng, thorough: bool, dense: bool, sum: &mut Summary) -> String {
    let style = rng.below(16);
    let target = match style {
        0 => 0,
        1 => rng.usize(1, 4),
        2 | 3 => rng.usize(1, 40),
        _ => rng.usize(20, if thorough { 2500 } else { 700 }),
    };
    let target = if dense { target.max(200) } else { target };
    let mut s = String::new();
    let (p_end, p_multi) = match if dense { 1 } else { rng.below(5) } {
        0 => (0, 3),     // no sentence breaks at all
        1 => (6, 1),     // dense punctuation
        2 => (2, 8),     // multibyte heavy
        _ => (2, 3),
    };
    while s.len() < target {
        let w = if rng.chance(p_multi, 10) { *rng.pick(&WORDS[8..]) } else { *rng.pick(&WORDS[..8]) };
        s.push_str(w);
        if rng.chance(p_end, 10) { s.push_str(*rng.pick(ENDS)); } else { s.push_str(*rng.pick(SEPS)); }
    }
    if style == 1 {
        // tiny texts: cut to the target on a char boundary
        let mut k = target.min(s.len());
        while !s.is_char_boundary(k) { k += 1; }
        s.truncate(k);
    }
    if rng.chance(1, 8) { let pre: &[&str] = &[". ", "\n", " ", "?  ", "é"]; s = format!("{}{}", *rng.pick(pre), s); }
    if rng.chance(1, 8) { let post: &[&str] = &[".", "\n", "  ", "?", "😀", "."]; s.push_str(*rng.pick(post)); }
    if !s.is_ascii() { sum.branch("text-multibyte"); }
    s
}

fn gen_occ(rng: &mut Rng, text: &str, sum: &mut Summary) -> Vec<(usize, usize)> {
    let len = text.len();
    let kind = rng.below(20);
    let n = match rng.below(6) { 0 => 1, 1 => 2, _ => rng.usize(1, 12) };
    let mut occ: Vec<(usize, usize)> = Vec::new();
    let bnd = |rng: &mut Rng| -> usize {
        let mut i = rng.usize(0, len);
        while !text.is_char_boundary(i) { i -= 1; }
        i
    };
    match kind {
        0 => { sum.branch("occ-empty"); }
        // what the callers pass: sorted, in range, token-like spans on char boundaries
        1..=8 => {
            for _ in 0..n {
                let a = bnd(rng);
                let mut b = (a + rng.usize(1, 12)).min(len);
                while !text.is_char_boundary(b) { b += 1; }
                occ.push((a, b));
            }
            occ.sort();
            sum.branch("occ-sorted-in-range");
        }
        // in range, arbitrary byte offsets (may cut chars), sorted
        9 | 10 => {
            for _ in 0..n { let a = rng.usize(0, len); occ.push((a, rng.usize(a, len))); }
            occ.sort();
            sum.branch("occ-sorted-any-byte");
        }
        // unsorted
        11..=13 => {
            for _ in 0..n.max(2) { let a = rng.usize(0, len); occ.push((a, (a + rng.usize(0, 15)).min(len + 3))); }
            rng.shuffle(&mut occ);
            sum.branch("occ-unsorted");
        }
        // overlapping / duplicates / reversed
        14 | 15 => {
            let a = rng.usize(0, len);
            for _ in 0..n { let s = a.saturating_sub(rng.usize(0, 5)); occ.push((s, s + rng.usize(0, 30))); }
            if rng.bool() { let (x, y) = occ[0]; occ.push((y, x)); }
            sum.branch("occ-overlapping");
        }
        // out of bounds
        16 | 17 => {
            for _ in 0..n {
                let a = rng.usize(0, len + 50);
                let b = if rng.bool() { a + rng.usize(0, 500) } else { rng.usize(0, len + 50) };
                occ.push((a, b));
            }
            sum.branch("occ-out-of-bounds");
        }
        // near usize::MAX
        _ => {
            for _ in 0..n {
                let b = usize::MAX - rng.usize(0, 300);
                let a = match rng.below(3) { 0 => rng.usize(0, len), 1 => usize::MAX - rng.usize(0, 300), _ => b };
                occ.push((a, b));
            }
            if rng.bool() { occ.insert(0, (0, len.min(3))); }
            if rng.bool() { occ.sort(); }
            sum.branch("occ-near-usize-max");
        }
    }
    occ
}

fn gen_case(rng: &mut Rng, thorough: bool, sum: &mut Summary) -> Case {
    let dense = rng.chance(1, 4);     // many short sentences + small window: several separate slices
    let text = gen_text(rng, thorough, dense, sum);
    let occ = gen_occ(rng, &text, sum);
    let window = match rng.below(16) {
        0 => 0,
        1 => 1,
        2 | 3 => rng.usize(2, 9),
        4 | 5 => rng.usize(10, 40),
        6 => 80,
        7 => 160,
        8 => 400,
        9 => if rng.chance(1, 3) { *rng.pick(&[usize::MAX, usize::MAX - 1, usize::MAX / 2 + 1, 1 << 40]) } else { rng.usize(0, 400) },
        _ => rng.usize(0, 400),
    };
    let window = if dense && rng.chance(3, 4) { rng.usize(0, 12) } else { window };
    let max = match rng.below(20) { 0 => 0, 1 | 2 => 1, 19 => if rng.chance(1, 3) { usize::MAX } else { 5 }, _ => rng.usize(1, 5) };
    Case { text, occ, window, max }
}

/// byte strings that are mostly NOT valid UTF-8: the model's `validUtf8b` (= the hypothesis `ValidUtf8` of
/// C35_chars_agree) must decide exactly like `std::str::from_utf8`
fn utf8_stream(rng: &mut Rng, drv: &mut Driver, sum: &mut Summary, n: usize) {
    const SPICE: &[&[u8]] = &[&[0xC0, 0xAE], &[0xC1, 0xBF], &[0xE0, 0x80, 0xAE], &[0xE0, 0x9F, 0xBF], &[0xED, 0xA0, 0x80],
        &[0xED, 0x9F, 0xBF], &[0xF0, 0x8F, 0xBF, 0xBF], &[0xF0, 0x90, 0x80, 0x80], &[0xF4, 0x8F, 0xBF, 0xBF], &[0xF4, 0x90, 0x80, 0x80],
        &[0xF5, 0x80, 0x80, 0x80], &[0xFF], &[0x80], &[0xBF], &[0xC2], &[0xE2, 0x82], &[0xF0, 0x9F, 0x98], &[0xEF, 0xBF, 0xBF], &[0xC2, 0x80]];
    for _ in 0..n {
        let mut b: Vec<u8> = match rng.below(3) {
            0 => { let k = rng.usize(0, 12); rng.bytes(k) }
            _ => {
                let mut t = gen_text(rng, false, false, &mut Summary::default()).into_bytes();
                let k = rng.usize(0, 40); let mut k = k.min(t.len()); if rng.bool() { while k < t.len() && (t[k] & 0xC0) == 0x80 { k += 1; } } t.truncate(k);
                t
            }
        };
        for _ in 0..rng.below(3) {
            let at = rng.usize(0, b.len());
            match rng.below(3) {
                0 => { let sp = *rng.pick(SPICE); b.splice(at..at, sp.iter().copied()); }
                1 => if !b.is_empty() { let at = at.min(b.len() - 1); b[at] = rng.u64() as u8; },
                _ => if !b.is_empty() { b.remove(at.min(b.len() - 1)); },
            }
        }
        let want = if std::str::from_utf8(&b).is_ok() { "1" } else { "0" };
        let got = drv.ask(&format!("utf8 {}", hexw(&b)));
        sum.branch(if want == "1" { "utf8-stream-valid" } else { "utf8-stream-invalid" });
        if got != want {
            sum.disagreement("str::from_utf8 vs model validUtf8b", json!({"bytes": hexw(&b)}), &got, want);
        }
    }
}

fn corpus() -> Vec<Case> {
    let c = |t: &str, o: &[(usize, usize)], w: usize, m: usize| Case { text: t.into(), occ: o.to_vec(), window: w, max: m };
    vec![
        // the three defect witnesses (fixes/C35.diff)
        c("a", &[(0, usize::MAX)], 2, 1),                         // end + window/2 overflows
        c("a", &[], 0, 0),                                         // max = 0 → one slice; window = 0 → empty slice
        c("a", &[(0, 1)], 80, 0),                                  // max = 0 → one slice
        c("ab", &[], 0, 3),                                        // window = 0 fallback → (0,0)
        c(".  ", &[(1, 2)], 0, 3),                                 // in-range occurrence skipped, fallback (0,0)
        // edge cases
        c("", &[], 160, 3), c("", &[(0, 5)], 160, 3), c("é", &[], 1, 1), c("é", &[(1, 1)], 0, 1),
        c("Hello. World", &[(7, 12)], 0, 3),
        c("one two. three four! five six? seven\neight", &[(4, 7), (15, 19), (25, 28), (37, 42)], 4, 5),
        c("one two. three four! five six? seven\neight", &[(37, 42), (4, 7)], 4, 5),    // unsorted
        c("日本語。検索！テスト", &[(4, 5), (13, 14)], 3, 2),                          // offsets inside chars
        c("aaaa bbbb cccc dddd eeee ffff gggg hhhh iiii jjjj kkkk", &[(0, 4), (50, 54)], 2, 5),
        c("x", &[(usize::MAX, usize::MAX)], usize::MAX, usize::MAX),
        c("x. y", &[(5, 2), (100, 200)], 7, 2),
    ]
}

fn run_case(c: &Case, drv: &mut Option<Driver>, sum: &mut Summary, known: &[String], verbose: bool) {
    let r = real(c);
    let imp = show_real(&r);
    let hex = hexw(c.text.as_bytes());
    let occs = show_pairs(&c.occ);
    let (model, model_orig, model_chars, wins) = match drv {
        Some(d) => (
            d.ask(&format!("slices 1 {hex} {occs} {} {}", c.window, c.max)),
            d.ask(&format!("slices 0 {hex} {occs} {} {}", c.window, c.max)),
            d.ask(&format!("slicesc 1 {hex} {occs} {} {}", c.window, c.max)),
            d.ask(&format!("windows 1 {hex} {occs} {}", c.window)),
        ),
        None => (String::new(), String::new(), String::new(), String::new()),
    };
    if verbose {
        println!("input : text={:?} occ={occs} window={} max={}", c.text, c.window, c.max);
        println!("impl  : {imp}");
        println!("model : {model}   (code with fixes/C35.diff)");
        println!("modelC: {model_chars}   (char-level transcription, code with fixes/C35.diff)");
        println!("model0: {model_orig}   (code as found)");
        println!("windows: {wins}");
    }
    // ---- branches
    if c.window == 0 { sum.branch("window-zero"); }
    if c.max == 0 { sum.branch("max-zero"); }
    match &r {
        Err(_) => sum.branch("result-panic"),
        Ok(v) => {
            match v.len() { 0 => sum.branch("result-no-slice"), 1 => sum.branch("result-one-slice"), _ => sum.branch("result-several-slices") }
            if !c.occ.is_empty() && v.len() == c.max && c.max > 0 { sum.branch("count-reaches-max"); }
            if v.iter().any(|&(a, b)| a > 0 && b < c.text.len()) { sum.branch("slice-strictly-inside-text"); }
        }
    }
    if drv.is_some() && wins != "-" && !wins.contains("panic") {
        let w = parse_pairs(&wins);
        let live = w.iter().filter(|(a, b)| b > a).count();
        if live < w.len() { sum.branch("occurrence-window-empty-skipped"); }
        if live == 0 && !c.text.is_empty() { sum.branch("fallback-after-all-skipped"); }
        if let Ok(v) = &r { if live > v.len() && v.len() < c.max { sum.branch("windows-merged"); } }
        if c.occ.iter().any(|&(a, b)| a <= c.text.len() && b <= c.text.len() && (!c.text.is_char_boundary(a) || !c.text.is_char_boundary(b))) {
            sum.branch("occurrence-inside-a-char");
        }
    }
    // ---- oracle (independent of the model)
    let verdict = oracle(c, &r);
    if let Some((sig, what)) = &verdict {
        if drv.is_some() && imp == model && known.iter().any(|k| k == sig) {
            sum.known_finding(sig, what, case_json(c));
        } else {
            sum.oracle_violation(sig, &format!("{what}; impl={imp}"), case_json(c));
        }
    }
    // ---- model vs implementation
    if drv.is_some() && imp != model {
        let what = if imp == model_orig {
            "compute_snippet_slices vs model of the repaired code (impl equals the model of the code as found: fixes/C35.diff not applied)"
        } else { "compute_snippet_slices vs model" };
        sum.disagreement(what, case_json(c), &model, &imp);
    }
    if drv.is_some() && model_chars != model {
        sum.disagreement("char-level transcription (computeC) vs byte-level model (compute)", case_json(c), &model, &model_chars);
    }
    if let Some(d) = drv {
        // the theorems' hypothesis `ValidUtf8` must accept every Rust &str
        if d.ask(&format!("utf8 {hex}")) != "1" {
            sum.disagreement("model's ValidUtf8 rejects a Rust &str", case_json(c), "0", "valid");
        }
        // is_char_boundary / prev_char_boundary / next_char_boundary at an index derived from the case
        let len = c.text.len();
        let i = c.occ.first().map(|o| o.0).unwrap_or(c.window).min(len + 2);
        let k = i.min(len);
        let prev = (0..=k).rev().find(|&j| c.text.is_char_boundary(j)).unwrap();
        let next = (k..=len).find(|&j| c.text.is_char_boundary(j)).unwrap();
        let want = format!("{} {prev} {next}", if c.text.is_char_boundary(i) { 1 } else { 0 });
        let got = d.ask(&format!("boundary {hex} {i}"));
        if got != want {
            sum.disagreement("is_char_boundary / floor / ceil vs model", json!({"text_hex": hex, "idx": i}), &got, &want);
        }
    }
    let canon = format!("{hex}|{occs}|{}|{}|{imp}", c.window, c.max);
    let nontrivial = !c.text.is_empty() && !c.occ.is_empty() && r.is_ok();
    sum.case(&canon, nontrivial, || json!({"text_len": c.text.len(), "occ": occs, "window": c.window.to_string(), "max": c.max.to_string(), "impl": imp}));
}

/// shrink a violating case: fewer occurrences, shorter text (same failure signature)
fn shrink(c: &Case) -> Case {
    let sig = match oracle(c, &real(c)) { Some((s, _)) => s, None => return c.clone() };
    let fails = |k: &Case| matches!(oracle(k, &real(k)), Some((s, _)) if s == sig);
    let mut cur = c.clone();
    if cur.occ.len() > 1 {
        let base = cur.clone();
        cur.occ = shrink_list(&base.occ, &mut |o| fails(&Case { occ: o.to_vec(), ..base.clone() }));
    }
    // drop chars from the end / the front while it still fails
    loop {
        let mut t = cur.text.clone();
        if t.pop().is_none() { break; }
        let k = Case { text: t, ..cur.clone() };
        if fails(&k) { cur = k; } else { break; }
    }
    for w in [0usize, 1, 2] { let k = Case { window: w, ..cur.clone() }; if w < cur.window && fails(&k) { cur = k; break; } }
    cur
}

fn main() {
    let args = parse_args();
    let mut drv = if args.driver.as_os_str() == "none" { None } else { Some(Driver::spawn(&args.driver).expect("spawn driver")) };
    let known: Vec<String> = args.extra.get("known").map(|s| s.split(',').map(str::to_string).collect()).unwrap_or_default();
    let mut sum = Summary::new("C35", &args,
        "random Unicode texts (0..700 B quick / 2500 B thorough; ASCII, Latin, CJK, Cyrillic, emoji/ZWJ, combining marks, \
         NBSP/U+3000/U+2028, sentence punctuation, newlines, ASCII whitespace runs) x occurrence lists (sorted in-range on char \
         boundaries, arbitrary byte offsets, unsorted, overlapping/reversed, out of bounds, near usize::MAX, empty) x window \
         0..400 (+ rare huge) x max 0..5 (+ rare usize::MAX); non-trivial = non-empty text, non-empty occurrence list, no panic; \
         distinct = text+occurrences+window+max+result");
    sum.expect_branches(&["result-one-slice", "result-several-slices", "count-reaches-max", "windows-merged",
        "occurrence-window-empty-skipped", "fallback-after-all-skipped", "occurrence-inside-a-char", "text-multibyte",
        "occ-empty", "occ-sorted-in-range", "occ-unsorted", "occ-overlapping", "occ-out-of-bounds", "occ-near-usize-max",
        "window-zero", "max-zero", "slice-strictly-inside-text", "utf8-stream-valid", "utf8-stream-invalid"]);
    if args.mode == "replay" {
        let case = load_replay(args.replay_file.as_ref().expect("replay file"));
        let input = case.get("input").unwrap_or(&case);
        let c = case_from_json(input);
        run_case(&c, &mut drv, &mut sum, &known, true);
        match oracle(&c, &real(&c)) {
            Some((sig, what)) => println!("oracle: VIOLATED {sig}: {what}"),
            None => println!("oracle: holds"),
        }
        sum.finish(&args);
    }
    let mut rng = Rng::new(args.seed);
    let n = if args.thorough { 60000 } else { 6000 };
    for c in corpus() { run_case(&c, &mut drv, &mut sum, &known, false); }
    let mut shrunk = 0;
    for _ in 0..n {
        let c = gen_case(&mut rng, args.thorough, &mut sum);
        let before = sum.oracle_violations.len();
        run_case(&c, &mut drv, &mut sum, &known, false);
        if sum.oracle_violations.len() > before && shrunk < 5 {
            // record the minimised form of a generated violation as well
            shrunk += 1;
            let k = shrink(&c);
            if let Some((sig, what)) = oracle(&k, &real(&k)) {
                sum.oracle_violation(sig, &format!("(shrunk) {what}"), case_json(&k));
            }
        }
    }
    if let Some(d) = drv.as_mut() { utf8_stream(&mut rng, d, &mut sum, if args.thorough { 20000 } else { 3000 }); }
    if let Some(d) = &drv { sum.model_requests = d.requests; }
    sum.finish(&args);
}
