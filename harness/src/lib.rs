//! Shared plumbing for the per-property correspondence harness binaries (`src/bin/cNN.rs`).
//!
//! Every binary has the same CLI:
//!   cNN corr   --seed N --tier quick|thorough --driver <lean driver exe> --out <summary.json> --replay-dir <dir>
//!   cNN replay <replay.json> --driver <exe>
//! and the same exit codes: 0 agree + oracle holds, 10 oracle violated (implementation breaks
//! the property), 11 model and implementation disagree, 12 harness/driver error.
//!
//! A binary generates cases from ONE PRNG (seeded by --seed), runs the real memvid code
//! in-process, pipes the same operations to the Lean model driver (one line in, one line out),
//! compares canonicalised outputs, and evaluates the property oracle on the implementation's
//! own outputs (independently of the model).

use std::collections::{BTreeMap, BTreeSet};
use std::io::{BufRead, BufReader, Write};
use std::path::{Path, PathBuf};
use std::process::{Child, ChildStdin, ChildStdout, Command, Stdio};

pub use serde_json::{Value, json};

// Core-family shared history machinery; behind a feature so that a compile error in it (it is
// under active development) cannot break the other properties' binaries.
#[cfg(feature = "hist")]
pub mod hist;

pub const EXIT_OK: i32 = 0;
pub const EXIT_ORACLE: i32 = 10;
pub const EXIT_DISAGREE: i32 = 11;
pub const EXIT_ERROR: i32 = 12;

// ---------------------------------------------------------------------------------------
// PRNG: xoshiro256** seeded through splitmix64 — every random choice derives from it.
#[derive(Clone, Debug)]
pub struct Rng {
    s: [u64; 4],
}

impl Rng {
    pub fn new(seed: u64) -> Self {
        let mut z = seed.wrapping_add(0x9E37_79B9_7F4A_7C15);
        let mut next = || {
            z = z.wrapping_add(0x9E37_79B9_7F4A_7C15);
            let mut x = z;
            x = (x ^ (x >> 30)).wrapping_mul(0xBF58_476D_1CE4_E5B9);
            x = (x ^ (x >> 27)).wrapping_mul(0x94D0_49BB_1331_11EB);
            x ^ (x >> 31)
        };
        Rng { s: [next(), next(), next(), next()] }
    }
    pub fn u64(&mut self) -> u64 {
        let r = self.s[1].wrapping_mul(5).rotate_left(7).wrapping_mul(9);
        let t = self.s[1] << 17;
        self.s[2] ^= self.s[0];
        self.s[3] ^= self.s[1];
        self.s[1] ^= self.s[2];
        self.s[0] ^= self.s[3];
        self.s[2] ^= t;
        self.s[3] = self.s[3].rotate_left(45);
        r
    }
    /// uniform in 0..n (n > 0)
    pub fn below(&mut self, n: u64) -> u64 {
        if n == 0 { 0 } else { self.u64() % n }
    }
    pub fn range(&mut self, lo: u64, hi_incl: u64) -> u64 {
        lo + self.below(hi_incl - lo + 1)
    }
    pub fn usize(&mut self, lo: usize, hi_incl: usize) -> usize {
        self.range(lo as u64, hi_incl as u64) as usize
    }
    pub fn i64(&mut self, lo: i64, hi_incl: i64) -> i64 {
        let span = (hi_incl as i128 - lo as i128 + 1) as u128;
        (lo as i128 + (self.u64() as u128 % span) as i128) as i64
    }
    pub fn bool(&mut self) -> bool {
        self.u64() & 1 == 1
    }
    /// true with probability num/den
    pub fn chance(&mut self, num: u64, den: u64) -> bool {
        self.below(den) < num
    }
    pub fn pick<'a, T>(&mut self, xs: &'a [T]) -> &'a T {
        &xs[self.below(xs.len() as u64) as usize]
    }
    pub fn bytes(&mut self, n: usize) -> Vec<u8> {
        (0..n).map(|_| self.u64() as u8).collect()
    }
    pub fn shuffle<T>(&mut self, xs: &mut [T]) {
        for i in (1..xs.len()).rev() {
            let j = self.below(i as u64 + 1) as usize;
            xs.swap(i, j);
        }
    }
    pub fn fork(&mut self) -> Rng {
        Rng::new(self.u64())
    }
}

// ---------------------------------------------------------------------------------------
// hex helpers ("-" is the empty string on the wire)
pub fn hexw(b: &[u8]) -> String {
    if b.is_empty() { "-".into() } else { hex::encode(b) }
}
pub fn unhexw(s: &str) -> Option<Vec<u8>> {
    if s == "-" { Some(vec![]) } else { hex::decode(s).ok() }
}
pub fn b3(b: &[u8]) -> String {
    blake3::hash(b).to_hex().to_string()
}
pub fn b3short(b: &[u8]) -> String {
    b3(b)[..16].to_string()
}

// ---------------------------------------------------------------------------------------
// Lean model driver: a child process answering one line per request line.
pub struct Driver {
    child: Child,
    stdin: ChildStdin,
    stdout: BufReader<ChildStdout>,
    pub requests: u64,
    path: PathBuf,
}

impl Driver {
    pub fn spawn(path: &Path) -> std::io::Result<Self> {
        let mut child = Command::new(path)
            .stdin(Stdio::piped())
            .stdout(Stdio::piped())
            .stderr(Stdio::inherit())
            .spawn()?;
        let stdin = child.stdin.take().unwrap();
        let stdout = BufReader::new(child.stdout.take().unwrap());
        Ok(Driver { child, stdin, stdout, requests: 0, path: path.to_path_buf() })
    }
    /// send one request line, read one answer line (trimmed)
    pub fn ask(&mut self, line: &str) -> String {
        debug_assert!(!line.contains('\n'));
        self.requests += 1;
        if writeln!(self.stdin, "{line}").is_err() || self.stdin.flush().is_err() {
            return "DRIVER-DEAD".into();
        }
        let mut out = String::new();
        match self.stdout.read_line(&mut out) {
            Ok(0) | Err(_) => "DRIVER-DEAD".into(),
            Ok(_) => out.trim_end().to_string(),
        }
    }
    /// restart the driver (fresh model state)
    pub fn restart(&mut self) -> std::io::Result<()> {
        let _ = self.child.kill();
        let _ = self.child.wait();
        *self = Driver::spawn(&self.path.clone())?;
        Ok(())
    }
}

impl Drop for Driver {
    fn drop(&mut self) {
        let _ = self.child.kill();
        let _ = self.child.wait();
    }
}

// ---------------------------------------------------------------------------------------
// CLI
#[derive(Debug, Clone)]
pub struct Args {
    pub mode: String, // corr | replay
    pub seed: u64,
    pub thorough: bool,
    pub driver: PathBuf,
    pub out: Option<PathBuf>,
    pub replay_dir: PathBuf,
    pub replay_file: Option<PathBuf>,
    pub extra: BTreeMap<String, String>,
}

pub fn parse_args() -> Args {
    let argv: Vec<String> = std::env::args().collect();
    let mut a = Args {
        mode: argv.get(1).cloned().unwrap_or_else(|| "corr".into()),
        seed: std::env::var("VERIF_SEED").ok().and_then(|s| s.parse().ok()).unwrap_or(1),
        thorough: std::env::var("VERIF_TIER").map(|t| t == "thorough").unwrap_or(false),
        driver: PathBuf::new(),
        out: None,
        replay_dir: PathBuf::from("/verif/replays"),
        replay_file: None,
        extra: BTreeMap::new(),
    };
    let mut i = 2;
    while i < argv.len() {
        let k = argv[i].as_str();
        let v = argv.get(i + 1).cloned();
        match k {
            "--seed" => { a.seed = v.unwrap().parse().expect("seed"); i += 2; }
            "--tier" => { a.thorough = v.unwrap() == "thorough"; i += 2; }
            "--driver" => { a.driver = PathBuf::from(v.unwrap()); i += 2; }
            "--out" => { a.out = Some(PathBuf::from(v.unwrap())); i += 2; }
            "--replay-dir" => { a.replay_dir = PathBuf::from(v.unwrap()); i += 2; }
            _ if k.starts_with("--") => { a.extra.insert(k[2..].to_string(), v.unwrap_or_default()); i += 2; }
            _ => { a.replay_file = Some(PathBuf::from(k)); i += 1; }
        }
    }
    a
}

// ---------------------------------------------------------------------------------------
// Run summary: what the check turns into the evidence file.
#[derive(Default)]
pub struct Summary {
    pub property: String,
    pub evaluations: u64,
    pub distinct: BTreeSet<[u8; 16]>,
    pub rule: String,
    pub samples: Vec<Value>,
    pub max_samples: usize,
    pub branches: BTreeMap<String, u64>,
    /// implementation violates the property oracle (independent of the model)
    pub oracle_violations: Vec<Value>,
    /// model and implementation disagree
    pub disagreements: Vec<Value>,
    /// oracle violations that the model predicts too and whose signature is a listed finding
    pub known: BTreeMap<String, (u64, Value)>,
    pub model_requests: u64,
    pub notes: Vec<String>,
    pub replay_dir: PathBuf,
    pub seed: u64,
    pub expected_branches: Vec<String>,
}

impl Summary {
    pub fn new(property: &str, args: &Args, rule: &str) -> Self {
        Summary {
            property: property.into(),
            rule: rule.into(),
            max_samples: 5,
            replay_dir: args.replay_dir.clone(),
            seed: args.seed,
            ..Default::default()
        }
    }
    /// count one evaluated case; `nontrivial` = reached a branch of interest by the binary's rule;
    /// `canon` = canonical text of the case for distinctness.
    pub fn case(&mut self, canon: &str, nontrivial: bool, sample: impl FnOnce() -> Value) {
        self.evaluations += 1;
        if nontrivial {
            let h = blake3::hash(canon.as_bytes());
            let mut k = [0u8; 16];
            k.copy_from_slice(&h.as_bytes()[..16]);
            if self.distinct.insert(k) && self.samples.len() < self.max_samples {
                self.samples.push(sample());
            }
        }
    }
    pub fn branch(&mut self, name: &str) {
        *self.branches.entry(name.to_string()).or_insert(0) += 1;
    }
    pub fn expect_branches(&mut self, names: &[&str]) {
        self.expected_branches = names.iter().map(|s| s.to_string()).collect();
    }
    fn write_replay(&self, kind: &str, case: &Value) -> String {
        let _ = std::fs::create_dir_all(&self.replay_dir);
        let h = b3short(case.to_string().as_bytes());
        let p = self.replay_dir.join(format!("{}-{}-{}-{}.json", self.property, kind, self.seed, &h[..8]));
        let body = json!({"property": self.property, "kind": kind, "seed": self.seed, "case": case});
        let _ = std::fs::write(&p, serde_json::to_string_pretty(&body).unwrap());
        p.display().to_string()
    }
    /// implementation broke the property on `case` (signature = failure class)
    pub fn oracle_violation(&mut self, signature: &str, what: &str, case: Value) {
        if self.oracle_violations.len() < 20 {
            let replay = self.write_replay("oracle", &json!({"signature": signature, "what": what, "input": case}));
            self.oracle_violations.push(json!({"signature": signature, "what": what, "replay": replay}));
        } else {
            self.oracle_violations.push(json!({"signature": signature, "what": what}));
        }
    }
    /// the model predicts this very violation and its class is a recorded finding
    pub fn known_finding(&mut self, signature: &str, what: &str, case: Value) {
        let e = self.known.entry(signature.to_string()).or_insert((0, json!({"what": what, "input": case})));
        e.0 += 1;
    }
    pub fn disagreement(&mut self, what: &str, case: Value, model: &str, imp: &str) {
        if self.disagreements.len() < 20 {
            let replay = self.write_replay("disagree", &json!({"what": what, "input": case, "model": model, "impl": imp}));
            self.disagreements.push(json!({"what": what, "model": model, "impl": imp, "replay": replay}));
        } else {
            self.disagreements.push(json!({"what": what}));
        }
    }
    pub fn exit_code(&self) -> i32 {
        if !self.oracle_violations.is_empty() { EXIT_ORACLE }
        else if !self.disagreements.is_empty() { EXIT_DISAGREE }
        else { EXIT_OK }
    }
    pub fn to_json(&self) -> Value {
        let missing: Vec<&String> = self.expected_branches.iter()
            .filter(|b| self.branches.get(*b).copied().unwrap_or(0) == 0).collect();
        json!({
            "property": self.property,
            "seed": self.seed,
            "evaluations": self.evaluations,
            "distinct_nontrivial": self.distinct.len(),
            "rule": self.rule,
            "samples": self.samples,
            "branches": self.branches,
            "coverage_gap": missing,
            "oracle_violations": self.oracle_violations,
            "disagreements": self.disagreements,
            "known_findings": self.known.iter().map(|(k, (n, v))| json!({"signature": k, "count": n, "example": v})).collect::<Vec<_>>(),
            "model_requests": self.model_requests,
            "notes": self.notes,
        })
    }
    /// write the summary and exit with the protocol's exit code
    pub fn finish(&self, args: &Args) -> ! {
        let j = self.to_json();
        if let Some(out) = &args.out {
            let _ = std::fs::write(out, serde_json::to_string_pretty(&j).unwrap());
        }
        println!("SUMMARY {}", serde_json::to_string(&json!({
            "property": self.property, "evaluations": self.evaluations,
            "distinct_nontrivial": self.distinct.len(),
            "oracle_violations": self.oracle_violations.len(),
            "disagreements": self.disagreements.len(),
            "known": self.known.keys().collect::<Vec<_>>(),
        })).unwrap());
        std::process::exit(self.exit_code());
    }
}

/// load the `case` object of a replay file written by `Summary`
pub fn load_replay(path: &Path) -> Value {
    let txt = std::fs::read_to_string(path).expect("read replay");
    let v: Value = serde_json::from_str(&txt).expect("parse replay");
    v.get("case").cloned().unwrap_or(v)
}

/// run a closure, turning a panic into Err(message)
pub fn guarded<T>(f: impl FnOnce() -> T + std::panic::UnwindSafe) -> Result<T, String> {
    let prev = std::panic::take_hook();
    std::panic::set_hook(Box::new(|_| {}));
    let r = std::panic::catch_unwind(f);
    std::panic::set_hook(prev);
    r.map_err(|e| {
        if let Some(s) = e.downcast_ref::<&str>() { (*s).to_string() }
        else if let Some(s) = e.downcast_ref::<String>() { s.clone() }
        else { "panic".into() }
    })
}

/// greedy delta-debugging on a list: repeatedly try to drop chunks while `fails` stays true
pub fn shrink_list<T: Clone>(items: &[T], fails: &mut dyn FnMut(&[T]) -> bool) -> Vec<T> {
    let mut cur: Vec<T> = items.to_vec();
    let mut chunk = (cur.len() / 2).max(1);
    while chunk >= 1 {
        let mut i = 0;
        let mut progressed = false;
        while i < cur.len() {
            let mut cand = cur.clone();
            let end = (i + chunk).min(cand.len());
            cand.drain(i..end);
            if !cand.is_empty() && fails(&cand) {
                cur = cand;
                progressed = true;
            } else {
                i += chunk;
            }
        }
        if chunk == 1 && !progressed { break; }
        if !progressed { chunk /= 2; }
    }
    cur
}
