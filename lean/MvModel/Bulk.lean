/-
  Bulk — the bulk-ingestion entry points of `Memvid` (property C40), on top of the Core model.

  `Core.lean` mirrors `commit_skip_indexes` / `finalize_indexes` AS THEY ARE in the unrepaired tree
  (`Mem.commitSkipIndexes`, `Mem.finalizeIndexes`: the delta's embeddings are dropped, no sketches
  are generated for frames applied while Tantivy was detached).  This file mirrors the two
  functions as `/verif/fixes/C40.diff` leaves them:

    Mem.keepEmbs             mutation.rs commit_skip_indexes_inner, the added block
                             `build_vec_artifact(&delta.inserted_embeddings)` → `self.vec_index = Some(index)`
    Mem.commitSkipIndexesR   mutation.rs commit_skip_indexes (+ _inner), repaired
    missingSketches          mutation.rs finalize_indexes, the added block (active frames without a
                             sketch entry whose index text is non-blank)
    Mem.finalizeIndexesR     mutation.rs finalize_indexes, repaired (+ persist_sketch_track)
    stepR / runR / traceR    `Core.step` with the two operations replaced

  and the documents / op lists the property quantifies over (`plainOps`, `batchOps`, `skipOps`).
-/
import MvModel.Core
namespace Mv.Core

/-- `build_vec_artifact(new_docs)` as `commit_skip_indexes_inner` now uses it: the in-memory index
    becomes its surviving entries (active frames) followed by the batch's embeddings; nothing is
    written to the file.  No-op for a batch without embeddings or with vectors disabled. -/
def Mem.keepEmbs (m : Mem) (embs : List VecEnt) : Mem :=
  if embs.isEmpty || !m.vecEnabled then m
  else { m with vec := some ((m.vec.getD []).filter (fun e => isActive m.frames e.id) ++ embs) }

/-- `commit_skip_indexes()`, repaired -/
def Mem.commitSkipIndexesR (m : Mem) : Mem × Out :=
  if m.pending.isEmpty && !m.dirty then (m, .ok) else
  match applyRecords m m.pending false with
  | none => ({ m with tantivyDirty := false }, .err "commit-failed")
  | some (m1, delta) =>
    let m2 := m1.keepEmbs delta.embs
    ({ m2 with
        tantivyDirty := false
        footer := m2.dataEnd
        time := none
        pVec := none
        tantivySegs := false
        pCards := none
        pSketch := [] }.checkpoint, .ok)

/-- ids `finalize_indexes` generates a sketch for: active frames with index text and no entry yet,
    in frame order -/
def missingSketches (frames : List Frame) (sketch : List Nat) : List Nat :=
  ((frames.filter (fun f => f.status == .active && f.idx)).map (·.id)).filter (fun id => !sketch.contains id)

/-- `finalize_indexes()`, repaired: rebuild, then the missing sketches, then `persist_sketch_track`
    (`ft` = footer after the call, trace input) -/
def Mem.finalizeIndexesR (m : Mem) (ft : Nat) : Mem × Out :=
  let m1 := m.rebuildIndexes [] [] ft
  let sk := if m1.lexEnabled then m1.sketch ++ missingSketches m1.frames m1.sketch else m1.sketch
  ({ m1 with sketch := sk, pSketch := if sk.isEmpty then m1.pSketch else sk }, .ok)

/-- `Core.step` with the repaired bulk operations -/
def stepR (m : Mem) : Op → Mem × Out
  | .commitSkipIndexes => m.commitSkipIndexesR
  | .finalizeIndexes ft => m.finalizeIndexesR ft
  | op => step m op

def runR (m : Mem) : List Op → Mem
  | [] => m
  | op :: ops => runR (stepR m op).1 ops

/-- the answers of a repaired run -/
def outsR (m : Mem) : List Op → List Out
  | [] => []
  | op :: ops => (stepR m op).2 :: outsR (stepR m op).1 ops

/-! ## The three ingestion programs -/

/-- a document as a path ingests it: the put arguments and the trace inputs of that call (stored
    lengths, automatic checkpoint, WAL size — these may differ from path to path) -/
abbrev DocCall := PutArgs × Trace

def putOps (docs : List DocCall) : List Op := docs.map (fun d => Op.put d.1 d.2)

/-- plain puts followed by `commit` -/
def plainOps (docs : List DocCall) (ft : Nat) : List Op := putOps docs ++ [.commit ft]

/-- `begin_batch(opts)`; puts; `end_batch`; `commit` -/
def batchOps (disableAutoCheckpoint : Bool) (ws : Nat) (docs : List DocCall) (ft : Nat) : List Op :=
  .beginBatch disableAutoCheckpoint ws :: (putOps docs ++ [.endBatch, .commit ft])

/-- (puts; `commit_skip_indexes`)* ; `finalize_indexes` -/
def skipOps (groups : List (List DocCall)) (ft : Nat) : List Op :=
  groups.flatMap (fun g => putOps g ++ [.commitSkipIndexes]) ++ [.finalizeIndexes ft]

/-- the skip-index program inside batch mode: `begin_batch`; (puts; `commit_skip_indexes`)*;
    `end_batch`; `finalize_indexes` -/
def skipBatchOps (disableAutoCheckpoint : Bool) (ws : Nat) (groups : List (List DocCall)) (ft : Nat) : List Op :=
  .beginBatch disableAutoCheckpoint ws ::
    (groups.flatMap (fun g => putOps g ++ [.commitSkipIndexes]) ++ [.endBatch, .finalizeIndexes ft])

end Mv.Core
