//! C32 — query language is total and means what it says.
//! impl: memvid_core::verif_hooks::{parse_query_sexpr, query_matches, query_text_tokens, parse_query_status}
//! model: drv_c32 (`parse`, `eval`, `tokens`, `left`, `class`, `date`)
//! oracle (independent of the model):
//!   * totality      every input yields Ok or an `Invalid query: …` error, no panic (in-process) and no
//!                   abort on pathological nesting (child process, default main-thread stack);
//!   * semantics     for generated well-formed ASTs printed to text, the implementation's verdict on a
//!                   document equals the reference boolean semantics evaluated over the AST here.
use memvid_core::verif_hooks as hooks;
use mvh::*;
use std::process::Command;

// ---------------------------------------------------------------------------------------------
// wire helpers
fn hx(s: &str) -> String { hexw(s.as_bytes()) }
fn hx_list(xs: &[String]) -> String {
    if xs.is_empty() { "_".into() } else { xs.iter().map(|x| hx(x)).collect::<Vec<_>>().join(",") }
}
fn hx_opt(x: &Option<String>) -> String {
    match x { None => "~".into(), Some(s) => hx(s) }
}

fn err_class(msg: &str) -> String {
    let table = [
        ("unterminated quoted string", "unterminated-quote"),
        ("date range must be in format", "bad-date-range"),
        ("unterminated date range", "unterminated-date-range"),
        ("expected ')' after expression", "expected-rparen"),
        ("unexpected token", "unexpected-token"),
        ("unexpected end of query", "unexpected-end"),
        ("unsupported field", "unsupported-field"),
        ("unexpected field for date range", "unexpected-date-field"),
        ("nested too deeply", "too-deep"),
    ];
    for (pat, class) in table {
        if msg.contains(pat) { return class.to_string(); }
    }
    format!("other:{msg}")
}

// ---------------------------------------------------------------------------------------------
// documents
#[derive(Clone, Debug)]
struct Doc {
    content: String,
    uri: Option<String>,
    track: Option<String>,
    tags: Vec<String>,
    labels: Vec<String>,
    timestamp: i64,
    dates: Vec<String>,
}

impl Doc {
    fn content_lower(&self) -> String { self.content.to_ascii_lowercase() }
    fn frame(&self) -> memvid_core::types::Frame {
        serde_json::from_value(json!({
            "id": 0, "timestamp": self.timestamp, "kind": null, "track": self.track,
            "payload_offset": 0, "payload_length": 0, "checksum": vec![0u8; 32],
            "uri": self.uri, "tags": self.tags, "labels": self.labels, "content_dates": self.dates,
        })).expect("frame from json")
    }
    fn to_json(&self) -> Value {
        json!({"content": self.content, "uri": self.uri, "track": self.track, "tags": self.tags,
               "labels": self.labels, "timestamp": self.timestamp, "dates": self.dates})
    }
    fn from_json(v: &Value) -> Doc {
        let strs = |k: &str| v[k].as_array().map(|a| a.iter().map(|x| x.as_str().unwrap().to_string()).collect()).unwrap_or_default();
        Doc {
            content: v["content"].as_str().unwrap_or("").to_string(),
            uri: v["uri"].as_str().map(str::to_string),
            track: v["track"].as_str().map(str::to_string),
            tags: strs("tags"), labels: strs("labels"),
            timestamp: v["timestamp"].as_i64().unwrap_or(0),
            dates: strs("dates"),
        }
    }
    fn wire(&self) -> String {
        format!("{} {} {} {} {} {} {}", hx(&self.content_lower()), hx_opt(&self.uri), hx_opt(&self.track),
                hx_list(&self.tags), hx_list(&self.labels), self.timestamp, hx_list(&self.dates))
    }
}

const VOCAB: &[&str] = &["alpha", "beta", "gamma", "delta", "x-ray", "ratio:1:2", "é中", "zeta9", "and", "not", "irr:", "a.b"];
const URIS: &[&str] = &["mv2://docs/a.md", "mv2://Docs/B.md", "MV2://X", "file:///tmp/é", "mv2://docs/sub dir/c.md", ""];
const TRACKS: &[&str] = &["main", "Dev", "é", "release 1"];
const TAGS: &[&str] = &["Important", "todo", "x y", "é", "A(b)", ""];
const DATES: &[&str] = &["2024-01-15", "2023", "junk", "2024-02-30", "\"2022-05\"", "*", "1999-12-31", "2024-12"];
const TS: &[i64] = &[0, 1705276800, 1705276799, 1705276801, 1672531200, 1704067200, 946598400, -86400, 1735603200];

fn mix_case(rng: &mut Rng, s: &str) -> String {
    match rng.below(4) {
        0 => s.to_ascii_uppercase(),
        1 => s.chars().enumerate().map(|(i, c)| if i % 2 == 0 { c.to_ascii_uppercase() } else { c }).collect(),
        _ => s.to_string(),
    }
}

fn gen_doc(rng: &mut Rng) -> Doc {
    let n = rng.usize(0, 6);
    let mut content = String::new();
    for i in 0..n {
        if i > 0 { content.push_str(*rng.pick(&[" ", " ", "\n", ", ", "  "][..])); }
        let base = *rng.pick(VOCAB);
        let w = mix_case(rng, base);
        content.push_str(&w);
    }
    let sub = |rng: &mut Rng, pool: &[&str]| -> Vec<String> {
        pool.iter().filter(|_| rng.chance(1, 3)).map(|s| s.to_string()).collect()
    };
    Doc {
        content,
        uri: if rng.chance(1, 5) { None } else { Some(rng.pick(URIS).to_string()) },
        track: if rng.chance(1, 3) { None } else { Some(rng.pick(TRACKS).to_string()) },
        tags: sub(rng, TAGS),
        labels: sub(rng, TAGS),
        timestamp: *rng.pick(TS),
        dates: sub(rng, DATES),
    }
}

// ---------------------------------------------------------------------------------------------
// reference ASTs
#[derive(Clone, Debug)]
enum Ast {
    Word(String),
    Phrase(String),
    Field(&'static str, String),
    Date(String, String),
    Not(Box<Ast>),
    And(Box<Ast>, Box<Ast>),
    Or(Box<Ast>, Box<Ast>),
}

fn ast_to_json(a: &Ast) -> Value {
    match a {
        Ast::Word(w) => json!({"word": w}),
        Ast::Phrase(p) => json!({"phrase": p}),
        Ast::Field(k, v) => json!({"field": k, "value": v}),
        Ast::Date(s, e) => json!({"date": [s, e]}),
        Ast::Not(x) => json!({"not": ast_to_json(x)}),
        Ast::And(x, y) => json!({"and": [ast_to_json(x), ast_to_json(y)]}),
        Ast::Or(x, y) => json!({"or": [ast_to_json(x), ast_to_json(y)]}),
    }
}

fn ast_from_json(v: &Value) -> Option<Ast> {
    let s = |x: &Value| x.as_str().map(str::to_string);
    if let Some(w) = v.get("word") { return Some(Ast::Word(s(w)?)); }
    if let Some(w) = v.get("phrase") { return Some(Ast::Phrase(s(w)?)); }
    if let Some(k) = v.get("field") {
        let k = ["uri", "scope", "track", "tag", "label"].into_iter().find(|x| Some(*x) == k.as_str())?;
        return Some(Ast::Field(k, s(&v["value"])?));
    }
    if let Some(d) = v.get("date") { return Some(Ast::Date(s(&d[0])?, s(&d[1])?)); }
    if let Some(x) = v.get("not") { return Some(Ast::Not(Box::new(ast_from_json(x)?))); }
    if let Some(x) = v.get("and") { return Some(Ast::And(Box::new(ast_from_json(&x[0])?), Box::new(ast_from_json(&x[1])?))); }
    if let Some(x) = v.get("or") { return Some(Ast::Or(Box::new(ast_from_json(&x[0])?), Box::new(ast_from_json(&x[1])?))); }
    None
}

fn is_break(c: char) -> bool { c.is_whitespace() || c == '(' || c == ')' }

const KNOWN: &[&str] = &["uri", "scope", "track", "tag", "label", "date"];

/// a bare word the reference semantics covers: written as is, it is one Word token that
/// `from_word` keeps unchanged up to ASCII case
fn word_ok(w: &str) -> bool {
    let cs: Vec<char> = w.chars().collect();
    if cs.is_empty() || cs.iter().any(|c| is_break(*c) || *c == '*' || *c == '?') { return false; }
    if cs[0] == '"' || !cs[0].is_alphanumeric() || !cs[cs.len() - 1].is_alphanumeric() { return false; }
    if ["AND", "and", "OR", "or", "NOT", "not"].contains(&w) { return false; }
    if let Some(i) = w.find(':') {
        if KNOWN.contains(&w[..i].to_ascii_lowercase().as_str()) { return false; }
    }
    true
}

fn gen_leaf(rng: &mut Rng) -> Ast {
    match rng.below(10) {
        0..=3 => loop {
            let base = match rng.below(6) {
                0 => "omega".to_string(),
                1 => rng.pick(&["And", "nOT", "Or", "ANd", "to", "tagx:y", "uris:1", "É", "a\"b", "x-", "ß²"]).to_string(),
                2 => { let v = rng.pick(VOCAB); v[..v.char_indices().nth(rng.usize(1, 3)).map(|x| x.0).unwrap_or(v.len())].to_string() }
                _ => rng.pick(VOCAB).to_string(),
            };
            let w = mix_case(rng, &base);
            if word_ok(&w) { return Ast::Word(w); }
        },
        4 | 5 => {
            let p = match rng.below(5) {
                0 => String::new(),
                1 => rng.pick(&["alpha (beta", "a:b", "AND", "gamma)", " beta", "é中", "tag:x"]).to_string(),
                _ => {
                    let a = *rng.pick(VOCAB); let b = *rng.pick(VOCAB);
                    let joined = format!("{a}{}{b}", rng.pick(&[" ", "\n", ", ", ""][..]));
                    mix_case(rng, &joined)
                }
            };
            Ast::Phrase(p)
        }
        6 | 7 | 8 => {
            let (k, pool): (&'static str, &[&str]) = match rng.below(5) {
                0 => ("uri", URIS), 1 => ("scope", URIS), 2 => ("track", TRACKS), 3 => ("tag", TAGS), _ => ("label", TAGS),
            };
            let mut v = rng.pick(pool).to_string();
            if k == "scope" {
                let n = v.chars().count();
                let cut = rng.usize(0, n);
                v = v.chars().take(cut).collect();
            }
            if rng.chance(1, 8) { v.push('x'); }
            Ast::Field(k, mix_case(rng, &v))
        }
        _ => {
            let pool = ["*", "2024", "2024-01-15", "2023-12", "1999-12-31", "2024-01-16", "2023-01-01", "0001-01-01", "9999-12-31"];
            Ast::Date(rng.pick(&pool).to_string(), rng.pick(&pool).to_string())
        }
    }
}

fn gen_ast(rng: &mut Rng, depth: usize) -> Ast {
    if depth == 0 || rng.chance(1, 4) { return gen_leaf(rng); }
    match rng.below(7) {
        0 | 1 => Ast::Not(Box::new(gen_ast(rng, depth - 1))),
        2 | 3 | 4 => Ast::And(Box::new(gen_ast(rng, depth - 1)), Box::new(gen_ast(rng, depth - 1))),
        _ => Ast::Or(Box::new(gen_ast(rng, depth - 1)), Box::new(gen_ast(rng, depth - 1))),
    }
}

fn sp(rng: &mut Rng) -> &'static str {
    *rng.pick(&[" ", " ", " ", "  ", "\t", "\u{a0}", " \n", "\u{3000}"])
}

/// independent printer: parentheses where precedence demands (NOT > AND > OR), plus optional
/// redundant ones; random keyword case, implicit AND, spacing, field-name case, value quoting
fn print_ast(rng: &mut Rng, a: &Ast, ctx: u8, out: &mut String) {
    // ctx: 0 = OR operand / top, 1 = AND operand, 2 = NOT operand
    let level = match a { Ast::Or(..) => 0, Ast::And(..) => 1, _ => 2 };
    let paren = level < ctx || rng.chance(1, 12);
    if paren {
        out.push('(');
        if rng.chance(1, 3) { out.push_str(sp(rng)); }
    }
    let inner = if paren { 0 } else { ctx };
    match a {
        Ast::Word(w) => out.push_str(w),
        Ast::Phrase(p) => { out.push('"'); out.push_str(p); out.push('"'); }
        Ast::Field(k, v) => {
            out.push_str(&mix_case(rng, k));
            out.push(':');
            let bare_ok = !v.chars().any(|c| is_break(c) || c == '"') && !v.is_empty();
            if bare_ok && rng.bool() { out.push_str(v); } else { out.push('"'); out.push_str(v); out.push('"'); }
        }
        Ast::Date(s, e) => {
            out.push_str(&mix_case(rng, "date"));
            out.push_str(":[");
            if rng.chance(1, 4) { out.push_str(sp(rng)); }
            out.push_str(s); out.push_str(sp(rng));
            out.push_str(*rng.pick(&["TO", "to", "To"]));
            out.push_str(sp(rng)); out.push_str(e);
            if rng.chance(1, 4) { out.push(' '); }
            out.push(']');
        }
        Ast::Not(x) => {
            out.push_str(*rng.pick(&["NOT", "not"]));
            out.push_str(sp(rng));
            print_ast(rng, x, 2, out);
        }
        Ast::And(x, y) => {
            let _ = inner;
            print_ast(rng, x, 1, out);
            out.push_str(sp(rng));
            if rng.bool() { out.push_str(*rng.pick(&["AND", "and"])); out.push_str(sp(rng)); }
            // right operand: AND is associative, so a nested AND may go unparenthesised
            let rctx = if matches!(**y, Ast::And(..)) && rng.bool() { 1 } else { 2 };
            print_ast(rng, y, rctx, out);
        }
        Ast::Or(x, y) => {
            print_ast(rng, x, 0, out);
            out.push_str(sp(rng));
            out.push_str(*rng.pick(&["OR", "or"]));
            out.push_str(sp(rng));
            let rctx = if matches!(**y, Ast::Or(..)) && rng.bool() { 0 } else { 1 };
            print_ast(rng, y, rctx, out);
        }
    }
    if paren {
        if rng.chance(1, 3) { out.push_str(sp(rng)); }
        out.push(')');
    }
}

// ---------------------------------------------------------------------------------------------
// reference semantics (independent of model and implementation)
fn days_from_civil(y: i64, m: i64, d: i64) -> i64 {
    let y = if m <= 2 { y - 1 } else { y };
    let era = if y >= 0 { y } else { y - 399 } / 400;
    let yoe = y - era * 400;
    let doy = (153 * ((m + 9) % 12) + 2) / 5 + d - 1;
    let doe = yoe * 365 + yoe / 4 - yoe / 100 + doy;
    era * 146097 + doe - 719468
}

/// calendar dates `YYYY`, `YYYY-MM`, `YYYY-MM-DD` → midnight UTC; anything else: no date
fn ref_date(s: &str) -> Option<i64> {
    let s = s.trim_matches('"');
    let parts: Vec<&str> = s.split('-').collect();
    let num = |p: &str| -> Option<i64> {
        if p.is_empty() || !p.bytes().all(|b| b.is_ascii_digit()) { None } else { p.parse().ok() }
    };
    let (y, m, d) = match parts.len() {
        1 => { if s.len() != 4 { return None; } (num(parts[0])?, 1, 1) }
        2 => (num(parts[0])?, num(parts[1])?, 1),
        3 => (num(parts[0])?, num(parts[1])?, num(parts[2])?),
        _ => return None,
    };
    if !(0..=9999).contains(&y) || !(1..=12).contains(&m) { return None; }
    let leap = (y % 4 == 0 && y % 100 != 0) || y % 400 == 0;
    let dim = match m { 2 => if leap { 29 } else { 28 }, 4 | 6 | 9 | 11 => 30, _ => 31 };
    if d < 1 || d > dim { return None; }
    Some(days_from_civil(y, m, d) * 86400)
}

fn eq_ci(a: &str, b: &str) -> bool { a.to_ascii_lowercase() == b.to_ascii_lowercase() }

fn eval_ref(a: &Ast, d: &Doc) -> bool {
    match a {
        Ast::Word(w) | Ast::Phrase(w) => d.content_lower().contains(&w.to_ascii_lowercase()),
        Ast::Field(k, v) => match *k {
            "uri" => d.uri.as_deref().is_some_and(|u| eq_ci(u, v)),
            "scope" => d.uri.as_deref().is_some_and(|u| u.to_ascii_lowercase().starts_with(&v.to_ascii_lowercase())),
            "track" => d.track.as_deref().is_some_and(|t| eq_ci(t, v)),
            "tag" => d.tags.iter().any(|t| eq_ci(t, v)),
            "label" => d.labels.iter().any(|t| eq_ci(t, v)),
            _ => unreachable!(),
        },
        Ast::Date(s, e) => {
            let lo = if s == "*" { None } else { ref_date(s) };
            let hi = if e == "*" { None } else { ref_date(e) };
            if lo.is_none() && hi.is_none() { return true; }
            let mut cands = vec![d.timestamp];
            cands.extend(d.dates.iter().filter(|x| x.as_str() != "*").filter_map(|x| ref_date(x)));
            cands.into_iter().any(|t| lo.is_none_or(|l| t >= l) && hi.is_none_or(|h| t <= h))
        }
        Ast::Not(x) => !eval_ref(x, d),
        Ast::And(x, y) => eval_ref(x, d) && eval_ref(y, d),
        Ast::Or(x, y) => eval_ref(x, d) || eval_ref(y, d),
    }
}

fn ast_has(a: &Ast, f: &dyn Fn(&Ast) -> bool) -> bool {
    if f(a) { return true; }
    match a {
        Ast::Not(x) => ast_has(x, f),
        Ast::And(x, y) | Ast::Or(x, y) => ast_has(x, f) || ast_has(y, f),
        _ => false,
    }
}

/// is the scope-case defect in play for this AST/doc?  (scope value matches the URI prefix only
/// when case is ignored)
fn scope_case_sensitive_hit(a: &Ast, d: &Doc) -> bool {
    ast_has(a, &|x| match x {
        Ast::Field("scope", v) => d.uri.as_deref().is_some_and(|u| {
            u.to_ascii_lowercase().starts_with(&v.to_ascii_lowercase()) && !u.starts_with(&v.to_ascii_lowercase())
        }),
        _ => false,
    })
}

// ---------------------------------------------------------------------------------------------
// random strings / token soup
const SINGLES: &[&str] = &["(", ")", "(", ")", "\"", ":", "[", "]", "*", "?", "-", " ", " ", " ", "\t", "\u{a0}", "\u{3000}", "\n", "\u{200b}"];
const WORDS: &[&str] = &["a", "b", "ab", "A", "Zeta", "AND", "and", "OR", "or", "NOT", "not", "And", "nOT", "TO", "to", "alpha", "beta"];
const FIELDS: &[&str] = &["uri", "scope", "track", "tag", "label", "date", "Tag", "DATE", "uri:", "tag:", "date:[", "date:", "title:", "label:\"", "scope:mv2://"];
const DATEBITS: &[&str] = &["2024", "2024-01-15", "2023-12", "*", "99999", "2024-02-30", "+2024-1-1", "10000-01-01", "2024-13", "0000"];
const UNI: &[&str] = &["é", "É", "ß", "中", "λ", "Ж", "٣", "²", "×", "—"];

fn gen_string(rng: &mut Rng) -> String {
    let n = rng.usize(0, 14);
    let mut s = String::new();
    for _ in 0..n {
        let piece = match rng.below(10) {
            0..=3 => rng.pick(SINGLES),
            4 | 5 => rng.pick(WORDS),
            6 => rng.pick(FIELDS),
            7 => rng.pick(DATEBITS),
            8 => rng.pick(UNI),
            _ => rng.pick(&[" ", " "][..]),
        };
        s.push_str(piece);
    }
    s
}

const SOUP: &[&str] = &["(", ")", "(", ")", "AND", "OR", "NOT", "and", "or", "not", "alpha", "Beta", "x-ray", "\"alpha beta\"",
    "\"\"", "tag:todo", "Tag:\"x y\"", "uri:MV2://x", "scope:mv2://docs", "track:main", "label:É", "date:[2024 TO *]",
    "date:[* to 2023-12]", "date:[2024-01-15 TO 2024-01-15]", "date:2024", "date:[a b]", "date:[", "title:x", "mach*", "g?mma",
    "machine?", "-", "---", "?", "*", "(alpha)", "gamma)", "\"open", "tag:", "tag:\"a", "ratio:1:2", "uri:\"mv2://Docs/B.md\"",
    "label:(x)", "é中", "date:[\"2024\" TO \"*\"]", "date:[2023-01-01   TO\t2024-12-31]", "DATE:[2024 TO 2025]extra"];

fn gen_soup(rng: &mut Rng) -> String {
    let n = rng.usize(1, 10);
    let mut s = String::new();
    for i in 0..n {
        if i > 0 && !rng.chance(1, 6) { s.push_str(sp(rng)); }
        s.push_str(*rng.pick(SOUP));
    }
    s
}

// ---------------------------------------------------------------------------------------------
// one case: query (+ optional AST) against a document
struct Ctx<'a> {
    drv: Option<&'a mut Driver>,
    known: Vec<String>,
}

fn impl_parse(q: &str) -> Result<String, String> {
    match guarded({ let q = q.to_string(); move || hooks::parse_query_sexpr(&q) }) {
        Ok(Ok(s)) => Ok(format!("ok {s}")),
        Ok(Err(e)) => Ok(format!("err {}", if e.starts_with("Invalid query: ") { err_class(&e) } else { format!("NOT-INVALID-QUERY:{e}") })),
        Err(p) => Err(p),
    }
}

fn impl_eval(q: &str, d: &Doc) -> Result<String, String> {
    let frame = d.frame();
    let cl = d.content_lower();
    match guarded({ let q = q.to_string(); move || hooks::query_matches(&q, &frame, &cl) }) {
        Ok(Ok(b)) => Ok(format!("ok {b}")),
        Ok(Err(e)) => Ok(format!("err {}", err_class(&e))),
        Err(p) => Err(p),
    }
}

fn impl_tokens(q: &str) -> Result<String, String> {
    match guarded({ let q = q.to_string(); move || hooks::query_text_tokens(&q) }) {
        Ok(Ok(t)) => Ok(format!("ok {}", hx_list(&t))),
        Ok(Err(e)) => Ok(format!("err {}", err_class(&e))),
        Err(p) => Err(p),
    }
}

fn run_case(q: &str, ast: Option<&Ast>, d: &Doc, cx: &mut Ctx, sum: &mut Summary, verbose: bool) {
    let case = json!({"query": q, "doc": d.to_json(), "ast": ast.map(ast_to_json)});
    // (1) real code
    let parsed = impl_parse(q);
    let verdict = impl_eval(q, d);
    let tokens = impl_tokens(q);
    if verbose {
        println!("query : {q:?}");
        println!("impl  : parse={parsed:?} eval={verdict:?} tokens={tokens:?}");
    }
    // (4a) totality oracle
    let (parsed, verdict, tokens) = match (parsed, verdict, tokens) {
        (Ok(p), Ok(v), Ok(t)) => (p, v, t),
        (p, v, t) => {
            sum.oracle_violation("query-panics", &format!("panic: parse={p:?} eval={v:?} tokens={t:?}"), case.clone());
            sum.case(q, false, || json!({}));
            return;
        }
    };
    if parsed.contains("NOT-INVALID-QUERY") {
        sum.oracle_violation("parse-error-is-not-invalid-query", &parsed, case.clone());
    }
    let ok = parsed.starts_with("ok ");
    if ok { sum.branch("parse-ok"); } else { sum.branch(&format!("parse-{}", &parsed[4..].split(':').next().unwrap_or("err"))); }
    if ok != verdict.starts_with("ok ") || ok != tokens.starts_with("ok ") {
        sum.oracle_violation("parse-and-evaluate-disagree-on-validity", &format!("parse={parsed} eval={verdict} tokens={tokens}"), case.clone());
    }
    for tag in ["(or ", "(and ", "(not ", "(w ", "(p ", "(wild ", "(uri ", "(scope ", "(track ", "(tag ", "(label ", "(date ", "(w -)"] {
        if parsed.contains(tag) { sum.branch(&format!("ast-{}", tag.trim_matches(|c| c == '(' || c == ' ' || c == ')'))); }
    }
    // (2)+(3) model
    let mut model_verdict = None;
    if let Some(drv) = cx.drv.as_deref_mut() {
        let mp = drv.ask(&format!("parse {}", hx(q)));
        let mv = drv.ask(&format!("eval {} {}", hx(q), d.wire()));
        let mt = drv.ask(&format!("tokens {}", hx(q)));
        let ml = drv.ask(&format!("left {}", hx(q)));
        if verbose { println!("model : parse={mp:?} eval={mv:?} tokens={mt:?} left={ml:?}"); }
        if mp != parsed { sum.disagreement("parse_query vs model parse", case.clone(), &mp, &parsed); }
        if mv != verdict { sum.disagreement("evaluate vs model eval", case.clone(), &mv, &verdict); }
        if mt != tokens { sum.disagreement("text_tokens vs model tokens", case.clone(), &mt, &tokens); }
        if ml.starts_with("ok ") && ml != "ok 0" { sum.branch("trailing-tokens-dropped"); }
        model_verdict = Some(mv);
    }
    // (4b) semantics oracle
    let mut nontrivial = ok && (parsed.contains("(and ") || parsed.contains("(or ") || parsed.contains("(not "));
    if let Some(a) = ast {
        let want = format!("ok {}", eval_ref(a, d));
        if verbose { println!("ref   : {want}"); }
        sum.branch(if want == "ok true" { "ref-true" } else { "ref-false" });
        nontrivial = true;
        if verdict != want {
            let sig = if scope_case_sensitive_hit(a, d) { "scope-prefix-compared-case-sensitively" } else { "verdict-differs-from-reference-semantics" };
            let what = format!("query {q:?}: implementation says {verdict}, reference semantics of the AST says {want}");
            if cx.known.iter().any(|k| k == sig) && model_verdict.as_deref() == Some(verdict.as_str()) {
                sum.known_finding(sig, &what, case.clone());
            } else {
                sum.oracle_violation(sig, &what, case.clone());
            }
        }
    }
    let canon = format!("{q}|{}", d.to_json());
    sum.case(&canon, nontrivial, || json!({"query": q, "parse": parsed, "verdict": verdict}));
}

// ---------------------------------------------------------------------------------------------
// pathological nesting in a child process
fn deep_query(kind: &str, n: usize) -> String {
    match kind {
        "paren" => format!("{}a{}", "(".repeat(n), ")".repeat(n)),
        "paren-open" => "(".repeat(n),
        "not" => format!("{}a", "NOT ".repeat(n)),
        "not-paren" => format!("{}a{}", "NOT (".repeat(n), ")".repeat(n)),
        "and-chain" => vec!["a"; n.max(1)].join(" "),
        "or-chain" => vec!["a"; n.max(1)].join(" OR "),
        "rparen" => format!("a{}", ")".repeat(n)),
        _ => "a".into(),
    }
}

fn child_main(kind: &str, n: usize) -> ! {
    let q = deep_query(kind, n);
    match hooks::parse_query_status(&q) {
        Ok(()) => println!("ok"),
        Err(e) => println!("err {}", if e.starts_with("Invalid query: ") { err_class(&e) } else { format!("NOT-INVALID-QUERY:{e}") }),
    }
    std::process::exit(0);
}

/// "ok" | "err <class>" | "abort <status>"
fn run_child(kind: &str, n: usize) -> String {
    let exe = std::env::current_exe().expect("current_exe");
    let out = Command::new(exe).args(["child", kind, &n.to_string()]).output().expect("spawn child");
    if out.status.success() {
        String::from_utf8_lossy(&out.stdout).trim().to_string()
    } else {
        let err = String::from_utf8_lossy(&out.stderr);
        let why = if err.contains("overflowed its stack") { "stack overflow" } else { "crash" };
        format!("abort {why} ({})", out.status)
    }
}

fn model_deep(kind: &str, n: usize, drv: &mut Driver) -> String {
    let a = drv.ask(&format!("parse {}", hx(&deep_query(kind, n))));
    if a.starts_with("ok") { "ok".into() } else { a }
}

fn run_deep(kind: &str, n: usize, last_ok: usize, cx: &mut Ctx, sum: &mut Summary) -> String {
    let r = run_child(kind, n);
    sum.branch(&format!("deep-{}", r.split(' ').next().unwrap()));
    let case = json!({"deep": {"kind": kind, "depth": n}});
    if r.starts_with("abort") {
        // report the smallest aborting depth (bisection between the last depth that survived and n)
        let (mut lo, mut hi) = (last_ok, n);
        while hi - lo > 1 {
            let mid = lo + (hi - lo) / 2;
            if run_child(kind, mid).starts_with("abort") { hi = mid } else { lo = mid }
        }
        sum.oracle_violation("deep-nesting-aborts-process",
            &format!("parse_query on {kind} nesting of depth {hi} ({} bytes of query) kills the process: {r}; depth {lo} still returns (8 MiB main-thread stack, debug build)", deep_query(kind, hi).len()),
            json!({"deep": {"kind": kind, "depth": hi}}));
    } else if r.contains("NOT-INVALID-QUERY") {
        sum.oracle_violation("parse-error-is-not-invalid-query", &r, case.clone());
    } else if n <= 3000 {
        if let Some(drv) = cx.drv.as_deref_mut() {
            let m = model_deep(kind, n, drv);
            if m != r { sum.disagreement("deep nesting: parse_query vs model", case.clone(), &m, &r); }
        }
    }
    sum.case(&format!("deep|{kind}|{n}"), true, || json!({"deep": kind, "depth": n, "result": r}));
    r
}

// ---------------------------------------------------------------------------------------------
fn check_tables(drv: &mut Driver, sum: &mut Summary) {
    // the Unicode tables of the model instance agree with std on the domain the generators use
    let mut chars: Vec<char> = (0u32..=0xFF).filter_map(char::from_u32).collect();
    for pool in [SINGLES, WORDS, FIELDS, DATEBITS, UNI, SOUP, VOCAB, URIS, TRACKS, TAGS, DATES] {
        for s in pool { chars.extend(s.chars()); }
    }
    chars.extend("\u{3000}\u{a0}\u{2003}\u{200b}".chars());
    chars.sort(); chars.dedup();
    for c in chars {
        let want = format!("{} {}", c.is_whitespace() as u8, c.is_alphanumeric() as u8);
        let got = drv.ask(&format!("class {}", c as u32));
        if want != got {
            sum.disagreement("char classification (is_whitespace, is_alphanumeric) vs model tables", json!({"char": c as u32}), &got, &want);
        }
    }
    for s in DATEBITS.iter().chain(DATES.iter()).chain(["", "\"\"", "\"*\"", "2024-1", "2024-00", "2024-01-00", "1970-01-01", "0000-01-01", "9999-12-31", "2000-02-29", "1900-02-29", "2024-+1-+1", "256-1-1", "2024-256-1", "２０２４"].iter()) {
        let want = hooks::parse_date_value(s).map_or("none".to_string(), |v| v.to_string());
        let got = drv.ask(&format!("date {}", hx(s)));
        if want != got {
            sum.disagreement("parse_date_value vs model", json!({"date": s}), &got, &want);
        }
        let r = ref_date(s).filter(|_| s.trim_matches('"') != "*");
        if s.bytes().all(|b| b.is_ascii_digit() || b == b'-') && hooks::parse_date_value(s) != r {
            sum.oracle_violation("date-value-differs-from-calendar", &format!("{s:?}: impl {:?} reference {r:?}", hooks::parse_date_value(s)), json!({"date": s}));
        }
    }
}

fn corpus() -> Vec<(String, Doc)> {
    let d0 = Doc { content: "Alpha beta\ngamma x-ray".into(), uri: Some("mv2://Docs/B.md".into()), track: Some("Dev".into()),
        tags: vec!["Important".into(), "x y".into()], labels: vec!["todo".into()], timestamp: 1705276800, dates: vec!["2023".into(), "junk".into()] };
    let qs = ["", " ", "a", "a ) b", "a ) OR b", ")", "(", "()", "( )", "a OR", "OR a", "AND", "NOT", "NOT NOT alpha", "a AND AND b",
        "alpha beta", "alpha OR beta gamma", "NOT alpha OR beta", "NOT (alpha OR omega) gamma", "(alpha beta) gamma", "(alpha OR beta) OR gamma",
        "alpha (beta gamma)", "\"alpha beta\"", "\"unterminated", "tag:important", "TAG:\"X Y\"", "tag:\"x y", "uri:mv2://docs/b.md",
        "scope:mv2://Docs", "scope:mv2://docs", "scope:\"\"", "track:dev", "label:TODO", "date:[2024 TO 2024-12-31]", "date:[* TO *]",
        "date:[2023 to 2023]", "date:[2024]", "date:[", "date:2024", "date:\"x\"", "Date:[a TO b]x", "title:foo", "ratio:1:2", "LP IRR: percentage",
        "-", "-- ---", "machine?", "g*mma", "al?ha*", "*", "?", "a\"b", "(a)(b)", "a(b)c", "tag:a(b)", "tag:(", "alpha\u{a0}beta", "alpha\u{200b}beta",
        "And Or Not", "and", "a and b or c", "É", "\"ÉA\"", "tag:\"\"x\"\"", "date:[\"2024\" TO *]"];
    qs.iter().map(|q| (q.to_string(), d0.clone())).collect()
}

fn main() {
    let argv: Vec<String> = std::env::args().collect();
    if argv.get(1).map(String::as_str) == Some("child") {
        child_main(&argv[2], argv[3].parse().expect("depth"));
    }
    let args = parse_args();
    let use_model = args.driver.as_os_str() != "none";
    let mut drv = if use_model { Some(Driver::spawn(&args.driver).expect("spawn driver")) } else { None };
    let known: Vec<String> = args.extra.get("known").map(|s| s.split(',').map(str::to_string).collect()).unwrap_or_default();
    let mut sum = Summary::new("C32", &args,
        "four streams: fixed corpus; random strings over an alphabet rich in ( ) \" : [ ] * ? AND OR NOT, field names, dates, \
         Unicode spaces/letters; token soup; random well-formed ASTs (depth<=4/6) printed by an independent printer (random \
         keyword case, implicit AND, redundant parentheses, spacing, quoting) against random documents; plus pathological \
         nesting (depth 10..200000 of '(' / NOT / chains) in a child process. non-trivial = parses to an AST with an \
         operator, or AST-generated, or a deep-nesting run; distinct = query text + document");
    sum.expect_branches(&["parse-ok", "parse-unterminated-quote", "parse-bad-date-range", "parse-unterminated-date-range",
        "parse-expected-rparen", "parse-unexpected-token", "parse-unexpected-end", "parse-unsupported-field",
        "ast-or", "ast-and", "ast-not", "ast-w", "ast-p", "ast-wild", "ast-uri", "ast-scope", "ast-track", "ast-tag", "ast-label",
        "ast-date", "ast-w -", "ref-true", "ref-false", "trailing-tokens-dropped", "deep-ok", "deep-err"]);

    if args.mode == "replay" {
        let case = load_replay(args.replay_file.as_ref().expect("replay file"));
        let input = case.get("input").unwrap_or(&case).clone();
        let mut cx = Ctx { drv: drv.as_mut(), known };
        if let Some(deep) = input.get("deep") {
            let kind = deep["kind"].as_str().unwrap();
            let n = deep["depth"].as_u64().unwrap() as usize;
            let r = run_deep(kind, n, n.saturating_sub(1), &mut cx, &mut sum);
            println!("impl (child process): {kind} x {n} -> {r}");
            if n <= 3000 { if let Some(d) = cx.drv.as_deref_mut() { println!("model: {}", model_deep(kind, n, d)); } }
        } else if let Some(c) = input.get("char") {
            println!("char U+{:04X}: see disagreement record", c.as_u64().unwrap_or(0));
            if let Some(d) = cx.drv.as_deref_mut() { check_tables(d, &mut sum); }
        } else if input.get("date").is_some() {
            if let Some(d) = cx.drv.as_deref_mut() { check_tables(d, &mut sum); }
        } else {
            let q = input["query"].as_str().unwrap();
            let d = Doc::from_json(&input["doc"]);
            let ast = input.get("ast").and_then(ast_from_json);
            if let Some(a) = &ast { println!("ast   : {a:?}"); }
            run_case(q, ast.as_ref(), &d, &mut cx, &mut sum, true);
        }
        sum.model_requests = drv.as_ref().map_or(0, |d| d.requests);
        sum.finish(&args);
    }

    let mut rng = Rng::new(args.seed);
    let mut model_limit: Option<usize> = None;
    if let Some(d) = drv.as_mut() {
        let cfg = d.ask("cfg");
        model_limit = cfg.split(' ').find_map(|kv| kv.strip_prefix("limit=")).and_then(|v| v.parse().ok());
        sum.notes.push(format!("model configuration read from the source tree: {cfg}"));
        check_tables(d, &mut sum);
        if model_limit.is_some() {
            let mut names: Vec<String> = sum.expected_branches.clone();
            names.push("deep-rejected-too-deep".into());
            sum.expected_branches = names;
        }
    }
    let mut cx = Ctx { drv: drv.as_mut(), known };
    // pathological nesting (child process, default 8 MiB main-thread stack)
    let mut depths: Vec<usize> = if args.thorough { vec![10, 63, 64, 65, 100, 127, 128, 129, 500, 1000, 3000, 10_000, 30_000, 100_000, 200_000] }
                                 else { vec![10, 64, 65, 128, 129, 1000, 10_000, 200_000] };
    if let Some(l) = model_limit { depths.extend([l.saturating_sub(1), l, l + 1]); }
    depths.sort(); depths.dedup();
    for kind in ["paren", "paren-open", "not", "not-paren", "and-chain", "or-chain", "rparen"] {
        let mut last_ok = 0usize;
        for &n in &depths {
            let r = run_deep(kind, n, last_ok, &mut cx, &mut sum);
            if r.starts_with("abort") { break; }
            if r == "err too-deep" { sum.branch("deep-rejected-too-deep"); }
            last_ok = n;
        }
    }
    // fixed corpus (contains the witness of the scope defect)
    for (q, d) in corpus() { run_case(&q, None, &d, &mut cx, &mut sum, false); }
    {
        let d = Doc { content: "x".into(), uri: Some("mv2://Docs/a.md".into()), track: None, tags: vec![], labels: vec![], timestamp: 0, dates: vec![] };
        let a = Ast::Field("scope", "mv2://Docs".into());
        run_case("scope:mv2://Docs", Some(&a), &d, &mut cx, &mut sum, false);
    }
    // generated streams
    let (n_str, n_soup, n_ast) = if args.thorough { (20_000, 20_000, 40_000) } else { (2_000, 2_000, 4_000) };
    for _ in 0..n_str {
        let q = gen_string(&mut rng); let d = gen_doc(&mut rng);
        run_case(&q, None, &d, &mut cx, &mut sum, false);
    }
    for _ in 0..n_soup {
        let q = gen_soup(&mut rng); let d = gen_doc(&mut rng);
        run_case(&q, None, &d, &mut cx, &mut sum, false);
    }
    let maxd = if args.thorough { 6 } else { 4 };
    for _ in 0..n_ast {
        let depth = rng.usize(0, maxd);
        let a = gen_ast(&mut rng, depth);
        let mut q = String::new();
        print_ast(&mut rng, &a, 0, &mut q);
        for _ in 0..2 {
            let d = gen_doc(&mut rng);
            run_case(&q, Some(&a), &d, &mut cx, &mut sum, false);
        }
    }
    sum.model_requests = drv.as_ref().map_or(0, |d| d.requests);
    sum.finish(&args);
}
