/- Driver for C32 (query language).  Text travels as lowercase hex of its UTF-8 bytes (`-` = empty).
   requests:
     cfg                                  → limit=<none|N> scope_ci=<true|false>
     class <codepoint>                    → <isWs 0|1> <isAlnum 0|1>
     date <hex>                           → none | <unix seconds>            (parse_date_value)
     parse <hexq>                         → ok <sexpr> | err <class>
     left <hexq>                          → ok <number of tokens parse_expression leaves unconsumed> | err <class>
     tokens <hexq>                        → ok <list> | err <class>          (text_tokens)
     eval <hexq> <content> <uri> <track> <tags> <labels> <timestamp> <dates>
                                          → ok true|false | err <class>
        uri/track: `~` = None; tags/labels/dates: `_` = empty list, else comma separated hex
     sexpr: (or X..) (and X..) (not X) (w H) (p H) (wild H) (uri H) (scope H) (track H) (tag H)
            (label H) (date <start|none> <end|none>) -/
import MvModel.Query
import MvModel.QueryTables
import MvModel.DrvUtil
open Mv Mv.Query

def strOfHex (h : String) : Option Str :=
  match ofHex h with
  | none => none
  | some b => (String.fromUTF8? (ByteArray.mk b.toArray)).map String.toList

def hexOfStr (s : Str) : String := toHexW (String.ofList s).toUTF8.toList

def listOfHex (h : String) : Option (List Str) :=
  if h == "_" then some [] else (h.splitOn ",").mapM strOfHex

def optOfHex (h : String) : Option (Option Str) :=
  if h == "~" then some none else (strOfHex h).map some

def showErr : Err → String
  | .unterminatedQuote => "unterminated-quote"
  | .badDateRange => "bad-date-range"
  | .unterminatedDateRange => "unterminated-date-range"
  | .expectedRParen => "expected-rparen"
  | .unexpectedToken => "unexpected-token"
  | .unexpectedEnd => "unexpected-end"
  | .unsupportedField => "unsupported-field"
  | .unexpectedDateField => "unexpected-date-field"
  | .tooDeep => "too-deep"
  | .fuel => "MODEL-FUEL"

def showBound : Option Int → String
  | none => "none"
  | some v => toString v

def showKind : FieldKind → String
  | .uri => "uri" | .scope => "scope" | .track => "track" | .tag => "tag" | .label => "label"

def showTerm : Term → String
  | .word w => s!"(w {hexOfStr w})"
  | .phrase p => s!"(p {hexOfStr p})"
  | .wildcard r => s!"(wild {hexOfStr r})"
  | .field k v => s!"({showKind k} {hexOfStr v})"
  | .date s e => s!"(date {showBound s} {showBound e})"

mutual
def showExpr : Expr → String
  | .or l => "(or" ++ showList l ++ ")"
  | .and l => "(and" ++ showList l ++ ")"
  | .not e => "(not " ++ showExpr e ++ ")"
  | .term t => showTerm t
def showList : List Expr → String
  | [] => ""
  | e :: es => " " ++ showExpr e ++ showList es
end

def showStrs (l : List Str) : String :=
  if l.isEmpty then "_" else ",".intercalate (l.map hexOfStr)

def step (_ : Unit) (ws : List String) : Unit × String :=
  match ws with
  | ["cfg"] =>
    ((), s!"limit={match cfgGen.limit with | none => "none" | some n => toString n} scope_ci={cfgGen.scopeCI}")
  | ["class", n] =>
    match n.toNat? with
    | some n => let c := Char.ofNat n; ((), s!"{if T0.isWs c then 1 else 0} {if T0.isAlnum c then 1 else 0}")
    | none => ((), "bad-op")
  | ["date", h] =>
    match strOfHex h with
    | some s => ((), showBound (parseDateValue T0 s))
    | none => ((), "bad-op")
  | ["parse", h] =>
    match strOfHex h with
    | some q => match parse T0 cfgGen q with
      | .ok e => ((), "ok " ++ showExpr e)
      | .error e => ((), "err " ++ showErr e)
    | none => ((), "bad-op")
  | ["left", h] =>
    match strOfHex h with
    | some q => match lex T0 q with
      | .error e => ((), "err " ++ showErr e)
      | .ok ts => match parseLeftover T0 cfgGen.limit ts with
        | .ok r => ((), s!"ok {r.length}")
        | .error e => ((), "err " ++ showErr e)
    | none => ((), "bad-op")
  | ["tokens", h] =>
    match strOfHex h with
    | some q => match parse T0 cfgGen q with
      | .ok e => ((), "ok " ++ showStrs e.tokens)
      | .error e => ((), "err " ++ showErr e)
    | none => ((), "bad-op")
  | ["eval", h, content, uri, track, tags, labels, ts, dates] =>
    match strOfHex h, strOfHex content, optOfHex uri, optOfHex track, listOfHex tags, listOfHex labels,
          parseInt ts, listOfHex dates with
    | some q, some content, some uri, some track, some tags, some labels, some ts, some dates =>
      let d : Doc := { content, uri, track, tags, labels, timestamp := ts, contentDates := dates }
      match queryMatches T0 cfgGen q d with
      | .ok b => ((), s!"ok {b}")
      | .error e => ((), "err " ++ showErr e)
    | _, _, _, _, _, _, _, _ => ((), "bad-op")
  | _ => ((), "bad-op")

def main : IO Unit := runDriver () step
