#!/usr/bin/env python3
"""C30: file-format codec constants and the bincode schema of `Toc`.

Writes two files:
  Gen/C30.lean     header field offsets / magics / versions / limits  (src/constants.rs,
                   src/io/header.rs, src/lib.rs, src/types/manifest.rs, src/types/frame.rs)
  Gen/C30Toc.lean  `Mv.Bincode.Schema` of `Toc`, `LegacyTocV2`, `LegacyTocV1` and everything
                   reachable from them, derived from the struct/enum definitions and their serde
                   attributes (src/types/*.rs, src/toc.rs, src/clip.rs, src/replay/types.rs)
"""
import re
from common import *

# ----------------------------------------------------------------------------- constants

def version_expr(src, name):
    """`((SPEC_MAJOR as u16) << 8) | SPEC_MINOR as u16` -> the shape is checked, value computed"""
    e = re.sub(r"\s+", "", const_expr(src, name))
    if e != "((SPEC_MAJORasu16)<<8)|SPEC_MINORasu16":
        raise TranslateError(f"{name} has an unexpected shape: {e}")
    return True


def gen_consts():
    c = read("src/constants.rs")
    h = read("src/io/header.rs")
    lib = read("src/lib.rs")
    magic = const_bytes(c, "MAGIC")
    header_size = const_int(c, "HEADER_SIZE")
    ti_magic = const_bytes(c, "TIME_INDEX_MAGIC")
    major = const_int(c, "SPEC_MAJOR")
    minor = const_int(c, "SPEC_MINOR")
    wal_offset = const_int(c, "WAL_OFFSET", {"HEADER_SIZE": header_size})
    version_expr(h, "EXPECTED_VERSION")
    expected_version = (major << 8) | minor
    names = ["VERSION_OFFSET", "SPEC_BYTES_OFFSET", "FOOTER_OFFSET_POS", "WAL_OFFSET_POS", "WAL_SIZE_POS",
             "WAL_CHECKPOINT_POS", "WAL_SEQUENCE_POS", "TOC_CHECKSUM_POS", "TOC_CHECKSUM_END"]
    env = {}
    lines = []
    for n in names:
        env[n] = const_int(h, n, env)
        lines.append(f"def {n} : Nat := {env[n]}")
    # the widths the encoder writes at each offset: checked against the source text
    hs = re.sub(r"\s+", "", strip_comments(h))
    for frag in ["buf[..MAGIC.len()].copy_from_slice(&header.magic)",
                 "buf[VERSION_OFFSET..VERSION_OFFSET+2].copy_from_slice(&header.version.to_le_bytes())",
                 "buf[SPEC_BYTES_OFFSET]=SPEC_MAJOR", "buf[SPEC_BYTES_OFFSET+1]=SPEC_MINOR",
                 "buf[FOOTER_OFFSET_POS..FOOTER_OFFSET_POS+8].copy_from_slice(&header.footer_offset.to_le_bytes())",
                 "buf[WAL_OFFSET_POS..WAL_OFFSET_POS+8].copy_from_slice(&header.wal_offset.to_le_bytes())",
                 "buf[WAL_SIZE_POS..WAL_SIZE_POS+8].copy_from_slice(&header.wal_size.to_le_bytes())",
                 "buf[WAL_CHECKPOINT_POS..WAL_CHECKPOINT_POS+8].copy_from_slice(&header.wal_checkpoint_pos.to_le_bytes())",
                 "buf[WAL_SEQUENCE_POS..WAL_SEQUENCE_POS+8].copy_from_slice(&header.wal_sequence.to_le_bytes())",
                 "buf[TOC_CHECKSUM_POS..TOC_CHECKSUM_END].copy_from_slice(&header.toc_checksum)"]:
        if frag not in hs:
            raise TranslateError(f"header encoder statement not found: {frag}")
    max_index = const_int(lib, "MAX_INDEX_BYTES")
    # read_track's pre-allocation: uncapped `Vec::with_capacity(count as usize)` or capped
    # `Vec::with_capacity(count.min(CONST) as usize)`; any other shape is a broken tie
    ti = re.sub(r"\s+", "", strip_comments(read("src/io/time_index.rs")))
    if "Vec::with_capacity(countasusize)" in ti:
        prealloc = "none"
    else:
        m = re.search(r"Vec::with_capacity\(count\.min\((\w+)\)asusize\)", ti)
        if not m:
            raise TranslateError("read_track: pre-allocation statement not recognised")
        prealloc = f"some {const_int(read('src/io/time_index.rs'), m.group(1))}"
    if "checked_mul((std::mem::size_of::<i64>()+std::mem::size_of::<u64>())asu64)" not in ti:
        raise TranslateError("read_track: checked_mul statement not recognised")
    body = "\n".join([
        f"def MAGIC : List UInt8 := {lean_bytes(magic)}",
        f"def HEADER_SIZE : Nat := {header_size}",
        f"def SPEC_MAJOR : Nat := {major}",
        f"def SPEC_MINOR : Nat := {minor}",
        f"def EXPECTED_VERSION : Nat := {expected_version}",
        f"def WAL_OFFSET : Nat := {wal_offset}",
        f"def TIME_INDEX_MAGIC : List UInt8 := {lean_bytes(ti_magic)}",
        f"def MAX_INDEX_BYTES : Nat := {max_index}",
        f"def TIME_INDEX_PREALLOC_CAP : Option Nat := {prealloc}",
    ] + lines) + "\n"
    return emit("C30", body)



# ----------------------------------------------------------------------------- TOC schema

TOC_FILES = ["src/types/manifest.rs", "src/types/frame.rs", "src/types/metadata.rs", "src/types/common.rs",
             "src/types/ticket.rs", "src/types/binding.rs", "src/types/memories_track.rs", "src/types/logic_mesh.rs",
             "src/types/sketch_track.rs", "src/toc.rs", "src/clip.rs", "src/replay/types.rs"]

PRIM = {"u8": "uint 1", "u16": "uint 2", "u32": "uint 4", "u64": "uint 8", "usize": "uint 8",
        "i8": "sint 1", "i16": "sint 2", "i32": "sint 4", "i64": "sint 8", "isize": "sint 8",
        "bool": "bool", "f32": "raw 4", "f64": "raw 8", "String": "str"}
# foreign types whose serde impls are known (checked against the vendored crates when the model was written)
FOREIGN = {"Uuid": "bytesN 16",            # uuid 1.x, !is_human_readable: serialize_bytes(as_bytes()) / visit_bytes(from_slice)
           "DateTime<Utc>": "strExt 0"}    # chrono 0.4: collect_str(RFC 3339) / deserialize_str + FromStr
BAD_ATTRS = ["skip_serializing_if", "flatten", "untagged", "tag", "content", "with", "serialize_with", "into", "from",
             "try_from", "transparent", "skip", "skip_serializing", "skip_deserializing", "other", "bound", "remote", "getter"]


def match_brace(src, i, open_c="{", close_c="}"):
    depth = 0
    for j in range(i, len(src)):
        if src[j] == open_c:
            depth += 1
        elif src[j] == close_c:
            depth -= 1
            if depth == 0:
                return j
    raise TranslateError("unbalanced braces")


def split_top(body, sep=","):
    out, depth, cur = [], 0, []
    for ch in body:
        if ch in "<([{":
            depth += 1
        elif ch in ">)]}":
            depth -= 1
        if ch == sep and depth == 0:
            out.append("".join(cur)); cur = []
        else:
            cur.append(ch)
    if "".join(cur).strip():
        out.append("".join(cur))
    return [x.strip() for x in out if x.strip()]


def take_attrs(text):
    """leading #[...] attributes of an item/field -> (list of attr texts, rest)"""
    attrs = []
    text = text.strip()
    while text.startswith("#["):
        j = match_brace(text, 1, "[", "]")
        attrs.append(re.sub(r"\s+", " ", text[2:j].strip()))
        text = text[j + 1:].strip()
    return attrs, text


class Defs:
    def __init__(self):
        self.items = {}      # name -> list of dict(kind, file, attrs, body)
        self.aliases = {}
        self.src = {}
        for f in TOC_FILES:
            src = strip_comments(read(f))
            self.src[f] = src
            for m in re.finditer(r"\btype\s+(\w+)\s*=\s*([^;]+);", src):
                self.aliases[m.group(1)] = m.group(2).strip()
            for m in re.finditer(r"\b(struct|enum)\s+(\w+)\s*\{", src):
                kind, name = m.group(1), m.group(2)
                end = match_brace(src, m.end() - 1)
                body = src[m.end():end]
                # attributes: walk backwards over `pub`, attrs
                pre = src[:m.start()]
                pre = re.sub(r"(pub(\([a-z]+\))?\s*)$", "", pre.rstrip() + " ").rstrip()
                attrs = []
                while pre.endswith("]"):
                    # find matching '#['
                    depth, j = 0, len(pre) - 1
                    while j >= 0:
                        if pre[j] == "]": depth += 1
                        elif pre[j] == "[":
                            depth -= 1
                            if depth == 0: break
                        j -= 1
                    if j < 1 or pre[j - 1] != "#": break
                    attrs.insert(0, re.sub(r"\s+", " ", pre[j + 1:len(pre) - 1].strip()))
                    pre = pre[:j - 1].rstrip()
                self.items.setdefault(name, []).append(dict(kind=kind, file=f, attrs=attrs, body=body, pos=m.start()))

    def find(self, name, file):
        c = self.items.get(name, [])
        same = [x for x in c if x["file"] == file]
        if len(same) == 1: return same[0]
        if len(c) == 1: return c[0]
        if not c: raise TranslateError(f"type {name} (used in {file}) not found in {TOC_FILES}")
        raise TranslateError(f"type {name} is ambiguous: {[x['file'] for x in c]}")


def serde_attr_items(attrs):
    out = []
    for a in attrs:
        m = re.fullmatch(r"serde\s*\((.*)\)", a, re.S)
        if m:
            out += split_top(m.group(1))
    return out


def check_serde_items(items, where):
    for it in items:
        key = re.split(r"\s*=", it)[0].strip()
        if key in BAD_ATTRS:
            raise TranslateError(f"unsupported serde attribute `{it}` on {where}: the bincode layout would not be the plain field sequence")
        if key not in ("default", "rename_all", "rename", "deserialize_with", "alias"):
            raise TranslateError(f"unknown serde attribute `{it}` on {where}")


class SchemaGen:
    def __init__(self, defs):
        self.d = defs
        self.out = {}        # lean def name -> lean term
        self.order = []
        self.fields = {}     # type name -> [field names]

    def bound_of(self, fn, file):
        """LIMIT used by a `deserialize_with` function: a wrapper around deserialize_vec_bounded::<D, T, CONST>
           or around deserializer.deserialize_map(MapVisitor::<CONST>)"""
        src = self.d.src[file]
        m = re.search(r"\bfn\s+" + re.escape(fn) + r"\b", src)
        if not m: raise TranslateError(f"deserialize_with function {fn} not found in {file}")
        i = src.find("{", m.end()); j = match_brace(src, i)
        body = re.sub(r"\s+", "", src[i:j + 1])
        m1 = re.search(r"deserialize_vec_bounded::<D,(\w+),(\w+)>\(deserializer,?\)", body)
        if m1 and body.count(";") == 0:
            return "seq", m1.group(1), const_int(src, m1.group(2))
        m2 = re.search(r"deserializer\.deserialize_map\(MapVisitor::<(\w+)>\)", body)
        if m2:
            for frag in ["whileletSome((key,value))=map.next_entry()?{ifvalues.len()==LIMIT{returnErr(", "values.insert(key,value);"]:
                if frag not in body: raise TranslateError(f"{fn}: MapVisitor shape changed ({frag})")
            return "map", None, const_int(src, m2.group(1))
        raise TranslateError(f"deserialize_with function {fn} in {file} has an unknown shape")

    def ty(self, t, file, field_attrs=None, where=""):
        t = re.sub(r"\s+", "", t)
        items = serde_attr_items(field_attrs or [])
        check_serde_items(items, where)
        dw = [re.search(r'"(\w+)"', it).group(1) for it in items if it.startswith("deserialize_with")]
        if dw:
            kind, elem, limit = self.bound_of(dw[0], file)
            if kind == "seq":
                m = re.fullmatch(r"Vec<(.+)>", t)
                if not m or re.sub(r".*::", "", m.group(1)) != elem:
                    raise TranslateError(f"{where}: deserialize_with {dw[0]} is for Vec<{elem}> but the field is {t}")
                return f"(.seq (some {limit}) {self.ty(m.group(1), file, None, where)})"
            m = re.fullmatch(r"BTreeMap<String,(.+)>", t)
            if not m: raise TranslateError(f"{where}: bounded map visitor on a non BTreeMap<String,_> field {t}")
            return f"(.mapStr (some {limit}) {self.ty(m.group(1), file, None, where)})"
        if t in PRIM: return "." + PRIM[t] if " " not in PRIM[t] else f"(.{PRIM[t]})"
        if t in FOREIGN: return f"(.{FOREIGN[t]})"
        m = re.fullmatch(r"\[u8;(\w+)\]", t)
        if m: return f"(.raw {eval_int(m.group(1))})"
        m = re.fullmatch(r"Option<(.+)>", t)
        if m: return f"(.option {self.ty(m.group(1), file, None, where)})"
        m = re.fullmatch(r"Vec<(.+)>", t)
        if m: return f"(.seq none {self.ty(m.group(1), file, None, where)})"
        m = re.fullmatch(r"BTreeMap<String,(.+)>", t)
        if m: return f"(.mapStr none {self.ty(m.group(1), file, None, where)})"
        m = re.fullmatch(r"\((.+)\)", t)
        if m: return "(struct [" + ", ".join(self.ty(x, file, None, where) for x in split_top(m.group(1))) + "])"
        if re.fullmatch(r"[\w:]+", t):
            name = t.split("::")[-1]
            if name in self.d.aliases: return self.ty(self.d.aliases[name], file, None, where)
            return self.named(name, file)
        raise TranslateError(f"{where}: unsupported type {t}")

    def derives(self, item):
        out = []
        for a in item["attrs"]:
            m = re.fullmatch(r"derive\s*\((.*)\)", a, re.S)
            if m: out += [x.strip().split("::")[-1] for x in m.group(1).split(",")]
        return out

    def parse_fields(self, body, where):
        fs = []
        for f in split_top(body):
            attrs, rest = take_attrs(f)
            if any(a.startswith("cfg") for a in attrs):
                raise TranslateError(f"{where}: cfg-dependent field `{rest}` in a serialized struct")
            m = re.fullmatch(r"(?:pub(?:\([a-z]+\))?\s+)?(\w+)\s*:\s*(.+)", rest, re.S)
            if not m: raise TranslateError(f"{where}: cannot parse field `{rest}`")
            fs.append((m.group(1), m.group(2), attrs))
        return fs

    def named(self, name, file):
        lean = "s_" + name
        if lean in self.out: return lean
        item = self.d.find(name, file)
        f = item["file"]
        check_serde_items(serde_attr_items(item["attrs"]), f"type {name}")
        der = self.derives(item)
        if item["kind"] == "enum":
            if name == "CanonicalEncoding":
                term = self.canonical_encoding(item)
            else:
                if "Serialize" not in der or "Deserialize" not in der:
                    raise TranslateError(f"enum {name} has a hand-written serde impl the translator does not know")
                vs = split_top(item["body"])
                for v in vs:
                    attrs, rest = take_attrs(v)
                    check_serde_items(serde_attr_items(attrs), f"{name}::{rest}")
                    if not re.fullmatch(r"\w+(\s*=\s*[\w\d]+)?", rest):
                        raise TranslateError(f"enum {name}: variant `{rest}` carries data (only unit variants are modelled)")
                term = f".enumUnit {len(vs)}"
                self.fields[name] = [take_attrs(v)[1].split("=")[0].strip() for v in vs]
        else:
            if "Serialize" in der and "Deserialize" in der:
                fs = self.parse_fields(item["body"], name)
                term = "struct [" + ", ".join(self.ty(t, f, a, f"{name}.{n}") for n, t, a in fs) + "]"
                self.fields[name] = [n for n, _, _ in fs]
            elif "Serialize" not in der and "Deserialize" not in der:
                term = self.manual_struct(name, item)
            else:
                raise TranslateError(f"struct {name}: mixed derived/hand-written serde impls")
        self.out[lean] = term
        self.order.append(lean)
        return lean

    def impl_body(self, src, header_re, name):
        m = re.search(header_re, src)
        if not m: raise TranslateError(f"{name}: impl not found ({header_re})")
        i = src.find("{", m.end() - 1); j = match_brace(src, i)
        return src[i:j + 1]

    def manual_struct(self, name, item):
        """hand-written `impl Serialize` (serialize_struct + serialize_field…) and `impl Deserialize`
           (derive on a local `Repr`): field names/order must agree, types come from `Repr`"""
        src = self.d.src[item["file"]]
        ser = self.impl_body(src, r"impl\s+Serialize\s+for\s+" + name + r"\s*\{", name)
        de = self.impl_body(src, r"impl\s*<'de>\s*Deserialize<'de>\s+for\s+" + name + r"\s*\{", name)
        m = re.search(r'serialize_struct\(\s*"' + name + r'"\s*,\s*(\d+)\s*\)', ser)
        if not m: raise TranslateError(f"{name}: serialize_struct call not found")
        declared = int(m.group(1))
        ser_fields = re.findall(r'serialize_field\(\s*"(\w+)"\s*,\s*&self\.([\w.]+)\s*\)', ser)
        if len(ser_fields) != declared or ser.count("serialize_field") != declared:
            raise TranslateError(f"{name}: serialize_struct declares {declared} fields, {len(ser_fields)} serialize_field calls found")
        m = re.search(r"#\[derive\(Deserialize\)\]\s*struct\s+Repr\s*\{", de)
        if not m: raise TranslateError(f"{name}: Deserialize impl does not go through a derived `Repr`")
        j = match_brace(de, m.end() - 1)
        rfs = self.parse_fields(de[m.end():j], name + "::Repr")
        if [n for n, _, _ in rfs] != [n for n, _ in ser_fields]:
            raise TranslateError(f"{name}: Serialize writes {[n for n, _ in ser_fields]} but Deserialize reads {[n for n, _, _ in rfs]}")
        if "Repr::deserialize(deserializer)?" not in re.sub(r"\s+", "", de):
            raise TranslateError(f"{name}: Deserialize impl shape changed")
        # the value written for field n is self.<path>; the value read back is stored at the same path
        own = dict((n, t) for n, t, _ in self.parse_fields(item["body"], name))
        for (n, path), (_, t, _) in zip(ser_fields, rfs):
            head = path.split(".")[0]
            if head not in own: raise TranslateError(f"{name}: serialize_field(\"{n}\") reads unknown member {path}")
        self.fields[name] = [n for n, _ in ser_fields]
        return "struct [" + ", ".join(self.ty(t, item["file"], a, f"{name}::Repr.{n}") for n, t, a in rfs) + "]"

    def canonical_encoding(self, item):
        src = re.sub(r"\s+", "", self.d.src[item["file"]])
        for frag in ["serializer.serialize_u32(u32::from(self.as_byte()))",
                     "letvalue=u32::deserialize(deserializer)?;Ok(CanonicalEncoding::from_byte((value&0xFF)asu8))",
                     "matchvalue{0=>CanonicalEncoding::Plain,1=>CanonicalEncoding::Zstd,_=>CanonicalEncoding::Plain,}",
                     "matchself{CanonicalEncoding::Plain=>0,CanonicalEncoding::Zstd=>1,}"]:
            if frag not in src:
                raise TranslateError(f"CanonicalEncoding: hand-written serde impl changed shape ({frag})")
        return ".cenc"


def zero_value(term, gen):
    """Lean `Value` term of the all-default value of a schema term (derive(Default) on ints/Vec/Option)"""
    t = term.strip()
    if t.startswith("(") and t.endswith(")"): t = t[1:-1].strip()
    if t.startswith("s_"): return zero_value(gen.out[t], gen)
    if t.startswith(".uint") or t.startswith(".enumUnit") or t == ".cenc": return "(.nat 0)"
    if t.startswith(".sint"): return "(.int 0)"
    if t == ".bool": return "(.bool false)"
    if t.startswith(".option"): return ".none"
    if t.startswith(".seq") or t.startswith(".mapStr"): return ".unit"
    if t == ".str": return "(.bytes [])"
    if t.startswith("struct ["):
        inner = split_top(t[len("struct ["):-1])
        return "(Value.ofList [" + ", ".join(zero_value(x, gen) for x in inner) + "])"
    raise TranslateError(f"no default value for schema {term}")


def struct_literal(src, type_name, after_re):
    """fields of the first `TypeName { a: expr, … }` literal after the regex `after_re`"""
    m = re.search(after_re, src)
    if not m: raise TranslateError(f"anchor {after_re} not found")
    m2 = re.compile(r"\b" + type_name + r"\s*\{").search(src, m.end())
    if not m2: raise TranslateError(f"struct literal {type_name} not found after {after_re}")
    j = match_brace(src, m2.end() - 1)
    out = []
    for f in split_top(src[m2.end():j]):
        a, b = f.split(":", 1)
        out.append((a.strip(), re.sub(r"\s+", "", b)))
    return out


def gen_schema():
    d = Defs()
    g = SchemaGen(d)
    toc = g.named("Toc", "src/types/manifest.rs")
    v2 = g.named("LegacyTocV2", "src/toc.rs")
    v1 = g.named("LegacyTocV1", "src/toc.rs")
    tf, f2, f1 = g.fields["Toc"], g.fields["LegacyTocV2"], g.fields["LegacyTocV1"]
    tsrc = d.src["src/toc.rs"]
    toc_item = d.find("Toc", "src/types/manifest.rs")
    toc_field_terms = dict((n, g.ty(t, toc_item["file"], a, f"Toc.{n}")) for n, t, a in g.parse_fields(toc_item["body"], "Toc"))
    lines = []
    for name in g.order:
        lines.append(f"def {name} : Schema := {g.out[name]}")
    lines.append("")
    lines.append(f"def tocSchema : Schema := {toc}")
    lines.append(f"def tocV2Schema : Schema := {v2}")
    lines.append(f"def tocV1Schema : Schema := {v1}")
    lines.append(f"def tocFields : List String := {lean_str_list(tf)}")
    lines.append(f"def tocV2Fields : List String := {lean_str_list(f2)}")
    lines.append(f"def tocV1Fields : List String := {lean_str_list(f1)}")
    # From<Legacy…> for Toc: per Toc field, index into the legacy struct or a default value
    def from_map(legacy, lf):
        lit = struct_literal(tsrc, "Toc", r"impl\s+From<" + legacy + r">\s+for\s+Toc")
        if [a for a, _ in lit] != tf: raise TranslateError(f"From<{legacy}>: literal fields {[a for a, _ in lit]} != Toc fields")
        items = []
        for a, e in lit:
            m = re.fullmatch(r"legacy\.(\w+)", e)
            if m:
                if m.group(1) != a: raise TranslateError(f"From<{legacy}>: {a} is filled from {e}")
                items.append(f"(.inl {lf.index(a)})")
            elif e == "None":
                if not toc_field_terms[a].startswith("(.option"): raise TranslateError(f"From<{legacy}>: None for non-Option {a}")
                items.append("(.inr .none)")
            elif e == "Default::default()":
                sub = toc_field_terms[a]
                nm = sub[2:] if sub.startswith("s_") else None
                it = d.find(sub[2:], "src/types/manifest.rs") if sub.startswith("s_") else None
                if it is None or "Default" not in g.derives(it): raise TranslateError(f"From<{legacy}>: {a} uses Default::default() of a type without derive(Default)")
                items.append(f"(.inr {zero_value(sub, g)})")
            else:
                raise TranslateError(f"From<{legacy}>: unsupported initialiser {a}: {e}")
        return "[" + ", ".join(items) + "]"
    lines.append(f"def fromV2 : List (Nat ⊕ Value) := {from_map('LegacyTocV2', f2)}")
    lines.append(f"def fromV1 : List (Nat ⊕ Value) := {from_map('LegacyTocV1', f1)}")
    # verify_checksum: the legacy re-encodings (projection of Toc fields, checksum zeroed) and their guards
    vsrc = tsrc[re.search(r"pub\s+fn\s+verify_checksum", tsrc).start():]
    vflat = re.sub(r"\s+", "", vsrc)
    for frag in ["letmutclone=self.clone();clone.toc_checksum=[0u8;32];letbytes=clone.encode()?;letdigest=Self::calculate_checksum(&bytes);ifdigest==self.toc_checksum{returnOk(());}",
                 "ifself.replay_manifest.is_none(){letlegacy_v2=LegacyTocV2{",
                 "ifself.memories_track.is_none()&&self.replay_manifest.is_none(){letlegacy_v1=LegacyTocV1{",
                 "ifv2_digest==self.toc_checksum{", "ifv1_digest==self.toc_checksum{",
                 "Err(MemvidError::ChecksumMismatch{context:\"toc\"})"]:
        if frag not in vflat: raise TranslateError(f"verify_checksum changed shape: {frag}")
    def proj(legacy, lf):
        lit = struct_literal(vsrc, legacy, r"let\s+legacy_v" + legacy[-1] + r"\s*=")
        if [a for a, _ in lit] != lf: raise TranslateError(f"verify_checksum: {legacy} literal fields differ from the struct")
        items = []
        for a, e in lit:
            if e in (f"self.{a}.clone()", f"self.{a}"):
                items.append(f"(.inl {tf.index(a)})")
            elif e == "[0u8;32]" and a == "toc_checksum":
                items.append("(.inr (.bytes (Mv.zeros 32)))")
            else:
                raise TranslateError(f"verify_checksum: unsupported initialiser {legacy}.{a}: {e}")
        return "[" + ", ".join(items) + "]"
    lines.append(f"def toV2 : List (Nat ⊕ Value) := {proj('LegacyTocV2', f2)}")
    lines.append(f"def toV1 : List (Nat ⊕ Value) := {proj('LegacyTocV1', f1)}")
    lines.append(f"def v2Guard : List Nat := [{tf.index('replay_manifest')}]")
    lines.append(f"def v1Guard : List Nat := [{tf.index('memories_track')}, {tf.index('replay_manifest')}]")
    lines.append(f"def checksumIndex : Nat := {tf.index('toc_checksum')}")
    # Toc::decode / canonical_config shape
    dflat = re.sub(r"\s+", "", tsrc)
    for frag in ["bincode::config::standard().with_fixed_int_encoding().with_little_endian().with_limit::<{crate::MAX_INDEX_BYTESasusize}>()",
                 "ifletOk((toc,bytes_read))=decode_from_slice::<Toc,_>(bytes,canonical_config()){ifbytes_read!=bytes.len(){returnErr(MemvidError::InvalidToc{reason:\"unexpectedtrailingbytes\".into(),});}returnOk(toc);}",
                 "ifletOk((legacy,bytes_read))=decode_from_slice::<LegacyTocV2,_>(bytes,canonical_config()){ifbytes_read!=bytes.len(){returnErr(",
                 "matchdecode_from_slice::<LegacyTocV1,_>(bytes,canonical_config()){Ok((legacy,bytes_read))=>{ifbytes_read!=bytes.len(){returnErr("]:
        if frag not in dflat: raise TranslateError(f"Toc::decode / canonical_config changed shape: {frag}")
    body = "open Mv.Bincode\n\n" + "\n".join(lines) + "\n"
    return emit("C30Toc", body, header="import MvModel.Bincode\n")


def run():
    changed = gen_consts()
    changed = gen_schema() or changed
    return changed

main(run)
