/-
  C14Pending — why `OpOk` excludes `commit_skip_indexes`: on the shared Core model as it stands
  (mirroring 7cd4b84: the batch's embeddings stay in the in-memory index, every index manifest is
  cleared until `finalize_indexes`) a drop+open between the skip-index commit and `finalize_indexes`
  finds no vector index, so the embedding of an active frame is gone.

  NOT part of the registered C14 modules on purpose: the statement is about behaviour owned by C40
  (the prescribed pattern is skip … finalize before the handle is dropped).  If `Core.lean` changes
  there, this file may stop compiling — delete it then.
-/
import MvProps.C14
namespace Mv.Core

def embP : Emb := (3, "p0")
def putP : Op := .put { ts := 5, content := "aa", len := 10, plen := 10, emb := some embP } {}

/-- skip-index commit, then `finalize_indexes`: the vector is there -/
theorem C14_skip_then_finalize_keeps_embedding :
    vecL (run Mem.create [putP, .commitSkipIndexes, .finalizeIndexes 40]) = [{ id := 0, dim := 3, tok := "p0" }] := by decide

/-- skip-index commit, then drop+open without `finalize_indexes`: the vector is gone -/
theorem C14_skip_then_reopen_drops_embedding :
    let m := run Mem.create [putP, .commitSkipIndexes, .reopen 40 41]
    isActive m.frames 0 = true ∧ vecL m = [] ∧
    embRun [] (trace Mem.create [putP, .commitSkipIndexes, .reopen 40 41]) = [some embP] := by decide

end Mv.Core
