/-
  C27: tracks built by `add_card` — what `get_cards` returns (placeholder, filled below).
-/
import MvProps.C27Lemmas
namespace Mv.Cards
end Mv.Cards
