//! C20 — corruption is detected, never served silently.
//!
//! impl : real `.mv2` files built through the public API (binary Plain payload, zstd text payload, chunked
//!        document, embedded frame, memory card; two commits; closed), then corrupted (single byte XOR 0xFF /
//!        XOR 0x01, zeroed ranges, truncations at every region boundary ±1).  Every corrupted copy is handled in a
//!        CHILD PROCESS (this binary re-executed as `c20 child <file>`): `Memvid::verify(deep)`,
//!        `open_read_only` + every read, `open` + every read.  A panic/abort/hang of the child is recorded as a
//!        branch (property C22), never as a C20 verdict.
//! model: drv_c20 — `MvModel/Integrity.lean`, the read path as a decision procedure over the file regions
//!        (header, WAL, payloads, index segments, TOC, footer) with the checks the code performs; asked for the
//!        class of every corruption (`detected | harmless | silent | verify-passed-but-differs`) from the same
//!        region facts the harness extracts from the ORIGINAL file through memvid_core's own codecs.
//! oracle: C20 restated on the observations alone: every read of the corrupted file equals the read of the
//!        original or is an error; `verify(deep) = Passed` implies no read differs.
use memvid_core::io::header::HeaderCodec;
use memvid_core::types::{CanonicalEncoding, Frame, FrameRole, Toc};
use memvid_core::{Memvid, MemoryCard, MemoryKind, PutOptions, SearchRequest, TimelineQuery, VersionRelation};
use mvh::*;
use std::collections::BTreeMap;
use std::io::Read;
use std::path::{Path, PathBuf};
use std::process::{Command, Stdio};
use std::sync::atomic::{AtomicUsize, Ordering};
use std::sync::{Arc, Mutex};
use std::time::{Duration, Instant};

const HEADER_SIZE: usize = 4096;
const FOOTER_SIZE: usize = 56;
const WAL_HDR: usize = 48;

// =======================================================================================
// file builder (real API)
#[derive(Clone, Debug)]
struct Shape {
    /// seed of the payload contents
    seed: u64,
    /// size of the binary (Plain) payload
    bin_len: usize,
    /// number of commits (1 or 2)
    commits: u8,
    with_vec: bool,
    with_card: bool,
    with_chunks: bool,
}

impl Shape {
    fn to_json(&self) -> Value {
        json!({"seed": self.seed, "bin_len": self.bin_len, "commits": self.commits, "with_vec": self.with_vec,
               "with_card": self.with_card, "with_chunks": self.with_chunks})
    }
    fn from_json(v: &Value) -> Shape {
        Shape {
            seed: v["seed"].as_u64().unwrap_or(1), bin_len: v["bin_len"].as_u64().unwrap_or(500) as usize,
            commits: v["commits"].as_u64().unwrap_or(2) as u8, with_vec: v["with_vec"].as_bool().unwrap_or(true),
            with_card: v["with_card"].as_bool().unwrap_or(true), with_chunks: v["with_chunks"].as_bool().unwrap_or(true),
        }
    }
}

fn words(rng: &mut Rng, n: usize) -> String {
    const W: &[&str] = &["quantum", "ledger", "harbor", "violet", "granite", "meadow", "signal", "copper", "lantern",
        "orbit", "thistle", "marble", "cinder", "willow", "anchor", "breeze", "cobalt", "ember", "fjord", "glacier"];
    let mut s = String::new();
    for i in 0..n {
        if i > 0 { s.push(if i % 13 == 0 { '\n' } else { ' ' }); }
        s.push_str(*rng.pick::<&str>(W));
    }
    s
}

fn opts(ts: i64, uri: &str) -> PutOptions {
    let mut o = PutOptions::default();
    o.timestamp = Some(ts);
    o.uri = Some(uri.to_string());
    o.title = Some(format!("title of {uri}"));
    o.extract_triplets = false;
    o.extract_dates = false;
    o
}

fn card(id: u64, frame: u64) -> MemoryCard {
    MemoryCard {
        id, kind: MemoryKind::Fact, entity: "alice".into(), slot: "employer".into(), value: "acme".into(),
        polarity: None, event_date: Some(1_700_000_100), document_date: Some(1_700_000_200), version_key: None,
        version_relation: VersionRelation::Sets, source_frame_id: frame, source_uri: Some("mv2://c20/text".into()),
        source_offset: None, engine: "c20".into(), engine_version: "1".into(), confidence: None, created_at: 1_700_000_300,
    }
}

fn build_file(path: &Path, sh: &Shape) -> Result<(), String> {
    let mut rng = Rng::new(sh.seed ^ 0xC20);
    let mut mem = Memvid::create(path).map_err(|e| format!("create: {e}"))?;
    if sh.with_vec { mem.enable_vec().map_err(|e| format!("enable_vec: {e}"))?; }
    // frame 0: binary payload, stored Plain
    let mut bin = rng.bytes(sh.bin_len);
    if !bin.is_empty() { bin[0] = 0xFF; } // never valid UTF-8
    mem.put_bytes_with_options(&bin, opts(1_700_000_000, "mv2://c20/bin")).map_err(|e| format!("put bin: {e}"))?;
    // frame 1: short text payload, stored zstd
    let text = format!("quantum ledger note. {}", words(&mut rng, 60));
    mem.put_bytes_with_options(text.as_bytes(), opts(1_700_000_010, "mv2://c20/text")).map_err(|e| format!("put text: {e}"))?;
    if sh.with_vec {
        let e: Vec<f32> = (0..4).map(|i| (rng.below(200) as f32) / 8.0 - (i as f32)).collect();
        let t = format!("embedded harbor frame. {}", words(&mut rng, 30));
        mem.put_with_embedding_and_options(t.as_bytes(), e, opts(1_700_000_020, "mv2://c20/emb")).map_err(|e| format!("put emb: {e}"))?;
        let e2: Vec<f32> = (0..4).map(|i| (rng.below(200) as f32) / 8.0 + (i as f32)).collect();
        let t2 = format!("second embedded violet frame. {}", words(&mut rng, 20));
        mem.put_with_embedding_and_options(t2.as_bytes(), e2, opts(1_700_000_021, "mv2://c20/emb2")).map_err(|e| format!("put emb2: {e}"))?;
    }
    if sh.commits >= 2 { mem.commit().map_err(|e| format!("commit 1: {e}"))?; }
    if sh.with_chunks {
        let doc = format!("chunked granite document. {}", words(&mut rng, 700));
        mem.put_bytes_with_options(doc.as_bytes(), opts(1_700_000_030, "mv2://c20/doc")).map_err(|e| format!("put doc: {e}"))?;
    }
    if sh.with_card { mem.put_memory_card(card(0, 1)).map_err(|e| format!("card: {e}"))?; }
    let tail = format!("closing meadow remark. {}", words(&mut rng, 25));
    mem.put_bytes_with_options(tail.as_bytes(), opts(1_700_000_040, "mv2://c20/tail")).map_err(|e| format!("put tail: {e}"))?;
    mem.commit().map_err(|e| format!("commit: {e}"))?;
    drop(mem);
    Ok(())
}

// =======================================================================================
// observations (run in the child)
fn errkind(e: &memvid_core::MemvidError) -> String {
    let d = format!("{e:?}");
    let k: String = d.chars().take_while(|c| c.is_ascii_alphanumeric()).collect();
    format!("err:{k}")
}

fn h(b: &[u8]) -> String { format!("ok:{}:{}", b.len(), b3short(b)) }

fn frame_meta(f: &Frame) -> String {
    // everything a caller can see of the frame except where its bytes are stored
    format!("{}|{}|{:?}|{:?}|{:?}|{:?}|{:?}|{:?}|{:?}|{:?}|{:?}|{:?}|{:?}|{:?}|{:?}|{:?}|{:?}|{:?}|{:?}",
        f.id, f.timestamp, f.kind, f.track, f.uri, f.title, f.status, f.role, f.parent_id, f.chunk_index, f.chunk_count,
        f.tags, f.labels, f.extra_metadata, f.search_text, f.supersedes, f.superseded_by, f.canonical_length, f.metadata)
}

fn observe(mem: &mut Memvid, obs: &mut BTreeMap<String, String>, p: &str) {
    let count = mem.frame_count();
    obs.insert(format!("{p}.count"), format!("ok:{count}"));
    for id in 0..(count.min(64) as u64) {
        match mem.frame_by_id(id) {
            Ok(f) => { obs.insert(format!("{p}.f{id}.meta"), h(frame_meta(&f).as_bytes())); }
            Err(e) => { obs.insert(format!("{p}.f{id}.meta"), errkind(&e)); }
        }
        match mem.frame_canonical_payload(id) {
            Ok(b) => { obs.insert(format!("{p}.f{id}.payload"), h(&b)); }
            Err(e) => { obs.insert(format!("{p}.f{id}.payload"), errkind(&e)); }
        }
        match mem.frame_text_by_id(id) {
            Ok(t) => { obs.insert(format!("{p}.f{id}.text"), h(t.as_bytes())); }
            Err(e) => { obs.insert(format!("{p}.f{id}.text"), errkind(&e)); }
        }
        match mem.frame_embedding(id) {
            Ok(Some(e)) => { let b: Vec<u8> = e.iter().flat_map(|x| x.to_le_bytes()).collect(); obs.insert(format!("{p}.f{id}.emb"), h(&b)); }
            Ok(None) => { obs.insert(format!("{p}.f{id}.emb"), "ok:none".into()); }
            Err(e) => { obs.insert(format!("{p}.f{id}.emb"), errkind(&e)); }
        }
    }
    match mem.timeline(TimelineQuery::default()) {
        Ok(es) => {
            let s: Vec<String> = es.iter().map(|e| format!("{}@{}:{}:{:?}", e.frame_id, e.timestamp, b3short(e.preview.as_bytes()), e.uri)).collect();
            obs.insert(format!("{p}.timeline"), format!("ok:{}", s.join(",")));
        }
        Err(e) => { obs.insert(format!("{p}.timeline"), errkind(&e)); }
    }
    for (name, q) in [("search.quantum", "quantum"), ("search.granite", "granite"), ("search.harbor", "harbor")] {
        let req = SearchRequest {
            query: q.into(), top_k: 10, snippet_chars: 80, uri: None, scope: None, cursor: None, as_of_frame: None,
            as_of_ts: None, no_sketch: false, acl_context: None, acl_enforcement_mode: Default::default(),
        };
        match mem.search(req) {
            Ok(r) => {
                let s: Vec<String> = r.hits.iter().map(|x| format!("{}:{}", x.frame_id, b3short(x.text.as_bytes()))).collect();
                obs.insert(format!("{p}.{name}"), format!("ok:{}:{}", r.total_hits, s.join(",")));
            }
            Err(e) => { obs.insert(format!("{p}.{name}"), errkind(&e)); }
        }
    }
    match mem.search_vec(&[1.0, 2.0, 3.0, 4.0], 5) {
        Ok(hs) => {
            let s: Vec<String> = hs.iter().map(|x| format!("{}:{:08x}", x.frame_id, x.distance.to_bits())).collect();
            obs.insert(format!("{p}.vsearch"), format!("ok:{}", s.join(",")));
        }
        Err(e) => { obs.insert(format!("{p}.vsearch"), errkind(&e)); }
    }
    let cards: Vec<String> = mem.memories().cards().iter()
        .map(|c| format!("{}|{}|{}|{}|{}|{:?}|{:?}", c.id, c.entity, c.slot, c.value, c.source_frame_id, c.event_date, c.source_uri)).collect();
    obs.insert(format!("{p}.cards"), format!("ok:{}", cards.join(",")));
}

fn child_main(file: &str) -> ! {
    std::panic::set_hook(Box::new(|_| {}));
    let src = PathBuf::from(file);
    let mut obs: BTreeMap<String, String> = BTreeMap::new();
    // verify(deep) on its own copy
    let vf = src.with_extension("vf.mv2");
    let _ = std::fs::copy(&src, &vf);
    let r = std::panic::catch_unwind(|| Memvid::verify(&vf, true));
    obs.insert("verify".into(), match r {
        Ok(Ok(rep)) => format!("ok:{:?}", rep.overall_status),
        Ok(Err(e)) => errkind(&e),
        Err(_) => "panic".into(),
    });
    let _ = std::fs::remove_file(&vf);
    for (p, ro) in [("ro", true), ("rw", false)] {
        let cp = src.with_extension(format!("{p}.mv2"));
        let _ = std::fs::copy(&src, &cp);
        let r = std::panic::catch_unwind(std::panic::AssertUnwindSafe(|| {
            let mut local: BTreeMap<String, String> = BTreeMap::new();
            let opened = if ro { Memvid::open_read_only(&cp) } else { Memvid::open(&cp) };
            match opened {
                Ok(mut mem) => {
                    local.insert(format!("{p}.open"), "ok".into());
                    observe(&mut mem, &mut local, p);
                }
                Err(e) => { local.insert(format!("{p}.open"), errkind(&e)); }
            }
            local
        }));
        match r {
            Ok(local) => obs.extend(local),
            Err(_) => { obs.insert(format!("{p}.open"), "panic".into()); }
        }
        let _ = std::fs::remove_file(&cp);
    }
    println!("OBS {}", serde_json::to_string(&obs).unwrap());
    std::process::exit(0);
}

/// run the child on `file`; None = the child died / hung (C22 territory)
fn run_child(file: &Path) -> Result<BTreeMap<String, String>, String> {
    let exe = std::env::current_exe().map_err(|e| e.to_string())?;
    let mut ch = Command::new(exe).arg("child").arg(file).stdin(Stdio::null()).stdout(Stdio::piped()).stderr(Stdio::null())
        .spawn().map_err(|e| e.to_string())?;
    let t0 = Instant::now();
    loop {
        match ch.try_wait() {
            Ok(Some(_)) => break,
            Ok(None) => {
                if t0.elapsed() > Duration::from_secs(60) { let _ = ch.kill(); let _ = ch.wait(); return Err("hang".into()); }
                std::thread::sleep(Duration::from_millis(2));
            }
            Err(e) => return Err(e.to_string()),
        }
    }
    let mut out = String::new();
    if let Some(mut so) = ch.stdout.take() { let _ = so.read_to_string(&mut out); }
    for line in out.lines() {
        if let Some(j) = line.strip_prefix("OBS ") {
            return serde_json::from_str(j).map_err(|e| e.to_string());
        }
    }
    Err("died".into())
}

// =======================================================================================
// region map of the ORIGINAL file (through memvid_core's own codecs)
#[derive(Clone, Debug)]
struct Span { start: usize, end: usize, region: String, sub: String }

struct Layout {
    len: usize,
    toc_off: usize,
    wal_off: usize,
    wal_size: usize,
    wal_seq: u64,
    spans: Vec<Span>, // sorted, non-overlapping, covering [0,len)
    toc: Toc,
}

fn layout(bytes: &[u8]) -> Result<Layout, String> {
    let hb: &[u8; HEADER_SIZE] = bytes[..HEADER_SIZE].try_into().map_err(|_| "short file")?;
    let hdr = HeaderCodec::decode(hb).map_err(|e| format!("header: {e}"))?;
    let len = bytes.len();
    let toc_off = hdr.footer_offset as usize;
    let toc = Toc::decode(&bytes[toc_off..len - FOOTER_SIZE]).map_err(|e| format!("toc: {e}"))?;
    let wal_off = hdr.wal_offset as usize;
    let wal_size = hdr.wal_size as usize;
    let mut marks: Vec<Span> = Vec::new();
    let mut add = |s: usize, e: usize, r: &str, sub: String| { if e > s { marks.push(Span { start: s, end: e, region: r.into(), sub }); } };
    // header fields
    for (s, e, n) in [(0, 4, "magic"), (4, 6, "version"), (6, 8, "spec"), (8, 16, "footer_offset"), (16, 24, "wal_offset"),
        (24, 32, "wal_size"), (32, 40, "wal_checkpoint_pos"), (40, 48, "wal_sequence"), (48, 80, "toc_checksum"),
        (80, 140, "legacy_lock"), (140, HEADER_SIZE, "padding")] {
        add(s, e, "header", n.to_string());
    }
    // WAL records
    let mut cur = 0usize;
    let mut idx = 0;
    while cur + WAL_HDR <= wal_size {
        let b = &bytes[wal_off + cur..];
        let seq = u64::from_le_bytes(b[..8].try_into().unwrap());
        let l = u32::from_le_bytes(b[8..12].try_into().unwrap()) as usize;
        if seq == 0 && l == 0 {
            add(wal_off + cur, wal_off + cur + 12, "wal", "sentinel_seqlen".into());
            add(wal_off + cur + 12, wal_off + cur + WAL_HDR, "wal", "sentinel_rest".into());
            cur += WAL_HDR;
            break;
        }
        if l == 0 || cur + WAL_HDR + l > wal_size { return Err("original WAL does not scan".into()); }
        let tag = if seq > hdr.wal_sequence { "pending" } else { "applied" };
        add(wal_off + cur, wal_off + cur + 8, "wal", format!("{tag}_seq"));
        add(wal_off + cur + 8, wal_off + cur + 12, "wal", format!("{tag}_len"));
        add(wal_off + cur + 12, wal_off + cur + 16, "wal", format!("{tag}_reserved"));
        add(wal_off + cur + 16, wal_off + cur + 48, "wal", format!("{tag}_hash"));
        add(wal_off + cur + 48, wal_off + cur + 48 + l, "wal", format!("{tag}_payload"));
        cur += WAL_HDR + l;
        idx += 1;
    }
    let _ = idx;
    add(wal_off + cur, wal_off + wal_size, "wal", "slack".into());
    // payloads
    for f in &toc.frames {
        if f.payload_length > 0 {
            let enc = match f.canonical_encoding { CanonicalEncoding::Plain => "plain", CanonicalEncoding::Zstd => "zstd" };
            let role = match f.role { FrameRole::DocumentChunk => "chunk", _ => "doc" };
            add(f.payload_offset as usize, (f.payload_offset + f.payload_length) as usize, "payload", format!("{enc}_{role}"));
        }
    }
    // index segments
    if let Some(m) = &toc.time_index { add(m.bytes_offset as usize, (m.bytes_offset + m.bytes_length) as usize, "index", "time".into()); }
    if let Some(m) = &toc.indexes.lex { add(m.bytes_offset as usize, (m.bytes_offset + m.bytes_length) as usize, "index", "lex_legacy".into()); }
    if let Some(m) = &toc.indexes.vec { add(m.bytes_offset as usize, (m.bytes_offset + m.bytes_length) as usize, "index", "vec".into()); }
    if let Some(m) = &toc.memories_track { add(m.bytes_offset as usize, (m.bytes_offset + m.bytes_length) as usize, "index", "memories".into()); }
    if let Some(m) = &toc.logic_mesh { add(m.bytes_offset as usize, (m.bytes_offset + m.bytes_length) as usize, "index", "mesh".into()); }
    if let Some(m) = &toc.sketch_track { add(m.bytes_offset as usize, (m.bytes_offset + m.bytes_length) as usize, "index", "sketch".into()); }
    for s in &toc.segment_catalog.tantivy_segments {
        add(s.common.bytes_offset as usize, (s.common.bytes_offset + s.common.bytes_length) as usize, "index", "tantivy".into());
    }
    for s in &toc.segment_catalog.vec_segments {
        add(s.common.bytes_offset as usize, (s.common.bytes_offset + s.common.bytes_length) as usize, "index", "vec_segment".into());
    }
    for s in &toc.segment_catalog.time_segments {
        add(s.common.bytes_offset as usize, (s.common.bytes_offset + s.common.bytes_length) as usize, "index", "time_segment".into());
    }
    for s in &toc.segment_catalog.lex_segments {
        add(s.common.bytes_offset as usize, (s.common.bytes_offset + s.common.bytes_length) as usize, "index", "lex_segment".into());
    }
    for s in &toc.indexes.lex_segments {
        add(s.bytes_offset as usize, (s.bytes_offset + s.bytes_length) as usize, "index", "lex_manifest_segment".into());
    }
    add(toc_off, len - FOOTER_SIZE, "toc", "toc".into());
    let fo = len - FOOTER_SIZE;
    add(fo, fo + 8, "footer", "magic".into());
    add(fo + 8, fo + 16, "footer", "toc_len".into());
    add(fo + 16, fo + 48, "footer", "toc_hash".into());
    add(fo + 48, fo + 56, "footer", "generation".into());
    // first mark wins per byte (reused payloads / nested segment descriptions overlap); gaps = unreferenced
    let mut owner: Vec<u32> = vec![u32::MAX; len];
    for (i, m) in marks.iter().enumerate() {
        for o in m.start..m.end.min(len) { if owner[o] == u32::MAX { owner[o] = i as u32; } }
    }
    let mut spans: Vec<Span> = Vec::new();
    let mut s = 0usize;
    while s < len {
        let o = owner[s];
        let mut e = s + 1;
        while e < len && owner[e] == o { e += 1; }
        if o == u32::MAX { spans.push(Span { start: s, end: e, region: "gap".into(), sub: "unreferenced".into() }); }
        else { let m = &marks[o as usize]; spans.push(Span { start: s, end: e, region: m.region.clone(), sub: m.sub.clone() }); }
        s = e;
    }
    Ok(Layout { len, toc_off, wal_off, wal_size, wal_seq: hdr.wal_sequence, spans, toc })
}

impl Layout {
    fn span_of(&self, off: usize) -> &Span {
        let i = self.spans.partition_point(|s| s.end <= off);
        &self.spans[i.min(self.spans.len() - 1)]
    }
}

// =======================================================================================
// corruptions
#[derive(Clone, Debug, PartialEq)]
enum Mutn { Xor(usize, u8), Zero(usize, usize), Trunc(usize) }

impl Mutn {
    fn apply(&self, orig: &[u8]) -> Vec<u8> {
        let mut b = orig.to_vec();
        match *self {
            Mutn::Xor(o, m) => { b[o] ^= m; }
            Mutn::Zero(s, l) => { for x in &mut b[s..(s + l).min(orig.len())] { *x = 0; } }
            Mutn::Trunc(n) => { b.truncate(n); }
        }
        b
    }
    fn to_json(&self) -> Value {
        match *self {
            Mutn::Xor(o, m) => json!({"k": "xor", "off": o, "mask": m}),
            Mutn::Zero(s, l) => json!({"k": "zero", "off": s, "len": l}),
            Mutn::Trunc(n) => json!({"k": "trunc", "len": n}),
        }
    }
    fn from_json(v: &Value) -> Mutn {
        match v["k"].as_str().unwrap_or("") {
            "xor" => Mutn::Xor(v["off"].as_u64().unwrap() as usize, v["mask"].as_u64().unwrap() as u8),
            "zero" => Mutn::Zero(v["off"].as_u64().unwrap() as usize, v["len"].as_u64().unwrap() as usize),
            _ => Mutn::Trunc(v["len"].as_u64().unwrap() as usize),
        }
    }
    fn kind(&self) -> &'static str {
        match self { Mutn::Xor(_, 0xFF) => "xorFF", Mutn::Xor(_, _) => "xor01", Mutn::Zero(..) => "zero", Mutn::Trunc(_) => "trunc" }
    }
}

// =======================================================================================
// classification of one corrupted file against the original's observations (the oracle's view)
#[derive(Clone, Debug)]
struct Verdict {
    class: String, // detected | harmless | silent | verify-passed-but-differs | crash
    /// reads that returned different data without an error
    differs: Vec<String>,
    errors: Vec<String>,
    verify: String,
    panics: Vec<String>,
}

fn classify(orig: &BTreeMap<String, String>, got: &BTreeMap<String, String>) -> Verdict {
    let mut differs = Vec::new();
    let mut errors = Vec::new();
    let mut panics = Vec::new();
    for p in ["ro", "rw"] {
        let open = got.get(&format!("{p}.open")).cloned().unwrap_or_else(|| "missing".into());
        if open == "panic" { panics.push(format!("{p}.open")); continue; }
        if open != "ok" { errors.push(format!("{p}.open={open}")); continue; }
        // every read of the original must be reproduced or fail
        for (k, v) in orig.iter().filter(|(k, _)| k.starts_with(p) && !k.ends_with(".open")) {
            match got.get(k) {
                Some(g) if g == v => {}
                Some(g) if g.starts_with("err:") => errors.push(format!("{k}={g}")),
                Some(g) => differs.push(format!("{k}: {v} -> {g}")),
                None => differs.push(format!("{k}: {v} -> (absent)")),
            }
        }
        // reads that exist only on the corrupted file (extra frames)
        for (k, g) in got.iter().filter(|(k, _)| k.starts_with(p)) {
            if !orig.contains_key(k) && !g.starts_with("err:") { differs.push(format!("{k}: (absent) -> {g}")); }
        }
    }
    let verify = got.get("verify").cloned().unwrap_or_else(|| "missing".into());
    if verify == "panic" { panics.push("verify".into()); }
    let class = if !differs.is_empty() {
        if verify == "ok:Passed" { "verify-passed-but-differs" } else { "silent" }
    } else if !errors.is_empty() || (verify != "ok:Passed" && verify != "panic") { "detected" }
    else if !panics.is_empty() { "crash" }
    else { "harmless" };
    Verdict { class: class.into(), differs, errors, verify, panics }
}

// =======================================================================================
fn plan(lay: &Layout, orig: &[u8], rng: &mut Rng, thorough: bool) -> Vec<Mutn> {
    let mut v: Vec<Mutn> = Vec::new();
    let stride = |sp: &Span| -> usize {
        match (sp.region.as_str(), sp.sub.as_str()) {
            ("wal", "slack") => 64 * if thorough { 1 } else { 16 },
            ("header", "padding") => if thorough { 16 } else { 256 },
            ("header", "legacy_lock") => if thorough { 1 } else { 12 },
            ("header", _) => 1,
            ("footer", _) => 1,
            ("wal", s) if s.ends_with("_payload") => if thorough { 1 } else { 29 },
            ("wal", _) => if thorough { 1 } else { 3 },
            ("toc", _) => if thorough { 1 } else { 11 },
            ("payload", _) => if thorough { 1 } else { 23 },
            ("index", "tantivy") => if thorough { 1 } else { 61 },
            ("index", _) => if thorough { 1 } else { 7 },
            ("gap", _) => if thorough { 4 } else { 97 },
            _ => 1,
        }
    };
    for sp in &lay.spans {
        let st = stride(sp);
        // a random phase per span so that different seeds visit different bytes
        let mut o = sp.start + if st > 1 { rng.usize(0, st - 1) } else { 0 };
        // always the first and last byte of the span
        let mut offs = vec![sp.start, sp.end - 1];
        while o < sp.end { offs.push(o); o += st; }
        offs.sort(); offs.dedup();
        for o in offs {
            v.push(Mutn::Xor(o, 0xFF));
            if thorough || sp.region == "header" || sp.region == "footer" || rng.chance(1, 2) { v.push(Mutn::Xor(o, 0x01)); }
        }
    }
    // zeroed ranges and truncations at every span boundary ±1
    let mut bounds: Vec<usize> = lay.spans.iter().map(|s| s.start).collect();
    bounds.push(lay.len);
    bounds.dedup();
    for (i, &b) in bounds.iter().enumerate() {
        let keep = thorough || i % 3 == 0 || b >= lay.toc_off || b <= HEADER_SIZE + 200;
        for d in [-1i64, 0, 1] {
            let t = b as i64 + d;
            if t >= 0 && (t as usize) < lay.len && keep { v.push(Mutn::Trunc(t as usize)); }
        }
    }
    for sp in &lay.spans {
        // whole span zeroed, and a short range straddling its start
        if sp.region == "wal" && sp.sub == "slack" { continue; }
        if orig[sp.start..sp.end].iter().any(|&x| x != 0) { v.push(Mutn::Zero(sp.start, sp.end - sp.start)); }
        let s = sp.start.saturating_sub(1);
        let l = (sp.end - s).min(9);
        if orig[s..s + l].iter().any(|&x| x != 0) && (thorough || rng.chance(1, 3)) { v.push(Mutn::Zero(s, l)); }
    }
    v
}

fn main() {
    let argv: Vec<String> = std::env::args().collect();
    if argv.get(1).map(|s| s.as_str()) == Some("child") { child_main(&argv[2]); }
    let args = parse_args();
    let mut sum = Summary::new("C20", &args, "probe");
    let dir = tempfile::tempdir().expect("tempdir");
    let sh = Shape { seed: args.seed, bin_len: 500, commits: 2, with_vec: true, with_card: true, with_chunks: true };
    let path = dir.path().join("orig.mv2");
    build_file(&path, &sh).expect("build");
    let orig = std::fs::read(&path).unwrap();
    let lay = layout(&orig).expect("layout");
    for sp in &lay.spans { println!("span {:>7}..{:>7} {:>6} {} {}", sp.start, sp.end, sp.end - sp.start, sp.region, sp.sub); }
    let base = run_child(&path).expect("child on original");
    println!("base {}", serde_json::to_string(&base).unwrap());
    let base2 = run_child(&path).expect("child on original");
    assert_eq!(base, base2, "observations are not deterministic");
    let mut rng = Rng::new(args.seed);
    let muts = plan(&lay, &orig, &mut rng, args.thorough);
    println!("{} corruptions planned", muts.len());
    let next = Arc::new(AtomicUsize::new(0));
    let results: Arc<Mutex<Vec<Option<Result<BTreeMap<String, String>, String>>>>> = Arc::new(Mutex::new(vec![None; muts.len()]));
    let nthreads = args.extra.get("jobs").and_then(|s| s.parse().ok()).unwrap_or(4usize);
    let muts = Arc::new(muts);
    let orig = Arc::new(orig);
    let t0 = Instant::now();
    let mut hs = Vec::new();
    for t in 0..nthreads {
        let (next, results, muts, orig) = (next.clone(), results.clone(), muts.clone(), orig.clone());
        let p = dir.path().join(format!("w{t}.mv2"));
        hs.push(std::thread::spawn(move || loop {
            let i = next.fetch_add(1, Ordering::SeqCst);
            if i >= muts.len() { break; }
            let b = muts[i].apply(&orig);
            std::fs::write(&p, &b).unwrap();
            let r = run_child(&p);
            results.lock().unwrap()[i] = Some(r);
        }));
    }
    for h in hs { h.join().unwrap(); }
    println!("ran {} children in {:.1}s", muts.len(), t0.elapsed().as_secs_f64());
    let results = results.lock().unwrap();
    let mut table: BTreeMap<String, BTreeMap<String, u64>> = BTreeMap::new();
    let mut examples: BTreeMap<String, String> = BTreeMap::new();
    for (i, m) in muts.iter().enumerate() {
        let off = match *m { Mutn::Xor(o, _) => o, Mutn::Zero(s, _) => s, Mutn::Trunc(n) => n.min(lay.len - 1) };
        let sp = lay.span_of(off);
        let key = format!("{}/{} {}", sp.region, sp.sub, m.kind());
        let (class, detail) = match results[i].as_ref().unwrap() {
            Ok(g) => { let v = classify(&base, g); (v.class.clone(), format!("{:?} differs={:?} errors={:?} verify={} panics={:?}", m, &v.differs[..v.differs.len().min(3)], &v.errors[..v.errors.len().min(3)], v.verify, v.panics)) }
            Err(e) => (format!("child-{e}"), format!("{m:?}")),
        };
        *table.entry(key.clone()).or_default().entry(class.clone()).or_insert(0) += 1;
        examples.entry(format!("{key} -> {class}")).or_insert(detail);
    }
    for (k, v) in &table { println!("TABLE {k:45} {v:?}"); }
    for (k, v) in &examples { println!("EX {k}: {v}"); }
    sum.case("probe", true, || json!({}));
    let _ = (lay.wal_off, lay.wal_size, lay.wal_seq, &lay.toc, Shape::from_json(&sh.to_json()), Mutn::from_json(&Mutn::Trunc(0).to_json()));
    sum.finish(&args);
}
