//! C24 — probe version
use mvh::hist::*;

fn main() {
    let args = mvh::parse_args();
    let mut prof = GenProfile::standard(args.thorough);
    prof.corpus = corpus();
    let cfg = FamilyConfig { property: "C24", rule: "probe", expect_branches: vec![] };
    let mut oracle = |v: &mut StepView| -> Option<(String, String)> {
        let a = v.after; let b = v.before;
        let abs = |o: &Obs| WAL_OFFSET + o.wal_size + o.payload_end;
        println!("  [{}] {} -> {} | pe {}->{} de {}->{} ft {}->{} ws {}->{} cap {} absend {} pend {} dirty {} ve {}",
            v.index, v.op.name(), v.ack.line(), b.payload_end, a.payload_end, b.data_end, a.data_end, b.footer, a.footer,
            b.wal_size, a.wal_size, a.capacity, abs(a), a.pending_inserts, a.dirty, a.vec_enabled);
        None
    };
    run_family(cfg, prof, &mut oracle);
}

fn corpus() -> Vec<(String, Vec<Op>)> {
    let put = |kind, len, seed, ts| Op::Put(PutSpec::simple(PayloadSpec::new(kind, len, seed), ts));
    let base = WAL_OFFSET + 65536;
    let ticket = |seq, cap| Op::Ticket { seq_no: seq, capacity: Some(cap), issuer: "verif".into() };
    let mut emb = PutSpec::simple(PayloadSpec::new(PayloadKind::Bin, 500, 9), 105);
    emb.emb = Some(EmbSpec { dim: 3, seed: 4 });
    vec![
        ("A-witness".into(), vec![ticket(2, base + 3000), put(PayloadKind::Bin, 2000, 1, 100), put(PayloadKind::Bin, 2000, 2, 101), Op::Commit]),
        ("B-chunked".into(), vec![ticket(2, base + 2600), put(PayloadKind::Ascii, 6000, 1, 100), Op::Commit]),
        ("C-reopen".into(), vec![put(PayloadKind::Bin, 1000, 1, 100), Op::Commit, Op::Reopen, ticket(2, base + 1100), put(PayloadKind::Bin, 50, 2, 101), Op::Commit]),
        ("C2-crash".into(), vec![put(PayloadKind::Bin, 1000, 1, 100), Op::Commit, ticket(2, base + 1100), put(PayloadKind::Bin, 50, 2, 101), Op::Crash]),
        ("D-walgrow".into(), vec![ticket(2, base + 100_000), put(PayloadKind::Rand, 90_000, 1, 100), Op::Commit]),
        ("E-emb-reject".into(), vec![ticket(2, base + 100), Op::Put(emb)]),
        ("F-seq".into(), vec![ticket(2, base + 3000), put(PayloadKind::Bin, 2000, 1, 100), Op::Commit, put(PayloadKind::Bin, 2000, 2, 101), put(PayloadKind::Bin, 900, 3, 102), Op::Commit]),
    ]
}
