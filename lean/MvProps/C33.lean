import MvModel.Text
namespace Mv.Text
end Mv.Text
