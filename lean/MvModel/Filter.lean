/-
  C11 — candidate-filter computation of `Memvid::search` and its hand-off to the engine.

  Mirrors (frame ids only; everything else of a search hit is irrelevant to the property):
    src/memvid/search/api.rs      get_replay_frame_ids
    src/memvid/search/mod.rs      Memvid::search          (date range → temporal → replay → sketch)
    src/memvid/search/tantivy.rs  try_tantivy_search      (doc_limit, engine call, fall-backs)
    src/memvid/search/fallback.rs search_with_lex_fallback / search_with_filters_only (filter test)

  `HashSet<FrameId>` is a duplicate-free `List Nat` (order is never observable).
  The sketch stage exists in two versions: `Rule.current` (the tree as it is: when the
  intersection with the sketch candidates is empty the filter is REPLACED by the sketch set) and
  `Rule.repaired` (fixes/C11.diff: an empty intersection ends the search like every other stage).
  Black boxes (Tantivy, the legacy lex index, snippet paging) are fields of `Engine` / `Post`.
-/
import MvModel.Gen.C11
namespace Mv.Filter
open Mv.Gen.C11

/-- the three fields of `Frame` the filter looks at -/
structure Frame where
  id : Nat
  ts : Int
  active : Bool
deriving Repr, DecidableEq

/-- `get_replay_frame_ids`: loop over `toc.frames`, three `continue`s, push the id -/
def replayIds (asOfFrame : Option Nat) (asOfTs : Option Int) : List Frame → List Nat
  | [] => []
  | f :: rest =>
    if !f.active then replayIds asOfFrame asOfTs rest
    else if (match asOfFrame with | some n => decide (f.id > n) | none => false) then
      replayIds asOfFrame asOfTs rest
    else if (match asOfTs with | some t => decide (f.ts > t) | none => false) then
      replayIds asOfFrame asOfTs rest
    else f.id :: replayIds asOfFrame asOfTs rest

/-- `ids.into_iter().collect::<HashSet<_>>()` -/
def toSet : List Nat → List Nat
  | [] => []
  | x :: xs => if xs.contains x then toSet xs else x :: toSet xs

/-- `existing.into_iter().filter(|id| other.contains(id)).collect()` -/
def inter (existing other : List Nat) : List Nat := existing.filter (fun id => other.contains id)

/-- `None` = `return Ok(empty_search_response(..))`; `some f` = go on with `candidate_filter = f` -/
abbrev Stage := Option (Option (List Nat))

/-- what the query's required date range contributes -/
inductive DateIn where
  | absent                                   -- `parsed.required_date_range()` is `None`
  | present (rangeEmpty : Bool) (ids : Option (List Nat))
      -- `range.is_empty()`, and `frame_ids_in_date_range` (`None` = file has no time index)
deriving Repr, DecidableEq

def dateStage : DateIn → Stage
  | .absent => some none
  | .present rangeEmpty ids =>
    if rangeEmpty then none
    else match ids with
      | some ids => if ids.isEmpty then none else some (some (toSet ids))
      | none => some none

/-- the block `candidate_filter = match candidate_filter { Some(existing) => intersect or return
    empty; None => Some(new_set) }` shared by the temporal and replay stages -/
def narrow (cur : Option (List Nat)) (newSet : List Nat) : Stage :=
  match cur with
  | some existing =>
    let filtered := inter existing newSet
    if filtered.isEmpty then none else some (some filtered)
  | none => some (some newSet)

/-- `temporal`: `none` = no non-empty temporal filter in the request (or feature `temporal_track`
    off, the default build); `some none` = `frame_ids_for_temporal_filter` returned `None` -/
def temporalStage (cur : Option (List Nat)) : Option (Option (List Nat)) → Stage
  | none => some cur
  | some none => some cur
  | some (some ids) => if ids.isEmpty then none else narrow cur (toSet ids)

/-- `replay`: `none` = neither `as_of_frame` nor `as_of_ts` given -/
def replayStage (cur : Option (List Nat)) : Option (List Nat) → Stage
  | none => some cur
  | some ids => if ids.isEmpty then none else narrow cur (toSet ids)

inductive Rule where
  | current
  | repaired
deriving Repr, DecidableEq

/-- SKETCH PRE-FILTER.  `sketch = none`: stage skipped (`!has_sketches() || !has_text_terms ||
    no_sketch`); `some cands`: frame ids of `find_sketch_candidates` (empty → nothing happens) -/
def sketchStage (rule : Rule) (cur : Option (List Nat)) : Option (List Nat) → Stage
  | none => some cur
  | some cands =>
    if cands.isEmpty then some cur
    else
      let sketchSet := toSet cands
      match cur with
      | some existing =>
        let filtered := inter existing sketchSet
        if filtered.isEmpty then
          match rule with
          | .current => some (some sketchSet)      -- "Fall back to sketch-only if intersection is empty"
          | .repaired => none
        else some (some filtered)
      | none => some (some sketchSet)

/-- the four stages in the order of the code -/
def combine (rule : Rule) (date : DateIn) (temporal : Option (Option (List Nat)))
    (replay : Option (List Nat)) (sketch : Option (List Nat)) : Stage :=
  (dateStage date).bind fun c1 =>
  (temporalStage c1 temporal).bind fun c2 =>
  (replayStage c2 replay).bind fun c3 =>
  sketchStage rule c3 sketch

/-- the part of a `SearchRequest` (and of what the query/tracks contribute) the filter depends on -/
structure Req where
  date : DateIn := .absent
  temporal : Option (Option (List Nat)) := none
  asOfFrame : Option Nat := none
  asOfTs : Option Int := none
  sketch : Option (List Nat) := none
  topK : Nat := 10
  offset : Nat := 0            -- `cursor.parse::<usize>()`, 0 when absent
  hasTextTerms : Bool := true
deriving Repr

/-- `if request.as_of_frame.is_some() || request.as_of_ts.is_some() { get_replay_frame_ids }` -/
def replayIn (frames : List Frame) (q : Req) : Option (List Nat) :=
  if q.asOfFrame.isSome || q.asOfTs.isSome then some (replayIds q.asOfFrame q.asOfTs frames) else none

def candidateFilter (rule : Rule) (frames : List Frame) (q : Req) : Stage :=
  combine rule q.date q.temporal (replayIn frames q) q.sketch

/-- the same request without the two time-travel fields -/
def Req.unfiltered (q : Req) : Req := { q with asOfFrame := none, asOfTs := none }

/-- does the outcome of the filter computation let frame `id` through? -/
def allows : Stage → Nat → Bool
  | none, _ => false
  | some none, _ => true
  | some (some f), id => f.contains id

/-- `doc_limit` of `try_tantivy_search` (usize saturation not modelled) -/
def docLimit (topK offset : Nat) (filter : Option (List Nat)) : Nat :=
  let baseDocs := max topK 1 + offset
  let lim := max (baseDocs * DOC_LIMIT_MULT) DOC_LIMIT_FLOOR
  match filter with
  | some f => min lim (max f.length 1)
  | none => lim

/-- black boxes, frame ids only -/
structure Engine where
  /-- `memvid.tantivy` + `search_documents(parsed, uri, scope, frame_filter, doc_limit)`:
      `none` = engine missing or the call failed (→ `Ok(None)`), else the docs' frame ids in rank order -/
  tantivy : Option (List Nat) → Nat → Option (List Nat)
  /-- frame ids of `LexIndex::compute_matches` (legacy index; `[]` when there is none — the
      `LexNotEnabled` error then yields no hits either) -/
  lexMatches : List Nat
  /-- `toc.indexes.lex` has data -/
  hasLex : Bool

/-- post-processing between engine hits and `SearchResponse.hits[].frame_id` -/
structure Post where
  keep : Nat → Bool              -- stale / uri / scope / `parsed.evaluate` / non-empty slices
  order : List Nat → List Nat    -- recency re-sort
  page : List Nat → List Nat     -- snippet paging (`top_k`, cursor)

def passes (filter : Option (List Nat)) (id : Nat) : Bool :=
  match filter with
  | some f => f.contains id
  | none => true

/-- `search_with_lex_fallback`: `if let Some(filter) = candidate_filter { if !filter.contains(..) { continue } }` -/
def lexFallback (E : Engine) (P : Post) (filter : Option (List Nat)) : List Nat :=
  P.page ((E.lexMatches.filter (passes filter)).filter P.keep)

/-- `search_with_filters_only`: frames restricted to the filter, then evaluated -/
def filtersOnly (P : Post) (frames : List Frame) (filter : Option (List Nat)) : List Nat :=
  P.page (((frames.map (·.id)).filter (passes filter)).filter P.keep)

/-- `try_tantivy_search`, `none` = `Ok(None)` -/
def tryTantivy (E : Engine) (P : Post) (filter : Option (List Nat)) (topK offset : Nat) :
    Option (List Nat) :=
  match E.tantivy filter (docLimit topK offset filter) with
  | none => none
  | some hits =>
    if hits.isEmpty then
      if E.hasLex then some (lexFallback E P filter) else some []
    else
      let evaluated := P.order (hits.filter P.keep)
      if evaluated.isEmpty then some (lexFallback E P filter)
      else some (P.page evaluated)

/-- frame ids of `Memvid::search(request).hits` -/
def search (rule : Rule) (E : Engine) (P : Post) (frames : List Frame) (q : Req) : List Nat :=
  match candidateFilter rule frames q with
  | none => []
  | some filter =>
    match tryTantivy E P filter q.topK q.offset with
    | some hits => hits
    | none => if q.hasTextTerms then lexFallback E P filter else filtersOnly P frames filter

/-! ### reference engine used by the driver and by the counterexamples:
    `rank` = the documents matching the query, best first; one snippet per document -/

def idealEngine (rank : List Nat) : Engine where
  tantivy := fun filter limit => some ((rank.filter (passes filter)).take (max limit 1))
  lexMatches := []
  hasLex := false

def idealPost (topK offset : Nat) : Post where
  keep := fun _ => true
  order := id
  page := fun l => (l.drop offset).take (max topK 1)

def idealSearch (rule : Rule) (rank : List Nat) (frames : List Frame) (q : Req) : List Nat :=
  search rule (idealEngine rank) (idealPost q.topK q.offset) frames q

end Mv.Filter
