//! Crash-consistency support shared by the C02 / C03 / C04 harness bins.
//!
//!  * `HOp`            one API call of a history (serialisable, replays)
//!  * `child_main`     the re-exec entry points: `child-run` (execute a history with op-boundary
//!                     markers) and `child-open` (run the real `Memvid::open` on crash images and print
//!                     the canonical observation, one JSON line per image)
//!  * `record`         run a child under `strace -f -y -xx` and parse the log into abstract syscalls
//!                     (`Sys`) restricted to the memory's directory
//!  * `FsSim`          in-memory file-system simulation: inode table, volatile + durable directory,
//!                     per inode the durable image and the list of un-fsynced writes
//!  * crash materialisers: process crash (every completed syscall persists) and power loss (any
//!                     subset of un-fsynced writes, last one torn at a 512-byte boundary, either
//!                     directory version for un-synced renames)
//!  * `RefModel`       the acknowledged-operations reference (oracle, independent of the Lean model)
//!  * `canon_step`     tie #1 canonicalisation of the recorded stream of one API step
//!
//! Owned by the crash family (C02-C04).  Depends only on std, serde, serde_json, blake3, libc and
//! memvid_core, so it can be mounted either with `#[path]` from a bin or as `pub mod` of the lib.
#![allow(dead_code)]
#![allow(clippy::too_many_arguments, clippy::type_complexity)]

use memvid_core::{FrameStatus, Memvid, PutManyOpts, PutOptions, SearchRequest};
use serde::{Deserialize, Serialize};
use serde_json::{Value, json};
use std::collections::{BTreeMap, BTreeSet};
use std::path::{Path, PathBuf};
use std::process::{Command, Stdio};

pub const FILE_NAME: &str = "m.mv2";
pub const HEADER_SIZE: u64 = 4096;
pub const ENTRY_HEADER: u64 = 48;
pub const SECTOR: usize = 512;

// ---------------------------------------------------------------------------------------------
// small PRNG (splitmix64) — seeded from the bin's main Rng
#[derive(Clone)]
pub struct XRng(pub u64);
impl XRng {
    pub fn u64(&mut self) -> u64 {
        self.0 = self.0.wrapping_add(0x9E37_79B9_7F4A_7C15);
        let mut x = self.0;
        x = (x ^ (x >> 30)).wrapping_mul(0xBF58_476D_1CE4_E5B9);
        x = (x ^ (x >> 27)).wrapping_mul(0x94D0_49BB_1331_11EB);
        x ^ (x >> 31)
    }
    pub fn below(&mut self, n: u64) -> u64 { if n == 0 { 0 } else { self.u64() % n } }
    pub fn chance(&mut self, num: u64, den: u64) -> bool { self.below(den) < num }
}

pub fn b3hex(b: &[u8]) -> String { blake3::hash(b).to_hex()[..16].to_string() }

// ---------------------------------------------------------------------------------------------
// histories

#[derive(Clone, Debug, PartialEq, Eq, Serialize, Deserialize)]
pub enum HOp {
    /// kind 0 = ASCII text with a unique search token, 1 = binary (not UTF-8, stored raw)
    Put { kind: u8, len: usize, seed: u64 },
    Update { id: u64, kind: u8, len: usize, seed: u64 },
    Delete { id: u64 },
    Commit,
    /// drop the handle and `Memvid::open` again (open-time recovery when records are pending)
    Reopen,
    Vacuum,
    /// begin_batch with `wal_pre_size_bytes` (ensure_wal_capacity shift) — skip_sync stays false
    BatchBegin { presize: u64 },
    BatchEnd,
    CommitSkipIndexes,
    FinalizeIndexes,
}

impl HOp {
    pub fn name(&self) -> &'static str {
        match self {
            HOp::Put { .. } => "put",
            HOp::Update { .. } => "update",
            HOp::Delete { .. } => "delete",
            HOp::Commit => "commit",
            HOp::Reopen => "reopen",
            HOp::Vacuum => "vacuum",
            HOp::BatchBegin { .. } => "batch_begin",
            HOp::BatchEnd => "batch_end",
            HOp::CommitSkipIndexes => "commit_skip_indexes",
            HOp::FinalizeIndexes => "finalize_indexes",
        }
    }
}

const WORDS: &[&str] = &[
    "alpha", "bravo", "charlie", "delta", "echo", "foxtrot", "golf", "hotel", "india", "juliet", "kilo", "lima",
    "memory", "frame", "ledger", "orbit", "quartz", "river", "signal", "tundra", "umbra", "vector", "willow",
];

pub fn token_of(seed: u64) -> String { format!("zq{seed}x") }

/// deterministic payload of a put/update
pub fn payload(kind: u8, len: usize, seed: u64) -> Vec<u8> {
    let mut r = XRng(seed ^ 0x00c0_ffee);
    if kind == 1 {
        let mut v: Vec<u8> = (0..len.max(1)).map(|_| r.u64() as u8).collect();
        v[0] = 0xff; // never valid UTF-8
        v
    } else if kind == 2 {
        // binary without any extractable text: control bytes 0x01..0x08 only (a large payload of
        // this kind stays ONE frame; random bytes are run through the text extractor and chunked)
        let mut v: Vec<u8> = (0..len.max(1)).map(|_| 1 + (r.u64() % 8) as u8).collect();
        v[0] = 0xff;
        v
    } else {
        let mut s = token_of(seed);
        while s.len() < len {
            s.push(' ');
            s.push_str(WORDS[r.below(WORDS.len() as u64) as usize]);
        }
        s.into_bytes()
    }
}

fn put_options() -> PutOptions {
    let mut o = PutOptions::default();
    o.timestamp = Some(1_700_000_000);
    o.auto_tag = false;
    o.extract_dates = false;
    o.extract_triplets = false;
    o.enable_embedding = false;
    o
}

/// marker visible in strace, no effect: write(2) to fd -1
pub fn marker(tag: &str) {
    let s = format!("MVMARK {tag}");
    unsafe {
        libc::write(-1, s.as_ptr() as *const libc::c_void, s.len());
    }
}

// ---------------------------------------------------------------------------------------------
// observation of a reopened memory

#[derive(Clone, Debug, PartialEq, Eq, Serialize, Deserialize)]
pub struct FrameO {
    pub id: u64,
    pub status: char, // a | s | d
    /// blake3 prefix of the canonical payload, "err:.." when unreadable, "-" when not active
    pub content: String,
    pub uri: String,
    /// hex of the payload checksum the frame table records
    #[serde(default)]
    pub sum: String,
}

#[derive(Clone, Debug, PartialEq, Eq, Serialize, Deserialize)]
pub struct Obs {
    pub ok: bool,
    pub err: String,
    pub frames: Vec<FrameO>,
    /// token -> sorted frame ids returned by search (only tokens handed to the child)
    pub search: BTreeMap<String, Vec<u64>>,
    /// blake3 of the file after the handle was dropped
    pub file_hash: String,
}

impl Obs {
    pub fn failed(e: String) -> Obs {
        Obs { ok: false, err: e, frames: vec![], search: BTreeMap::new(), file_hash: String::new() }
    }
    /// what the properties compare: frame table (+ search answers)
    pub fn logical(&self) -> String {
        if !self.ok {
            return format!("ERR {}", self.err);
        }
        let fs: Vec<String> = self.frames.iter().map(|f| format!("{}{}:{}", f.id, f.status, f.content)).collect();
        let ss: Vec<String> = self.search.iter().map(|(k, v)| format!("{k}={v:?}")).collect();
        format!("frames[{}] search[{}]", fs.join(" "), ss.join(" "))
    }
    pub fn frames_line(&self) -> String {
        if !self.ok {
            return format!("ERR {}", self.err);
        }
        self.frames.iter().map(|f| format!("{}{}:{}", f.id, f.status, f.content)).collect::<Vec<_>>().join(" ")
    }
}

pub fn observe(mem: &mut Memvid, tokens: &[String]) -> Obs {
    let frames_raw = memvid_core::verif_hooks::verif_frames(mem);
    let mut frames = vec![];
    for f in &frames_raw {
        let status = match f.status {
            FrameStatus::Active => 'a',
            FrameStatus::Superseded => 's',
            FrameStatus::Deleted => 'd',
        };
        let content = if status == 'a' {
            match mem.frame_canonical_payload(f.id) {
                Ok(b) => b3hex(&b),
                Err(e) => format!("err:{}", short_err(&format!("{e}"))),
            }
        } else {
            "-".to_string()
        };
        frames.push(FrameO { id: f.id, status, content, uri: f.uri.clone().unwrap_or_default(), sum: hex::encode(f.checksum) });
    }
    let mut search = BTreeMap::new();
    for t in tokens {
        let req = SearchRequest {
            query: t.clone(), top_k: 50, snippet_chars: 80, uri: None, scope: None, cursor: None,
            as_of_frame: None, as_of_ts: None, no_sketch: true, acl_context: None,
            acl_enforcement_mode: Default::default(),
        };
        let ids = match mem.search(req) {
            Ok(r) => {
                let mut v: Vec<u64> = r.hits.iter().map(|h| h.frame_id).collect();
                v.sort_unstable();
                v.dedup();
                v
            }
            Err(_) => vec![u64::MAX],
        };
        search.insert(t.clone(), ids);
    }
    Obs { ok: true, err: String::new(), frames, search, file_hash: String::new() }
}

pub fn short_err(e: &str) -> String {
    // stable error class: strip numbers and paths
    let mut s: String = e.chars().map(|c| if c.is_ascii_digit() { '#' } else { c }).collect();
    while s.contains("##") {
        s = s.replace("##", "#");
    }
    if let Some(i) = s.find("/dev/shm") { s.truncate(i); }
    if let Some(i) = s.find("/tmp") { s.truncate(i); }
    s.truncate(90);
    s
}

fn guarded<T>(f: impl FnOnce() -> T + std::panic::UnwindSafe) -> Result<T, String> {
    let prev = std::panic::take_hook();
    std::panic::set_hook(Box::new(|_| {}));
    let r = std::panic::catch_unwind(f);
    std::panic::set_hook(prev);
    r.map_err(|e| {
        if let Some(s) = e.downcast_ref::<&str>() { (*s).to_string() }
        else if let Some(s) = e.downcast_ref::<String>() { s.clone() }
        else { "panic".into() }
    })
}

/// open + observe + drop; the observation carries the hash of the file after the drop
pub fn open_and_observe(path: &Path, tokens: &[String]) -> Obs { open_observe_copy(path, tokens, None) }

/// `copy_to`: byte copy of the file taken right after `open` returned, while the handle is still
/// alive (= what a crash immediately after the recovery leaves)
pub fn open_observe_copy(path: &Path, tokens: &[String], copy_to: Option<&Path>) -> Obs {
    let p = path.to_path_buf();
    let toks = tokens.to_vec();
    let cp = copy_to.map(|c| c.to_path_buf());
    let r = guarded(move || match Memvid::open(&p) {
        Ok(mut mem) => {
            if let Some(c) = &cp {
                if let Some(d) = c.parent() { let _ = std::fs::create_dir_all(d); }
                let _ = std::fs::copy(&p, c);
            }
            let o = observe(&mut mem, &toks);
            drop(mem);
            o
        }
        Err(e) => Obs::failed(short_err(&format!("{e}"))),
    });
    let mut o = match r {
        Ok(o) => o,
        Err(p) => Obs::failed(format!("PANIC {}", short_err(&p))),
    };
    o.file_hash = std::fs::read(path).map(|b| b3hex(&b)).unwrap_or_else(|_| "missing".into());
    o
}

// ---------------------------------------------------------------------------------------------
// child entry points (the bin calls `child_main` first thing in `main`)

/// returns true when argv selected a child mode (the caller must then return)
pub fn child_main() -> bool {
    let argv: Vec<String> = std::env::args().collect();
    match argv.get(1).map(|s| s.as_str()) {
        Some("child-run") => {
            child_run(Path::new(&argv[2]), &argv[3]);
            true
        }
        Some("child-open") => {
            child_open(&argv[2]);
            true
        }
        Some("child-open1") => {
            // one open under the recorder (C04): markers around it, observation on stdout
            let toks: Vec<String> = serde_json::from_str(&argv[3]).unwrap_or_default();
            marker("begin 0 open");
            let o = open_and_observe_marked(Path::new(&argv[2]), &toks);
            println!("{}", serde_json::to_string(&o).unwrap());
            true
        }
        _ => false,
    }
}

fn open_and_observe_marked(path: &Path, tokens: &[String]) -> Obs {
    let p = path.to_path_buf();
    let toks = tokens.to_vec();
    let r = guarded(move || match Memvid::open(&p) {
        Ok(mut mem) => {
            marker("end 0 ok");
            let o = observe(&mut mem, &toks);
            marker("begin 1 drop");
            drop(mem);
            marker("end 1 ok");
            filehash_marker(path);
            o
        }
        Err(e) => {
            marker("end 0 err");
            Obs::failed(short_err(&format!("{e}")))
        }
    });
    match r {
        Ok(o) => o,
        Err(p) => Obs::failed(format!("PANIC {}", short_err(&p))),
    }
}

/// execute a history on `path` (created fresh), with markers around every API call
fn child_run(path: &Path, ops_json: &str) {
    let ops: Vec<HOp> = serde_json::from_str(ops_json).expect("ops json");
    marker("begin 0 create");
    let mem = match Memvid::create(path) {
        Ok(m) => m,
        Err(e) => {
            marker(&format!("end 0 err {e}"));
            println!("create failed: {e}");
            std::process::exit(3);
        }
    };
    marker("end 0 ok");
    filehash_marker(path);
    let mut mem_opt = Some(mem);
    for (i, op) in ops.iter().enumerate() {
        let n = i + 1;
        marker(&format!("begin {n} {}", op.name()));
        let res: Result<(), String> = (|| {
            match op {
                HOp::Reopen => {
                    drop(mem_opt.take());
                    let m = Memvid::open(path).map_err(|e| format!("{e}"))?;
                    mem_opt = Some(m);
                    Ok(())
                }
                _ => {
                    let m = mem_opt.as_mut().ok_or("no handle")?;
                    match op {
                        HOp::Put { kind, len, seed } => m
                            .put_bytes_with_options(&payload(*kind, *len, *seed), put_options())
                            .map(|_| ())
                            .map_err(|e| format!("{e}")),
                        HOp::Update { id, kind, len, seed } => m
                            .update_frame(*id, Some(payload(*kind, *len, *seed)), put_options(), None)
                            .map(|_| ())
                            .map_err(|e| format!("{e}")),
                        HOp::Delete { id } => m.delete_frame(*id).map(|_| ()).map_err(|e| format!("{e}")),
                        HOp::Commit => m.commit().map_err(|e| format!("{e}")),
                        HOp::Vacuum => m.vacuum().map_err(|e| format!("{e}")),
                        HOp::BatchBegin { presize } => {
                            let mut o = PutManyOpts::default();
                            o.skip_sync = false;
                            o.wal_pre_size_bytes = *presize;
                            m.begin_batch(o).map_err(|e| format!("{e}"))
                        }
                        HOp::BatchEnd => m.end_batch().map_err(|e| format!("{e}")),
                        HOp::CommitSkipIndexes => m.commit_skip_indexes().map_err(|e| format!("{e}")),
                        HOp::FinalizeIndexes => m.finalize_indexes().map_err(|e| format!("{e}")),
                        HOp::Reopen => unreachable!(),
                    }
                }
            }
        })();
        match &res {
            Ok(()) => marker(&format!("end {n} ok")),
            Err(e) => marker(&format!("end {n} err {}", short_err(e))),
        }
        filehash_marker(path);
    }
    let n = ops.len() + 1;
    marker(&format!("begin {n} drop"));
    drop(mem_opt.take());
    marker(&format!("end {n} ok"));
    filehash_marker(path);
}

/// self-check of the recorder: the hash of the real file at an op boundary travels in a marker
fn filehash_marker(path: &Path) {
    let h = std::fs::read(path).map(|b| format!("{} {}", b3hex(&b), b.len())).unwrap_or_else(|_| "missing 0".into());
    marker(&format!("hash {h}"));
}

/// batch of opens: the list file holds a JSON object {"tokens":[..], "paths":[..], "twice":bool};
/// prints one JSON line per path: {"i":n, "first":Obs, "second":Obs|null}
fn child_open(list_file: &str) {
    let v: Value = serde_json::from_str(&std::fs::read_to_string(list_file).expect("list file")).expect("json");
    let tokens: Vec<String> = serde_json::from_value(v["tokens"].clone()).unwrap_or_default();
    let paths: Vec<String> = serde_json::from_value(v["paths"].clone()).unwrap_or_default();
    let twice = v["twice"].as_bool().unwrap_or(false);
    let start = v["start"].as_u64().unwrap_or(0) as usize;
    use std::io::Write;
    let out = std::io::stdout();
    for (i, p) in paths.iter().enumerate().skip(start) {
        // first = the (possibly recovering) open of the crash image; second = clean close + reopen of the
        // same file; third = open of a byte copy taken right after the first open returned (a crash
        // immediately after recovery)
        let copy = Path::new(p).parent().map(|d| d.join("after-open").join(FILE_NAME));
        let first = open_observe_copy(Path::new(p), &tokens, if twice { copy.as_deref() } else { None });
        let second = if twice && first.ok { Some(open_and_observe(Path::new(p), &tokens)) } else { None };
        let third = match (&copy, twice && first.ok) {
            (Some(c), true) if c.exists() => Some(open_and_observe(c, &tokens)),
            _ => None,
        };
        let mut o = out.lock();
        let _ = writeln!(o, "{}", serde_json::to_string(&json!({"i": i, "first": first, "second": second, "third": third})).unwrap());
        let _ = o.flush();
    }
}

// ---------------------------------------------------------------------------------------------
// abstract syscalls + file-system simulation

#[derive(Clone, Debug, PartialEq, Eq)]
pub enum SysT<T> {
    /// directory entry `name` now refers to the fresh inode `ino`
    Create { name: String, ino: usize },
    Write { ino: usize, off: u64, data: Vec<T> },
    Trunc { ino: usize, len: u64 },
    Fsync { ino: usize },
    Rename { from: String, to: String },
    Unlink { name: String },
    FsyncDir,
    Mark(String),
}
/// byte level (what strace recorded)
pub type Sys = SysT<u8>;
/// symbolic level: one cell per byte, (object id << 32) | index inside the object; 0 = a zero byte
pub type SysC = SysT<u64>;

impl<T> SysT<T> {
    pub fn is_mutation(&self) -> bool { !matches!(self, SysT::Mark(_)) }
    pub fn brief(&self) -> String {
        match self {
            SysT::Create { name, ino } => format!("create({name})=i{ino}"),
            SysT::Write { ino, off, data } => format!("pwrite(i{ino},{off},{})", data.len()),
            SysT::Trunc { ino, len } => format!("ftruncate(i{ino},{len})"),
            SysT::Fsync { ino } => format!("fsync(i{ino})"),
            SysT::Rename { from, to } => format!("rename({from},{to})"),
            SysT::Unlink { name } => format!("unlink({name})"),
            SysT::FsyncDir => "fsyncdir".into(),
            SysT::Mark(m) => format!("mark({m})"),
        }
    }
}

#[derive(Clone, Debug)]
pub enum UOp<T> {
    Write { off: u64, data: Vec<T> },
    Trunc { len: u64 },
}

#[derive(Clone, Debug)]
pub struct Inode<T> {
    /// volatile content (what a process crash leaves)
    pub data: Vec<T>,
    /// content as of the last fsync of this inode
    pub durable: Vec<T>,
    /// writes since that fsync, in order
    pub unsynced: Vec<UOp<T>>,
}
impl<T> Default for Inode<T> {
    fn default() -> Self { Inode { data: vec![], durable: vec![], unsynced: vec![] } }
}

#[derive(Clone, Debug)]
pub enum DirOp {
    Create { name: String, ino: usize },
    Rename { from: String, to: String },
    Unlink { name: String },
}

#[derive(Clone, Debug)]
pub struct FsSimT<T> {
    pub inodes: Vec<Inode<T>>,
    pub dir: BTreeMap<String, usize>,
    pub durable_dir: BTreeMap<String, usize>,
    /// directory operations not yet covered by a directory fsync (in order)
    pub pending_dir: Vec<DirOp>,
}
impl<T> Default for FsSimT<T> {
    fn default() -> Self { FsSimT { inodes: vec![], dir: BTreeMap::new(), durable_dir: BTreeMap::new(), pending_dir: vec![] } }
}
pub type FsSim = FsSimT<u8>;
pub type CellSim = FsSimT<u64>;

fn apply_write<T: Clone + Default>(buf: &mut Vec<T>, off: u64, data: &[T]) {
    let off = off as usize;
    if buf.len() < off + data.len() {
        buf.resize(off + data.len(), T::default());
    }
    buf[off..off + data.len()].clone_from_slice(data);
}

fn apply_dirop(dir: &mut BTreeMap<String, usize>, op: &DirOp) {
    match op {
        DirOp::Create { name, ino } => {
            dir.insert(name.clone(), *ino);
        }
        DirOp::Rename { from, to } => {
            if let Some(i) = dir.remove(from) {
                dir.insert(to.clone(), i);
            }
        }
        DirOp::Unlink { name } => {
            dir.remove(name);
        }
    }
}

impl<T: Clone + Default> FsSimT<T> {
    /// a directory holding the given files, everything durable
    pub fn with_files(files: &[(String, Vec<T>)]) -> FsSimT<T> {
        let mut fs = FsSimT::default();
        for (n, d) in files {
            let ino = fs.inodes.len();
            fs.inodes.push(Inode { data: d.clone(), durable: d.clone(), unsynced: vec![] });
            fs.dir.insert(n.clone(), ino);
            fs.durable_dir.insert(n.clone(), ino);
        }
        fs
    }
    pub fn apply(&mut self, s: &SysT<T>) {
        match s {
            SysT::Create { name, ino } => {
                while self.inodes.len() <= *ino {
                    self.inodes.push(Inode::default());
                }
                self.dir.insert(name.clone(), *ino);
                self.pending_dir.push(DirOp::Create { name: name.clone(), ino: *ino });
            }
            SysT::Write { ino, off, data } => {
                let n = &mut self.inodes[*ino];
                apply_write(&mut n.data, *off, data);
                n.unsynced.push(UOp::Write { off: *off, data: data.clone() });
            }
            SysT::Trunc { ino, len } => {
                let n = &mut self.inodes[*ino];
                n.data.resize(*len as usize, T::default());
                n.unsynced.push(UOp::Trunc { len: *len });
            }
            SysT::Fsync { ino } => {
                let n = &mut self.inodes[*ino];
                n.durable = n.data.clone();
                n.unsynced.clear();
                // fsync of a file also persists the directory entry created for it (ext4/xfs/btrfs
                // behaviour; the Lean Disk machine states this as a hypothesis `ddir p = some j` of the
                // durability theorems) — not renames/unlinks
                let mut keep = vec![];
                for op in std::mem::take(&mut self.pending_dir) {
                    match &op {
                        DirOp::Create { ino: i, .. } if i == ino => apply_dirop(&mut self.durable_dir, &op),
                        _ => keep.push(op),
                    }
                }
                self.pending_dir = keep;
            }
            SysT::Rename { from, to } => {
                let op = DirOp::Rename { from: from.clone(), to: to.clone() };
                apply_dirop(&mut self.dir, &op);
                self.pending_dir.push(op);
            }
            SysT::Unlink { name } => {
                let op = DirOp::Unlink { name: name.clone() };
                apply_dirop(&mut self.dir, &op);
                self.pending_dir.push(op);
            }
            SysT::FsyncDir => {
                self.durable_dir = self.dir.clone();
                self.pending_dir.clear();
            }
            SysT::Mark(_) => {}
        }
    }
    /// process-crash survivor of `name`
    pub fn file(&self, name: &str) -> Option<&[T]> {
        self.dir.get(name).map(|i| self.inodes[*i].data.as_slice())
    }
    pub fn names(&self) -> Vec<String> { self.dir.keys().cloned().collect() }

    /// one power-loss survivor of `name`.  `mode` drives: which directory version, which subset of
    /// the un-fsynced writes survives, whether the last surviving write is torn.
    pub fn power_survivor(&self, name: &str, mode: &PowerChoice) -> Option<Vec<T>> {
        // directory: durable + a prefix of the pending directory operations
        let mut dir = self.durable_dir.clone();
        for op in self.pending_dir.iter().take(mode.dir_prefix.min(self.pending_dir.len())) {
            apply_dirop(&mut dir, op);
        }
        let ino = *dir.get(name)?;
        let n = &self.inodes[ino];
        let mut buf = n.durable.clone();
        let total = n.unsynced.len();
        let kept: Vec<usize> = (0..total).filter(|i| mode.keeps(*i, total)).collect();
        for (pos, i) in kept.iter().enumerate() {
            match &n.unsynced[*i] {
                UOp::Write { off, data } => {
                    let last = pos + 1 == kept.len();
                    if last && mode.tear_sectors > 0 && data.len() > SECTOR {
                        // torn at a sector boundary of the FILE: keep the first `tear_sectors` sectors
                        let first_boundary = SECTOR - (*off as usize % SECTOR);
                        let keep = (first_boundary + (mode.tear_sectors - 1) * SECTOR).min(data.len());
                        apply_write(&mut buf, *off, &data[..keep]);
                    } else {
                        apply_write(&mut buf, *off, data);
                    }
                }
                UOp::Trunc { len } => buf.resize(*len as usize, T::default()),
            }
        }
        Some(buf)
    }
    pub fn unsynced_count(&self, name: &str) -> usize {
        self.dir.get(name).map(|i| self.inodes[*i].unsynced.len()).unwrap_or(0)
    }
    pub fn pending_dir_count(&self) -> usize { self.pending_dir.len() }
}

/// which un-fsynced writes survive a power loss
#[derive(Clone, Debug, Serialize, Deserialize, PartialEq, Eq)]
pub struct PowerChoice {
    /// number of pending directory operations that reached the disk
    pub dir_prefix: usize,
    /// "all" | "none" | "drop:<i>" | "only:<i>" | "mask:<u64 seed>"
    pub keep: String,
    /// 0 = last surviving write complete, n>0 = only its first n sectors
    pub tear_sectors: usize,
}

impl PowerChoice {
    pub fn keeps(&self, i: usize, _total: usize) -> bool {
        if self.keep == "all" { return true; }
        if self.keep == "none" { return false; }
        if let Some(x) = self.keep.strip_prefix("drop:") { return x.parse::<usize>().map(|d| d != i).unwrap_or(true); }
        if let Some(x) = self.keep.strip_prefix("only:") { return x.parse::<usize>().map(|d| d == i).unwrap_or(false); }
        if let Some(x) = self.keep.strip_prefix("mask:") {
            let seed: u64 = x.parse().unwrap_or(0);
            let mut r = XRng(seed.wrapping_add(i as u64 * 7919));
            return r.u64() & 1 == 1;
        }
        true
    }
}

// ---------------------------------------------------------------------------------------------
// strace log parser

#[derive(Debug)]
struct Ofd {
    ino: Option<usize>, // None: the directory itself
    offset: u64,
    append: bool,
}

pub struct Recording {
    /// abstract syscalls on the memory's directory, in completion order, with markers
    pub ops: Vec<Sys>,
    /// state before the first op
    pub initial: FsSim,
    /// stdout of the child
    pub stdout: String,
    pub exit_ok: bool,
    pub log_bytes: u64,
    pub raw_lines: usize,
    /// problems seen while parsing (unknown fd, unparsable line on our directory, …)
    pub warnings: Vec<String>,
    /// op index of a Write whose bytes were copied from (inode, offset) of the simulated state right
    /// before it (copy_file_range, or a read immediately followed by a write of the same bytes)
    pub copies: BTreeMap<usize, (usize, u64)>,
}

fn unescape(s: &str) -> Vec<u8> {
    // strace -xx prints every byte as \xNN; be liberal and also accept plain chars / common escapes
    let b = s.as_bytes();
    let mut out = Vec::with_capacity(b.len() / 4 + 1);
    let mut i = 0;
    while i < b.len() {
        if b[i] == b'\\' && i + 1 < b.len() {
            match b[i + 1] {
                b'x' if i + 3 < b.len() => {
                    let h = |c: u8| -> u8 {
                        match c { b'0'..=b'9' => c - b'0', b'a'..=b'f' => c - b'a' + 10, b'A'..=b'F' => c - b'A' + 10, _ => 0 }
                    };
                    out.push(h(b[i + 2]) * 16 + h(b[i + 3]));
                    i += 4;
                }
                b'n' => { out.push(b'\n'); i += 2; }
                b't' => { out.push(b'\t'); i += 2; }
                b'r' => { out.push(b'\r'); i += 2; }
                b'0' => { out.push(0); i += 2; }
                c => { out.push(c); i += 2; }
            }
        } else {
            out.push(b[i]);
            i += 1;
        }
    }
    out
}

/// split "a, b, c" at top level (quotes, <>, [], {} nest)
fn split_args(s: &str) -> Vec<String> {
    let mut out = vec![];
    let mut cur = String::new();
    let (mut depth, mut in_q, mut esc) = (0i32, false, false);
    for c in s.chars() {
        if in_q {
            cur.push(c);
            if esc { esc = false; } else if c == '\\' { esc = true; } else if c == '"' { in_q = false; }
            continue;
        }
        match c {
            '"' => { in_q = true; cur.push(c); }
            '<' | '[' | '{' | '(' => { depth += 1; cur.push(c); }
            '>' | ']' | '}' | ')' => { depth -= 1; cur.push(c); }
            ',' if depth == 0 => { out.push(cur.trim().to_string()); cur.clear(); }
            _ => cur.push(c),
        }
    }
    if !cur.trim().is_empty() { out.push(cur.trim().to_string()); }
    out
}

fn fd_num(arg: &str) -> Option<i64> {
    let t = arg.split('<').next()?.trim();
    if t == "AT_FDCWD" { return Some(-100); }
    t.parse().ok()
}

fn quoted(arg: &str) -> Option<Vec<u8>> {
    let a = arg.trim();
    let st = a.find('"')?;
    let en = a.rfind('"')?;
    if en <= st { return None; }
    Some(unescape(&a[st + 1..en]))
}

/// parse "name(args) = ret ..." → (name, args, ret)
fn split_call(line: &str) -> Option<(String, String, i64)> {
    let p = line.find('(')?;
    let name = line[..p].trim().to_string();
    // strace pads ")" and "=" with spaces up to column 40
    let eqs = line.rfind(" = ")?;
    let before = line[..eqs].trim_end();
    if !before.ends_with(')') { return None; }
    let eq = before.len() - 1;
    if eq < p { return None; }
    let args = line[p + 1..eq].to_string();
    let rest = line[eqs + 3..].trim();
    let tok = rest.split(|c: char| c == ' ' || c == '<').next().unwrap_or("");
    let ret: i64 = if let Some(h) = tok.strip_prefix("0x") { i64::from_str_radix(h, 16).ok()? } else { tok.parse().ok()? };
    Some((name, args, ret))
}

pub fn parse_strace(log: &str, dir: &Path, initial: FsSim) -> (Vec<Sys>, Vec<String>, usize, BTreeMap<usize, (usize, u64)>) {
    let dir_s = dir.to_string_lossy().to_string();
    let mut warnings = vec![];
    let mut ops: Vec<Sys> = vec![];
    let mut sim = initial;
    let mut fds: BTreeMap<i64, usize> = BTreeMap::new(); // fd -> ofd index
    let mut ofds: Vec<Ofd> = vec![];
    let mut unfinished: BTreeMap<String, String> = BTreeMap::new(); // pid -> partial line
    let mut raw = 0usize;
    let mut copies: BTreeMap<usize, (usize, u64)> = BTreeMap::new();
    let mut last_read: Option<(usize, u64, Vec<u8>)> = None; // (inode, offset, bytes) of the last read on a memory file
    for line in log.lines() {
        raw += 1;
        let (pid, rest) = match line.split_once(' ') {
            Some((p, r)) if p.chars().all(|c| c.is_ascii_digit()) => (p.to_string(), r.trim_start().to_string()),
            _ => ("0".to_string(), line.to_string()),
        };
        let mut text = rest;
        if text.starts_with("+++") || text.starts_with("---") { continue; }
        if text.ends_with("<unfinished ...>") {
            let t = text.trim_end_matches("<unfinished ...>").to_string();
            // a descriptor is released when close() is ENTERED: another thread's open may be logged
            // as returning the same number before this close is logged as resumed
            if let Some(r) = t.strip_prefix("close(") {
                if let Some(fd) = fd_num(r) { fds.remove(&fd); }
                unfinished.insert(pid, "\u{1}".to_string());
            } else {
                unfinished.insert(pid, t);
            }
            continue;
        }
        if text.starts_with("<... ") {
            if let Some(pos) = text.find("resumed>") {
                let tail = text[pos + 8..].to_string();
                let head = unfinished.remove(&pid).unwrap_or_default();
                if head == "\u{1}" { continue; }
                text = format!("{head}{tail}");
            }
        }
        let Some((name, args, ret)) = split_call(&text) else { continue };
        let a = split_args(&args);
        let our_path = |p: &[u8], dirfd: i64, fds: &BTreeMap<i64, usize>, ofds: &Vec<Ofd>| -> Option<String> {
            let s = String::from_utf8_lossy(p).to_string();
            if s.starts_with('/') {
                if s == dir_s { return Some(String::new()); }
                let pre = format!("{dir_s}/");
                return s.strip_prefix(&pre).map(|x| x.to_string());
            }
            // relative: only relative to a descriptor of our directory
            let o = fds.get(&dirfd)?;
            if ofds[*o].ino.is_none() { Some(s) } else { None }
        };
        match name.as_str() {
            "openat" | "creat" | "open" => {
                let (dirfd, path_arg, flags) = if name == "openat" {
                    (fd_num(&a[0]).unwrap_or(-100), a.get(1).cloned().unwrap_or_default(), a.get(2).cloned().unwrap_or_default())
                } else if name == "creat" {
                    (-100, a.first().cloned().unwrap_or_default(), "O_CREAT|O_WRONLY|O_TRUNC".to_string())
                } else {
                    (-100, a.first().cloned().unwrap_or_default(), a.get(1).cloned().unwrap_or_default())
                };
                let Some(p) = quoted(&path_arg) else { continue };
                let Some(rel) = our_path(&p, dirfd, &fds, &ofds) else {
                    if ret >= 0 { fds.remove(&ret); }
                    continue;
                };
                if ret < 0 { continue; }
                if rel.is_empty() {
                    ofds.push(Ofd { ino: None, offset: 0, append: false });
                    fds.insert(ret, ofds.len() - 1);
                    continue;
                }
                if rel.contains('/') {
                    warnings.push(format!("nested path in memory dir: {rel}"));
                    continue;
                }
                let ino = match sim.dir.get(&rel).copied() {
                    Some(i) => {
                        if flags.contains("O_TRUNC") && !sim.inodes[i].data.is_empty() {
                            let s = Sys::Trunc { ino: i, len: 0 };
                            sim.apply(&s);
                            ops.push(s);
                        }
                        i
                    }
                    None => {
                        if !flags.contains("O_CREAT") {
                            warnings.push(format!("open of unknown file {rel} succeeded without O_CREAT"));
                        }
                        let i = sim.inodes.len();
                        let s = Sys::Create { name: rel.clone(), ino: i };
                        sim.apply(&s);
                        ops.push(s);
                        i
                    }
                };
                ofds.push(Ofd { ino: Some(ino), offset: 0, append: flags.contains("O_APPEND") });
                fds.insert(ret, ofds.len() - 1);
            }
            "close" => {
                if let Some(fd) = fd_num(&a[0]) { fds.remove(&fd); }
            }
            "dup" | "dup2" | "dup3" => {
                if ret < 0 { continue; }
                if let Some(fd) = fd_num(&a[0]) {
                    match fds.get(&fd).copied() {
                        Some(o) => { fds.insert(ret, o); }
                        None => { fds.remove(&ret); }
                    }
                }
            }
            "fcntl" => {
                if ret < 0 { continue; }
                if a.get(1).map(|s| s.starts_with("F_DUPFD")).unwrap_or(false) {
                    if let Some(fd) = fd_num(&a[0]) {
                        match fds.get(&fd).copied() {
                            Some(o) => { fds.insert(ret, o); }
                            None => { fds.remove(&ret); }
                        }
                    }
                }
            }
            "lseek" => {
                if ret < 0 { continue; }
                if let Some(o) = fd_num(&a[0]).and_then(|fd| fds.get(&fd).copied()) {
                    ofds[o].offset = ret as u64;
                }
            }
            "read" | "pread64" => {
                if ret <= 0 || name == "pread64" { continue; }
                if let Some(o) = fd_num(&a[0]).and_then(|fd| fds.get(&fd).copied()) {
                    if let (Some(ino), true) = (ofds[o].ino, ret >= 64) {
                        if let Some(mut d) = a.get(1).and_then(|x| quoted(x)) {
                            d.truncate(ret as usize);
                            last_read = Some((ino, ofds[o].offset, d));
                        }
                    }
                    ofds[o].offset += ret as u64;
                }
            }
            "write" | "pwrite64" => {
                let fd = fd_num(&a[0]).unwrap_or(-2);
                if fd == -1 {
                    if let Some(d) = a.get(1).and_then(|x| quoted(x)) {
                        let s = String::from_utf8_lossy(&d).to_string();
                        if let Some(t) = s.strip_prefix("MVMARK ") { ops.push(Sys::Mark(t.to_string())); }
                    }
                    continue;
                }
                if ret <= 0 { continue; }
                let Some(o) = fds.get(&fd).copied() else { continue };
                let Some(ino) = ofds[o].ino else { continue };
                let Some(mut data) = a.get(1).and_then(|x| quoted(x)) else {
                    warnings.push(format!("write without data: {}", &text[..text.len().min(80)]));
                    continue;
                };
                data.truncate(ret as usize);
                if data.len() != ret as usize {
                    warnings.push(format!("write data shorter than return value ({} < {ret})", data.len()));
                }
                let off = if name == "pwrite64" {
                    a.get(3).and_then(|x| x.parse::<u64>().ok()).unwrap_or(0)
                } else if ofds[o].append {
                    sim.inodes[ino].data.len() as u64
                } else {
                    ofds[o].offset
                };
                if name == "write" { ofds[o].offset = off + data.len() as u64; }
                if let Some((rino, roff, rdata)) = &last_read {
                    if *rdata == data { copies.insert(ops.len(), (*rino, *roff)); }
                }
                last_read = None;
                let s = Sys::Write { ino, off, data };
                sim.apply(&s);
                ops.push(s);
            }
            "writev" | "pwritev" | "pwritev2" => {
                let fd = fd_num(&a[0]).unwrap_or(-2);
                if let Some(o) = fds.get(&fd).copied() {
                    if ofds[o].ino.is_some() && ret > 0 {
                        warnings.push("writev on a memory file is not supported by the recorder".into());
                    }
                }
            }
            "ftruncate" => {
                if ret < 0 { continue; }
                let Some(o) = fd_num(&a[0]).and_then(|fd| fds.get(&fd).copied()) else { continue };
                let Some(ino) = ofds[o].ino else { continue };
                let len: u64 = a.get(1).and_then(|x| x.parse().ok()).unwrap_or(0);
                let s = Sys::Trunc { ino, len };
                sim.apply(&s);
                ops.push(s);
            }
            "fallocate" => {
                if ret < 0 { continue; }
                if let Some(o) = fd_num(&a[0]).and_then(|fd| fds.get(&fd).copied()) {
                    if ofds[o].ino.is_some() { warnings.push("fallocate on a memory file is not modelled".into()); }
                }
            }
            "fsync" | "fdatasync" => {
                if ret < 0 { continue; }
                let Some(o) = fd_num(&a[0]).and_then(|fd| fds.get(&fd).copied()) else { continue };
                let s = match ofds[o].ino { Some(ino) => Sys::Fsync { ino }, None => Sys::FsyncDir };
                sim.apply(&s);
                ops.push(s);
            }
            "rename" | "renameat" | "renameat2" => {
                if ret < 0 { continue; }
                let (d1, p1, d2, p2) = if name == "rename" {
                    (-100, a.first().cloned(), -100, a.get(1).cloned())
                } else {
                    (fd_num(&a[0]).unwrap_or(-100), a.get(1).cloned(), fd_num(&a[2]).unwrap_or(-100), a.get(3).cloned())
                };
                let from = p1.and_then(|x| quoted(&x)).and_then(|p| our_path(&p, d1, &fds, &ofds));
                let to = p2.and_then(|x| quoted(&x)).and_then(|p| our_path(&p, d2, &fds, &ofds));
                match (from, to) {
                    (Some(f), Some(t)) => {
                        let s = Sys::Rename { from: f, to: t };
                        sim.apply(&s);
                        ops.push(s);
                    }
                    (None, None) => {}
                    (f, t) => warnings.push(format!("rename across the memory directory boundary: {f:?} -> {t:?}")),
                }
            }
            "unlink" | "unlinkat" => {
                if ret < 0 { continue; }
                let (d, p) = if name == "unlink" { (-100, a.first().cloned()) } else { (fd_num(&a[0]).unwrap_or(-100), a.get(1).cloned()) };
                if let Some(rel) = p.and_then(|x| quoted(&x)).and_then(|p| our_path(&p, d, &fds, &ofds)) {
                    if !rel.is_empty() {
                        let s = Sys::Unlink { name: rel };
                        sim.apply(&s);
                        ops.push(s);
                    }
                }
            }
            "link" | "linkat" => {
                if ret >= 0 {
                    let involved = a.iter().filter_map(|x| quoted(x)).any(|p| String::from_utf8_lossy(&p).starts_with(&dir_s));
                    if involved { warnings.push("link/linkat on the memory directory is not modelled".into()); }
                }
            }
            "copy_file_range" | "sendfile" => {
                if ret <= 0 { continue; }
                // copy_file_range(fd_in, off_in, fd_out, off_out, len, flags) ; sendfile(out_fd, in_fd, offset, count)
                let (fin, fout, off_in_arg, off_out_arg) = if name == "copy_file_range" {
                    (fd_num(&a[0]), fd_num(&a[2]), a.get(1).cloned().unwrap_or_default(), a.get(3).cloned().unwrap_or_default())
                } else {
                    (fd_num(&a[1]), fd_num(&a[0]), a.get(2).cloned().unwrap_or_default(), "NULL".to_string())
                };
                let oin = fin.and_then(|fd| fds.get(&fd).copied());
                let oout = fout.and_then(|fd| fds.get(&fd).copied());
                let n = ret as u64;
                let in_off_explicit = off_in_arg.trim_matches(|c| c == '[' || c == ']').parse::<u64>().ok();
                let out_off_explicit = off_out_arg.trim_matches(|c| c == '[' || c == ']').parse::<u64>().ok();
                let src_off = match (in_off_explicit, oin) { (Some(x), _) => x, (None, Some(o)) => ofds[o].offset, _ => 0 };
                if let (None, Some(o)) = (in_off_explicit, oin) { ofds[o].offset += n; }
                if let Some(oo) = oout {
                    if let Some(ino_out) = ofds[oo].ino {
                        let dst_off = out_off_explicit.unwrap_or(ofds[oo].offset);
                        if out_off_explicit.is_none() { ofds[oo].offset += n; }
                        if let Some(ino_in) = oin.and_then(|o| ofds[o].ino) { copies.insert(ops.len(), (ino_in, src_off)); }
                        let data = match oin.and_then(|o| ofds[o].ino) {
                            Some(ino_in) => {
                                let d = &sim.inodes[ino_in].data;
                                let s0 = (src_off as usize).min(d.len());
                                let e0 = ((src_off + n) as usize).min(d.len());
                                let mut v = d[s0..e0].to_vec();
                                if v.len() < n as usize {
                                    warnings.push("copy source shorter than copied length".into());
                                    v.resize(n as usize, 0);
                                }
                                v
                            }
                            None => {
                                warnings.push("copy into a memory file from an untracked source".into());
                                vec![0u8; n as usize]
                            }
                        };
                        let s = Sys::Write { ino: ino_out, off: dst_off, data };
                        sim.apply(&s);
                        ops.push(s);
                    }
                }
            }
            _ => {}
        }
    }
    (ops, warnings, raw, copies)
}

pub const STRACE_SET: &str = "trace=open,openat,creat,close,lseek,read,write,pwrite64,writev,pwritev,ftruncate,fsync,fdatasync,rename,renameat,renameat2,link,linkat,unlink,unlinkat,copy_file_range,sendfile,fallocate,dup,dup2,dup3,fcntl";

/// run `exe args…` under strace; `dir` = the memory's directory; `initial` = its content before
pub fn record(exe: &Path, args: &[String], dir: &Path, initial: FsSim, scratch: &Path) -> Result<Recording, String> {
    let log = scratch.join(format!("strace-{}.log", std::process::id()));
    let _ = std::fs::remove_file(&log);
    let out = Command::new("strace")
        .arg("-f").arg("-y").arg("-xx").arg("-s").arg("100000000")
        .arg("-e").arg(STRACE_SET)
        .arg("-o").arg(&log)
        .arg(exe).args(args)
        .stdin(Stdio::null())
        .stderr(Stdio::piped())
        .output()
        .map_err(|e| format!("strace spawn: {e}"))?;
    let text = std::fs::read(&log).map_err(|e| format!("strace log: {e}"))?;
    let log_bytes = text.len() as u64;
    let text = String::from_utf8_lossy(&text).to_string();
    if std::env::var("MVCRASH_KEEP_LOG").is_ok() {
        let _ = std::fs::copy(&log, "/tmp/mvcrash-last.log");
    }
    let _ = std::fs::remove_file(&log);
    let (ops, warnings, raw_lines, copies) = parse_strace(&text, dir, initial.clone());
    Ok(Recording {
        ops, initial,
        stdout: String::from_utf8_lossy(&out.stdout).to_string(),
        exit_ok: out.status.success(),
        log_bytes, raw_lines, warnings, copies,
    })
}

// ---------------------------------------------------------------------------------------------
// markers → API steps

#[derive(Clone, Debug)]
pub struct StepSpan {
    pub index: usize,
    pub name: String,
    /// position (in `ops`) of the begin marker and of the end marker (ops.len() when missing)
    pub begin: usize,
    pub end: usize,
    pub ok: bool,
    pub err: String,
}

pub fn step_spans(ops: &[Sys]) -> Vec<StepSpan> {
    let mut spans: Vec<StepSpan> = vec![];
    for (i, s) in ops.iter().enumerate() {
        if let Sys::Mark(m) = s {
            let w: Vec<&str> = m.split(' ').collect();
            if w.len() >= 3 && w[0] == "begin" {
                spans.push(StepSpan { index: w[1].parse().unwrap_or(0), name: w[2].to_string(), begin: i, end: ops.len(), ok: false, err: String::new() });
            } else if w.len() >= 3 && w[0] == "end" {
                let idx: usize = w[1].parse().unwrap_or(0);
                if let Some(sp) = spans.iter_mut().rev().find(|s| s.index == idx) {
                    sp.end = i;
                    sp.ok = w[2] == "ok";
                    sp.err = w[3..].join(" ");
                }
            }
        }
    }
    spans
}

/// file hashes the child reported at op boundaries: (position in ops, hash, len)
pub fn hash_marks(ops: &[Sys]) -> Vec<(usize, String, u64)> {
    let mut v = vec![];
    for (i, s) in ops.iter().enumerate() {
        if let Sys::Mark(m) = s {
            let w: Vec<&str> = m.split(' ').collect();
            if w.len() == 3 && w[0] == "hash" {
                v.push((i, w[1].to_string(), w[2].parse().unwrap_or(0)));
            }
        }
    }
    v
}

// ---------------------------------------------------------------------------------------------
// reference model of acknowledged operations (the oracle's expectation)

#[derive(Clone, Debug, PartialEq, Eq)]
pub struct RefFrame {
    pub status: char,
    pub content: String,
    pub token: Option<String>,
}

#[derive(Clone, Debug, Default, PartialEq, Eq)]
pub struct RefModel {
    pub frames: Vec<RefFrame>,
}

/// frames a put of `p` creates: the document frame and, for a chunked document, its chunk frames
/// (chunk plan from the repo's own planner via the verif hook; content of a chunked UTF-8 document
/// reads back as the concatenation of its chunks = the normalised text)
fn frames_of_put(kind: u8, p: &[u8], token: Option<String>) -> Vec<RefFrame> {
    let plan = memvid_core::verif_hooks::put_chunk_plan(p, None).unwrap_or(None);
    let mut v = vec![];
    match plan {
        Some(chunks) => {
            let doc = if std::str::from_utf8(p).is_ok() { b3hex(chunks.concat().as_bytes()) } else { b3hex(p) };
            v.push(RefFrame { status: 'a', content: doc, token: None });
            for c in &chunks {
                v.push(RefFrame { status: 'a', content: b3hex(c.as_bytes()), token: None });
            }
        }
        None => v.push(RefFrame { status: 'a', content: b3hex(p), token: if kind == 0 { token } else { None } }),
    }
    v
}

impl RefModel {
    pub fn apply(&mut self, op: &HOp) {
        match op {
            HOp::Put { kind, len, seed } => {
                let p = payload(*kind, *len, *seed);
                self.frames.extend(frames_of_put(*kind, &p, Some(token_of(*seed))));
            }
            HOp::Update { id, kind, len, seed } => {
                if let Some(f) = self.frames.get_mut(*id as usize) {
                    if f.status == 'a' {
                        f.status = 's';
                        // update_frame inherits the old frame's search text: the successor is found
                        // under the OLD token (by design of update_frame, not a crash matter)
                        let tok = f.token.clone();
                        let p = payload(*kind, *len, *seed);
                        self.frames.extend(frames_of_put(0, &p, tok));
                    }
                }
            }
            HOp::Delete { id } => {
                if let Some(f) = self.frames.get_mut(*id as usize) {
                    if f.status == 'a' { f.status = 'd'; }
                }
            }
            _ => {}
        }
    }
    pub fn frames_line(&self) -> String {
        self.frames.iter().enumerate()
            .map(|(i, f)| format!("{}{}:{}", i, f.status, if f.status == 'a' { f.content.as_str() } else { "-" }))
            .collect::<Vec<_>>().join(" ")
    }
    /// expected search answers: token -> ids of ACTIVE frames carrying it
    pub fn search_expect(&self, tokens: &[String]) -> BTreeMap<String, Vec<u64>> {
        let mut m = BTreeMap::new();
        for t in tokens {
            let ids: Vec<u64> = self.frames.iter().enumerate()
                .filter(|(_, f)| f.status == 'a' && f.token.as_deref() == Some(t.as_str()))
                .map(|(i, _)| i as u64).collect();
            m.insert(t.clone(), ids);
        }
        m
    }
}

pub fn all_tokens(ops: &[HOp]) -> Vec<String> {
    let mut v = vec![];
    for o in ops {
        match o {
            // documents above the chunking threshold are found through their chunks: not part of the
            // search sanity check
            HOp::Put { kind: 0, seed, len } if *len < 2000 => v.push(token_of(*seed)),
            _ => {}
        }
    }
    v
}

/// the states the property allows at crash position `k` (= number of recorded ops completed):
/// all acknowledged ops applied, optionally the in-flight one.
pub fn allowed_states(history: &[HOp], spans: &[StepSpan], k: usize) -> (RefModel, Option<RefModel>, Option<usize>) {
    // span index 0 = create, n+1 = final drop; history op i ↔ span index i+1
    let mut acked = RefModel::default();
    let mut inflight: Option<usize> = None;
    for sp in spans {
        if sp.index == 0 || sp.index > history.len() {
            if sp.begin < k && sp.end >= k { inflight = Some(sp.index); }
            continue;
        }
        let op = &history[sp.index - 1];
        if sp.end < k {
            if sp.ok { acked.apply(op); }
        } else if sp.begin < k {
            inflight = Some(sp.index);
        }
    }
    let with = match inflight {
        Some(i) if i >= 1 && i <= history.len() => {
            let mut m = acked.clone();
            m.apply(&history[i - 1]);
            if m != acked { Some(m) } else { None }
        }
        _ => None,
    };
    (acked, with, inflight)
}

// ---------------------------------------------------------------------------------------------
// running the real open on materialised images

pub struct OpenResult {
    pub first: Obs,
    /// clean close + reopen of the file the first open left
    pub second: Option<Obs>,
    /// open of a byte copy taken right after the first open returned
    pub third: Option<Obs>,
}

impl OpenResult {
    /// "opening a recovered file again changes nothing": the reopen and the crash-right-after-recovery
    /// copy must show what the first open showed; returns a description of the difference
    pub fn reopen_diff(&self) -> Option<String> {
        for (tag, o) in [("clean close + reopen", &self.second), ("copy taken right after the open returned, opened", &self.third)] {
            if let Some(o) = o {
                if o.logical() != self.first.logical() {
                    return Some(format!("{tag} shows [{}], the first open showed [{}]", o.logical(), self.first.logical()));
                }
            }
        }
        None
    }
}

/// write the images to `scratch/img-N/m.mv2`, run one child that opens them all, collect observations.
/// A child that dies (abort, stack overflow) is restarted after the image that killed it.
pub fn open_images(exe: &Path, scratch: &Path, images: &[Vec<u8>], tokens: &[String], twice: bool) -> Vec<OpenResult> {
    let mut paths = vec![];
    for (i, img) in images.iter().enumerate() {
        let d = scratch.join(format!("img-{i}"));
        let _ = std::fs::create_dir_all(&d);
        let p = d.join(FILE_NAME);
        std::fs::write(&p, img).expect("write image");
        paths.push(p.to_string_lossy().to_string());
    }
    let mut results: Vec<Option<OpenResult>> = (0..images.len()).map(|_| None).collect();
    let mut start = 0usize;
    let list = scratch.join("open-list.json");
    while start < images.len() {
        std::fs::write(&list, serde_json::to_string(&json!({"tokens": tokens, "paths": paths, "twice": twice, "start": start})).unwrap()).unwrap();
        let out = Command::new(exe).arg("child-open").arg(&list)
            .stdin(Stdio::null()).stderr(Stdio::null()).output();
        let mut last = None;
        if let Ok(out) = out {
            for line in String::from_utf8_lossy(&out.stdout).lines() {
                if let Ok(v) = serde_json::from_str::<Value>(line) {
                    let i = v["i"].as_u64().unwrap_or(u64::MAX) as usize;
                    if i < images.len() {
                        let first: Obs = serde_json::from_value(v["first"].clone()).unwrap_or_else(|_| Obs::failed("bad child line".into()));
                        let second: Option<Obs> = serde_json::from_value(v["second"].clone()).ok().flatten();
                        let third: Option<Obs> = serde_json::from_value(v["third"].clone()).ok().flatten();
                        results[i] = Some(OpenResult { first, second, third });
                        last = Some(i);
                    }
                }
            }
        }
        let next = last.map(|l| l + 1).unwrap_or(start);
        if next >= images.len() { break; }
        // the child died on image `next`
        results[next] = Some(OpenResult { first: Obs::failed("CHILD-DIED (abort/stack overflow/kill)".into()), second: None, third: None });
        start = next + 1;
    }
    for i in 0..images.len() {
        let _ = std::fs::remove_dir_all(scratch.join(format!("img-{i}")));
    }
    let _ = std::fs::remove_file(&list);
    results.into_iter().map(|r| r.unwrap_or(OpenResult { first: Obs::failed("no result".into()), second: None, third: None })).collect()
}

// ---------------------------------------------------------------------------------------------
// tie #1: canonical form of the recorded stream of one API step

pub fn le64(b: &[u8], off: usize) -> u64 {
    if b.len() < off + 8 { return 0; }
    u64::from_le_bytes(b[off..off + 8].try_into().unwrap())
}

/// region class of a write, from the header of the file at that moment
pub fn classify_write(file_before: &[u8], off: u64, data: &[u8], next_is_footer_of: Option<u64>) -> &'static str {
    let wal_size = if file_before.len() >= 32 { le64(file_before, 24) } else { 0 };
    let wal_end = HEADER_SIZE + wal_size;
    if off == 0 && data.len() as u64 == HEADER_SIZE { return "hdr"; }
    if data.len() == 56 && data.starts_with(b"MV2FOOT!") { return "foot"; }
    if wal_size > 0 && off >= HEADER_SIZE && off < wal_end {
        if data.iter().all(|b| *b == 0) && data.len() as u64 <= ENTRY_HEADER { return "sent"; }
        return "rec";
    }
    if let Some(l) = next_is_footer_of {
        if l == data.len() as u64 { return "toc"; }
    }
    "data"
}

/// canonical tokens of ops[begin..end): `<kind>.<target>[.<class>]`, target o = inode the path named at
/// the begin of the step, t = another inode (staging file), d = directory
pub fn canon_step(ops: &[Sys], begin: usize, end: usize, sim_at_begin: &FsSim, name: &str) -> Vec<String> {
    let mut sim = sim_at_begin.clone();
    let mut orig = sim.dir.get(name).copied();
    let mut out = vec![];
    for i in begin..end.min(ops.len()) {
        let s = &ops[i];
        if let (None, Sys::Create { name: n, ino }) = (orig, s) {
            if n == name { orig = Some(*ino); }
        }
        let tgt = |ino: usize| -> &'static str { if Some(ino) == orig { "o" } else { "t" } };
        match s {
            Sys::Mark(_) => {}
            Sys::Create { ino, .. } => out.push(format!("create.{}", tgt(*ino))),
            Sys::Write { ino, off, data } => {
                let next_footer = match ops.get(i + 1) {
                    Some(Sys::Write { ino: i2, data: d2, off: o2 }) if i2 == ino && d2.len() == 56 && d2.starts_with(b"MV2FOOT!") && *o2 == off + data.len() as u64 => Some(le64(d2, 8)),
                    _ => None,
                };
                let before = &sim.inodes[*ino].data;
                // a whole-file copy into the (empty) staging file
                let cls = if tgt(*ino) == "t" && *off as usize == before.len() && orig.map(|o| {
                    let od = &sim.inodes[o].data;
                    (*off as usize + data.len()) <= od.len() && od[*off as usize..*off as usize + data.len()] == data[..] && data.len() > 4096
                }).unwrap_or(false) { "copy" } else { classify_write(if before.len() >= 4096 { before } else { data }, *off, data, next_footer) };
                out.push(format!("pwrite.{}.{}", tgt(*ino), cls));
            }
            Sys::Trunc { ino, .. } => out.push(format!("ftruncate.{}", tgt(*ino))),
            Sys::Fsync { ino } => out.push(format!("fsync.{}", tgt(*ino))),
            Sys::Rename { from, to } => out.push(format!("rename.{}.{}", if from == name { "o" } else { "t" }, if to == name { "o" } else { "t" })),
            Sys::Unlink { name: n } => out.push(format!("unlink.{}", if n == name { "o" } else { "t" })),
            Sys::FsyncDir => out.push("fsync.d".to_string()),
        }
        sim.apply(s);
    }
    out
}

/// run-length compression of a canonical token list: a*3 b a …  → "a*3 b a"
pub fn rle(tokens: &[String]) -> Vec<(String, usize)> {
    let mut v: Vec<(String, usize)> = vec![];
    for t in tokens {
        match v.last_mut() {
            Some((l, n)) if l == t => *n += 1,
            _ => v.push((t.clone(), 1)),
        }
    }
    v
}

pub fn scratch_dir(tag: &str) -> PathBuf {
    let base = std::env::var("TMPDIR").unwrap_or_else(|_| "/tmp".into());
    let d = PathBuf::from(base).join(format!("mvcrash-{tag}-{}", std::process::id()));
    let _ = std::fs::remove_dir_all(&d);
    std::fs::create_dir_all(&d).expect("scratch dir");
    d
}

pub fn used_names(fs: &FsSim) -> BTreeSet<String> { fs.dir.keys().cloned().collect() }

// ---------------------------------------------------------------------------------------------
// oracle: acknowledged-operations reference vs the observation of the reopened crash image

#[derive(Clone, Debug)]
pub struct Verdict {
    pub ok: bool,
    /// stable failure class (kebab-case) when !ok
    pub signature: String,
    pub what: String,
    /// which allowed state the observation matched: "acked" | "acked+inflight" | "create-in-flight" | ""
    pub matched: &'static str,
}

pub fn judge(history: &[HOp], spans: &[StepSpan], k: usize, obs: &Obs, tokens: &[String]) -> Verdict {
    let (acked, with, inflight) = allowed_states(history, spans, k);
    let step_name = |i: Option<usize>| -> String {
        match i {
            None => "idle".into(),
            Some(i) => spans.iter().find(|s| s.index == i).map(|s| s.name.clone()).unwrap_or_else(|| "?".into()),
        }
    };
    let inname = step_name(inflight);
    if !obs.ok {
        if inflight == Some(0) {
            // the memory was never acknowledged to exist
            return Verdict { ok: true, signature: String::new(), what: String::new(), matched: "create-in-flight" };
        }
        return Verdict {
            ok: false,
            signature: format!("open-fails-{}-after-crash-in-{}", stage_of_error(&obs.err), inname.replace('_', "-")),
            what: format!("Memvid::open fails ({}) on the file a process crash inside `{}` leaves; acknowledged state: [{}]", obs.err, inname, acked.frames_line()),
            matched: "",
        };
    }
    let got = obs.frames_line();
    let cands: Vec<(&'static str, &RefModel)> = match &with {
        Some(w) => vec![("acked", &acked), ("acked+inflight", w)],
        None => vec![("acked", &acked)],
    };
    for (tag, m) in &cands {
        if got == m.frames_line() {
            // frames agree; search sanity on this state
            let exp = m.search_expect(tokens);
            if obs.search != exp {
                let diff: Vec<String> = exp.iter().filter(|(k, v)| obs.search.get(*k) != Some(*v))
                    .map(|(k, v)| format!("{k}: expected {v:?} got {:?}", obs.search.get(k))).collect();
                return Verdict {
                    ok: false,
                    signature: format!("search-wrong-after-crash-in-{}", inname.replace('_', "-")),
                    what: format!("frames are as acknowledged but search answers differ after a crash inside `{}`: {}", inname, diff.join("; ")),
                    matched: tag,
                };
            }
            return Verdict { ok: true, signature: String::new(), what: String::new(), matched: tag };
        }
    }
    // classify the mismatch
    let nack = acked.frames.len();
    let nobs = obs.frames.len();
    let class = if obs.frames.iter().any(|f| f.content.starts_with("err:")) {
        "frame-unreadable"
    } else if nobs < nack {
        "lost-acknowledged-op"
    } else if nobs > with.as_ref().map(|w| w.frames.len()).unwrap_or(nack) {
        "extra-frames"
    } else {
        "wrong-state"
    };
    Verdict {
        ok: false,
        signature: format!("{class}-after-crash-in-{}", inname.replace('_', "-")),
        what: format!("after a crash inside `{}` the reopened memory shows [{}]; allowed: [{}]{}", inname, got, acked.frames_line(),
            with.as_ref().map(|w| format!(" or [{}]", w.frames_line())).unwrap_or_default()),
        matched: "",
    }
}

/// every process-crash point of a recording: (k = number of completed recorded ops, image of m.mv2)
/// — only points after a mutation of the directory; points where the file does not exist are skipped.
pub fn process_crash_points(rec: &Recording) -> Vec<(usize, Vec<u8>)> {
    let mut sim = rec.initial.clone();
    let mut out = vec![];
    for (i, s) in rec.ops.iter().enumerate() {
        sim.apply(s);
        if s.is_mutation() {
            if let Some(f) = sim.file(FILE_NAME) {
                out.push((i + 1, f.to_vec()));
            }
        }
    }
    out
}

/// recorder self-check: simulated file == hash reported by the child at every op boundary
pub fn selfcheck(rec: &Recording) -> Result<usize, String> {
    let mut sim = rec.initial.clone();
    let marks = hash_marks(&rec.ops);
    let mut mi = 0;
    let mut n = 0;
    for (i, s) in rec.ops.iter().enumerate() {
        sim.apply(s);
        if mi < marks.len() && marks[mi].0 == i {
            let h = sim.file(FILE_NAME).map(b3hex).unwrap_or_else(|| "missing".into());
            if h != marks[mi].1 {
                return Err(format!("simulated file differs from the real file at recorded op {i} (sim {h}, real {})", marks[mi].1));
            }
            n += 1;
            mi += 1;
        }
    }
    Ok(n)
}

pub fn record_history(exe: &Path, scratch: &Path, history: &[HOp]) -> Result<Recording, String> {
    let dir = scratch.join("mem");
    let _ = std::fs::remove_dir_all(&dir);
    std::fs::create_dir_all(&dir).map_err(|e| e.to_string())?;
    let path = dir.join(FILE_NAME);
    let rec = record(exe, &["child-run".into(), path.to_string_lossy().to_string(), serde_json::to_string(history).unwrap()], &dir, FsSim::default(), scratch)?;
    let _ = std::fs::remove_dir_all(&dir);
    if !rec.exit_ok {
        return Err(format!("recording child failed: {}", rec.stdout));
    }
    if !rec.warnings.is_empty() {
        return Err(format!("recorder warnings: {:?}", rec.warnings));
    }
    selfcheck(&rec)?;
    Ok(rec)
}

// ---------------------------------------------------------------------------------------------
// evaluation of all process-crash points of one recording

pub struct PointResult {
    pub k: usize,
    pub image: usize,
    pub inflight: String,
    pub verdict: Verdict,
}

pub struct CrashEval {
    pub points: Vec<PointResult>,
    /// distinct images (by content) and the observation of the real open on each
    pub images: Vec<Vec<u8>>,
    pub obs: Vec<OpenResult>,
    /// symbolic twin of every distinct image (RLE) and the object lines needed before asking about it
    pub cell_rle: Vec<String>,
    pub obj_upto: Vec<usize>,
    pub labeller: Labeller,
}

pub fn inflight_name(spans: &[StepSpan], k: usize) -> String {
    spans.iter().find(|s| s.begin < k && s.end >= k).map(|s| s.name.clone()).unwrap_or_else(|| "idle".into())
}

pub fn eval_process_crashes(exe: &Path, scratch: &Path, history: &[HOp], rec: &Recording, twice: bool) -> CrashEval {
    let tokens = all_tokens(history);
    let spans = step_spans(&rec.ops);
    let mut lab = Labeller::new(&rec.initial);
    let mut images: Vec<Vec<u8>> = vec![];
    let mut cell_rle: Vec<String> = vec![];
    let mut obj_upto: Vec<usize> = vec![];
    let mut index: BTreeMap<String, usize> = BTreeMap::new();
    let mut pts: Vec<(usize, usize)> = vec![];
    for i in 0..rec.ops.len() {
        lab.step(rec, i);
        if rec.ops[i].is_mutation() {
            if let Some(img) = lab.bytes.file(FILE_NAME) {
                let h = format!("{}-{}", b3hex(img), img.len());
                let idx = match index.get(&h) {
                    Some(x) => *x,
                    None => {
                        images.push(img.to_vec());
                        cell_rle.push(rle_cells(lab.cells.file(FILE_NAME).unwrap_or(&[])));
                        obj_upto.push(lab.obj_lines.len());
                        index.insert(h, images.len() - 1);
                        images.len() - 1
                    }
                };
                pts.push((i + 1, idx));
            }
        }
    }
    let obs = open_images(exe, scratch, &images, &tokens, twice);
    let mut points = vec![];
    for (k, idx) in &pts {
        let mut v = judge(history, &spans, *k, &obs[*idx].first, &tokens);
        if v.ok {
            if let Some(d) = obs[*idx].reopen_diff() {
                let step = inflight_name(&spans, *k).replace('_', "-");
                v = Verdict { ok: false, signature: format!("reopen-after-recovery-changes-frames-after-crash-in-{step}"),
                    what: format!("the first open of the crash image is as acknowledged, but {d}"), matched: "" };
            }
        }
        points.push(PointResult { k: *k, image: *idx, inflight: inflight_name(&spans, *k), verdict: v });
    }
    CrashEval { points, images, obs, cell_rle, obj_upto, labeller: lab }
}

/// ask the Lean model what `open` does on every distinct image; returns the normalised answers
pub fn model_predictions(ask: &mut dyn FnMut(&str) -> String, ev: &CrashEval) -> Vec<String> {
    let _ = ask("reset");
    let mut sent = 0usize;
    let mut out = vec![];
    for (i, rle) in ev.cell_rle.iter().enumerate() {
        // objects created later may be referenced by nothing in this image, but footers/TOCs written by
        // later steps never are: send everything known when the image was taken — and, because a TOC may
        // be described after the image that first contains its cells, everything up to the end is safe too
        let upto = ev.labeller.obj_lines.len().max(ev.obj_upto[i]);
        while sent < upto {
            let _ = ask(&ev.labeller.obj_lines[sent]);
            sent += 1;
        }
        out.push(ask(&format!("recover 4096 56 48 12 {rle}")));
    }
    out
}

// ---------------------------------------------------------------------------------------------
// labelling: byte-level recording → symbolic cells + object environment for the Lean model

pub fn cell(obj: u32, idx: u32) -> u64 { ((obj as u64) << 32) | idx as u64 }

pub struct Labeller {
    intern: std::collections::HashMap<[u8; 32], u32>,
    /// `obj …` request lines for the driver, in creation order
    pub obj_lines: Vec<String>,
    described: BTreeSet<u32>,
    pub bytes: FsSim,
    pub cells: CellSim,
}

fn b3raw(b: &[u8]) -> [u8; 32] { *blake3::hash(b).as_bytes() }

impl Labeller {
    pub fn new(initial: &FsSim) -> Labeller {
        let mut l = Labeller { intern: Default::default(), obj_lines: vec![], described: BTreeSet::new(), bytes: initial.clone(), cells: CellSim::default() };
        // pre-existing files (nested recordings): label the complete images; same inode numbering
        for ino in 0..initial.inodes.len() {
            let c = l.label_image(&initial.inodes[ino].data);
            l.cells.inodes.push(Inode { data: c.clone(), durable: c, unsynced: vec![] });
        }
        l.cells.dir = initial.dir.clone();
        l.cells.durable_dir = initial.durable_dir.clone();
        l
    }
    pub fn id_of(&mut self, h: [u8; 32]) -> u32 {
        let n = self.intern.len() as u32 + 1;
        *self.intern.entry(h).or_insert(n)
    }
    pub fn lookup_hex(&self, hexsum: &str) -> Option<u32> {
        let v = hex::decode(hexsum).ok()?;
        let a: [u8; 32] = v.try_into().ok()?;
        self.intern.get(&a).copied()
    }
    fn obj_cells(id: u32, len: usize) -> Vec<u64> { (0..len as u32).map(|k| cell(id, k)).collect() }
    fn describe(&mut self, id: u32, line: String) {
        if self.described.insert(id) {
            self.obj_lines.push(format!("obj {id} {line}"));
        }
    }

    /// label a complete file image found on disk (initial state of a nested recording): header, log
    /// records, every valid commit footer with the TOC it names, the payloads those TOCs list; the
    /// rest is opaque (one background object per 4 KiB page)
    pub fn label_image(&mut self, d: &[u8]) -> Vec<u64> {
        let mut c = vec![0u64; d.len()];
        let put = |c: &mut Vec<u64>, off: usize, cells: Vec<u64>| {
            for (k, v) in cells.into_iter().enumerate() { if off + k < c.len() { c[off + k] = v; } }
        };
        for (pg, chunk) in d.chunks(4096).enumerate() {
            if chunk.iter().any(|b| *b != 0) {
                let id = self.id_of(b3raw(&[chunk, &(pg as u64).to_le_bytes()[..]].concat()));
                for (k, b) in chunk.iter().enumerate() { if *b != 0 { c[pg * 4096 + k] = cell(id, k as u32); } }
            }
        }
        if d.len() >= 4096 && d.starts_with(b"MV2\0") {
            let cells = self.label_write_plain(d, 0, &d[..4096], None);
            put(&mut c, 0, cells);
            let wal_size = le64(d, 24) as usize;
            let mut cur = 0usize;
            while cur + 48 <= wal_size && 4096 + cur + 48 <= d.len() {
                let h = &d[4096 + cur..4096 + cur + 48];
                let seq = le64(h, 0);
                let len = u32::from_le_bytes(h[8..12].try_into().unwrap()) as usize;
                if seq == 0 && len == 0 { break; }
                if len == 0 || cur + 48 + len > wal_size || 4096 + cur + 48 + len > d.len() { break; }
                let recb = &d[4096 + cur..4096 + cur + 48 + len];
                if b3raw(&recb[48..]) != h[16..48] { break; }
                let cells = self.label_record(recb);
                put(&mut c, 4096 + cur, cells);
                cur += 48 + len;
            }
            let mut e = 0usize;
            while e + 56 <= d.len() {
                if &d[e..e + 8] == b"MV2FOOT!" {
                    let tl = le64(d, e + 8) as usize;
                    if tl >= 1 && tl <= e && b3raw(&d[e - tl..e]) == d[e + 16..e + 48] {
                        let tocb = d[e - tl..e].to_vec();
                        let cells = self.label_toc(d, &tocb);
                        put(&mut c, e - tl, cells);
                        let fc = self.label_write_plain(d, e as u64, &d[e..e + 56], None);
                        put(&mut c, e, fc);
                        if let Ok(toc) = memvid_core::types::Toc::decode(&tocb) {
                            for f in &toc.frames {
                                let (o, n) = (f.payload_offset as usize, f.payload_length as usize);
                                if n > 0 && o + n <= d.len() && b3raw(&d[o..o + n]) == f.checksum {
                                    let id = self.id_of(f.checksum);
                                    put(&mut c, o, Self::obj_cells(id, n));
                                }
                            }
                            if let Some(sk) = &toc.sketch_track {
                                let o = sk.bytes_offset as usize;
                                if sk.bytes_length >= 24 && o + 24 <= d.len() && d[o..o + 4] == *b"MVSK" {
                                    let id = self.id_of(b3raw(&d[o..o + 24]));
                                    put(&mut c, o, Self::obj_cells(id, 24));
                                }
                            }
                        }
                        e += 56;
                        continue;
                    }
                }
                e += 1;
            }
            // a complete TOC at the very end of the file whose footer was never written (what the legacy
            // scan of `recover_toc` finds)
            let tail_footer = d.len() >= 56 && &d[d.len() - 56..d.len() - 48] == b"MV2FOOT!";
            if !tail_footer {
                let start = d.len().saturating_sub(16 * 1024);
                if let Some((toc, off)) = memvid_core::verif_hooks::scan_range_for_toc(d, start, d.len()) {
                    let off = off as usize;
                    let tocb = d[off..].to_vec();
                    let cells = self.label_toc(d, &tocb);
                    put(&mut c, off, cells);
                    for f in &toc.frames {
                        let (o, n) = (f.payload_offset as usize, f.payload_length as usize);
                        if n > 0 && o + n <= d.len() && b3raw(&d[o..o + n]) == f.checksum {
                            let id = self.id_of(f.checksum);
                            put(&mut c, o, Self::obj_cells(id, n));
                        }
                    }
                }
            }
            // every sketch-track header
            let mut e = 0usize;
            while e + 24 <= d.len() {
                if &d[e..e + 4] == b"MVSK" {
                    let id = self.id_of(b3raw(&d[e..e + 24]));
                    put(&mut c, e, Self::obj_cells(id, 24));
                    e += 24;
                } else {
                    e += 1;
                }
            }
        }
        c
    }

    fn label_record(&mut self, recb: &[u8]) -> Vec<u64> {
        let seq = le64(recb, 0);
        let id = self.id_of(b3raw(recb));
        let desc = match memvid_core::memvid::mutation::verif_wal_entry_info(&recb[48..]) {
            Some((1, ph, plen, _t, sup, reuse)) => {
                let sum = self.id_of(ph);
                let plen = if reuse.is_some() { 0 } else { plen };
                let (need, parent) = match memvid_core::memvid::mutation::verif_wal_entry_chunks(&recb[48..]) {
                    Some((n, p, _)) => (n, p),
                    None => (0, None),
                };
                format!("rec {seq} {} ins {sum} {plen} {} {need} {}", recb.len(),
                    sup.map(|x| x.to_string()).unwrap_or_else(|| "-".into()),
                    parent.map(|x| x.to_string()).unwrap_or_else(|| "-".into()))
            }
            Some((2, _, _, t, _, _)) => format!("rec {seq} {} tomb {}", recb.len(), t.unwrap_or(u64::MAX)),
            _ => format!("rec {seq} {} lex", recb.len()),
        };
        self.describe(id, desc);
        Self::obj_cells(id, recb.len())
    }

    fn label_toc(&mut self, file: &[u8], tocb: &[u8]) -> Vec<u64> {
        let id = self.id_of(b3raw(tocb));
        let desc = match memvid_core::types::Toc::decode(tocb) {
            Ok(toc) => {
                let frames: Vec<String> = toc.frames.iter().map(|f| {
                    let st = match f.status { FrameStatus::Active => 0, FrameStatus::Superseded => 1, FrameStatus::Deleted => 2 };
                    format!("{}:{}:{}:{}:{}:{}", f.payload_offset, f.payload_length, self.id_of(f.checksum), st,
                        f.chunk_manifest.as_ref().map(|m| m.chunks.len()).unwrap_or(0),
                        f.parent_id.map(|p| p + 1).unwrap_or(0))
                }).collect();
                let mut segs = vec![];
                if let Some(sk) = &toc.sketch_track {
                    // what `open` checks first is the 24-byte track header (magic)
                    let o = sk.bytes_offset as usize;
                    if sk.bytes_length >= 24 {
                        let hid = if o + 24 <= file.len() && file[o..o + 4] == *b"MVSK" { self.id_of(b3raw(&file[o..o + 24])) } else { u32::MAX - 1 };
                        segs.push(format!("{}:24:{}", sk.bytes_offset, hid));
                    }
                }
                format!("toc {} {} {}", tocb.len(), if frames.is_empty() { "-".into() } else { frames.join(",") }, if segs.is_empty() { "-".into() } else { segs.join(",") })
            }
            Err(_) => format!("toc {} - -", tocb.len()),
        };
        self.describe(id, desc);
        Self::obj_cells(id, tocb.len())
    }

    /// cells of one write that is not a copy.  `file_before` = content of the inode before the write
    fn label_write_plain(&mut self, file_before: &[u8], off: u64, data: &[u8], next_footer_toc_len: Option<u64>) -> Vec<u64> {
        if data.iter().all(|b| *b == 0) {
            return vec![0u64; data.len()];
        }
        if off == 0 && data.len() == 4096 && data.starts_with(b"MV2\0") {
            let id = self.id_of(b3raw(data));
            self.describe(id, format!("hdr {} {} {}", le64(data, 8), le64(data, 24), le64(data, 40)));
            return Self::obj_cells(id, data.len());
        }
        if data.len() == 56 && data.starts_with(b"MV2FOOT!") {
            let id = self.id_of(b3raw(data));
            let toc_id = self.id_of(data[16..48].try_into().unwrap());
            self.describe(id, format!("foot {toc_id} {}", le64(data, 8)));
            return Self::obj_cells(id, 56);
        }
        let wal_size = if file_before.len() >= 4096 && file_before.starts_with(b"MV2\0") { le64(file_before, 24) } else { 0 };
        if wal_size > 0 && off >= HEADER_SIZE && off < HEADER_SIZE + wal_size && data.len() >= 49 {
            let len = u32::from_le_bytes(data[8..12].try_into().unwrap()) as usize;
            if len >= 1 && 48 + len <= data.len() && b3raw(&data[48..48 + len]) == data[16..48] {
                let mut cells = self.label_record(&data[..48 + len]);
                let rest = &data[48 + len..];
                if rest.iter().all(|b| *b == 0) {
                    cells.extend(std::iter::repeat(0u64).take(rest.len()));
                } else {
                    let id = self.id_of(b3raw(rest));
                    cells.extend(Self::obj_cells(id, rest.len()));
                }
                return cells;
            }
        }
        if next_footer_toc_len == Some(data.len() as u64) {
            return self.label_toc(file_before, data);
        }
        let id = self.id_of(b3raw(data));
        Self::obj_cells(id, data.len())
    }

    /// advance both simulations by recorded op `i` of `rec`
    pub fn step(&mut self, rec: &Recording, i: usize) {
        let s = &rec.ops[i];
        let c: SysC = match s {
            SysT::Write { ino, off, data } => {
                let cells = if let Some((sino, soff)) = rec.copies.get(&i) {
                    let src = &self.cells.inodes[*sino].data;
                    (0..data.len()).map(|k| src.get(*soff as usize + k).copied().unwrap_or(0)).collect()
                } else {
                    let next_footer = match rec.ops.get(i + 1) {
                        Some(SysT::Write { ino: i2, data: d2, off: o2 }) if i2 == ino && d2.len() == 56 && d2.starts_with(b"MV2FOOT!") && *o2 == off + data.len() as u64 => Some(le64(d2, 8)),
                        _ => None,
                    };
                    let before = self.bytes.inodes[*ino].data.clone();
                    self.label_write_plain(&before, *off, data, next_footer)
                };
                SysT::Write { ino: *ino, off: *off, data: cells }
            }
            SysT::Create { name, ino } => SysT::Create { name: name.clone(), ino: *ino },
            SysT::Trunc { ino, len } => SysT::Trunc { ino: *ino, len: *len },
            SysT::Fsync { ino } => SysT::Fsync { ino: *ino },
            SysT::Rename { from, to } => SysT::Rename { from: from.clone(), to: to.clone() },
            SysT::Unlink { name } => SysT::Unlink { name: name.clone() },
            SysT::FsyncDir => SysT::FsyncDir,
            SysT::Mark(m) => SysT::Mark(m.clone()),
        };
        self.bytes.apply(s);
        self.cells.apply(&c);
    }
}

/// run-length encoding of a cell image for the driver
pub fn rle_cells(c: &[u64]) -> String {
    if c.is_empty() { return "-".into(); }
    let mut out: Vec<String> = vec![];
    let mut i = 0;
    while i < c.len() {
        if c[i] == 0 {
            let mut j = i;
            while j < c.len() && c[j] == 0 { j += 1; }
            out.push(format!("z:{}", j - i));
            i = j;
        } else {
            let (id, st) = (c[i] >> 32, c[i] & 0xffff_ffff);
            let mut j = i + 1;
            while j < c.len() && c[j] != 0 && (c[j] >> 32) == id && (c[j] & 0xffff_ffff) == st + (j - i) as u64 { j += 1; }
            out.push(format!("{id}:{st}:{}", j - i));
            i = j;
        }
    }
    out.join(",")
}

/// error text of the real open → the model's failure stage
pub fn stage_of_error(e: &str) -> &'static str {
    let l = e.to_lowercase();
    if l.contains("wal") { "wal" }
    else if l.contains("table of contents") || l.contains("toc") { "toc" }
    else if l.contains("sketch") || l.contains("memories") || l.contains("logic mesh") || l.contains("segment") { "segment" }
    else if l.contains("overlap") || l.contains("payload extends") { "overlap" }
    else if l.contains("header") || l.contains("magic") || l.contains("version") || l.contains("failed to fill whole buffer") { "header" }
    else { "other" }
}

/// canonical comparison line of a real observation, in the driver's `recover` answer format (without
/// the replay counter and the via-scan flag, which only the model knows)
pub fn obs_model_line(o: &Obs, lab: &Labeller) -> String {
    if !o.ok { return format!("fail {}", stage_of_error(&o.err)); }
    let items: Vec<String> = o.frames.iter().map(|f| {
        let st = match f.status { 'a' => 0, 's' => 1, _ => 2 };
        let sum = lab.lookup_hex(&f.sum).map(|x| x.to_string()).unwrap_or_else(|| "?".into());
        format!("{st}:{sum}:{}", if f.content.starts_with("err:") { "E" } else { "R" })
    }).collect();
    format!("ok {}", if items.is_empty() { "-".into() } else { items.join(",") })
}

/// normalise the driver's answer to the same shape
pub fn model_line(ans: &str) -> String {
    let w: Vec<&str> = ans.split(' ').collect();
    if w.first() == Some(&"fail") {
        let st = w.get(1).copied().unwrap_or("?");
        return format!("fail {}", st.split('@').next().unwrap_or(st));
    }
    if w.first() == Some(&"ok") && w.len() >= 4 { return format!("ok {}", w[3]); }
    ans.to_string()
}


/// does the model's answer predict the observation?  `?` in the model's frame list (a frame that
/// came out of a replayed log record) matches both R and E
pub fn model_matches(model_norm: &str, impl_norm: &str) -> bool {
    if model_norm == impl_norm { return true; }
    let (m, r) = (model_norm.strip_prefix("ok "), impl_norm.strip_prefix("ok "));
    match (m, r) {
        (Some(m), Some(r)) => {
            let (ms, rs): (Vec<&str>, Vec<&str>) = (m.split(',').collect(), r.split(',').collect());
            ms.len() == rs.len() && ms.iter().zip(rs.iter()).all(|(a, b)| {
                a == b || (a.ends_with(":?") && a[..a.len() - 1] == b[..b.len() - 1])
            })
        }
        _ => false,
    }
}
