/-
  Lock.lean — the OS-level abstract machine behind memvid's "one writer per .mv2 file" protocol
  (C17).  Mirrors, at system-call granularity,

    src/lock.rs                FileLock::open_and_lock / try_acquire / acquire_with_mode /
                               lock_with_retry / Drop            (flock(2) through fs2)
    src/memvid/lifecycle.rs    Memvid::create / open / try_open (doctor) / open_read_only_snapshot
    src/memvid/mutation.rs     with_staging_lock (copy to a staging inode, rename it over the path,
                               `self.file = open(path)`, `self.lock`), commit, vacuum
    src/lib.rs                 Drop for Memvid
    atomic-write-file 0.3      AtomicWriteFile::open (O_TMPFILE / named temp inode in the same
                               directory) and commit (linkat + renameat over the destination)

  TRUSTED OS ASSUMPTIONS (this file IS the statement of them; they are validated, not proved, by
  the correspondence harness, which reads /proc/locks, /proc/self/fdinfo and probes with flock(2)
  from another process):

   A1  flock(2) locks belong to the OPEN FILE DESCRIPTION, not to the path, the process or the
       descriptor number: descriptors obtained by dup(2)/try_clone share one description and one
       lock; two open(2) calls give two descriptions that conflict with each other.
   A2  A lock is placed on the INODE the description refers to.  LOCK_EX is granted iff no other
       description holds any lock on that inode, LOCK_SH iff no other description holds LOCK_EX.
       LOCK_NB attempts never block: they are granted or refused at once.  Locks are advisory.
   A3  A lock disappears on flock(LOCK_UN) or when the last descriptor of its description is
       closed (process death closes everything).
   A4  rename(2) atomically makes the destination name refer to the source inode.  Descriptions
       (and locks) that were on the replaced inode stay on it: THE LOCK DOES NOT FOLLOW THE PATH,
       so a lock on an unlinked inode protects nothing that can be opened through the path.
   A5  open(2) resolves the path to the inode it names at that instant.
   A6  Only processes following this protocol rename files over a .mv2 path (nobody `mv`s or
       unlinks the file behind memvid's back); inode numbers of live inodes are distinct.

  A handle is a small state machine (`Phase`) whose steps are single system calls, so the
  scheduler (`run` over an arbitrary `List Step`, any number of handles in any number of
  processes) interleaves at the finest granularity the kernel offers.  The retry loop of
  `lock_with_retry` (200 non-blocking attempts, 50 ms apart) is the free repetition of `flockEx`.

  Three protocols are modelled side by side (`Proto`):
    current   THE CODE AS IT IS: commit leaves `self.lock` on the replaced (unlinked) inode, open
              trusts whatever inode it locked.  The claimed theorems (MvProps/C17.lean, part I) and
              the correspondence harness are about this protocol.
    swapOnly  second model definition (half a repair): commit locks the staging description before
              the rename and adopts that lock afterwards, open unchanged — still wrong.
    repaired  second model definition (the repair of /verif/fixes/C17-not-applicable.diff, NOT applied
              to the repository because tests/lifecycle.rs::create_handles_existing_file opens the
              file read-only while the writable handle is alive after a commit, i.e. encodes the
              defective behaviour): additionally open re-checks, once the lock is granted, that the
              path still names the locked inode (and that both descriptors of try_open are on it).
              Proved sound in MvProps/C17.lean, part II.

  Lock MODE SWITCHING (FileLock::downgrade_to_shared / upgrade_to_exclusive, reached through
  Memvid::downgrade_to_shared and Memvid::ensure_writable, i.e. any mutation on a handle that is
  parked in shared mode or came from open_read_only) is modelled for the current protocol at system
  call granularity: flock(LOCK_UN), then the bounded retry of non-blocking attempts, then — only after
  the lock was granted — `self.mode = …`.  A handle therefore carries its BELIEF (`mode`, what
  FileLock::mode() answers) separately from the flock table (what it actually holds), and `lost`
  records that a timed-out switch returned an error while the handle holds no lock at all.

  Open file descriptions are named (owner handle, serial): a handle never shares a description
  with another handle (every description comes from that handle's own open(2)), which the naming
  makes syntactic.  Closing a description is modelled as clearing its lock entry — nothing else
  about a closed description is observable.
-/
namespace Mv.Lock

inductive Mode where
  | sh | ex
deriving DecidableEq, Repr

/-- Where a handle is inside the library code. -/
inductive Phase where
  | opening   -- try_open: first open(2) done (`file`), the second one (lock descriptor) pending
  | opened    -- descriptors open, no flock yet (inside lock_with_retry)
  | locked    -- flock granted, identity re-check pending (protocols with `validate` only)
  | live      -- a writable `Memvid` value exists
  | reader    -- a read-only `Memvid` value exists (shared lock)
  | staged    -- inside with_staging_lock: staging inode exists, rename pending
  | renamed   -- staging inode renamed over the path; reopen (+ lock adoption) pending
  | downgrading -- inside FileLock::downgrade_to_shared: unlocked, shared lock pending (mode still Exclusive)
  | upgrading   -- inside FileLock::upgrade_to_exclusive: unlocked, exclusive lock pending (mode still Shared)
deriving DecidableEq, Repr

/-- One entry of the kernel's flock table: description (owner, ser) holds `mode` on inode `ino`. -/
structure Ent where
  owner : Nat
  ser : Nat
  ino : Nat
  mode : Mode
deriving DecidableEq, Repr

structure Handle where
  path : Nat
  /-- description behind `Memvid.file` and the inode it is on -/
  fileSer : Nat
  fileIno : Nat
  /-- description behind `Memvid.lock` (`FileLock.file`) and the inode it is on -/
  lockSer : Nat
  lockIno : Nat
  /-- staging description of a commit in progress: (serial, inode) -/
  stg : Option (Nat × Nat)
  /-- next unused description serial of this handle -/
  nd : Nat
  phase : Phase
  /-- uncommitted changes (a commit with nothing pending returns early, without staging) -/
  dirty : Bool
  /-- the handle's BELIEF: `FileLock.mode` (none = no FileLock value yet) -/
  mode : Option Mode := none
  /-- a mode switch timed out: the call returned Err and the handle holds no flock although `mode`
      still names the lock it had before -/
  lost : Bool := false
deriving DecidableEq, Repr

structure State where
  /-- the directory: path ↦ inode -/
  dir : Nat → Option Nat
  hnd : Nat → Option Handle
  /-- flock table, keyed by open file description -/
  locks : List Ent
  /-- next unused inode number -/
  nIno : Nat

def init : State := { dir := fun _ => none, hnd := fun _ => none, locks := [], nIno := 0 }

structure Proto where
  /-- commit takes LOCK_EX on the staging description before the rename and adopts it after -/
  lockStaging : Bool
  /-- open re-checks after the flock that the path still names the locked inode -/
  validate : Bool
  /-- lock mode switching (downgrade/upgrade) is part of the protocol; the two repair models do not
      cover it (their handles never switch mode) -/
  modeSwitch : Bool
deriving DecidableEq, Repr

def Proto.current : Proto := ⟨false, false, true⟩
def Proto.swapOnly : Proto := ⟨true, false, false⟩
def Proto.repaired : Proto := ⟨true, true, false⟩

/-- A2: may two locks coexist on one inode (held by different descriptions)? -/
def compatible (m m' : Mode) : Bool := m == .sh && m' == .sh

/-- A2: would a non-blocking flock(`m`) on description (o, n), which is on inode `i`, be granted? -/
def grantable (L : List Ent) (o n i : Nat) (m : Mode) : Bool :=
  L.all fun e => (e.owner == o && e.ser == n) || e.ino != i || compatible e.mode m

/-- A3: flock(LOCK_UN) on / last close of description (o, n). -/
def unlockDesc (L : List Ent) (o n : Nat) : List Ent :=
  L.filter fun e => !(e.owner == o && e.ser == n)

/-- A3: every description of handle `o` is closed. -/
def closeAll (L : List Ent) (o : Nat) : List Ent :=
  L.filter fun e => e.owner != o

/-- a granted flock: converting an existing lock of the same description replaces it -/
def setLock (L : List Ent) (o n i : Nat) (m : Mode) : List Ent :=
  ⟨o, n, i, m⟩ :: unlockDesc L o n

def updDir (s : State) (p : Nat) (i : Nat) : State :=
  { s with dir := fun q => if q = p then some i else s.dir q }

def updHnd (s : State) (id : Nat) (h : Option Handle) : State :=
  { s with hnd := fun j => if j = id then h else s.hnd j }

/-- One system call (or one in-memory transition between two system calls) of one handle. -/
inductive Step where
  /-- `OpenOptions::create(true).truncate(true).open(path)` of `Memvid::create`, descriptor closed
      at once: binds the path to a fresh inode when it names nothing (truncation has no lock effect) -/
  | mkfile (p : Nat)
  /-- first open(2) of the path by a new handle; `two` = try_open (doctor), whose lock descriptor
      comes from a second open(2); otherwise the lock descriptor is a dup of this one -/
  | openFd (h p : Nat) (two : Bool)
  /-- try_acquire: `OpenOptions::open(path)` for the lock descriptor -/
  | openFd2 (h : Nat)
  /-- one `try_lock_exclusive` attempt (refused = no change; the caller may retry or give up = drop) -/
  | flockEx (h : Nat)
  /-- one `try_lock_shared` attempt of open_read_only_snapshot -/
  | flockSh (h : Nat)
  /-- the identity re-check after the lock was granted (protocols with `validate`) -/
  | validate (h : Nat)
  /-- any WAL append through the handle: no descriptor or lock is touched -/
  | put (h : Nat)
  /-- with_staging_lock: CommitStaging::prepare (+ flock of the staging description) -/
  | stage (h : Nat)
  /-- AtomicWriteFile::commit: renameat(staging, path) -/
  | rename (h : Nat)
  /-- `self.file = open(path)` (+ `self.lock = staging lock`, dropping the old one) -/
  | finish (h : Nat)
  /-- the commit fails before the rename: staging discarded, state restored -/
  | abort (h : Nat)
  /-- the handle goes away in whatever phase it is (Drop, early error return, or process death):
      all its descriptors are closed -/
  | drop (h : Nat)
  /-- downgrade_to_shared: `self.file.unlock()` (Memvid::downgrade_to_shared returns early when dirty) -/
  | dgUnlock (h : Nat)
  /-- one `try_lock_shared` attempt of the downgrade; granted: `self.mode = Shared`, `read_only = true` -/
  | dgLock (h : Nat)
  /-- the downgrade's retry loop times out: Err is returned, `mode` stays Exclusive, `read_only` stays
      false — the handle goes on as a writable handle that holds no lock -/
  | dgFail (h : Nat)
  /-- upgrade_to_exclusive (from ensure_writable): `self.file.unlock()` -/
  | ugUnlock (h : Nat)
  /-- one `try_lock_exclusive` attempt of the upgrade; granted: `self.mode = Exclusive`, `read_only = false` -/
  | ugLock (h : Nat)
  /-- the upgrade's retry loop times out: Err is returned, `mode` stays Shared, `read_only` stays true -/
  | ugFail (h : Nat)
deriving DecidableEq, Repr

def step (pr : Proto) (s : State) : Step → State
  | .mkfile p =>
      match s.dir p with
      | some _ => s
      | none => { updDir s p s.nIno with nIno := s.nIno + 1 }
  | .openFd h p two =>
      match s.hnd h, s.dir p with
      | none, some i =>
          updHnd s h (some { path := p, fileSer := 0, fileIno := i, lockSer := 0, lockIno := i,
                             stg := none, nd := 1,
                             phase := if two then .opening else .opened, dirty := false })
      | _, _ => s
  | .openFd2 h =>
      match s.hnd h with
      | some hd =>
          if hd.phase = .opening then
            match s.dir hd.path with
            | some i => updHnd s h (some { hd with lockSer := hd.nd, lockIno := i, nd := hd.nd + 1,
                                                   phase := .opened })
            | none => updHnd s h none
          else s
      | none => s
  | .flockEx h =>
      match s.hnd h with
      | some hd =>
          if hd.phase = .opened ∧ grantable s.locks h hd.lockSer hd.lockIno .ex = true then
            { updHnd s h (some { hd with phase := if pr.validate then .locked else .live, mode := some .ex }) with
              locks := setLock s.locks h hd.lockSer hd.lockIno .ex }
          else s
      | none => s
  | .flockSh h =>
      match s.hnd h with
      | some hd =>
          if hd.phase = .opened ∧ grantable s.locks h hd.lockSer hd.lockIno .sh = true then
            { updHnd s h (some { hd with phase := .reader, mode := some .sh }) with
              locks := setLock s.locks h hd.lockSer hd.lockIno .sh }
          else s
      | none => s
  | .validate h =>
      match s.hnd h with
      | some hd =>
          if hd.phase = .locked then
            if s.dir hd.path = some hd.lockIno ∧ hd.fileIno = hd.lockIno then
              updHnd s h (some { hd with phase := .live })
            else
              { updHnd s h none with locks := closeAll s.locks h }
          else s
      | none => s
  | .put h =>
      match s.hnd h with
      | some hd => if hd.phase = .live then updHnd s h (some { hd with dirty := true }) else s
      | none => s
  | .stage h =>
      match s.hnd h with
      | some hd =>
          if hd.phase = .live ∧ hd.dirty = true then
            { updHnd s h (some { hd with stg := some (hd.nd, s.nIno), nd := hd.nd + 1, phase := .staged }) with
              locks := if pr.lockStaging then setLock s.locks h hd.nd s.nIno .ex else s.locks
              nIno := s.nIno + 1 }
          else s
      | none => s
  | .rename h =>
      match s.hnd h with
      | some hd =>
          if hd.phase = .staged then
            match hd.stg with
            | some (_, k) => updHnd (updDir s hd.path k) h (some { hd with phase := .renamed })
            | none => s
          else s
      | none => s
  | .finish h =>
      match s.hnd h with
      | some hd =>
          if hd.phase = .renamed then
            match hd.stg, s.dir hd.path with
            | some (n, k), some i =>
                if pr.lockStaging then
                  { updHnd s h (some { hd with fileSer := hd.nd, fileIno := i, nd := hd.nd + 1,
                                               lockSer := n, lockIno := k, stg := none,
                                               dirty := false, phase := .live }) with
                    locks := unlockDesc s.locks h hd.lockSer }
                else
                  updHnd s h (some { hd with fileSer := hd.nd, fileIno := i, nd := hd.nd + 1,
                                             stg := none, dirty := false, phase := .live })
            | _, _ => s
          else s
      | none => s
  | .abort h =>
      match s.hnd h with
      | some hd =>
          if hd.phase = .staged then
            match hd.stg with
            | some (n, _) =>
                { updHnd s h (some { hd with stg := none, phase := .live }) with
                  locks := unlockDesc s.locks h n }
            | none => s
          else s
      | none => s
  | .drop h =>
      match s.hnd h with
      | some _ => { updHnd s h none with locks := closeAll s.locks h }
      | none => s
  | .dgUnlock h =>
      match s.hnd h with
      | some hd =>
          if pr.modeSwitch = true ∧ hd.phase = .live ∧ hd.dirty = false then
            { updHnd s h (some { hd with phase := .downgrading }) with
              locks := unlockDesc s.locks h hd.lockSer }
          else s
      | none => s
  | .dgLock h =>
      match s.hnd h with
      | some hd =>
          if pr.modeSwitch = true ∧ hd.phase = .downgrading ∧
              grantable s.locks h hd.lockSer hd.lockIno .sh = true then
            { updHnd s h (some { hd with phase := .reader, mode := some .sh, lost := false }) with
              locks := setLock s.locks h hd.lockSer hd.lockIno .sh }
          else s
      | none => s
  | .dgFail h =>
      match s.hnd h with
      | some hd =>
          if pr.modeSwitch = true ∧ hd.phase = .downgrading then
            updHnd s h (some { hd with phase := .live, lost := true })
          else s
      | none => s
  | .ugUnlock h =>
      match s.hnd h with
      | some hd =>
          if pr.modeSwitch = true ∧ hd.phase = .reader then
            { updHnd s h (some { hd with phase := .upgrading }) with
              locks := unlockDesc s.locks h hd.lockSer }
          else s
      | none => s
  | .ugLock h =>
      match s.hnd h with
      | some hd =>
          if pr.modeSwitch = true ∧ hd.phase = .upgrading ∧
              grantable s.locks h hd.lockSer hd.lockIno .ex = true then
            { updHnd s h (some { hd with phase := .live, mode := some .ex, lost := false }) with
              locks := setLock s.locks h hd.lockSer hd.lockIno .ex }
          else s
      | none => s
  | .ugFail h =>
      match s.hnd h with
      | some hd =>
          if pr.modeSwitch = true ∧ hd.phase = .upgrading then
            updHnd s h (some { hd with phase := .reader, lost := true })
          else s
      | none => s

/-- The scheduler: any sequence of steps of any handles. -/
def run (pr : Proto) (s : State) (t : List Step) : State := t.foldl (step pr) s

/-- Phases in which a writable `Memvid` value exists for the handle. -/
def Phase.writer : Phase → Bool
  | .live | .staged | .renamed => true
  | _ => false

/-- handle `id` is a live writable Memvid for path `p` -/
def isWriter (s : State) (id p : Nat) : Bool :=
  match s.hnd id with
  | some h => h.phase.writer && h.path == p
  | none => false

/-- Would LOCK_EX|LOCK_NB on a FRESH description of whatever the path names now be granted?
    (`none` = the path names nothing.)  This is what the harness' probe process does. -/
def probeEx (s : State) (p : Nat) : Option Bool :=
  (s.dir p).map fun i => s.locks.all fun e => e.ino != i

-- ------------------------------------------------------------------ API-level macro steps
-- (what one library call does when nothing interleaves; used by the driver and by the
--  "open fails" theorems)

/-- `Memvid::open(path)` with the retry loop cut to one attempt; a refused lock or a failed
    identity check makes the call return an error, which drops the descriptors. -/
def openSteps (h p : Nat) : List Step := [.openFd h p false, .flockEx h, .validate h]
/-- `Memvid::try_open(path)` (doctor). -/
def tryOpenSteps (h p : Nat) : List Step := [.openFd h p true, .openFd2 h, .flockEx h, .validate h]
/-- a commit that has something to write -/
def commitSteps (h : Nat) : List Step := [.stage h, .rename h, .finish h]

/-- did the open/try_open of handle `h` produce a writable Memvid? -/
def opened (s : State) (h : Nat) : Bool :=
  match s.hnd h with
  | some hd => hd.phase == .live
  | none => false

/-- finish an API-level open: on failure the error return drops the descriptors -/
def settleOpen (pr : Proto) (s : State) (h : Nat) : State × Bool :=
  if opened s h then (s, true) else (step pr s (.drop h), false)

def apiOpen (pr : Proto) (s : State) (h p : Nat) : State × Bool :=
  settleOpen pr (run pr s (openSteps h p)) h
def apiTryOpen (pr : Proto) (s : State) (h p : Nat) : State × Bool :=
  settleOpen pr (run pr s (tryOpenSteps h p)) h
def apiCreate (pr : Proto) (s : State) (h p : Nat) : State × Bool :=
  settleOpen pr (run pr s (.mkfile p :: openSteps h p)) h
/-- `Memvid::ensure_writable` with nothing interleaved: a read-only handle unlocks and makes its
    attempts; when they are refused the call times out with an error.  `true` = writable afterwards. -/
def apiEnsureWritable (pr : Proto) (s : State) (h : Nat) : State × Bool :=
  let s' := run pr s [.ugUnlock h, .ugLock h, .ugFail h]
  (s', opened s' h)
/-- a mutation (`put…`): ensure_writable, then the WAL append -/
def apiPut (pr : Proto) (s : State) (h : Nat) : State × Bool :=
  let (s', ok) := apiEnsureWritable pr s h
  if ok then (step pr s' (.put h), true) else (s', false)
/-- `Memvid::downgrade_to_shared` with nothing interleaved -/
def apiDowngrade (pr : Proto) (s : State) (h : Nat) : State := run pr s [.dgUnlock h, .dgLock h, .dgFail h]
/-- `Memvid::commit` / `vacuum` (ensure_writable first; vacuum = commit, then in-place writes) -/
def apiCommit (pr : Proto) (s : State) (h : Nat) : State :=
  let (s', ok) := apiEnsureWritable pr s h
  if ok then run pr s' (commitSteps h) else s'
/-- `Drop for Memvid`: commit when dirty, then close everything -/
def apiDrop (pr : Proto) (s : State) (h : Nat) : State := run pr s (commitSteps h ++ [.drop h])
/-- `Memvid::open_read_only` (snapshot path), one attempt -/
def apiOpenRO (pr : Proto) (s : State) (h p : Nat) : State × Bool :=
  let s' := run pr s [.openFd h p false, .flockSh h]
  match s'.hnd h with
  | some hd => if hd.phase == .reader then (s', true) else (step pr s' (.drop h), false)
  | none => (s', false)

end Mv.Lock
