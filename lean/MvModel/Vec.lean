/-
  Model of vector search (default features: `VecIndex::Uncompressed`, brute force):
    /repo/src/vec.rs                 VecIndex::search, l2_distance
    /repo/src/memvid/search/api.rs   Memvid::search_vec   (dimension validation)
    /repo/src/vec.rs                 VecIndexBuilder::finish / VecIndex::decode (bincode, uncompressed)

  Distances are an abstract type `D` with the comparison `pcmp` (= `f32::partial_cmp`) and the
  test `isNan` (= `f32::is_nan`); the distance function is a parameter (`l2_distance` = C38).
  `sort_by` is Rust's STABLE sort; it is modelled by core `List.mergeSort` (also stable): when the
  comparator is a total preorder every stable sort returns the same list, so the algorithm is
  immaterial.

  The comparator modelled is the REPAIRED one (/verif/fixes/C13.diff):
      partial_cmp(..).unwrap_or_else(|| a.distance.is_nan().cmp(&b.distance.is_nan()))
  (NaN distances sort last).  The code before the repair, `partial_cmp(..).unwrap_or(Equal)`, is
  kept as `cmpHitsOld` / `searchOld`: with a NaN distance it is not a total preorder, Rust's
  sort_by may then panic ("user-provided comparison function does not correctly implement a total
  order") or scramble the ranking; `searchOld` is NOT claimed to predict what Rust does there.
-/
import MvModel.Simd
import MvModel.Bytes
namespace Mv.Vec

/-- `VecDocument` -/
structure Doc (F : Type) where
  frameId : Nat
  embedding : List F
deriving DecidableEq, Repr

/-- `VecSearchHit` -/
structure Hit (D : Type) where
  frameId : Nat
  distance : D
deriving DecidableEq, Repr

variable {F D : Type}

/-- repaired comparator:
    `a.distance.partial_cmp(&b.distance).unwrap_or_else(|| a.distance.is_nan().cmp(&b.distance.is_nan()))` -/
def cmpHits (pcmp : D → D → Option Ordering) (isNan : D → Bool) (a b : Hit D) : Ordering :=
  (pcmp a.distance b.distance).getD (compare (isNan a.distance) (isNan b.distance))

/-- "a may stay before b": the comparator does not say Greater -/
def leHits (pcmp : D → D → Option Ordering) (isNan : D → Bool) (a b : Hit D) : Bool :=
  cmpHits pcmp isNan a b != .gt

/-- the scored list before sorting: `documents.iter().map(|doc| VecSearchHit {..}).collect()` -/
def score (dist : List F → List F → D) (docs : List (Doc F)) (query : List F) : List (Hit D) :=
  docs.map fun doc => { frameId := doc.frameId, distance := dist query doc.embedding }

/-- `VecIndex::search`, `Uncompressed` arm -/
def search (dist : List F → List F → D) (pcmp : D → D → Option Ordering) (isNan : D → Bool)
    (docs : List (Doc F)) (query : List F) (limit : Nat) : List (Hit D) :=
  if query.isEmpty then []
  else ((score dist docs query).mergeSort (leHits pcmp isNan)).take limit

/-- comparator before the repair: `partial_cmp(..).unwrap_or(Ordering::Equal)` -/
def cmpHitsOld (pcmp : D → D → Option Ordering) (a b : Hit D) : Ordering :=
  (pcmp a.distance b.distance).getD .eq

def searchOld (dist : List F → List F → D) (pcmp : D → D → Option Ordering)
    (docs : List (Doc F)) (query : List F) (limit : Nat) : List (Hit D) :=
  if query.isEmpty then []
  else ((score dist docs query).mergeSort (fun a b => cmpHitsOld pcmp a b != .gt)).take limit

inductive Err where
  | vecNotEnabled
  | dimMismatch (expected actual : Nat)
deriving DecidableEq, Repr

/-- the part of `Memvid` that `search_vec` reads -/
structure VecState (F : Type) where
  /-- `self.vec_enabled` -/
  vecEnabled : Bool
  /-- `effective_vec_index_dimension()`: manifest / segment dimension when > 0 -/
  effectiveDim : Option Nat
  /-- `self.vec_index` after `ensure_vec_index()` (documents in index order) -/
  index : Option (List (Doc F))

/-- `Memvid::search_vec` -/
def searchVec (dist : List F → List F → D) (pcmp : D → D → Option Ordering) (isNan : D → Bool)
    (st : VecState F) (query : List F) (limit : Nat) : Except Err (List (Hit D)) :=
  if !st.vecEnabled then .error .vecNotEnabled
  else
    let expectedDim : Nat := match st.effectiveDim with
      | some dim => dim
      | none => match st.index with
        | some (doc :: _) => doc.embedding.length
        | _ => 0
    if expectedDim > 0 ∧ query.length ≠ expectedDim then
      .error (.dimMismatch expectedDim query.length)
    else match st.index with
      | none => .error .vecNotEnabled
      | some docs => .ok (search dist pcmp isNan docs query limit)

/-! ### exact instance run by the driver: squared distances over ℚ ∪ {NaN}, compared exactly -/

/-- total comparison of rationals in `partial_cmp` shape -/
def ratCmp (x y : Rat) : Option Ordering :=
  if x < y then some .lt else if y < x then some .gt else some .eq

/-- `none` plays NaN -/
def optRatCmp : Option Rat → Option Rat → Option Ordering
  | some x, some y => ratCmp x y
  | _, _ => none

def optIsNan (x : Option Rat) : Bool := x.isNone

/-- exact squared distance (same order as the distance itself); the driver reports the
    debug-assert panic of a length mismatch before searching (`-1` is never seen) -/
def sqDist (q e : List Rat) : Rat := (Simd.l2DistanceSquaredSimd Simd.ratOps q e).getD (-1)

/-- vectors with NaN components (`none`): any NaN component makes the distance NaN -/
def sqDistNan (q e : List (Option Rat)) : Option Rat :=
  match q.mapM id, e.mapM id with
  | some q', some e' => some (sqDist q' e')
  | _, _ => none

/-! ### persistence of the uncompressed index: bincode (fixed-int, little-endian) of
    `Vec<VecDocument>`; an f32 travels as its 32-bit pattern (`Nat < 2^32`) -/

def encodeF32s : List Nat → Bytes
  | [] => []
  | x :: xs => u32le x ++ encodeF32s xs

def encodeDoc (d : Doc Nat) : Bytes :=
  u64le d.frameId ++ u64le d.embedding.length ++ encodeF32s d.embedding

def encodeDocList : List (Doc Nat) → Bytes
  | [] => []
  | d :: ds => encodeDoc d ++ encodeDocList ds

/-- `VecIndexBuilder::finish` (below the HNSW threshold): the artifact bytes -/
def encodeDocs (docs : List (Doc Nat)) : Bytes := u64le docs.length ++ encodeDocList docs

/-- read `n` f32 patterns -/
def decodeF32s : Nat → Bytes → Option (List Nat × Bytes)
  | 0, b => some ([], b)
  | n + 1, b =>
    if b.length < 4 then none
    else match decodeF32s n (b.drop 4) with
      | none => none
      | some (xs, rest) => some (leVal (b.take 4) :: xs, rest)

def decodeDoc (b : Bytes) : Option (Doc Nat × Bytes) :=
  if b.length < 16 then none
  else
    let fid := leVal (b.take 8)
    let n := leVal ((b.drop 8).take 8)
    match decodeF32s n (b.drop 16) with
    | none => none
    | some (xs, rest) => some ({ frameId := fid, embedding := xs }, rest)

def decodeDocList : Nat → Bytes → Option (List (Doc Nat) × Bytes)
  | 0, b => some ([], b)
  | n + 1, b => match decodeDoc b with
    | none => none
    | some (d, rest) => match decodeDocList n rest with
      | none => none
      | some (ds, rest') => some (d :: ds, rest')

/-- `VecIndex::decode`, first attempt (uncompressed): all bytes must be consumed
    (`Ok((documents, read)) if read == bytes.len()`) -/
def decodeDocs (b : Bytes) : Option (List (Doc Nat)) :=
  if b.length < 8 then none
  else match decodeDocList (leVal (b.take 8)) (b.drop 8) with
    | some (ds, []) => some ds
    | _ => none

/-- documents whose numbers fit the wire format -/
def DocOk (d : Doc Nat) : Prop :=
  d.frameId < 2 ^ 64 ∧ d.embedding.length < 2 ^ 64 ∧ ∀ x ∈ d.embedding, x < 2 ^ 32

end Mv.Vec
