//! C23 — determinism: the same calls produce identical bytes / identical logical state.
//!
//! impl : every history (create; put/update/delete/card/commit/reopen/search with EXPLICIT timestamps; one in eight also
//!        vacuum, embeddings, auto-tagging, date extraction — outside the model, judged model-free)
//!        is executed twice by two separate CHILD PROCESSES of this binary (`c23 child <batch> <dir> <tag>`), on
//!        fresh paths in two different directories, the second run strictly later on the wall clock (so every
//!        clock read differs), with the per-process HashMap seeds, Tantivy segment uuids and temp names the
//!        operating system hands out.  Each child reports the results of every call and the logical observation
//!        (frames, contents, timeline, searches, cards) of the live handle and of a reopened copy.
//! model: drv_c23 — MvModel/Determinism.lean: the same history run on the model with two different oracle
//!        valuations; predicts frames/statuses/timeline, the file regions present and the set of regions whose
//!        bytes may depend on an oracle.
//! oracle: (1) logical observations of run A and run B are equal; (2) file bytes are equal; a byte difference is a
//!        recorded finding only when every differing region is in the model's may-differ set for that history
//!        and the finding's signature is listed; anything else is a violation.
use memvid_core::footer::find_last_valid_footer;
use memvid_core::io::header::HeaderCodec;
use memvid_core::types::Toc;
use memvid_core::{Memvid, MemoryCard, MemoryKind, PutOptions, SearchRequest, TimelineQuery, VersionRelation};
use mvh::*;
use std::collections::{BTreeMap, BTreeSet};
use std::num::NonZeroU64;
use std::path::{Path, PathBuf};
use std::process::Command;

const HEADER_SIZE: usize = 4096;
const FOOTER_SIZE: usize = 56;

// ===================================================================================== histories
// A history is a JSON object {"vec": bool, "ops": [...], "queries": [...]}; ops are JSON objects with "op".
fn s(v: &Value, k: &str) -> Option<String> { v.get(k).and_then(|x| x.as_str()).map(|x| x.to_string()) }
fn b(v: &Value, k: &str) -> bool { v.get(k).and_then(|x| x.as_bool()).unwrap_or(false) }
fn short(s: &str) -> String { s.chars().take(48).collect::<String>() }

fn put_options(op: &Value) -> PutOptions {
    let mut o = PutOptions::default();
    o.timestamp = op.get("ts").and_then(|x| x.as_i64());
    o.uri = s(op, "uri");
    o.title = s(op, "title");
    o.search_text = s(op, "search_text");
    o.tags = op.get("tags").and_then(|x| x.as_array()).map(|a| a.iter().filter_map(|t| t.as_str().map(|t| t.to_string())).collect()).unwrap_or_default();
    o.extract_triplets = b(op, "triplets");
    o.instant_index = b(op, "instant");
    o.auto_tag = b(op, "auto_tag");
    o.extract_dates = b(op, "dates");
    o
}

fn payload_of(op: &Value) -> Vec<u8> {
    if let Some(h) = s(op, "hex") { return unhexw(&h).unwrap_or_default(); }
    s(op, "text").unwrap_or_default().into_bytes()
}

fn res<T>(r: Result<memvid_core::Result<T>, String>, show: impl FnOnce(T) -> String) -> String {
    match r { Ok(Ok(v)) => format!("ok {}", show(v)), Ok(Err(e)) => format!("err {}", short(&e.to_string())), Err(p) => format!("panic {}", short(&p)) }
}

fn search_obs(mem: &mut Memvid, q: &str, k: usize) -> String {
    let req = SearchRequest { query: q.to_string(), top_k: k, snippet_chars: 80, uri: None, scope: None, cursor: None,
        as_of_frame: None, as_of_ts: None, no_sketch: false, acl_context: None, acl_enforcement_mode: Default::default() };
    match guarded(std::panic::AssertUnwindSafe(|| mem.search(req))) {
        Ok(Ok(r)) => format!("total={} next={:?} engine={:?} hits=[{}]", r.total_hits, r.next_cursor, r.engine,
            r.hits.iter().map(|h| format!("{}@{}..{}#{}:{}:{}:{}", h.frame_id, h.range.0, h.range.1, h.matches,
                h.score.map(|x| x.to_bits()).unwrap_or(0), b3short(h.text.as_bytes()), h.uri)).collect::<Vec<_>>().join(",")),
        Ok(Err(e)) => format!("err {}", short(&e.to_string())),
        Err(p) => format!("panic {}", short(&p)),
    }
}

/// logical observation of a handle: frames (all fields but the physical payload offset), contents, timeline,
/// searches, cards (created_at kept apart: it is a clock read for cards the triplet extractor builds)
fn observe(mem: &mut Memvid, queries: &[String]) -> Value {
    let n = mem.frame_count() as u64;
    let mut frames = vec![];
    let mut layout = vec![];
    for id in 0..n {
        match mem.frame_by_id(id) {
            Ok(f) => {
                let mut j = serde_json::to_value(&f).unwrap_or(Value::Null);
                if let Some(o) = j.as_object_mut() { if let Some(off) = o.remove("payload_offset") { layout.push(off); } }
                let content = match guarded(std::panic::AssertUnwindSafe(|| mem.frame_canonical_payload(id))) {
                    Ok(Ok(bytes)) => format!("ok {} {}", bytes.len(), b3short(&bytes)), Ok(Err(e)) => format!("err {}", short(&e.to_string())), Err(p) => format!("panic {}", short(&p)) };
                let text = match guarded(std::panic::AssertUnwindSafe(|| mem.frame_text_by_id(id))) {
                    Ok(Ok(t)) => format!("ok {} {}", t.len(), b3short(t.as_bytes())), Ok(Err(e)) => format!("err {}", short(&e.to_string())), Err(p) => format!("panic {}", short(&p)) };
                frames.push(json!({"frame": j, "content": content, "text": text}));
            }
            Err(e) => frames.push(json!({"err": short(&e.to_string())})),
        }
    }
    let mut tls = vec![];
    for rev in [false, true] {
        let tq = TimelineQuery { limit: NonZeroU64::new(1000), since: None, until: None, reverse: rev };
        tls.push(match guarded(std::panic::AssertUnwindSafe(|| mem.timeline(tq))) {
            Ok(Ok(v)) => json!(v.iter().map(|e| json!([e.frame_id, e.timestamp, e.preview, e.uri, e.child_frames])).collect::<Vec<_>>()),
            Ok(Err(e)) => json!(format!("err {}", short(&e.to_string()))), Err(p) => json!(format!("panic {}", short(&p))) });
    }
    let searches: Vec<Value> = queries.iter().map(|q| json!([q, search_obs(mem, q, 10)])).collect();
    let mut cards = vec![];
    let mut created = vec![];
    for c in mem.memories().cards() {
        let mut j = serde_json::to_value(c).unwrap_or(Value::Null);
        if let Some(o) = j.as_object_mut() { if let Some(x) = o.remove("created_at") { created.push(x); } }
        cards.push(j);
    }
    json!({"frames": frames, "timeline": tls, "searches": searches, "cards": cards, "cards_created_at": created, "payload_offsets": layout})
}

/// run one history on a fresh path; returns the report (call results + observations)
fn execute(hist: &Value, path: &Path) -> Value {
    let queries: Vec<String> = hist.get("queries").and_then(|x| x.as_array()).map(|a| a.iter().filter_map(|q| q.as_str().map(|q| q.to_string())).collect()).unwrap_or_default();
    let mut results: Vec<String> = vec![];
    let mut mem = match Memvid::create(path) { Ok(m) => Some(m), Err(e) => { return json!({"fatal": format!("create: {e}")}); } };
    if b(hist, "vec") { results.push(res(Ok(mem.as_mut().unwrap().enable_vec()), |_| String::new())); }
    for op in hist["ops"].as_array().cloned().unwrap_or_default() {
        let kind = s(&op, "op").unwrap_or_default();
        let Some(m) = mem.as_mut() else { results.push("no-handle".into()); if kind != "reopen" { continue; } else { mem = Memvid::open(path).ok(); continue; } };
        let r = match kind.as_str() {
            "put" => {
                let payload = payload_of(&op);
                let o = put_options(&op);
                match op.get("embed").and_then(|x| x.as_array()) {
                    Some(e) => { let v: Vec<f32> = e.iter().map(|x| x.as_f64().unwrap_or(0.0) as f32).collect();
                        res(guarded(std::panic::AssertUnwindSafe(|| m.put_with_embedding_and_options(&payload, v, o))), |q| q.to_string()) }
                    None => res(guarded(std::panic::AssertUnwindSafe(|| m.put_bytes_with_options(&payload, o))), |q| q.to_string()),
                }
            }
            "update" => {
                let id = op["id"].as_u64().unwrap_or(0);
                let payload = if op.get("text").is_some() || op.get("hex").is_some() { Some(payload_of(&op)) } else { None };
                let o = put_options(&op);
                res(guarded(std::panic::AssertUnwindSafe(|| m.update_frame(id, payload, o, None))), |q| q.to_string())
            }
            "delete" => { let id = op["id"].as_u64().unwrap_or(0); res(guarded(std::panic::AssertUnwindSafe(|| m.delete_frame(id))), |q| q.to_string()) }
            "commit" => res(guarded(std::panic::AssertUnwindSafe(|| m.commit())), |_| String::new()),
            "vacuum" => res(guarded(std::panic::AssertUnwindSafe(|| m.vacuum())), |_| String::new()),
            "card" => {
                let c = MemoryCard { id: 0, kind: MemoryKind::Fact, entity: s(&op, "entity").unwrap_or_default(), slot: s(&op, "slot").unwrap_or_default(),
                    value: s(&op, "value").unwrap_or_default(), polarity: None, event_date: op.get("event").and_then(|x| x.as_i64()), document_date: None,
                    version_key: None, version_relation: VersionRelation::Sets, source_frame_id: op.get("frame").and_then(|x| x.as_u64()).unwrap_or(0),
                    source_uri: None, source_offset: None, engine: "c23".into(), engine_version: "1".into(), confidence: None,
                    created_at: op.get("created").and_then(|x| x.as_i64()).unwrap_or(0) };
                res(guarded(std::panic::AssertUnwindSafe(|| m.put_memory_card(c))), |q| q.to_string())
            }
            "search" => search_obs(m, &s(&op, "q").unwrap_or_default(), op.get("k").and_then(|x| x.as_u64()).unwrap_or(5) as usize),
            "reopen" => {
                mem = None;
                match guarded(|| Memvid::open(path)) { Ok(Ok(m2)) => { mem = Some(m2); "ok".into() } Ok(Err(e)) => format!("err {}", short(&e.to_string())), Err(p) => format!("panic {}", short(&p)) }
            }
            _ => "bad-op".into(),
        };
        results.push(r);
    }
    let live = match mem.as_mut() { Some(m) => observe(m, &queries), None => json!("no-handle") };
    drop(mem);
    // the file as the calls left it stays at `path`; a COPY is reopened (open may replay the WAL in place)
    let copy = path.with_extension("copy.mv2");
    let reopened = match std::fs::copy(path, &copy) {
        Ok(_) => match guarded(|| Memvid::open(&copy)) {
            Ok(Ok(mut m)) => observe(&mut m, &queries),
            Ok(Err(e)) => json!(format!("err {}", short(&e.to_string()))), Err(p) => json!(format!("panic {}", short(&p))) },
        Err(e) => json!(format!("copy failed {e}")),
    };
    let _ = std::fs::remove_file(&copy);
    json!({"results": results, "live": live, "reopened": reopened})
}

fn child_main(argv: &[String]) -> ! {
    let batch: Value = serde_json::from_str(&std::fs::read_to_string(&argv[2]).expect("read batch")).expect("parse batch");
    let dir = PathBuf::from(&argv[3]);
    let tag = &argv[4];
    let mut out = vec![];
    for (i, h) in batch.as_array().expect("batch array").iter().enumerate() {
        let path = dir.join(format!("h{i}.mv2"));
        out.push(execute(h, &path));
    }
    std::fs::write(dir.join(format!("report-{tag}.json")), serde_json::to_string(&out).unwrap()).expect("write report");
    std::process::exit(0);
}

// ===================================================================================== regions
const KINDS: [&str; 13] = ["header", "wal", "payload", "time", "lex", "vec", "memories", "mesh", "sketch", "toc", "footer", "gap", "tail"];

/// kind index of every byte of the file (regions from the header, the TOC and the footer; bytes nothing refers to
/// are `gap` before the footer and `tail` after it)
fn owners(bytes: &[u8]) -> Result<Vec<u8>, String> {
    if bytes.len() < HEADER_SIZE + FOOTER_SIZE { return Err("short file".into()); }
    let hb: &[u8; HEADER_SIZE] = bytes[..HEADER_SIZE].try_into().unwrap();
    let hdr = HeaderCodec::decode(hb).map_err(|e| format!("header: {e}"))?;
    let foot = find_last_valid_footer(bytes).ok_or("no valid footer")?;
    let toc = Toc::decode(foot.toc_bytes).map_err(|e| format!("toc: {e}"))?;
    let len = bytes.len();
    let mut marks: Vec<(usize, usize, &'static str)> = vec![];
    let mut add = |o: u64, l: u64, k: &'static str| { let (a, e) = (o as usize, (o + l) as usize); if e > a && e <= len { marks.push((a, e, k)); } };
    add(0, HEADER_SIZE as u64, "header");
    add(hdr.wal_offset, hdr.wal_size, "wal");
    for f in &toc.frames { add(f.payload_offset, f.payload_length, "payload"); }
    if let Some(m) = &toc.time_index { add(m.bytes_offset, m.bytes_length, "time"); }
    if let Some(m) = &toc.indexes.lex { add(m.bytes_offset, m.bytes_length, "lex"); }
    if let Some(m) = &toc.indexes.vec { add(m.bytes_offset, m.bytes_length, "vec"); }
    if let Some(m) = &toc.memories_track { add(m.bytes_offset, m.bytes_length, "memories"); }
    if let Some(m) = &toc.logic_mesh { add(m.bytes_offset, m.bytes_length, "mesh"); }
    if let Some(m) = &toc.sketch_track { add(m.bytes_offset, m.bytes_length, "sketch"); }
    for x in &toc.segment_catalog.tantivy_segments { add(x.common.bytes_offset, x.common.bytes_length, "lex"); }
    for x in &toc.indexes.lex_segments { add(x.bytes_offset, x.bytes_length, "lex"); }
    for x in &toc.segment_catalog.vec_segments { add(x.common.bytes_offset, x.common.bytes_length, "vec"); }
    for x in &toc.segment_catalog.time_segments { add(x.common.bytes_offset, x.common.bytes_length, "time"); }
    for x in &toc.segment_catalog.lex_segments { add(x.common.bytes_offset, x.common.bytes_length, "lex"); }
    add(foot.toc_offset as u64, foot.toc_bytes.len() as u64, "toc");
    add(foot.footer_offset as u64, FOOTER_SIZE as u64, "footer");
    let mut owner: Vec<u8> = vec![255; len];
    for (a, e, k) in &marks { let ki = KINDS.iter().position(|x| x == k).unwrap() as u8; for o in *a..*e { if owner[o] == 255 { owner[o] = ki; } } }
    let tail_from = foot.footer_offset + FOOTER_SIZE;
    for (o, w) in owner.iter_mut().enumerate() { if *w == 255 { *w = if o >= tail_from { 12 } else { 11 }; } }
    Ok(owner)
}

/// (kind, bytes) of every region kind of a file
fn regions(bytes: &[u8]) -> Result<BTreeMap<String, Vec<u8>>, String> {
    let owner = owners(bytes)?;
    let mut out: BTreeMap<String, Vec<u8>> = BTreeMap::new();
    for (o, byte) in bytes.iter().enumerate() { out.entry(KINDS[owner[o] as usize].to_string()).or_default().push(*byte); }
    Ok(out)
}

/// (start offset, kind) of every maximal run of bytes of one kind
fn region_spans(bytes: &[u8]) -> Result<Vec<(usize, String)>, String> {
    let owner = owners(bytes)?;
    let mut out = vec![];
    for o in 0..owner.len() { if o == 0 || owner[o] != owner[o - 1] { out.push((o, KINDS[owner[o] as usize].to_string())); } }
    Ok(out)
}

/// kinds of regions that differ between the two files (a kind present in one file only differs)
fn differing_regions(a: &[u8], bb: &[u8]) -> Result<(BTreeSet<String>, BTreeSet<String>), String> {
    let (ra, rb) = (regions(a)?, regions(bb)?);
    let mut diff = BTreeSet::new();
    let kinds: BTreeSet<String> = ra.keys().chain(rb.keys()).cloned().collect();
    for k in &kinds { if ra.get(k) != rb.get(k) { diff.insert(k.clone()); } }
    Ok((diff, ra.keys().cloned().collect()))
}

/// kinds of the model's regions present in the file, ordered by first byte
fn region_order(bytes: &[u8]) -> Result<Vec<String>, String> {
    let spans = region_spans(bytes)?;
    let mut first: Vec<(usize, String)> = vec![];
    for (o, k) in spans { if k != "gap" && k != "tail" && !first.iter().any(|(_, kk)| *kk == k) { first.push((o, k)); } }
    first.sort();
    Ok(first.into_iter().map(|(_, k)| k).collect())
}

// ===================================================================================== twin runs
struct Twin { a: Value, b: Value, file_a: Vec<u8>, file_b: Vec<u8> }

fn run_child(exe: &Path, batch_file: &Path, dir: &Path, tag: &str) -> Result<Vec<Value>, String> {
    std::fs::create_dir_all(dir).map_err(|e| e.to_string())?;
    let st = Command::new(exe).arg("child").arg(batch_file).arg(dir).arg(tag).env("TMPDIR", dir).status().map_err(|e| e.to_string())?;
    if !st.success() { return Err(format!("child {tag} exited with {st}")); }
    let txt = std::fs::read_to_string(dir.join(format!("report-{tag}.json"))).map_err(|e| e.to_string())?;
    serde_json::from_str::<Vec<Value>>(&txt).map_err(|e| e.to_string())
}

fn now_secs() -> u64 { std::time::SystemTime::now().duration_since(std::time::UNIX_EPOCH).map(|d| d.as_secs()).unwrap_or(0) }

/// execute every history of the batch twice: child A, then (strictly later on the wall clock) child B
fn run_twins(batch: &[Value]) -> Result<Vec<Twin>, String> {
    let exe = std::env::current_exe().map_err(|e| e.to_string())?;
    let root = tempfile::tempdir().map_err(|e| e.to_string())?;
    let bf = root.path().join("batch.json");
    std::fs::write(&bf, serde_json::to_string(batch).unwrap()).map_err(|e| e.to_string())?;
    let (da, db) = (root.path().join("run-a"), root.path().join("run-b-second-execution"));
    let ra = run_child(&exe, &bf, &da, "a")?;
    let end_a = now_secs();
    while now_secs() <= end_a { std::thread::sleep(std::time::Duration::from_millis(50)); }
    let rb = run_child(&exe, &bf, &db, "b")?;
    let mut out = vec![];
    for i in 0..batch.len() {
        let fa = std::fs::read(da.join(format!("h{i}.mv2"))).unwrap_or_default();
        let fb = std::fs::read(db.join(format!("h{i}.mv2"))).unwrap_or_default();
        out.push(Twin { a: ra[i].clone(), b: rb[i].clone(), file_a: fa, file_b: fb });
    }
    Ok(out)
}

// ===================================================================================== model wire
struct Wire { ops: String, queries: String }

fn intern(table: &mut Vec<String>, key: &str) -> usize {
    if let Some(i) = table.iter().position(|k| k == key) { i } else { table.push(key.to_string()); table.len() - 1 }
}

/// the request line for the model driver; the triplet extractor is a black box, its output for each put is read
/// off run A (cards built by engine "rules" whose source is the frame id that put receives)
fn wire(hist: &Value, report_a: &Value) -> Wire {
    let mut slots: Vec<String> = vec![];
    let mut values: Vec<String> = vec![];
    let final_cards = report_a["reopened"]["cards"].as_array().cloned().unwrap_or_default();
    let results: Vec<String> = report_a["results"].as_array().map(|a| a.iter().map(|x| x.as_str().unwrap_or("").to_string()).collect()).unwrap_or_default();
    let mut out = vec![];
    // frame ids are dense and assigned in WAL order: the id a put/update receives = number of earlier successful inserts
    let mut inserts = 0u64;
    for (i, op) in hist["ops"].as_array().cloned().unwrap_or_default().iter().enumerate() {
        let kind = s(op, "op").unwrap_or_default();
        let assigned = inserts;
        if (kind == "put" || kind == "update") && results.get(i).map(|r| r.starts_with("ok ")).unwrap_or(false) { inserts += 1; }
        let w = match kind.as_str() {
            "put" => {
                let uri = s(op, "uri").and_then(|u| u.rsplit('/').next().and_then(|n| n.parse::<u64>().ok())).unwrap_or(0);
                let mut trip = vec![];
                if b(op, "triplets") {
                    if results.get(i).map(|r| r.starts_with("ok ")).unwrap_or(false) {
                        for c in &final_cards {
                            if c["engine"].as_str() == Some("rules") && c["source_frame_id"].as_u64() == Some(assigned) {
                                let key = format!("{}:{}", c["entity"].as_str().unwrap_or("").to_lowercase(), c["slot"].as_str().unwrap_or("").to_lowercase());
                                trip.push(format!("{}.{}", intern(&mut slots, &key), intern(&mut values, c["value"].as_str().unwrap_or(""))));
                            }
                        }
                    }
                }
                format!("p:{}:{}:{}:{}:{}", op["ts"].as_i64().unwrap_or(0), hexw(&payload_of(op)).replace('-', "00"), uri, if b(op, "instant") { 1 } else { 0 },
                    if trip.is_empty() { "-".to_string() } else { trip.join(",") })
            }
            "update" => format!("u:{}:{}:{}", op["id"].as_u64().unwrap_or(0), op.get("ts").and_then(|x| x.as_i64()).map(|t| t.to_string()).unwrap_or("~".into()),
                if op.get("text").is_some() || op.get("hex").is_some() { hexw(&payload_of(op)) } else { "~".into() }),
            "delete" => format!("d:{}", op["id"].as_u64().unwrap_or(0)),
            "card" => {
                let key = format!("{}:{}", s(op, "entity").unwrap_or_default().to_lowercase(), s(op, "slot").unwrap_or_default().to_lowercase());
                format!("k:{}:{}:{}:{}", intern(&mut slots, &key), intern(&mut values, &s(op, "value").unwrap_or_default()),
                    op.get("frame").and_then(|x| x.as_u64()).unwrap_or(0), op.get("created").and_then(|x| x.as_i64()).unwrap_or(0))
            }
            "commit" => "c".into(),
            "reopen" => "r".into(),
            "search" => format!("s:{}", s(op, "q").unwrap_or_default().bytes().next().unwrap_or(b'k')),
            _ => "c".into(),
        };
        out.push(w);
    }
    let qs: Vec<String> = hist.get("queries").and_then(|x| x.as_array()).map(|a| a.iter().filter_map(|q| q.as_str()).map(|q| q.bytes().next().unwrap_or(b'k').to_string()).collect()).unwrap_or_default();
    Wire { ops: if out.is_empty() { "-".into() } else { out.join(";") }, queries: if qs.is_empty() { "-".into() } else { qs.join(",") } }
}

fn field<'a>(ans: &'a str, name: &str) -> &'a str {
    for part in ans.split(" | ") { if let Some(v) = part.strip_prefix(&format!("{name}=")) { return v; } }
    ""
}

/// the implementation's side of the line the model prints (res/live/final/tl/cards/present)
fn frames_wire(obs: &Value) -> String {
    let Some(frames) = obs.get("frames").and_then(|x| x.as_array()) else { return "?".into() };
    if frames.is_empty() { return "-".into(); }
    frames.iter().map(|f| {
        let fr = &f["frame"];
        let st = match fr["status"].as_str().unwrap_or("?") { "active" | "Active" => "a", "superseded" | "Superseded" => "s", "deleted" | "Deleted" => "x", _ => "?" };
        let o = |v: &Value| v.as_u64().map(|n| n.to_string()).unwrap_or("~".into());
        let len = f["content"].as_str().and_then(|c| c.split(' ').nth(1)).unwrap_or("?").to_string();
        format!("{}:{}:{}:{}:{}", fr["timestamp"].as_i64().unwrap_or(0), st, o(&fr["supersedes"]), o(&fr["superseded_by"]), len)
    }).collect::<Vec<_>>().join(",")
}

fn timeline_wire(obs: &Value) -> String {
    match obs["timeline"][0].as_array() {
        Some(a) if a.is_empty() => "-".into(),
        Some(a) => a.iter().map(|e| e[0].as_u64().unwrap_or(0).to_string()).collect::<Vec<_>>().join(","),
        None => "?".into(),
    }
}

fn results_wire(hist: &Value, rep: &Value) -> String {
    let ops = hist["ops"].as_array().cloned().unwrap_or_default();
    let rs: Vec<String> = rep["results"].as_array().map(|a| a.iter().map(|x| x.as_str().unwrap_or("").to_string()).collect()).unwrap_or_default();
    if rs.is_empty() { return "-".into(); }
    rs.iter().enumerate().map(|(i, r)| {
        let kind = ops.get(i).and_then(|o| s(o, "op")).unwrap_or_default();
        // what a search returns is the black-box engine's business (it is compared between the two runs, not with the model)
        if kind == "search" { return if r.starts_with("panic") { "search-panic".to_string() } else { "hits".to_string() }; }
        if r == "ok" || r == "ok " { "done".into() }
        else if let Some(n) = r.strip_prefix("ok ") { format!("ok{n}") }
        else if r.starts_with("err") { "err".into() } else { r.split(' ').next().unwrap_or("?").to_string() }
    }).collect::<Vec<_>>().join(",")
}

/// kinds present in a file, in the order of their first byte (dead bytes and the tail are not regions of the model)
fn present_wire(bytes: &[u8]) -> String {
    match region_order(bytes) { Ok(v) => v.join(","), Err(e) => format!("?{e}") }
}

/// timestamps of the tombstone records physically in the WAL region
fn tombstone_timestamps(bytes: &[u8]) -> Vec<i64> {
    let mut out = vec![];
    let Ok(hdr) = HeaderCodec::decode(match bytes.get(..HEADER_SIZE).and_then(|x| <&[u8; HEADER_SIZE]>::try_from(x).ok()) { Some(h) => h, None => return out }) else { return out };
    let (off, size) = (hdr.wal_offset as usize, hdr.wal_size as usize);
    let mut cur = 0usize;
    while cur + 48 <= size && off + cur + 48 <= bytes.len() {
        let rec = &bytes[off + cur..];
        let seq = u64::from_le_bytes(rec[..8].try_into().unwrap());
        let len = u32::from_le_bytes(rec[8..12].try_into().unwrap()) as usize;
        if (seq == 0 && len == 0) || len == 0 || cur + 48 + len > size || off + cur + 48 + len > bytes.len() { break; }
        let payload = &rec[48..48 + len];
        if memvid_core::memvid::mutation::verif_wal_entry_kind(payload) == Some(2) && payload.len() >= 12 {
            out.push(i64::from_le_bytes(payload[4..12].try_into().unwrap()));
        }
        cur += 48 + len;
    }
    out
}

const SIG_LEX: &str = "file-bytes-differ-tantivy-segment-ids";
const SIG_HASH: &str = "file-bytes-differ-hashmap-order-in-memories-track";
const SIG_CLOCK: &str = "file-bytes-differ-wall-clock-values-in-file";

/// compare the two executions of one history; model correspondence on run A
fn judge(hist: &Value, t: &Twin, drv: &mut Option<Driver>, sum: &mut Summary, known: &[String], verbose: bool) {
    let case = hist.clone();
    if t.a.get("fatal").is_some() || t.b.get("fatal").is_some() {
        sum.oracle_violation("execution-failed", &format!("A: {} B: {}", t.a["fatal"], t.b["fatal"]), case); return;
    }
    // ---- property oracle, part 2: logical observations (independent of the model)
    // not part of the logical state: created_at of extractor-built cards (a clock read, finding), physical payload offsets
    let strip = |v: &Value| { let mut v = v.clone(); if let Some(o) = v.as_object_mut() { o.remove("cards_created_at"); o.remove("payload_offsets"); } v };
    if t.a["reopened"]["payload_offsets"] != t.b["reopened"]["payload_offsets"] { sum.branch("payload-offsets-differ"); }
    let mut logical_ok = true;
    if t.a["results"] != t.b["results"] { logical_ok = false; sum.oracle_violation("call-results-differ-between-runs", &format!("A {} B {}", t.a["results"], t.b["results"]), case.clone()); }
    for k in ["live", "reopened"] {
        if strip(&t.a[k]) != strip(&t.b[k]) {
            logical_ok = false;
            let (oa, ob) = (strip(&t.a[k]), strip(&t.b[k]));
            let which: Vec<String> = oa.as_object().map(|o| o.keys().filter(|kk| oa[kk.as_str()] != ob[kk.as_str()]).cloned().collect()).unwrap_or_default();
            sum.oracle_violation(&format!("logical-state-differs-between-runs-{}", which.first().cloned().unwrap_or("observation".into())),
                &format!("{k} observation differs in {which:?}"), case.clone());
        }
    }
    if logical_ok { sum.branch("logical-observations-equal"); }
    let created_differ = t.a["reopened"]["cards_created_at"] != t.b["reopened"]["cards_created_at"];
    let (tomb_a, tomb_b) = (tombstone_timestamps(&t.file_a), tombstone_timestamps(&t.file_b));
    let tomb_differ = tomb_a != tomb_b;
    if created_differ { sum.branch("clock-in-card-created-at"); }
    if tomb_differ { sum.branch("clock-in-wal-tombstone"); }
    // ---- histories outside the model's scope (vacuum, embeddings, auto-tagging, date extraction): the logical clause as above;
    //      byte clause model-free: the regions no oracle can reach (payloads, time index, sketch track, vector index) must be identical
    if b(hist, "ext") {
        sum.branch("ext-history");
        if t.file_a != t.file_b {
            match differing_regions(&t.file_a, &t.file_b) {
                Err(e) => sum.oracle_violation("file-not-parseable", &e, case.clone()),
                Ok((diff, _)) => {
                    let bad: Vec<&String> = diff.iter().filter(|k| ["payload", "time", "sketch", "vec", "mesh"].contains(&k.as_str())).collect();
                    if !bad.is_empty() { sum.oracle_violation("file-bytes-differ-in-region-no-oracle-reaches", &format!("regions {bad:?} differ (all differing: {diff:?})"), case.clone()); }
                    else { sum.branch("ext-bytes-differ-only-in-tainted-regions"); }
                }
            }
        } else { sum.branch("ext-bytes-identical"); }
        if verbose { println!("ext history: results A {}", t.a["results"]); }
        sum.case(&hist.to_string(), true, || json!({"ext": true, "bytes_equal": t.file_a == t.file_b}));
        return;
    }
    // ---- model correspondence (run A)
    let mut may: Option<BTreeSet<String>> = None;
    let mut causes = String::new();
    let imp_line = format!("res={} | live={} | final={} | tl={}/{} | cards={} | present={}", results_wire(hist, &t.a), frames_wire(&t.a["live"]), frames_wire(&t.a["reopened"]),
        timeline_wire(&t.a["live"]), timeline_wire(&t.a["reopened"]), t.a["reopened"]["cards"].as_array().map(|a| a.len()).unwrap_or(0), present_wire(&t.file_a));
    if let Some(d) = drv.as_mut() {
        let w = wire(hist, &t.a);
        let ans = d.ask(&format!("run {} {}", w.ops, w.queries));
        let model_line = format!("res={} | live={} | final={} | tl={} | cards={} | present={}", field(&ans, "res"), field(&ans, "live"), field(&ans, "final"), field(&ans, "tl"), field(&ans, "cards"), field(&ans, "present"));
        if verbose { println!("model: {ans}\nimpl : {imp_line}"); }
        if model_line != imp_line { sum.disagreement("history: model vs implementation (run A)", case.clone(), &ans, &imp_line); }
        if field(&ans, "logical") != "same" { sum.disagreement("model twin runs differ logically (contradicts C23_logical)", case.clone(), &ans, ""); }
        may = Some(field(&ans, "may").split(',').filter(|x| *x != "-" && !x.is_empty()).map(|x| x.to_string()).collect());
        causes = field(&ans, "causes").to_string();
        let twin: BTreeSet<String> = field(&ans, "twin").split(',').filter(|x| *x != "-" && !x.is_empty()).map(|x| x.to_string()).collect();
        if !twin.is_subset(may.as_ref().unwrap()) { sum.disagreement("model twin diff not inside mayDiffer (contradicts C23_regions)", case.clone(), &ans, ""); }
    } else if verbose { println!("impl : {imp_line}"); }
    // ---- property oracle, part 1: file bytes
    let canon = format!("{}", hist);
    let nontrivial = hist["ops"].as_array().map(|o| o.iter().any(|x| matches!(s(x, "op").as_deref(), Some("put") | Some("card")))).unwrap_or(false);
    if t.file_a == t.file_b {
        sum.branch("bytes-identical");
        if let Some(m) = &may { if m.iter().all(|k| k == "gap") { sum.branch("bytes-identical-as-predicted"); } else { sum.branch("bytes-identical-though-model-allows-difference"); } }
    } else {
        sum.branch("bytes-differ");
        match differing_regions(&t.file_a, &t.file_b) {
            Err(e) => { sum.oracle_violation("file-not-parseable", &e, case.clone()); }
            Ok((diff, _)) => {
                if verbose { println!("differing regions: {diff:?}  model may-differ: {may:?}  causes: {causes}"); }
                let what = format!("files differ in regions {:?} (lengths {} / {}); model causes: {causes}", diff, t.file_a.len(), t.file_b.len());
                match &may {
                    None => { sum.oracle_violation("file-bytes-differ", &what, case.clone()); }
                    Some(m) => {
                        let extra: Vec<&String> = diff.iter().filter(|k| !m.contains(*k) && k.as_str() != "tail").collect();
                        let tail_bad = diff.contains("tail") && !m.contains("gap");
                        if !extra.is_empty() || tail_bad {
                            sum.oracle_violation("file-bytes-differ-in-region-the-model-holds-deterministic", &format!("{what}; not predicted: {extra:?}"), case.clone());
                        } else {
                            // attribute every differing region to a recorded failure class
                            let has = |c: &str| causes.contains(c);
                            let mut sigs: BTreeSet<&str> = BTreeSet::new();
                            let mut unattributed = vec![];
                            for k in &diff {
                                let mut ok = false;
                                match k.as_str() {
                                    "lex" => { if has("uuid:") { sigs.insert(SIG_LEX); ok = true; } }
                                    "memories" => {
                                        if has("hashSeed:") { sigs.insert(SIG_HASH); ok = true; }
                                        if has("clock:card-created-at") && created_differ { sigs.insert(SIG_CLOCK); ok = true; }
                                    }
                                    "wal" => {
                                        if has("uuid:") { sigs.insert(SIG_LEX); ok = true; }
                                        if has("clock:wal-tombstone") && tomb_differ { sigs.insert(SIG_CLOCK); ok = true; }
                                        if has("clock:wal-tombstone") && !has("uuid:") && !tomb_differ { ok = false; }
                                    }
                                    _ => { ok = has("uuid:") || has("hashSeed:") || has("clock:"); }
                                }
                                if !ok { unattributed.push(k.clone()); }
                            }
                            let unknown: Vec<&&str> = sigs.iter().filter(|sg| !known.iter().any(|k| k == **sg)).collect();
                            if !unattributed.is_empty() || !unknown.is_empty() || sigs.is_empty() {
                                sum.oracle_violation(sigs.iter().next().copied().unwrap_or("file-bytes-differ"), &format!("{what}; unattributed {unattributed:?}"), case.clone());
                            } else {
                                for sg in &sigs { sum.known_finding(sg, &what, case.clone()); sum.branch(&format!("known:{sg}")); }
                                if m.iter().filter(|k| k.as_str() != "gap").all(|k| diff.contains(k)) { sum.branch("diff-set-exactly-as-predicted"); } else { sum.branch("diff-set-smaller-than-predicted"); }
                            }
                        }
                    }
                }
            }
        }
    }
    let nops = hist["ops"].as_array().map(|a| a.len()).unwrap_or(0);
    sum.case(&canon, nontrivial, || json!({"ops": nops, "bytes_equal": t.file_a == t.file_b, "file_len": t.file_a.len(), "causes": causes}));
}

// ===================================================================================== generator
const WORDS: &[&str] = &["kiwi", "zebra", "quartz", "walnut", "falcon", "lorem", "ipsum", "dolor"];
const FACTS: &[&str] = &["Alice works at Acme Corp.", "Bob lives in Paris.", "Carol works at Initech. Carol lives in Berlin.", "Dave is a doctor."];

fn gen_text(rng: &mut Rng) -> String {
    let n = rng.usize(1, 12);
    (0..n).map(|_| *rng.pick(WORDS)).collect::<Vec<_>>().join(" ")
}

fn gen_history(rng: &mut Rng) -> Value {
    let frameless = rng.chance(1, 6);
    let nops = rng.usize(1, 9);
    let mut ops = vec![];
    let mut puts = 0u64;
    let mut uri = 0u64;
    for _ in 0..nops {
        let roll = rng.below(100);
        if frameless {
            // histories without frames: the only ones whose bytes the default build keeps identical
            match roll { 0..=39 => ops.push(json!({"op": "card", "entity": "alice", "slot": "employer", "value": *rng.pick(&["acme", "initech", "globex"]), "created": rng.i64(1, 50), "frame": 0})),
                40..=59 => ops.push(json!({"op": "commit"})), 60..=74 => ops.push(json!({"op": "reopen"})), 75..=84 => ops.push(json!({"op": "search", "q": "kiwi", "k": 5})),
                85..=92 => ops.push(json!({"op": "delete", "id": rng.below(2)})), _ => ops.push(json!({"op": "update", "id": rng.below(2), "text": "kiwi"})) }
            continue;
        }
        match roll {
            0..=44 => {
                let triplets = rng.chance(1, 5);
                let text = if triplets { format!("{} {}", rng.pick(FACTS), gen_text(rng)) } else { gen_text(rng) };
                let ts = if rng.chance(1, 3) { 1_700_000_000 } else { 1_700_000_000 + rng.i64(-5000, 5000) };
                uri += 1;
                if rng.chance(1, 8) { let nb = rng.usize(1, 40); ops.push(json!({"op": "put", "hex": hex::encode(rng.bytes(nb)), "ts": ts, "uri": format!("mv2://c23/{uri}"), "instant": rng.bool()})); }
                else { ops.push(json!({"op": "put", "text": text, "ts": ts, "uri": format!("mv2://c23/{uri}"), "instant": rng.bool(), "triplets": triplets})); }
                puts += 1;
            }
            45..=59 => ops.push(json!({"op": "commit"})),
            60..=69 => ops.push(json!({"op": "delete", "id": rng.below(puts + 2)})),
            70..=77 => { let mut o = json!({"op": "update", "id": rng.below(puts + 2)}); if rng.bool() { o["text"] = json!(gen_text(rng)); } if rng.chance(1, 3) { o["ts"] = json!(1_700_000_000 + rng.i64(-5000, 5000)); } ops.push(o); }
            78..=85 => ops.push(json!({"op": "card", "entity": *rng.pick(&["alice", "bob", "carol"]), "slot": *rng.pick(&["employer", "city"]), "value": *rng.pick(&["acme", "paris", "globex"]), "created": rng.i64(1, 50), "frame": rng.below(puts + 1)})),
            86..=92 => ops.push(json!({"op": "reopen"})),
            _ => ops.push(json!({"op": "search", "q": *rng.pick(WORDS), "k": rng.usize(1, 6)})),
        }
    }
    json!({"ops": ops, "queries": ["kiwi", "zebra", "alice"]})
}

/// histories with calls the model does not cover: vacuum, embeddings (vector index), auto-tagging, date extraction, titles and tags
fn gen_ext_history(rng: &mut Rng) -> Value {
    let vec = rng.bool();
    let nops = rng.usize(2, 9);
    let mut ops = vec![];
    let mut puts = 0u64;
    for _ in 0..nops {
        match rng.below(100) {
            0..=49 => {
                puts += 1;
                let text = if rng.chance(1, 4) { format!("{} Meeting on 2024-03-15 about {}.", rng.pick(FACTS), gen_text(rng)) } else { gen_text(rng) };
                let mut o = json!({"op": "put", "text": text, "ts": 1_700_000_000 + rng.i64(-5000, 5000), "uri": format!("mv2://c23/{puts}"), "title": format!("doc {puts}"),
                    "tags": [*rng.pick(WORDS)], "instant": rng.bool(), "triplets": rng.chance(1, 4), "auto_tag": rng.bool(), "dates": rng.bool()});
                if vec { o["embed"] = json!((0..4).map(|_| rng.i64(-8, 8) as f64 / 4.0).collect::<Vec<_>>()); }
                ops.push(o);
            }
            50..=61 => ops.push(json!({"op": "commit"})),
            62..=73 => ops.push(json!({"op": "vacuum"})),
            74..=81 => ops.push(json!({"op": "delete", "id": rng.below(puts + 1)})),
            82..=89 => ops.push(json!({"op": "update", "id": rng.below(puts + 1), "text": gen_text(rng)})),
            90..=94 => ops.push(json!({"op": "reopen"})),
            _ => ops.push(json!({"op": "search", "q": *rng.pick(WORDS), "k": 4})),
        }
    }
    json!({"ext": true, "vec": vec, "ops": ops, "queries": ["kiwi", "walnut", "alice"]})
}

/// hand-written corpus: the witnesses of the recorded findings first
fn corpus() -> Vec<Value> {
    let q = json!(["kiwi", "zebra"]);
    vec![
        // witness of file-bytes-differ-tantivy-segment-ids
        json!({"ops": [{"op": "put", "text": "kiwi walnut falcon", "ts": 1700000000, "uri": "mv2://c23/1"}], "queries": q}),
        // witness of file-bytes-differ-hashmap-order-in-memories-track (no frame: nothing else can differ)
        json!({"ops": (0..8).map(|i| json!({"op": "card", "entity": format!("e{i}"), "slot": "city", "value": "paris", "created": 5 + i, "frame": 0})).collect::<Vec<_>>(), "queries": q}),
        // witness of file-bytes-differ-wall-clock-values-in-file: tombstone timestamp + extractor-built cards
        json!({"ops": [{"op": "put", "text": "Alice works at Acme Corp. Bob lives in Paris.", "ts": 1700000000, "uri": "mv2://c23/1", "triplets": true}, {"op": "commit"}, {"op": "delete", "id": 0}], "queries": q}),
        // byte-identical class: no frame, at most one slot
        json!({"ops": [], "queries": q}),
        json!({"ops": [{"op": "commit"}, {"op": "reopen"}, {"op": "search", "q": "kiwi", "k": 3}], "queries": q}),
        json!({"ops": [{"op": "card", "entity": "alice", "slot": "employer", "value": "acme", "created": 5, "frame": 0}, {"op": "card", "entity": "Alice", "slot": "Employer", "value": "globex", "created": 6, "frame": 0}, {"op": "commit"}, {"op": "reopen"}], "queries": q}),
        // ties in timestamp and score, instant index, update, delete of missing/deleted frames
        json!({"ops": [{"op": "put", "text": "kiwi walnut", "ts": 1700000000, "uri": "mv2://c23/1", "instant": true}, {"op": "put", "text": "kiwi walnut", "ts": 1700000000, "uri": "mv2://c23/2"},
            {"op": "put", "text": "kiwi walnut", "ts": 1699999999, "uri": "mv2://c23/3", "instant": true}, {"op": "search", "q": "kiwi", "k": 5}, {"op": "commit"}, {"op": "update", "id": 1, "text": "zebra quartz"},
            {"op": "delete", "id": 0}, {"op": "delete", "id": 7}, {"op": "commit"}, {"op": "delete", "id": 0}, {"op": "reopen"}, {"op": "search", "q": "kiwi", "k": 5}], "queries": q}),
        // outside the model: vector index + vacuum + auto-tag/date extraction
        json!({"ext": true, "vec": true, "ops": [{"op": "put", "text": "kiwi walnut. Meeting on 2024-03-15.", "ts": 1700000000, "uri": "mv2://c23/1", "title": "one", "tags": ["kiwi"], "embed": [0.5, 1.0, -1.0, 0.25], "auto_tag": true, "dates": true},
            {"op": "put", "text": "zebra walnut", "ts": 1700000001, "uri": "mv2://c23/2", "embed": [1.0, 0.0, 0.5, 0.5], "instant": true}, {"op": "commit"}, {"op": "delete", "id": 0}, {"op": "vacuum"},
            {"op": "put", "text": "falcon kiwi", "ts": 1699999999, "uri": "mv2://c23/3", "embed": [0.0, 0.0, 1.0, 0.5]}, {"op": "reopen"}, {"op": "search", "q": "kiwi", "k": 4}], "queries": q}),
    ]
}

fn run_batch(batch: &[Value], drv: &mut Option<Driver>, sum: &mut Summary, known: &[String], verbose: bool) {
    match run_twins(batch) {
        Ok(tw) => { for (h, t) in batch.iter().zip(tw.iter()) { judge(h, t, drv, sum, known, verbose); } }
        Err(e) if batch.len() > 1 => {
            sum.notes.push(format!("batch of {} failed ({e}); re-running one history per child pair", batch.len()));
            for h in batch { run_batch(std::slice::from_ref(h), drv, sum, known, verbose); }
        }
        Err(e) => { sum.oracle_violation("execution-aborted", &format!("child process failed: {e}"), batch[0].clone()); sum.case(&batch[0].to_string(), false, || json!({})); }
    }
}

fn main() {
    let argv: Vec<String> = std::env::args().collect();
    if argv.get(1).map(|x| x.as_str()) == Some("child") { child_main(&argv); }
    let args = parse_args();
    let mut drv = if args.driver.to_str() == Some("none") { None } else { Some(Driver::spawn(&args.driver).expect("spawn driver")) };
    let known: Vec<String> = args.extra.get("known").map(|s| s.split(',').map(|x| x.to_string()).collect()).unwrap_or_default();
    let mut sum = Summary::new("C23", &args,
        "histories of 0-12 calls (put text/binary with explicit timestamps, instant index on/off, triplet extraction on/off, update, delete incl. \
         invalid ids, explicit memory cards, commit, reopen, search) each executed by two separate child processes on fresh paths in different \
         directories, the second strictly later on the wall clock; compared: every call result, logical observation (all frame fields but the physical \
         offset, canonical payload and text digests, timeline both directions, searches with scores, cards) of the live handle and of a reopened copy, \
         file bytes region by region (regions from header/TOC); run A also compared with the Lean model (results, frames, timeline, cards, regions \
         present in file order); non-trivial = has a put or a card; distinct = whole history");
    sum.expect_branches(&["logical-observations-equal", "bytes-identical-as-predicted", "bytes-differ", "diff-set-exactly-as-predicted", "clock-in-wal-tombstone", "clock-in-card-created-at", "ext-history"]);
    if args.mode == "replay" {
        let case = load_replay(args.replay_file.as_ref().expect("replay file"));
        let input = case.get("input").cloned().unwrap_or(case);
        println!("history: {input}");
        match run_twins(std::slice::from_ref(&input)) {
            Ok(tw) => {
                println!("run A: {}", tw[0].a["results"]); println!("run B: {}", tw[0].b["results"]);
                println!("bytes equal: {}  (lengths {} / {})", tw[0].file_a == tw[0].file_b, tw[0].file_a.len(), tw[0].file_b.len());
                judge(&input, &tw[0], &mut drv, &mut sum, &known, true);
            }
            Err(e) => sum.oracle_violation("execution-aborted", &e, input.clone()),
        }
        if let Some(d) = drv.as_ref() { sum.model_requests = d.requests; }
        sum.finish(&args);
    }
    let mut rng = Rng::new(args.seed);
    let mut all = corpus();
    let n = if args.thorough { 120 } else { 14 };
    for i in 0..n { if i % 8 == 7 { all.push(gen_ext_history(&mut rng)); } else { all.push(gen_history(&mut rng)); } }
    // several child pairs, so that one process does not run everything (per-process hash seeds, global state)
    let per = if args.thorough { 20 } else { 11 };
    for chunk in all.chunks(per) {
        run_batch(chunk, &mut drv, &mut sum, &known, false);
        if sum.oracle_violations.len() + sum.disagreements.len() >= 8 { break; }
    }
    if let Some(d) = drv.as_ref() { sum.model_requests = d.requests; }
    sum.finish(&args);
}
