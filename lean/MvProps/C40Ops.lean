/-
  C40Ops — the index side of a commit, of `commit_skip_indexes` and of `finalize_indexes`, and the
  invariants an ingestion keeps between them.
-/
import MvProps.C40Lemmas
namespace Mv.Core

/-! ## `rebuild_indexes` written out -/

/-- what the lexical part of `rebuild_indexes` leaves in the engine -/
def lexAfter (m : Mem) (ins : List Nat) : List Nat :=
  if m.tantivyDirty then fullLexRebuild m.frames
  else if m.engine && !ins.isEmpty then
    m.lexDocs ++ ins.filter (fun id => match m.frames[id]? with
      | some f => f.status == .active && f.idx
      | none => false)
  else fullLexRebuild m.frames

/-- what the vector part of `rebuild_indexes` leaves in memory and in the file -/
def vecAfter (m : Mem) (embs : List VecEnt) : Option (List VecEnt) :=
  if m.vecEnabled then some ((m.vec.getD []).filter (fun e => isActive m.frames e.id) ++ embs) else none

/-! ### projections of the building blocks (generated text: one lemma per field) -/

@[simp] theorem persistToc_frames (m : Mem) : (m.persistToc).frames = m.frames := by
  rfl

@[simp] theorem persistToc_pending (m : Mem) : (m.persistToc).pending = m.pending := by
  rfl

@[simp] theorem persistToc_pendingInserts (m : Mem) : (m.persistToc).pendingInserts = m.pendingInserts := by
  rfl

@[simp] theorem persistToc_dirty (m : Mem) : (m.persistToc).dirty = m.dirty := by
  rfl

@[simp] theorem persistToc_time (m : Mem) : (m.persistToc).time = m.time := by
  rfl

@[simp] theorem persistToc_lexEnabled (m : Mem) : (m.persistToc).lexEnabled = m.lexEnabled := by
  rfl

@[simp] theorem persistToc_engine (m : Mem) : (m.persistToc).engine = m.engine := by
  rfl

@[simp] theorem persistToc_tantivyDirty (m : Mem) : (m.persistToc).tantivyDirty = m.tantivyDirty := by
  rfl

@[simp] theorem persistToc_lexDocs (m : Mem) : (m.persistToc).lexDocs = m.lexDocs := by
  rfl

@[simp] theorem persistToc_tantivySegs (m : Mem) : (m.persistToc).tantivySegs = m.tantivySegs := by
  rfl

@[simp] theorem persistToc_sketch (m : Mem) : (m.persistToc).sketch = m.sketch := by
  rfl

@[simp] theorem persistToc_pSketch (m : Mem) : (m.persistToc).pSketch = m.pSketch := by
  rfl

@[simp] theorem persistToc_vecEnabled (m : Mem) : (m.persistToc).vecEnabled = m.vecEnabled := by
  rfl

@[simp] theorem persistToc_vec (m : Mem) : (m.persistToc).vec = m.vec := by
  rfl

@[simp] theorem persistToc_pVec (m : Mem) : (m.persistToc).pVec = m.pVec := by
  rfl

@[simp] theorem persistToc_vecManifest (m : Mem) : (m.persistToc).vecManifest = m.vecManifest := by
  rfl

@[simp] theorem persistToc_pVecMan (m : Mem) : (m.persistToc).pVecMan = m.vecManifest := by
  rfl

@[simp] theorem persistToc_batch (m : Mem) : (m.persistToc).batch = m.batch := by
  rfl

@[simp] theorem persistToc_seq (m : Mem) : (m.persistToc).seq = m.seq := by
  rfl

@[simp] theorem checkpoint_frames (m : Mem) : (m.checkpoint).frames = m.frames := by
  rfl

@[simp] theorem checkpoint_pending (m : Mem) : (m.checkpoint).pending = [] := by
  rfl

@[simp] theorem checkpoint_pendingInserts (m : Mem) : (m.checkpoint).pendingInserts = 0 := by
  rfl

@[simp] theorem checkpoint_dirty (m : Mem) : (m.checkpoint).dirty = false := by
  rfl

@[simp] theorem checkpoint_time (m : Mem) : (m.checkpoint).time = m.time := by
  rfl

@[simp] theorem checkpoint_lexEnabled (m : Mem) : (m.checkpoint).lexEnabled = m.lexEnabled := by
  rfl

@[simp] theorem checkpoint_engine (m : Mem) : (m.checkpoint).engine = m.engine := by
  rfl

@[simp] theorem checkpoint_tantivyDirty (m : Mem) : (m.checkpoint).tantivyDirty = m.tantivyDirty := by
  rfl

@[simp] theorem checkpoint_lexDocs (m : Mem) : (m.checkpoint).lexDocs = m.lexDocs := by
  rfl

@[simp] theorem checkpoint_tantivySegs (m : Mem) : (m.checkpoint).tantivySegs = m.tantivySegs := by
  rfl

@[simp] theorem checkpoint_sketch (m : Mem) : (m.checkpoint).sketch = m.sketch := by
  rfl

@[simp] theorem checkpoint_pSketch (m : Mem) : (m.checkpoint).pSketch = m.pSketch := by
  rfl

@[simp] theorem checkpoint_vecEnabled (m : Mem) : (m.checkpoint).vecEnabled = m.vecEnabled := by
  rfl

@[simp] theorem checkpoint_vec (m : Mem) : (m.checkpoint).vec = m.vec := by
  rfl

@[simp] theorem checkpoint_pVec (m : Mem) : (m.checkpoint).pVec = m.pVec := by
  rfl

@[simp] theorem checkpoint_vecManifest (m : Mem) : (m.checkpoint).vecManifest = m.vecManifest := by
  rfl

@[simp] theorem checkpoint_pVecMan (m : Mem) : (m.checkpoint).pVecMan = m.vecManifest := by
  rfl

@[simp] theorem checkpoint_batch (m : Mem) : (m.checkpoint).batch = m.batch := by
  rfl

@[simp] theorem checkpoint_seq (m : Mem) : (m.checkpoint).seq = m.seq := by
  rfl

theorem flushTantivy_frames (m : Mem) (ft : Nat) (h1 : m.tantivyDirty = true) (h2 : m.engine = true) : (m.flushTantivy ft).frames = m.frames := by
  unfold Mem.flushTantivy
  simp only [h1, h2, Bool.not_true, Bool.false_eq_true, if_false, if_true]
  first | done | rfl

theorem flushTantivy_pending (m : Mem) (ft : Nat) (h1 : m.tantivyDirty = true) (h2 : m.engine = true) : (m.flushTantivy ft).pending = m.pending ++ [(m.seq + 1, Entry.lex)] := by
  unfold Mem.flushTantivy
  simp only [h1, h2, Bool.not_true, Bool.false_eq_true, if_false, if_true]
  first | done | rfl

theorem flushTantivy_pendingInserts (m : Mem) (ft : Nat) (h1 : m.tantivyDirty = true) (h2 : m.engine = true) : (m.flushTantivy ft).pendingInserts = m.pendingInserts := by
  unfold Mem.flushTantivy
  simp only [h1, h2, Bool.not_true, Bool.false_eq_true, if_false, if_true]
  first | done | rfl

theorem flushTantivy_dirty (m : Mem) (ft : Nat) (h1 : m.tantivyDirty = true) (h2 : m.engine = true) : (m.flushTantivy ft).dirty = m.dirty := by
  unfold Mem.flushTantivy
  simp only [h1, h2, Bool.not_true, Bool.false_eq_true, if_false, if_true]
  first | done | rfl

theorem flushTantivy_time (m : Mem) (ft : Nat) (h1 : m.tantivyDirty = true) (h2 : m.engine = true) : (m.flushTantivy ft).time = m.time := by
  unfold Mem.flushTantivy
  simp only [h1, h2, Bool.not_true, Bool.false_eq_true, if_false, if_true]
  first | done | rfl

theorem flushTantivy_lexEnabled (m : Mem) (ft : Nat) (h1 : m.tantivyDirty = true) (h2 : m.engine = true) : (m.flushTantivy ft).lexEnabled = m.lexEnabled := by
  unfold Mem.flushTantivy
  simp only [h1, h2, Bool.not_true, Bool.false_eq_true, if_false, if_true]
  first | done | rfl

theorem flushTantivy_engine (m : Mem) (ft : Nat) (h1 : m.tantivyDirty = true) (h2 : m.engine = true) : (m.flushTantivy ft).engine = m.engine := by
  unfold Mem.flushTantivy
  simp only [h1, h2, Bool.not_true, Bool.false_eq_true, if_false, if_true]
  first | done | rfl

theorem flushTantivy_tantivyDirty (m : Mem) (ft : Nat) (h1 : m.tantivyDirty = true) (h2 : m.engine = true) : (m.flushTantivy ft).tantivyDirty = false := by
  unfold Mem.flushTantivy
  simp only [h1, h2, Bool.not_true, Bool.false_eq_true, if_false, if_true]
  first | done | rfl

theorem flushTantivy_lexDocs (m : Mem) (ft : Nat) (h1 : m.tantivyDirty = true) (h2 : m.engine = true) : (m.flushTantivy ft).lexDocs = m.lexDocs := by
  unfold Mem.flushTantivy
  simp only [h1, h2, Bool.not_true, Bool.false_eq_true, if_false, if_true]
  first | done | rfl

theorem flushTantivy_tantivySegs (m : Mem) (ft : Nat) (h1 : m.tantivyDirty = true) (h2 : m.engine = true) : (m.flushTantivy ft).tantivySegs = true := by
  unfold Mem.flushTantivy
  simp only [h1, h2, Bool.not_true, Bool.false_eq_true, if_false, if_true]
  first | done | rfl

theorem flushTantivy_sketch (m : Mem) (ft : Nat) (h1 : m.tantivyDirty = true) (h2 : m.engine = true) : (m.flushTantivy ft).sketch = m.sketch := by
  unfold Mem.flushTantivy
  simp only [h1, h2, Bool.not_true, Bool.false_eq_true, if_false, if_true]
  first | done | rfl

theorem flushTantivy_pSketch (m : Mem) (ft : Nat) (h1 : m.tantivyDirty = true) (h2 : m.engine = true) : (m.flushTantivy ft).pSketch = m.pSketch := by
  unfold Mem.flushTantivy
  simp only [h1, h2, Bool.not_true, Bool.false_eq_true, if_false, if_true]
  first | done | rfl

theorem flushTantivy_vecEnabled (m : Mem) (ft : Nat) (h1 : m.tantivyDirty = true) (h2 : m.engine = true) : (m.flushTantivy ft).vecEnabled = m.vecEnabled := by
  unfold Mem.flushTantivy
  simp only [h1, h2, Bool.not_true, Bool.false_eq_true, if_false, if_true]
  first | done | rfl

theorem flushTantivy_vec (m : Mem) (ft : Nat) (h1 : m.tantivyDirty = true) (h2 : m.engine = true) : (m.flushTantivy ft).vec = m.vec := by
  unfold Mem.flushTantivy
  simp only [h1, h2, Bool.not_true, Bool.false_eq_true, if_false, if_true]
  first | done | rfl

theorem flushTantivy_pVec (m : Mem) (ft : Nat) (h1 : m.tantivyDirty = true) (h2 : m.engine = true) : (m.flushTantivy ft).pVec = m.pVec := by
  unfold Mem.flushTantivy
  simp only [h1, h2, Bool.not_true, Bool.false_eq_true, if_false, if_true]
  first | done | rfl

theorem flushTantivy_vecManifest (m : Mem) (ft : Nat) (h1 : m.tantivyDirty = true) (h2 : m.engine = true) : (m.flushTantivy ft).vecManifest = m.vecManifest := by
  unfold Mem.flushTantivy
  simp only [h1, h2, Bool.not_true, Bool.false_eq_true, if_false, if_true]
  first | done | rfl

theorem flushTantivy_pVecMan (m : Mem) (ft : Nat) (h1 : m.tantivyDirty = true) (h2 : m.engine = true) : (m.flushTantivy ft).pVecMan = m.vecManifest := by
  unfold Mem.flushTantivy
  simp only [h1, h2, Bool.not_true, Bool.false_eq_true, if_false, if_true]
  first | done | rfl

theorem flushTantivy_batch (m : Mem) (ft : Nat) (h1 : m.tantivyDirty = true) (h2 : m.engine = true) : (m.flushTantivy ft).batch = m.batch := by
  unfold Mem.flushTantivy
  simp only [h1, h2, Bool.not_true, Bool.false_eq_true, if_false, if_true]
  first | done | rfl

theorem flushTantivy_seq (m : Mem) (ft : Nat) (h1 : m.tantivyDirty = true) (h2 : m.engine = true) : (m.flushTantivy ft).seq = m.seq + 1 := by
  unfold Mem.flushTantivy
  simp only [h1, h2, Bool.not_true, Bool.false_eq_true, if_false, if_true]
  first | done | rfl

theorem rebuildLex_frames (m : Mem) (ins : List Nat) (ft : Nat) (hl : m.lexEnabled = true) : (m.rebuildLex ins ft).frames = m.frames := by
  unfold Mem.rebuildLex
  simp only [hl, if_true]
  rw [flushTantivy_frames _ _ rfl rfl]
  first | done | rfl

theorem rebuildLex_pending (m : Mem) (ins : List Nat) (ft : Nat) (hl : m.lexEnabled = true) : (m.rebuildLex ins ft).pending = m.pending ++ [(m.seq + 1, Entry.lex)] := by
  unfold Mem.rebuildLex
  simp only [hl, if_true]
  rw [flushTantivy_pending _ _ rfl rfl]
  first | done | rfl

theorem rebuildLex_pendingInserts (m : Mem) (ins : List Nat) (ft : Nat) (hl : m.lexEnabled = true) : (m.rebuildLex ins ft).pendingInserts = m.pendingInserts := by
  unfold Mem.rebuildLex
  simp only [hl, if_true]
  rw [flushTantivy_pendingInserts _ _ rfl rfl]
  first | done | rfl

theorem rebuildLex_dirty (m : Mem) (ins : List Nat) (ft : Nat) (hl : m.lexEnabled = true) : (m.rebuildLex ins ft).dirty = m.dirty := by
  unfold Mem.rebuildLex
  simp only [hl, if_true]
  rw [flushTantivy_dirty _ _ rfl rfl]
  first | done | rfl

theorem rebuildLex_time (m : Mem) (ins : List Nat) (ft : Nat) (hl : m.lexEnabled = true) : (m.rebuildLex ins ft).time = m.time := by
  unfold Mem.rebuildLex
  simp only [hl, if_true]
  rw [flushTantivy_time _ _ rfl rfl]
  first | done | rfl

theorem rebuildLex_lexEnabled (m : Mem) (ins : List Nat) (ft : Nat) (hl : m.lexEnabled = true) : (m.rebuildLex ins ft).lexEnabled = m.lexEnabled := by
  unfold Mem.rebuildLex
  simp only [hl, if_true]
  rw [flushTantivy_lexEnabled _ _ rfl rfl]
  first | done | rfl

theorem rebuildLex_engine (m : Mem) (ins : List Nat) (ft : Nat) (hl : m.lexEnabled = true) : (m.rebuildLex ins ft).engine = true := by
  unfold Mem.rebuildLex
  simp only [hl, if_true]
  rw [flushTantivy_engine _ _ rfl rfl]
  first | done | rfl

theorem rebuildLex_tantivyDirty (m : Mem) (ins : List Nat) (ft : Nat) (hl : m.lexEnabled = true) : (m.rebuildLex ins ft).tantivyDirty = false := by
  unfold Mem.rebuildLex
  simp only [hl, if_true]
  rw [flushTantivy_tantivyDirty _ _ rfl rfl]
  first | done | rfl

theorem rebuildLex_lexDocs (m : Mem) (ins : List Nat) (ft : Nat) (hl : m.lexEnabled = true) : (m.rebuildLex ins ft).lexDocs = lexAfter m ins := by
  unfold Mem.rebuildLex
  simp only [hl, if_true]
  rw [flushTantivy_lexDocs _ _ rfl rfl]
  first | done | rfl

theorem rebuildLex_tantivySegs (m : Mem) (ins : List Nat) (ft : Nat) (hl : m.lexEnabled = true) : (m.rebuildLex ins ft).tantivySegs = true := by
  unfold Mem.rebuildLex
  simp only [hl, if_true]
  rw [flushTantivy_tantivySegs _ _ rfl rfl]
  first | done | rfl

theorem rebuildLex_sketch (m : Mem) (ins : List Nat) (ft : Nat) (hl : m.lexEnabled = true) : (m.rebuildLex ins ft).sketch = m.sketch := by
  unfold Mem.rebuildLex
  simp only [hl, if_true]
  rw [flushTantivy_sketch _ _ rfl rfl]
  first | done | rfl

theorem rebuildLex_pSketch (m : Mem) (ins : List Nat) (ft : Nat) (hl : m.lexEnabled = true) : (m.rebuildLex ins ft).pSketch = m.pSketch := by
  unfold Mem.rebuildLex
  simp only [hl, if_true]
  rw [flushTantivy_pSketch _ _ rfl rfl]
  first | done | rfl

theorem rebuildLex_vecEnabled (m : Mem) (ins : List Nat) (ft : Nat) (hl : m.lexEnabled = true) : (m.rebuildLex ins ft).vecEnabled = m.vecEnabled := by
  unfold Mem.rebuildLex
  simp only [hl, if_true]
  rw [flushTantivy_vecEnabled _ _ rfl rfl]
  first | done | rfl

theorem rebuildLex_vec (m : Mem) (ins : List Nat) (ft : Nat) (hl : m.lexEnabled = true) : (m.rebuildLex ins ft).vec = m.vec := by
  unfold Mem.rebuildLex
  simp only [hl, if_true]
  rw [flushTantivy_vec _ _ rfl rfl]
  first | done | rfl

theorem rebuildLex_pVec (m : Mem) (ins : List Nat) (ft : Nat) (hl : m.lexEnabled = true) : (m.rebuildLex ins ft).pVec = m.pVec := by
  unfold Mem.rebuildLex
  simp only [hl, if_true]
  rw [flushTantivy_pVec _ _ rfl rfl]
  first | done | rfl

theorem rebuildLex_vecManifest (m : Mem) (ins : List Nat) (ft : Nat) (hl : m.lexEnabled = true) : (m.rebuildLex ins ft).vecManifest = m.vecManifest := by
  unfold Mem.rebuildLex
  simp only [hl, if_true]
  rw [flushTantivy_vecManifest _ _ rfl rfl]
  first | done | rfl

theorem rebuildLex_pVecMan (m : Mem) (ins : List Nat) (ft : Nat) (hl : m.lexEnabled = true) : (m.rebuildLex ins ft).pVecMan = m.vecManifest := by
  unfold Mem.rebuildLex
  simp only [hl, if_true]
  rw [flushTantivy_pVecMan _ _ rfl rfl]
  first | done | rfl

theorem rebuildLex_batch (m : Mem) (ins : List Nat) (ft : Nat) (hl : m.lexEnabled = true) : (m.rebuildLex ins ft).batch = m.batch := by
  unfold Mem.rebuildLex
  simp only [hl, if_true]
  rw [flushTantivy_batch _ _ rfl rfl]
  first | done | rfl

theorem rebuildLex_seq (m : Mem) (ins : List Nat) (ft : Nat) (hl : m.lexEnabled = true) : (m.rebuildLex ins ft).seq = m.seq + 1 := by
  unfold Mem.rebuildLex
  simp only [hl, if_true]
  rw [flushTantivy_seq _ _ rfl rfl]
  first | done | rfl

@[simp] theorem rebuildVec_frames (m : Mem) (embs : List VecEnt) : (m.rebuildVec embs).frames = m.frames := by
  unfold Mem.rebuildVec
  cases h : m.vecEnabled <;> simp [vecAfter, h]

@[simp] theorem rebuildVec_pending (m : Mem) (embs : List VecEnt) : (m.rebuildVec embs).pending = m.pending := by
  unfold Mem.rebuildVec
  cases h : m.vecEnabled <;> simp [vecAfter, h]

@[simp] theorem rebuildVec_pendingInserts (m : Mem) (embs : List VecEnt) : (m.rebuildVec embs).pendingInserts = m.pendingInserts := by
  unfold Mem.rebuildVec
  cases h : m.vecEnabled <;> simp [vecAfter, h]

@[simp] theorem rebuildVec_dirty (m : Mem) (embs : List VecEnt) : (m.rebuildVec embs).dirty = m.dirty := by
  unfold Mem.rebuildVec
  cases h : m.vecEnabled <;> simp [vecAfter, h]

@[simp] theorem rebuildVec_time (m : Mem) (embs : List VecEnt) : (m.rebuildVec embs).time = m.time := by
  unfold Mem.rebuildVec
  cases h : m.vecEnabled <;> simp [vecAfter, h]

@[simp] theorem rebuildVec_lexEnabled (m : Mem) (embs : List VecEnt) : (m.rebuildVec embs).lexEnabled = m.lexEnabled := by
  unfold Mem.rebuildVec
  cases h : m.vecEnabled <;> simp [vecAfter, h]

@[simp] theorem rebuildVec_engine (m : Mem) (embs : List VecEnt) : (m.rebuildVec embs).engine = m.engine := by
  unfold Mem.rebuildVec
  cases h : m.vecEnabled <;> simp [vecAfter, h]

@[simp] theorem rebuildVec_tantivyDirty (m : Mem) (embs : List VecEnt) : (m.rebuildVec embs).tantivyDirty = m.tantivyDirty := by
  unfold Mem.rebuildVec
  cases h : m.vecEnabled <;> simp [vecAfter, h]

@[simp] theorem rebuildVec_lexDocs (m : Mem) (embs : List VecEnt) : (m.rebuildVec embs).lexDocs = m.lexDocs := by
  unfold Mem.rebuildVec
  cases h : m.vecEnabled <;> simp [vecAfter, h]

@[simp] theorem rebuildVec_tantivySegs (m : Mem) (embs : List VecEnt) : (m.rebuildVec embs).tantivySegs = m.tantivySegs := by
  unfold Mem.rebuildVec
  cases h : m.vecEnabled <;> simp [vecAfter, h]

@[simp] theorem rebuildVec_sketch (m : Mem) (embs : List VecEnt) : (m.rebuildVec embs).sketch = m.sketch := by
  unfold Mem.rebuildVec
  cases h : m.vecEnabled <;> simp [vecAfter, h]

@[simp] theorem rebuildVec_pSketch (m : Mem) (embs : List VecEnt) : (m.rebuildVec embs).pSketch = m.pSketch := by
  unfold Mem.rebuildVec
  cases h : m.vecEnabled <;> simp [vecAfter, h]

@[simp] theorem rebuildVec_vecEnabled (m : Mem) (embs : List VecEnt) : (m.rebuildVec embs).vecEnabled = m.vecEnabled := by
  unfold Mem.rebuildVec
  cases h : m.vecEnabled <;> simp [vecAfter, h]

@[simp] theorem rebuildVec_vec (m : Mem) (embs : List VecEnt) : (m.rebuildVec embs).vec = vecAfter m embs := by
  unfold Mem.rebuildVec
  cases h : m.vecEnabled <;> simp [vecAfter, h]

@[simp] theorem rebuildVec_pVec (m : Mem) (embs : List VecEnt) : (m.rebuildVec embs).pVec = vecAfter m embs := by
  unfold Mem.rebuildVec
  cases h : m.vecEnabled <;> simp [vecAfter, h]

@[simp] theorem rebuildVec_vecManifest (m : Mem) (embs : List VecEnt) : (m.rebuildVec embs).vecManifest = m.vecEnabled := by
  unfold Mem.rebuildVec
  cases h : m.vecEnabled <;> simp [vecAfter, h]

@[simp] theorem rebuildVec_pVecMan (m : Mem) (embs : List VecEnt) : (m.rebuildVec embs).pVecMan = m.pVecMan := by
  unfold Mem.rebuildVec
  cases h : m.vecEnabled <;> simp [vecAfter, h]

@[simp] theorem rebuildVec_batch (m : Mem) (embs : List VecEnt) : (m.rebuildVec embs).batch = m.batch := by
  unfold Mem.rebuildVec
  cases h : m.vecEnabled <;> simp [vecAfter, h]

@[simp] theorem rebuildVec_seq (m : Mem) (embs : List VecEnt) : (m.rebuildVec embs).seq = m.seq := by
  unfold Mem.rebuildVec
  cases h : m.vecEnabled <;> simp [vecAfter, h]

@[simp] theorem applied_frames (m : Mem) (nf : List Frame) (pe de : Nat) (eng : Bool) : (m.applied nf pe de eng).frames = m.frames ++ nf := by
  rfl

@[simp] theorem applied_pending (m : Mem) (nf : List Frame) (pe de : Nat) (eng : Bool) : (m.applied nf pe de eng).pending = m.pending := by
  rfl

@[simp] theorem applied_pendingInserts (m : Mem) (nf : List Frame) (pe de : Nat) (eng : Bool) : (m.applied nf pe de eng).pendingInserts = m.pendingInserts := by
  rfl

@[simp] theorem applied_dirty (m : Mem) (nf : List Frame) (pe de : Nat) (eng : Bool) : (m.applied nf pe de eng).dirty = m.dirty := by
  rfl

@[simp] theorem applied_time (m : Mem) (nf : List Frame) (pe de : Nat) (eng : Bool) : (m.applied nf pe de eng).time = m.time := by
  rfl

@[simp] theorem applied_lexEnabled (m : Mem) (nf : List Frame) (pe de : Nat) (eng : Bool) : (m.applied nf pe de eng).lexEnabled = m.lexEnabled := by
  rfl

@[simp] theorem applied_engine (m : Mem) (nf : List Frame) (pe de : Nat) (eng : Bool) : (m.applied nf pe de eng).engine = m.engine := by
  rfl

@[simp] theorem applied_tantivyDirty (m : Mem) (nf : List Frame) (pe de : Nat) (eng : Bool) : (m.applied nf pe de eng).tantivyDirty = (m.tantivyDirty || (eng && m.engine && !(fullLexRebuild nf).isEmpty)) := by
  rfl

@[simp] theorem applied_lexDocs (m : Mem) (nf : List Frame) (pe de : Nat) (eng : Bool) : (m.applied nf pe de eng).lexDocs = m.lexDocs ++ (if eng && m.engine then fullLexRebuild nf else []) := by
  rfl

@[simp] theorem applied_tantivySegs (m : Mem) (nf : List Frame) (pe de : Nat) (eng : Bool) : (m.applied nf pe de eng).tantivySegs = m.tantivySegs := by
  rfl

@[simp] theorem applied_sketch (m : Mem) (nf : List Frame) (pe de : Nat) (eng : Bool) : (m.applied nf pe de eng).sketch = m.sketch ++ (if eng && m.engine then fullLexRebuild nf else []) := by
  rfl

@[simp] theorem applied_pSketch (m : Mem) (nf : List Frame) (pe de : Nat) (eng : Bool) : (m.applied nf pe de eng).pSketch = m.pSketch := by
  rfl

@[simp] theorem applied_vecEnabled (m : Mem) (nf : List Frame) (pe de : Nat) (eng : Bool) : (m.applied nf pe de eng).vecEnabled = m.vecEnabled := by
  rfl

@[simp] theorem applied_vec (m : Mem) (nf : List Frame) (pe de : Nat) (eng : Bool) : (m.applied nf pe de eng).vec = m.vec := by
  rfl

@[simp] theorem applied_pVec (m : Mem) (nf : List Frame) (pe de : Nat) (eng : Bool) : (m.applied nf pe de eng).pVec = m.pVec := by
  rfl

@[simp] theorem applied_vecManifest (m : Mem) (nf : List Frame) (pe de : Nat) (eng : Bool) : (m.applied nf pe de eng).vecManifest = m.vecManifest := by
  rfl

@[simp] theorem applied_pVecMan (m : Mem) (nf : List Frame) (pe de : Nat) (eng : Bool) : (m.applied nf pe de eng).pVecMan = m.pVecMan := by
  rfl

@[simp] theorem applied_batch (m : Mem) (nf : List Frame) (pe de : Nat) (eng : Bool) : (m.applied nf pe de eng).batch = m.batch := by
  rfl

@[simp] theorem applied_seq (m : Mem) (nf : List Frame) (pe de : Nat) (eng : Bool) : (m.applied nf pe de eng).seq = m.seq := by
  rfl

theorem rebuildIndexes_frames (m : Mem) (embs : List VecEnt) (ins : List Nat) (ft : Nat) (hl : m.lexEnabled = true) :
    (m.rebuildIndexes embs ins ft).frames = m.frames := by
  have hg : ¬ ((m.frames.isEmpty && !m.lexEnabled && !m.vecEnabled) = true) := by simp [hl]
  unfold Mem.rebuildIndexes
  rw [if_neg hg]
  show ((({ m with dataEnd := m.payloadEnd, time := some (timeEntries m.frames) } : Mem).rebuildLex ins ft).rebuildVec embs).frames = _
  have hl' : ({ m with dataEnd := m.payloadEnd, time := some (timeEntries m.frames) } : Mem).lexEnabled = true := hl
  simp only [rebuildVec_frames, rebuildLex_frames _ _ _ hl', vecAfter, rebuildLex_vecEnabled _ _ _ hl', rebuildLex_vec _ _ _ hl', rebuildLex_frames _ _ _ hl']
  first | done | rfl

theorem rebuildIndexes_pending (m : Mem) (embs : List VecEnt) (ins : List Nat) (ft : Nat) (hl : m.lexEnabled = true) :
    (m.rebuildIndexes embs ins ft).pending = m.pending ++ [(m.seq + 1, Entry.lex)] := by
  have hg : ¬ ((m.frames.isEmpty && !m.lexEnabled && !m.vecEnabled) = true) := by simp [hl]
  unfold Mem.rebuildIndexes
  rw [if_neg hg]
  show ((({ m with dataEnd := m.payloadEnd, time := some (timeEntries m.frames) } : Mem).rebuildLex ins ft).rebuildVec embs).pending = _
  have hl' : ({ m with dataEnd := m.payloadEnd, time := some (timeEntries m.frames) } : Mem).lexEnabled = true := hl
  simp only [rebuildVec_pending, rebuildLex_pending _ _ _ hl', vecAfter, rebuildLex_vecEnabled _ _ _ hl', rebuildLex_vec _ _ _ hl', rebuildLex_frames _ _ _ hl']
  first | done | rfl

theorem rebuildIndexes_pendingInserts (m : Mem) (embs : List VecEnt) (ins : List Nat) (ft : Nat) (hl : m.lexEnabled = true) :
    (m.rebuildIndexes embs ins ft).pendingInserts = m.pendingInserts := by
  have hg : ¬ ((m.frames.isEmpty && !m.lexEnabled && !m.vecEnabled) = true) := by simp [hl]
  unfold Mem.rebuildIndexes
  rw [if_neg hg]
  show ((({ m with dataEnd := m.payloadEnd, time := some (timeEntries m.frames) } : Mem).rebuildLex ins ft).rebuildVec embs).pendingInserts = _
  have hl' : ({ m with dataEnd := m.payloadEnd, time := some (timeEntries m.frames) } : Mem).lexEnabled = true := hl
  simp only [rebuildVec_pendingInserts, rebuildLex_pendingInserts _ _ _ hl', vecAfter, rebuildLex_vecEnabled _ _ _ hl', rebuildLex_vec _ _ _ hl', rebuildLex_frames _ _ _ hl']
  first | done | rfl

theorem rebuildIndexes_dirty (m : Mem) (embs : List VecEnt) (ins : List Nat) (ft : Nat) (hl : m.lexEnabled = true) :
    (m.rebuildIndexes embs ins ft).dirty = m.dirty := by
  have hg : ¬ ((m.frames.isEmpty && !m.lexEnabled && !m.vecEnabled) = true) := by simp [hl]
  unfold Mem.rebuildIndexes
  rw [if_neg hg]
  show ((({ m with dataEnd := m.payloadEnd, time := some (timeEntries m.frames) } : Mem).rebuildLex ins ft).rebuildVec embs).dirty = _
  have hl' : ({ m with dataEnd := m.payloadEnd, time := some (timeEntries m.frames) } : Mem).lexEnabled = true := hl
  simp only [rebuildVec_dirty, rebuildLex_dirty _ _ _ hl', vecAfter, rebuildLex_vecEnabled _ _ _ hl', rebuildLex_vec _ _ _ hl', rebuildLex_frames _ _ _ hl']
  first | done | rfl

theorem rebuildIndexes_time (m : Mem) (embs : List VecEnt) (ins : List Nat) (ft : Nat) (hl : m.lexEnabled = true) :
    (m.rebuildIndexes embs ins ft).time = some (timeEntries m.frames) := by
  have hg : ¬ ((m.frames.isEmpty && !m.lexEnabled && !m.vecEnabled) = true) := by simp [hl]
  unfold Mem.rebuildIndexes
  rw [if_neg hg]
  show ((({ m with dataEnd := m.payloadEnd, time := some (timeEntries m.frames) } : Mem).rebuildLex ins ft).rebuildVec embs).time = _
  have hl' : ({ m with dataEnd := m.payloadEnd, time := some (timeEntries m.frames) } : Mem).lexEnabled = true := hl
  simp only [rebuildVec_time, rebuildLex_time _ _ _ hl', vecAfter, rebuildLex_vecEnabled _ _ _ hl', rebuildLex_vec _ _ _ hl', rebuildLex_frames _ _ _ hl']
  first | done | rfl

theorem rebuildIndexes_lexEnabled (m : Mem) (embs : List VecEnt) (ins : List Nat) (ft : Nat) (hl : m.lexEnabled = true) :
    (m.rebuildIndexes embs ins ft).lexEnabled = m.lexEnabled := by
  have hg : ¬ ((m.frames.isEmpty && !m.lexEnabled && !m.vecEnabled) = true) := by simp [hl]
  unfold Mem.rebuildIndexes
  rw [if_neg hg]
  show ((({ m with dataEnd := m.payloadEnd, time := some (timeEntries m.frames) } : Mem).rebuildLex ins ft).rebuildVec embs).lexEnabled = _
  have hl' : ({ m with dataEnd := m.payloadEnd, time := some (timeEntries m.frames) } : Mem).lexEnabled = true := hl
  simp only [rebuildVec_lexEnabled, rebuildLex_lexEnabled _ _ _ hl', vecAfter, rebuildLex_vecEnabled _ _ _ hl', rebuildLex_vec _ _ _ hl', rebuildLex_frames _ _ _ hl']
  first | done | rfl

theorem rebuildIndexes_engine (m : Mem) (embs : List VecEnt) (ins : List Nat) (ft : Nat) (hl : m.lexEnabled = true) :
    (m.rebuildIndexes embs ins ft).engine = true := by
  have hg : ¬ ((m.frames.isEmpty && !m.lexEnabled && !m.vecEnabled) = true) := by simp [hl]
  unfold Mem.rebuildIndexes
  rw [if_neg hg]
  show ((({ m with dataEnd := m.payloadEnd, time := some (timeEntries m.frames) } : Mem).rebuildLex ins ft).rebuildVec embs).engine = _
  have hl' : ({ m with dataEnd := m.payloadEnd, time := some (timeEntries m.frames) } : Mem).lexEnabled = true := hl
  simp only [rebuildVec_engine, rebuildLex_engine _ _ _ hl', vecAfter, rebuildLex_vecEnabled _ _ _ hl', rebuildLex_vec _ _ _ hl', rebuildLex_frames _ _ _ hl']
  first | done | rfl

theorem rebuildIndexes_tantivyDirty (m : Mem) (embs : List VecEnt) (ins : List Nat) (ft : Nat) (hl : m.lexEnabled = true) :
    (m.rebuildIndexes embs ins ft).tantivyDirty = false := by
  have hg : ¬ ((m.frames.isEmpty && !m.lexEnabled && !m.vecEnabled) = true) := by simp [hl]
  unfold Mem.rebuildIndexes
  rw [if_neg hg]
  show ((({ m with dataEnd := m.payloadEnd, time := some (timeEntries m.frames) } : Mem).rebuildLex ins ft).rebuildVec embs).tantivyDirty = _
  have hl' : ({ m with dataEnd := m.payloadEnd, time := some (timeEntries m.frames) } : Mem).lexEnabled = true := hl
  simp only [rebuildVec_tantivyDirty, rebuildLex_tantivyDirty _ _ _ hl', vecAfter, rebuildLex_vecEnabled _ _ _ hl', rebuildLex_vec _ _ _ hl', rebuildLex_frames _ _ _ hl']
  first | done | rfl

theorem rebuildIndexes_lexDocs (m : Mem) (embs : List VecEnt) (ins : List Nat) (ft : Nat) (hl : m.lexEnabled = true) :
    (m.rebuildIndexes embs ins ft).lexDocs = lexAfter m ins := by
  have hg : ¬ ((m.frames.isEmpty && !m.lexEnabled && !m.vecEnabled) = true) := by simp [hl]
  unfold Mem.rebuildIndexes
  rw [if_neg hg]
  show ((({ m with dataEnd := m.payloadEnd, time := some (timeEntries m.frames) } : Mem).rebuildLex ins ft).rebuildVec embs).lexDocs = _
  have hl' : ({ m with dataEnd := m.payloadEnd, time := some (timeEntries m.frames) } : Mem).lexEnabled = true := hl
  simp only [rebuildVec_lexDocs, rebuildLex_lexDocs _ _ _ hl', vecAfter, rebuildLex_vecEnabled _ _ _ hl', rebuildLex_vec _ _ _ hl', rebuildLex_frames _ _ _ hl']
  first | done | rfl

theorem rebuildIndexes_tantivySegs (m : Mem) (embs : List VecEnt) (ins : List Nat) (ft : Nat) (hl : m.lexEnabled = true) :
    (m.rebuildIndexes embs ins ft).tantivySegs = true := by
  have hg : ¬ ((m.frames.isEmpty && !m.lexEnabled && !m.vecEnabled) = true) := by simp [hl]
  unfold Mem.rebuildIndexes
  rw [if_neg hg]
  show ((({ m with dataEnd := m.payloadEnd, time := some (timeEntries m.frames) } : Mem).rebuildLex ins ft).rebuildVec embs).tantivySegs = _
  have hl' : ({ m with dataEnd := m.payloadEnd, time := some (timeEntries m.frames) } : Mem).lexEnabled = true := hl
  simp only [rebuildVec_tantivySegs, rebuildLex_tantivySegs _ _ _ hl', vecAfter, rebuildLex_vecEnabled _ _ _ hl', rebuildLex_vec _ _ _ hl', rebuildLex_frames _ _ _ hl']
  first | done | rfl

theorem rebuildIndexes_sketch (m : Mem) (embs : List VecEnt) (ins : List Nat) (ft : Nat) (hl : m.lexEnabled = true) :
    (m.rebuildIndexes embs ins ft).sketch = m.sketch := by
  have hg : ¬ ((m.frames.isEmpty && !m.lexEnabled && !m.vecEnabled) = true) := by simp [hl]
  unfold Mem.rebuildIndexes
  rw [if_neg hg]
  show ((({ m with dataEnd := m.payloadEnd, time := some (timeEntries m.frames) } : Mem).rebuildLex ins ft).rebuildVec embs).sketch = _
  have hl' : ({ m with dataEnd := m.payloadEnd, time := some (timeEntries m.frames) } : Mem).lexEnabled = true := hl
  simp only [rebuildVec_sketch, rebuildLex_sketch _ _ _ hl', vecAfter, rebuildLex_vecEnabled _ _ _ hl', rebuildLex_vec _ _ _ hl', rebuildLex_frames _ _ _ hl']
  first | done | rfl

theorem rebuildIndexes_pSketch (m : Mem) (embs : List VecEnt) (ins : List Nat) (ft : Nat) (hl : m.lexEnabled = true) :
    (m.rebuildIndexes embs ins ft).pSketch = m.pSketch := by
  have hg : ¬ ((m.frames.isEmpty && !m.lexEnabled && !m.vecEnabled) = true) := by simp [hl]
  unfold Mem.rebuildIndexes
  rw [if_neg hg]
  show ((({ m with dataEnd := m.payloadEnd, time := some (timeEntries m.frames) } : Mem).rebuildLex ins ft).rebuildVec embs).pSketch = _
  have hl' : ({ m with dataEnd := m.payloadEnd, time := some (timeEntries m.frames) } : Mem).lexEnabled = true := hl
  simp only [rebuildVec_pSketch, rebuildLex_pSketch _ _ _ hl', vecAfter, rebuildLex_vecEnabled _ _ _ hl', rebuildLex_vec _ _ _ hl', rebuildLex_frames _ _ _ hl']
  first | done | rfl

theorem rebuildIndexes_vecEnabled (m : Mem) (embs : List VecEnt) (ins : List Nat) (ft : Nat) (hl : m.lexEnabled = true) :
    (m.rebuildIndexes embs ins ft).vecEnabled = m.vecEnabled := by
  have hg : ¬ ((m.frames.isEmpty && !m.lexEnabled && !m.vecEnabled) = true) := by simp [hl]
  unfold Mem.rebuildIndexes
  rw [if_neg hg]
  show ((({ m with dataEnd := m.payloadEnd, time := some (timeEntries m.frames) } : Mem).rebuildLex ins ft).rebuildVec embs).vecEnabled = _
  have hl' : ({ m with dataEnd := m.payloadEnd, time := some (timeEntries m.frames) } : Mem).lexEnabled = true := hl
  simp only [rebuildVec_vecEnabled, rebuildLex_vecEnabled _ _ _ hl', vecAfter, rebuildLex_vecEnabled _ _ _ hl', rebuildLex_vec _ _ _ hl', rebuildLex_frames _ _ _ hl']
  first | done | rfl

theorem rebuildIndexes_vec (m : Mem) (embs : List VecEnt) (ins : List Nat) (ft : Nat) (hl : m.lexEnabled = true) :
    (m.rebuildIndexes embs ins ft).vec = vecAfter m embs := by
  have hg : ¬ ((m.frames.isEmpty && !m.lexEnabled && !m.vecEnabled) = true) := by simp [hl]
  unfold Mem.rebuildIndexes
  rw [if_neg hg]
  show ((({ m with dataEnd := m.payloadEnd, time := some (timeEntries m.frames) } : Mem).rebuildLex ins ft).rebuildVec embs).vec = _
  have hl' : ({ m with dataEnd := m.payloadEnd, time := some (timeEntries m.frames) } : Mem).lexEnabled = true := hl
  simp only [rebuildVec_vec, rebuildLex_vec _ _ _ hl', vecAfter, rebuildLex_vecEnabled _ _ _ hl', rebuildLex_vec _ _ _ hl', rebuildLex_frames _ _ _ hl']
  first | done | rfl

theorem rebuildIndexes_pVec (m : Mem) (embs : List VecEnt) (ins : List Nat) (ft : Nat) (hl : m.lexEnabled = true) :
    (m.rebuildIndexes embs ins ft).pVec = vecAfter m embs := by
  have hg : ¬ ((m.frames.isEmpty && !m.lexEnabled && !m.vecEnabled) = true) := by simp [hl]
  unfold Mem.rebuildIndexes
  rw [if_neg hg]
  show ((({ m with dataEnd := m.payloadEnd, time := some (timeEntries m.frames) } : Mem).rebuildLex ins ft).rebuildVec embs).pVec = _
  have hl' : ({ m with dataEnd := m.payloadEnd, time := some (timeEntries m.frames) } : Mem).lexEnabled = true := hl
  simp only [rebuildVec_pVec, rebuildLex_pVec _ _ _ hl', vecAfter, rebuildLex_vecEnabled _ _ _ hl', rebuildLex_vec _ _ _ hl', rebuildLex_frames _ _ _ hl']
  first | done | rfl

theorem rebuildIndexes_vecManifest (m : Mem) (embs : List VecEnt) (ins : List Nat) (ft : Nat) (hl : m.lexEnabled = true) :
    (m.rebuildIndexes embs ins ft).vecManifest = m.vecEnabled := by
  have hg : ¬ ((m.frames.isEmpty && !m.lexEnabled && !m.vecEnabled) = true) := by simp [hl]
  unfold Mem.rebuildIndexes
  rw [if_neg hg]
  show ((({ m with dataEnd := m.payloadEnd, time := some (timeEntries m.frames) } : Mem).rebuildLex ins ft).rebuildVec embs).vecManifest = _
  have hl' : ({ m with dataEnd := m.payloadEnd, time := some (timeEntries m.frames) } : Mem).lexEnabled = true := hl
  simp only [rebuildVec_vecManifest, rebuildLex_vecManifest _ _ _ hl', vecAfter, rebuildLex_vecEnabled _ _ _ hl', rebuildLex_vec _ _ _ hl', rebuildLex_frames _ _ _ hl']
  first | done | rfl

theorem rebuildIndexes_pVecMan (m : Mem) (embs : List VecEnt) (ins : List Nat) (ft : Nat) (hl : m.lexEnabled = true) :
    (m.rebuildIndexes embs ins ft).pVecMan = m.vecEnabled := by
  have hg : ¬ ((m.frames.isEmpty && !m.lexEnabled && !m.vecEnabled) = true) := by simp [hl]
  unfold Mem.rebuildIndexes
  rw [if_neg hg]
  show ((({ m with dataEnd := m.payloadEnd, time := some (timeEntries m.frames) } : Mem).rebuildLex ins ft).rebuildVec embs).vecManifest = _
  have hl' : ({ m with dataEnd := m.payloadEnd, time := some (timeEntries m.frames) } : Mem).lexEnabled = true := hl
  simp only [rebuildVec_vecManifest, rebuildLex_vecManifest _ _ _ hl', vecAfter, rebuildLex_vecEnabled _ _ _ hl', rebuildLex_vec _ _ _ hl', rebuildLex_frames _ _ _ hl']
  first | done | rfl

theorem rebuildIndexes_batch (m : Mem) (embs : List VecEnt) (ins : List Nat) (ft : Nat) (hl : m.lexEnabled = true) :
    (m.rebuildIndexes embs ins ft).batch = m.batch := by
  have hg : ¬ ((m.frames.isEmpty && !m.lexEnabled && !m.vecEnabled) = true) := by simp [hl]
  unfold Mem.rebuildIndexes
  rw [if_neg hg]
  show ((({ m with dataEnd := m.payloadEnd, time := some (timeEntries m.frames) } : Mem).rebuildLex ins ft).rebuildVec embs).batch = _
  have hl' : ({ m with dataEnd := m.payloadEnd, time := some (timeEntries m.frames) } : Mem).lexEnabled = true := hl
  simp only [rebuildVec_batch, rebuildLex_batch _ _ _ hl', vecAfter, rebuildLex_vecEnabled _ _ _ hl', rebuildLex_vec _ _ _ hl', rebuildLex_frames _ _ _ hl']
  first | done | rfl

theorem rebuildIndexes_seq (m : Mem) (embs : List VecEnt) (ins : List Nat) (ft : Nat) (hl : m.lexEnabled = true) :
    (m.rebuildIndexes embs ins ft).seq = m.seq + 1 := by
  have hg : ¬ ((m.frames.isEmpty && !m.lexEnabled && !m.vecEnabled) = true) := by simp [hl]
  unfold Mem.rebuildIndexes
  rw [if_neg hg]
  show ((({ m with dataEnd := m.payloadEnd, time := some (timeEntries m.frames) } : Mem).rebuildLex ins ft).rebuildVec embs).seq = _
  have hl' : ({ m with dataEnd := m.payloadEnd, time := some (timeEntries m.frames) } : Mem).lexEnabled = true := hl
  simp only [rebuildVec_seq, rebuildLex_seq _ _ _ hl', vecAfter, rebuildLex_vecEnabled _ _ _ hl', rebuildLex_vec _ _ _ hl', rebuildLex_frames _ _ _ hl']
  first | done | rfl

/-! ## A full commit with the records of plain puts pending -/

/-- the handle after a commit that applied the new frames `nf` -/
structure CommitPost (m : Mem) (nf : List Frame) (embs : List VecEnt) (m' : Mem) : Prop where
  frames : m'.frames = m.frames ++ nf
  pending : m'.pending = []
  pendingInserts : m'.pendingInserts = 0
  dirty : m'.dirty = false
  time : m'.time = some (timeEntries (m.frames ++ nf))
  lexDocs : ∃ pe de, m'.lexDocs = lexAfter (m.applied nf pe de true) (List.range' m.frames.length nf.length)
  engine : m'.engine = true
  lexEnabled : m'.lexEnabled = true
  td : m'.tantivyDirty = false
  segs : m'.tantivySegs = true
  sketch : m'.sketch = m.sketch ++ fullLexRebuild nf
  pSketch : m'.pSketch = if (m.sketch ++ fullLexRebuild nf).isEmpty then m.pSketch else m.sketch ++ fullLexRebuild nf
  vecEnabled : m'.vecEnabled = m.vecEnabled
  vec : m'.vec = if m.vecEnabled then some ((m.vec.getD []).filter (fun e => isActive (m.frames ++ nf) e.id) ++ embs) else none
  pVec : m'.pVec = m'.vec
  vecMan : m'.vecManifest = m.vecEnabled
  pVecMan : m'.pVecMan = m.vecEnabled
  batch : m'.batch = m.batch

/-- the tail of `commit_from_records` after a non-empty delta -/
def commitResult (m1 : Mem) (embs : List VecEnt) (ins : List Nat) (ft : Nat) : Mem :=
  { (m1.rebuildIndexes embs ins ft).checkpoint with
    pSketch := if (m1.rebuildIndexes embs ins ft).sketch.isEmpty then (m1.rebuildIndexes embs ins ft).pSketch
               else (m1.rebuildIndexes embs ins ft).sketch }

theorem commitFromRecords_docs (m : Mem) (ft : Nat) (L : List (Nat × Entry)) (hL : OnlyLexRecs L)
    (pd : List (Nat × PutArgs)) (hp : m.pending = L ++ recsOf pd) (hok : ∀ p ∈ pd, DocOk p.2) (hne : pd ≠ [])
    (hno : NoOrphan m.frames) (hl : m.lexEnabled = true) (he : m.engine = true) :
    ∃ nf m', NewFrames nf m.frames.length (pd.map (·.2)) ∧ nf ≠ [] ∧ m.commitFromRecords ft = some m' ∧
      CommitPost m nf (embsOf m.frames.length (pd.map (·.2))) m' := by
  obtain ⟨nf, pe, de, hnf, hnn, happ⟩ := applyRecords_docs m L hL pd hok hne true hno
  refine ⟨nf, commitResult (m.applied nf pe de true) (embsOf m.frames.length (pd.map (·.2)))
    (List.range' m.frames.length nf.length) ft, hnf, hnn, ?_, ?_⟩
  · unfold Mem.commitFromRecords
    rw [hp, happ]
    rfl
  · have hl1 : (m.applied nf pe de true).lexEnabled = true := by simp [hl]
    constructor <;>
      simp only [commitResult, if_true, checkpoint_frames, checkpoint_pending, checkpoint_pendingInserts, checkpoint_dirty, checkpoint_time,
        checkpoint_lexDocs, checkpoint_engine, checkpoint_lexEnabled, checkpoint_tantivyDirty, checkpoint_tantivySegs,
        checkpoint_sketch, checkpoint_pSketch, checkpoint_vecEnabled, checkpoint_vec, checkpoint_pVec, checkpoint_vecManifest,
        checkpoint_pVecMan, checkpoint_batch,
        rebuildIndexes_frames _ _ _ _ hl1, rebuildIndexes_time _ _ _ _ hl1, rebuildIndexes_lexDocs _ _ _ _ hl1,
        rebuildIndexes_engine _ _ _ _ hl1, rebuildIndexes_lexEnabled _ _ _ _ hl1, rebuildIndexes_tantivyDirty _ _ _ _ hl1,
        rebuildIndexes_tantivySegs _ _ _ _ hl1, rebuildIndexes_sketch _ _ _ _ hl1, rebuildIndexes_pSketch _ _ _ _ hl1,
        rebuildIndexes_vecEnabled _ _ _ _ hl1, rebuildIndexes_vec _ _ _ _ hl1, rebuildIndexes_pVec _ _ _ _ hl1,
        rebuildIndexes_vecManifest _ _ _ _ hl1, rebuildIndexes_batch _ _ _ _ hl1,
        applied_frames, applied_sketch, applied_pSketch, applied_vecEnabled, applied_vec, applied_lexEnabled, applied_batch,
        vecAfter, he, hl, Bool.and_self]
    · exact ⟨pe, de, rfl⟩

end Mv.Core
