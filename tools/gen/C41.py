#!/usr/bin/env python3
"""C41: what the enrichment queue holds (put_internal pushes the WAL sequence of the parent record)
and the worker's default configuration (EnrichmentWorkerConfig::default)."""
from common import *

def field_default(src, struct_impl, field):
    m = re.search(r"impl\s+Default\s+for\s+" + re.escape(struct_impl) + r"\s*\{.*?Self\s*\{(.*?)\}", strip_comments(src), re.S)
    if not m:
        raise TranslateError(f"impl Default for {struct_impl} not found")
    f = re.search(r"\b" + re.escape(field) + r"\s*:\s*([^,}]+)", m.group(1))
    if not f:
        raise TranslateError(f"default of {struct_impl}.{field} not found")
    return eval_int(f.group(1).strip())

def run():
    w = read("src/enrichment_worker.rs")
    interval = field_default(w, "EnrichmentWorkerConfig", "checkpoint_interval")
    delay = field_default(w, "EnrichmentWorkerConfig", "task_delay_ms")
    mut = re.sub(r"\s+", " ", strip_comments(read("src/memvid/mutation.rs")))
    # the queue push at the end of put_internal: which number is pushed?  Two shapes are known:
    #   `let frame_id = parent_seq as FrameId;`   parent_seq = append_wal_entry(..)   -> the WAL sequence (code as found)
    #   `let frame_id = assigned_frame_id;`       assigned_frame_id = next_frame_id() read BEFORE the append
    #                                             -> the id the record gets at commit (fixes/C26.diff)
    m = re.search(r"if needs_enrichment \{ let (\w+) = ([\w ]+?); self\.toc\.enrichment_queue\.push\(\1\);", mut)
    if not m:
        raise TranslateError("put_internal: `if needs_enrichment { let frame_id = <x>; self.toc.enrichment_queue.push(frame_id);` not found")
    app = re.search(r"let parent_seq = self\.append_wal_entry\(&parent_bytes\)\?;", mut)
    if not app:
        raise TranslateError("put_internal: `let parent_seq = self.append_wal_entry(&parent_bytes)?;` not found")
    expr = m.group(2).strip()
    if expr == "parent_seq as FrameId":
        holds_seq = True
    else:
        d = re.search(r"let " + re.escape(expr) + r"\s*:\s*FrameId\s*=\s*self\.next_frame_id\(\);", mut)
        if not re.fullmatch(r"\w+", expr) or not d or d.start() > app.start():
            raise TranslateError(f"put_internal pushes `{expr}` on the enrichment queue: neither `parent_seq as FrameId` nor a "
                                 "variable bound to `self.next_frame_id()` before the WAL append — the model knows only these two")
        holds_seq = False
    n = re.search(r"let needs_enrichment = options\.instant_index && \(options\.enable_embedding \|\| is_skim_extraction\);", mut)
    if not n:
        raise TranslateError("put_internal: needs_enrichment is no longer instant_index && (enable_embedding || is_skim_extraction)")
    body = (f"def DEFAULT_CHECKPOINT_INTERVAL : Nat := {interval}\n"
            f"def DEFAULT_TASK_DELAY_MS : Nat := {delay}\n"
            "/-- what `put_internal` pushes on the enrichment queue: `parent_seq as FrameId` (the WAL sequence of the\n"
            "    frame record; true) or `next_frame_id()` read before the WAL append (the id the record gets; false) -/\n"
            f"def QUEUE_HOLDS_WAL_SEQUENCE : Bool := {'true' if holds_seq else 'false'}\n")
    return emit("C41", body)

main(run)
