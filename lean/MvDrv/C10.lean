/- Driver for C10 (every search hit is a valid answer).  Text travels as lowercase hex of its UTF-8
   bytes (`-` = empty string, `~` = None); lists: `_` = empty, else comma separated.
   The driver keeps the frame table as state.
     reset                                         → ok
     variant                                       → tantivy_skips=<b> filters_skips=<b> filters_uri=<b>
     frame <a|s|d> <uri> <track> <tags> <labels> <ts> <dates> <searchText> <chunk> <fsText>
                                                   → ok <number of frames>
        chunk: `~` (resolve_chunk_context failed) or `start:rawLen:texthex`
     occ <hayhex> <stems>                          → s-e,s-e,… | -          (collect_token_occurrences)
     tokens <qhex>                                 → ok <hex,hex,…|_> | err …  (query tokens of Memvid::search)
     ev <topK> <snippet> <uri> <scope> <qhex> <engine> <stems>
                                                   → ev <frame ids|-> stale <n> | panic | err <class>
        the `evaluated` list before the recency re-sort (the harness computes the f32 re-sort)
     search <topK> <snippet> <uri> <scope> <cursor> <qhex> <stage> <engine> <hasLex> <lexLoaded> <stems> <perm>
                                                   → ok eng=<T|L> total=<n> next=<n|none> stale=<n> hits=<h;h;…|->
                                                   | err <class>
        stage : empty | all | ids:1,2,…       engine: none | - | 1,2,…
        stems : `_` or `tokhex=stemhex+stemhex,tokhex=,…`   (analyser output per query token)
        perm  : `-` (identity) or the positions of `evaluated` in re-sorted order
        h     : rank:frame:gstart:gend:matches:cstart:cend:texthex:chunklen:fnv1a64(chunk text) -/
import MvModel.Search
import MvModel.QueryTables
import MvModel.DrvUtil
open Mv Mv.Search

def strOfHex (h : String) : Option Query.Str :=
  match ofHex h with
  | none => none
  | some b => (String.fromUTF8? (ByteArray.mk b.toArray)).map String.toList

def optOfHex (h : String) : Option (Option Query.Str) :=
  if h == "~" then some none else (strOfHex h).map some

def listOfHex (h : String) : Option (List Query.Str) :=
  if h == "_" then some [] else (h.splitOn ",").mapM strOfHex

def parseStatus : String → Option Status
  | "a" => some .active | "s" => some .superseded | "d" => some .deleted | _ => none

def parseChunk (s : String) : Option (Option Chunk) :=
  if s == "~" then some none
  else match s.splitOn ":" with
    | [a, b, t] => do
      let text ← strOfHex t
      pure (some { start := (← a.toNat?), rawLen := (← b.toNat?), text := text })
    | _ => none

def parseStage (s : String) : Option Filter.Stage :=
  if s == "empty" then some none
  else if s == "all" then some (some none)
  else if s.startsWith "ids:" then (natList (s.drop 4).toString).map (fun l => some (some l))
  else none

def parseEngine (s : String) : Option (Option (List Nat)) :=
  if s == "none" then some none else (natList s).map some

def parseStems (s : String) : Option (List (Query.Str × List Query.Str)) :=
  if s == "_" then some []
  else (s.splitOn ",").mapM fun item =>
    match item.splitOn "=" with
    | [t, st] => do
      let tok ← strOfHex t
      let stems ← if st.isEmpty then some [] else (st.splitOn "+").mapM strOfHex
      pure (tok, stems)
    | _ => none

def lookupStems (tbl : List (Query.Str × List Query.Str)) (t : Query.Str) : List Query.Str :=
  match tbl.find? (fun p => p.1 == t) with
  | some p => p.2
  | none => []

def permute (perm : List Nat) {α : Type} (l : List α) : List α :=
  if perm.length = l.length then perm.filterMap (fun i => l[i]?) else l

def mkBox (tbl : List (Query.Str × List Query.Str)) (perm : List Nat) : Box :=
  { T := Query.T0, cfg := Query.cfgGen, analyse := lookupStems tbl, rerank := fun l => permute perm l }

def fnv1a (b : Bytes) : Nat :=
  b.foldl (fun h x => ((h ^^^ x.toNat) * 1099511628211) % 18446744073709551616) 14695981039346656037

def showHit (h : Hit) : String :=
  s!"{h.rank}:{h.frame}:{h.range.1}:{h.range.2}:{h.nmatch}:{h.chunkRange.1}:{h.chunkRange.2}:{toHexW h.text}:{h.chunkText.length}:{fnv1a h.chunkText}"

def showQErr : Query.Err → String
  | .unterminatedQuote => "unterminated-quote"
  | .badDateRange => "bad-date-range"
  | .unterminatedDateRange => "unterminated-date-range"
  | .expectedRParen => "expected-rparen"
  | .unexpectedToken => "unexpected-token"
  | .unexpectedEnd => "unexpected-end"
  | .unsupportedField => "unsupported-field"
  | .unexpectedDateField => "unexpected-date-field"
  | .tooDeep => "too-deep"
  | .fuel => "MODEL-FUEL"

def showErr : Err → String
  | .invalidQuery e => "err invalid-query " ++ showQErr e
  | .noTerms => "err no-terms"
  | .lexNotEnabled => "err lex-not-enabled"
  | .cursor .notInteger => "err cursor notint"
  | .cursor .beyondTotal => "err cursor beyond"
  | .frameText => "err frame-text"
  | .panic => "err panic"
  | .unmodelled => "err unmodelled"

def showResp (r : Response) : String :=
  let eng := match r.engine with | .tantivy => "T" | .lexFallback => "L"
  let next := match r.nextCursor with | none => "none" | some n => toString n
  let hits := if r.hits.isEmpty then "-" else ";".intercalate (r.hits.map showHit)
  s!"ok eng={eng} total={r.totalHits} next={next} stale={r.staleSkips} hits={hits}"

def showPairs (l : List (Nat × Nat)) : String :=
  if l.isEmpty then "-" else ",".intercalate (l.map fun p => s!"{p.1}-{p.2}")

def parseBool : String → Option Bool
  | "0" => some false | "1" => some true | _ => none

def cursorOf (s : String) : Option (Option String) :=
  if s == "~" then some none
  else match ofHex s with
    | none => none
    | some b => (String.fromUTF8? (ByteArray.mk b.toArray)).map some

def step (frames : List Frame) (ws : List String) : List Frame × String :=
  match ws with
  | ["reset"] => ([], "ok")
  | ["variant"] =>
    (frames, s!"tantivy_skips={variantGen.tantivySkipsInactive} filters_skips={variantGen.filtersSkipsInactive} filters_uri={variantGen.filtersUriScope}")
  | ["frame", st, uri, track, tags, labels, ts, dates, stext, chunk, fs] =>
    match parseStatus st, optOfHex uri, optOfHex track, listOfHex tags, listOfHex labels, parseInt ts,
          listOfHex dates, optOfHex stext, parseChunk chunk, optOfHex fs with
    | some st, some uri, some track, some tags, some labels, some ts, some dates, some stext, some chunk, some fs =>
      let f : Frame := { uri, track, tags, labels, timestamp := ts, contentDates := dates,
                         searchText := stext, status := st, chunk, fsText := fs }
      (frames ++ [f], s!"ok {frames.length + 1}")
    | _, _, _, _, _, _, _, _, _, _ => (frames, "bad-op")
  | ["occ", hay, stems] =>
    match ofHex hay, listOfHex stems with
    | some hay, some stems => (frames, showPairs (collectOcc Query.T0 hay stems))
    | _, _ => (frames, "bad-op")
  | ["tokens", q] =>
    match strOfHex q with
    | some q =>
      match Query.parse Query.T0 Query.cfgGen q with
      | .error e => (frames, showErr (.invalidQuery e))
      | .ok expr =>
        let toks := queryTokens Query.T0 expr
        (frames, "ok " ++ (if toks.isEmpty then "_" else ",".intercalate (toks.map fun t => toHexW (utf8 t))))
    | none => (frames, "bad-op")
  | ["ev", k, sn, uri, scope, q, engine, stems] =>
    match k.toNat?, sn.toNat?, optOfHex uri, optOfHex scope, strOfHex q, parseEngine engine, parseStems stems with
    | some k, some sn, some uri, some scope, some q, some (some hits), some tbl =>
      let B := mkBox tbl []
      let req : Request := { topK := k, snippetChars := sn, uri, scope, cursor := none }
      match Query.parse B.T B.cfg q with
      | .error e => (frames, showErr (.invalidQuery e))
      | .ok expr =>
        match firstLoop B variantGen frames req expr ((queryTokens B.T expr).flatMap B.analyse) hits with
        | none => (frames, "panic")
        | some (evs, stale) => (frames, s!"ev {showNats (evs.map (·.frame))} stale {stale}")
    | _, _, _, _, _, _, _ => (frames, "bad-op")
  | ["search", k, sn, uri, scope, cur, q, stage, engine, hasLex, lexLoaded, stems, perm] =>
    match k.toNat?, sn.toNat?, optOfHex uri, optOfHex scope, cursorOf cur, strOfHex q, parseStage stage,
          parseEngine engine, parseBool hasLex, parseBool lexLoaded, parseStems stems, natList perm with
    | some k, some sn, some uri, some scope, some cur, some q, some stage, some engine, some hasLex,
      some lexLoaded, some tbl, some perm =>
      let B := mkBox tbl perm
      let req : Request := { topK := k, snippetChars := sn, uri, scope, cursor := cur }
      match search B variantGen frames req q stage engine hasLex lexLoaded with
      | .ok r => (frames, showResp r)
      | .error e => (frames, showErr e)
    | _, _, _, _, _, _, _, _, _, _, _, _ => (frames, "bad-op")
  | _ => (frames, "bad-op")

def main : IO Unit := runDriver ([] : List Frame) step
