//! C19 — single-file guarantee.
//! impl: the real `Memvid` API on real files (histories of the Core family's generator through
//!       `hist::World::exec`, plus a second memory in the same directory, refused/failed create/open/doctor
//!       calls, the caller's own files, lock contention);
//! observation: the directory LISTING after every operation and the kernel's inotify event stream of the
//!       directory during every operation (creat / unlink / rename, in order);
//! model: drv_c19 (Lean `Mv.Dir`): effects, answer and listing of every step;
//! oracle (independent of the model): listing == the set of names this harness itself asked `create` for or
//!       wrote with std::fs; a call made while a forbidden sidecar exists answers AuxiliaryFileDetected naming
//!       a planted candidate and changes neither the listing nor the bytes of the memory.
use mvh::hist::*;
use mvh::*;
use memvid_core::verif_hooks;
use memvid_core::{DoctorOptions, Memvid, MemvidError, SearchRequest, TimelineQuery};
use serde::{Deserialize, Serialize};
use std::collections::BTreeSet;
use std::ffi::CString;
use std::path::{Path, PathBuf};

const MAIN: &str = "m.mv2";
const SIDE: &str = "s.mv2";
const PLAIN: [&str; 4] = ["-wal", "-shm", "-lock", "-journal"];
const HIDDEN: [&str; 4] = [".wal", ".shm", ".lock", ".journal"];

/// the eight sidecar names of the property text for memory `n` (independent of the source tables)
fn cand_name(n: &str, k: usize) -> String {
    if k < 4 { format!("{n}{}", PLAIN[k]) } else { format!(".{n}{}", HIDDEN[k - 4]) }
}

// ---------------------------------------------------------------------------------------
// inotify on one directory

#[derive(Clone, Debug, PartialEq, Eq)]
enum Eff { Creat(String), Unlink(String), Rename(String, String) }

impl Eff {
    fn show(&self) -> String {
        match self {
            Eff::Creat(x) => format!("creat:{x}"),
            Eff::Unlink(x) => format!("unlink:{x}"),
            Eff::Rename(a, b) => format!("rename:{a}>{b}"),
        }
    }
}
fn show_effs(e: &[Eff]) -> String {
    if e.is_empty() { "-".into() } else { e.iter().map(|x| x.show()).collect::<Vec<_>>().join(",") }
}

struct Watch { fd: i32 }

impl Watch {
    fn new(dir: &Path) -> Watch {
        let fd = unsafe { libc::inotify_init1(libc::IN_NONBLOCK | libc::IN_CLOEXEC) };
        assert!(fd >= 0, "inotify_init1 failed");
        let c = CString::new(dir.to_str().unwrap()).unwrap();
        let wd = unsafe { libc::inotify_add_watch(fd, c.as_ptr(), libc::IN_CREATE | libc::IN_DELETE | libc::IN_MOVED_FROM | libc::IN_MOVED_TO) };
        assert!(wd >= 0, "inotify_add_watch failed");
        Watch { fd }
    }
    /// everything the kernel queued since the last drain, as directory effects in order
    fn drain(&mut self) -> Vec<Eff> {
        let mut raw: Vec<(u32, u32, String)> = vec![];
        let mut buf = vec![0u8; 1 << 16];
        loop {
            let n = unsafe { libc::read(self.fd, buf.as_mut_ptr() as *mut libc::c_void, buf.len()) };
            if n <= 0 { break; }
            let n = n as usize;
            let mut i = 0;
            while i + 16 <= n {
                let mask = u32::from_ne_bytes(buf[i + 4..i + 8].try_into().unwrap());
                let cookie = u32::from_ne_bytes(buf[i + 8..i + 12].try_into().unwrap());
                let len = u32::from_ne_bytes(buf[i + 12..i + 16].try_into().unwrap()) as usize;
                let name_bytes = &buf[i + 16..i + 16 + len];
                let end = name_bytes.iter().position(|b| *b == 0).unwrap_or(len);
                raw.push((mask, cookie, String::from_utf8_lossy(&name_bytes[..end]).to_string()));
                i += 16 + len;
            }
        }
        let mut out = vec![];
        let mut used = vec![false; raw.len()];
        for i in 0..raw.len() {
            if used[i] { continue; }
            let (mask, cookie, name) = &raw[i];
            if mask & libc::IN_CREATE != 0 { out.push(Eff::Creat(name.clone())); }
            else if mask & libc::IN_DELETE != 0 { out.push(Eff::Unlink(name.clone())); }
            else if mask & libc::IN_MOVED_FROM != 0 {
                let to = (i + 1..raw.len()).find(|j| !used[*j] && raw[*j].0 & libc::IN_MOVED_TO != 0 && raw[*j].1 == *cookie);
                match to {
                    Some(j) => { used[j] = true; out.push(Eff::Rename(name.clone(), raw[j].2.clone())); }
                    None => out.push(Eff::Unlink(name.clone())),
                }
            } else if mask & libc::IN_MOVED_TO != 0 { out.push(Eff::Creat(name.clone())); }
        }
        out
    }
}
impl Drop for Watch { fn drop(&mut self) { unsafe { libc::close(self.fd); } } }

fn listing(dir: &Path) -> Vec<String> {
    let mut v: Vec<String> = std::fs::read_dir(dir).map(|rd| rd.filter_map(|e| e.ok()).map(|e| e.file_name().to_string_lossy().to_string()).collect()).unwrap_or_default();
    v.sort();
    v
}
fn show_list(v: &[String]) -> String { if v.is_empty() { "-".into() } else { v.join(",") } }

// ---------------------------------------------------------------------------------------
// staging rounds seen in an event stream

#[derive(Clone, Debug)]
enum Round { Ok(String), Mid(String), Leak(String) }

fn tmp_suffix(t: &str, n: &str) -> Option<String> {
    let pre = format!(".{n}.");
    if t.starts_with(&pre) && t.len() == pre.len() + 6 { Some(t[pre.len()..].to_string()) } else { None }
}

/// split the events into `with_staging_lock` rounds of memory `n`; anything else is returned as unexplained
fn rounds_of(events: &[Eff], n: &str) -> (Vec<Round>, Vec<Eff>) {
    let (mut rounds, mut rest) = (vec![], vec![]);
    let mut i = 0;
    while i < events.len() {
        if let Eff::Creat(t) = &events[i] {
            if let Some(suf) = tmp_suffix(t, n) {
                match events.get(i + 1) {
                    Some(Eff::Rename(a, b)) if a == t && b == n => { rounds.push(Round::Ok(suf)); i += 2; continue; }
                    Some(Eff::Unlink(a)) if a == t => { rounds.push(Round::Mid(suf)); i += 2; continue; }
                    _ => { rounds.push(Round::Leak(suf)); i += 1; continue; }
                }
            }
        }
        rest.push(events[i].clone());
        i += 1;
    }
    (rounds, rest)
}

/// the stage token for the model: the observed exit of the round (with its random suffix)
fn stage_token(r: Option<&Round>, call_ok: bool) -> String {
    match r {
        None => "early".into(),
        Some(Round::Ok(s)) => if call_ok { format!("ok:{s}") } else { format!("post:{s}") },
        Some(Round::Mid(s)) => format!("mid:{s}"),
        Some(Round::Leak(s)) => format!("cfault:{s}"),
    }
}

// ---------------------------------------------------------------------------------------
// operations of a C19 history

#[derive(Clone, Copy, Debug, PartialEq, Eq, Serialize, Deserialize)]
enum Api { Create, Open, OpenRo, Doctor, TryOpen, Verify }
const APIS: [Api; 6] = [Api::Create, Api::Open, Api::OpenRo, Api::Doctor, Api::TryOpen, Api::Verify];

#[derive(Clone, Debug, PartialEq, Eq, Serialize, Deserialize)]
enum XOp {
    /// one op of the Core family's history generator on m.mv2
    Core(Op),
    /// search / timeline / stats on the main handle, `Memvid::verify` on the path
    Read { kind: u8 },
    /// the caller's own file (created when absent, removed when present)
    Foreign { name: String },
    /// a second memory s.mv2 in the same directory
    SideCreate,
    SideOpen { ro: bool },
    SidePut { len: usize, seed: u64 },
    SideCommit,
    SideDrop,
    /// with no handle on s.mv2: plant the listed sidecar candidates of s.mv2 (indices 0..8), call the entry
    /// point, remove the sidecars again; an empty list = the plain call
    SideAttempt { api: Api, cands: Vec<usize> },
    /// `create` of a memory that does not exist yet, while one of ITS sidecar candidates exists
    FreshRefusedCreate { cand: usize, n: u32 },
    /// open / doctor of a path that does not exist; create inside a directory that does not exist
    Missing { api: Api },
    /// try_open / doctor of m.mv2 while its writer handle holds the lock (only used before the first commit)
    Busy { api: Api },
    /// a commit that FAILS half-way: the process's file-size limit (RLIMIT_FSIZE, "quota exceeded") is lowered for
    /// the duration of the call — `tiny`: already the copy into the staging file fails (early `?` return, the
    /// destructor has to clean up); otherwise the limit sits just above the current size, so the staged
    /// operation itself fails (`staging.discard()` path)
    QuotaCommit { tiny: bool },
    /// the same around dropping and re-opening the handle (the destructor's commit fails, its error is ignored)
    QuotaReopen,
    /// FAULT INJECTION (outside the property's quantifier): the caller replaces m.mv2 by a directory, the
    /// next commit's rename fails inside AtomicWriteFile::commit
    FaultReplaceByDir,
}

impl XOp {
    fn name(&self) -> String {
        match self {
            XOp::Core(op) => op.name().to_string(),
            XOp::Read { kind } => format!("read{kind}"),
            XOp::Foreign { name } => format!("foreign:{name}"),
            XOp::SideCreate => "side-create".into(),
            XOp::SideOpen { ro } => format!("side-open{}", if *ro { "-ro" } else { "" }),
            XOp::SidePut { .. } => "side-put".into(),
            XOp::SideCommit => "side-commit".into(),
            XOp::SideDrop => "side-drop".into(),
            XOp::SideAttempt { api, cands } => format!("attempt-{api:?}-{}", cands.iter().map(|c| c.to_string()).collect::<Vec<_>>().join("+")),
            XOp::FreshRefusedCreate { cand, .. } => format!("fresh-refused-create-{cand}"),
            XOp::Missing { api } => format!("missing-{api:?}"),
            XOp::Busy { api } => format!("busy-{api:?}"),
            XOp::QuotaCommit { tiny } => format!("quota-commit{}", if *tiny { "-tiny" } else { "" }),
            XOp::QuotaReopen => "quota-reopen".into(),
            XOp::FaultReplaceByDir => "fault-replace-by-dir".into(),
        }
    }
}

fn doctor_opts() -> DoctorOptions {
    DoctorOptions { rebuild_time_index: false, rebuild_lex_index: false, rebuild_vec_index: false, vacuum: false, dry_run: false, quiet: true }
}

/// outcome class of an entry-point call, as the model prints it
fn classify(e: &MemvidError, dir: &Path) -> String {
    match e {
        MemvidError::AuxiliaryFileDetected { path } => {
            let name = path.strip_prefix(dir).map(|p| p.to_string_lossy().to_string()).unwrap_or_else(|_| path.display().to_string());
            format!("aux:{name}")
        }
        MemvidError::Lock(_) => "lock".into(),
        MemvidError::Io { .. } => "io".into(),
        _ => "corrupt".into(),
    }
}

fn api_raw(api: Api, p: &Path, rebuild: bool) -> Result<Option<Memvid>, MemvidError> {
    match api {
        Api::Create => Memvid::create(p).map(Some),
        Api::Open => Memvid::open(p).map(Some),
        Api::OpenRo => Memvid::open_read_only(p).map(Some),
        Api::TryOpen => verif_hooks::try_open(p).map(Some),
        Api::Verify => Memvid::verify(p, true).map(|_| None),
        Api::Doctor => {
            let mut o = doctor_opts();
            if rebuild { o.rebuild_time_index = true; o.rebuild_lex_index = true; }
            let rep = Memvid::doctor(p, o)?;
            if rep.status == memvid_core::DoctorStatus::Failed {
                let lock = rep.findings.iter().any(|f| f.message.contains("exclusive access") || f.detail.as_deref().unwrap_or("").contains("exclusive access"));
                return Err(if lock { MemvidError::Lock("doctor: exclusive access unavailable".into()) }
                           else { MemvidError::Doctor { reason: "doctor report: failed".into() } });
            }
            Ok(None)
        }
    }
}

/// call an entry point on `path`; a returned handle is handed back
fn call_api(api: Api, path: &Path, dir: &Path) -> (String, Option<Memvid>) { call_api_opt(api, path, dir, false, true) }

fn call_api_opt(api: Api, path: &Path, dir: &Path, rebuild: bool, quiet_hook: bool) -> (String, Option<Memvid>) {
    let p = path.to_path_buf();
    // `guarded` swaps the process-wide panic hook: only the main thread may use it
    let r: Result<Result<Option<Memvid>, MemvidError>, String> = if quiet_hook { guarded(move || api_raw(api, &p, rebuild)) } else {
        std::panic::catch_unwind(move || api_raw(api, &p, rebuild)).map_err(|_| "panic".to_string())
    };
    let (res, h) = match r {
        Ok(Ok(h)) => ("ok".to_string(), h),
        Ok(Err(e)) => (classify(&e, dir), None),
        Err(p) => (format!("panic:{p}"), None),
    };
    if api == Api::Doctor && (res == "corrupt" || res.starts_with("panic:")) {
        // a doctor run that gives up (or trips its own debug assertion on pending WAL records — the C21/C22
        // finding) is a failed call for this property; what matters here is what it left in the directory
        if res.starts_with("panic:") { DOCTOR_PANICS.fetch_add(1, std::sync::atomic::Ordering::Relaxed); }
        return ("failed".into(), h);
    }
    (res, h)
}

static DOCTOR_PANICS: std::sync::atomic::AtomicUsize = std::sync::atomic::AtomicUsize::new(0);

fn doctor_req(name: &str, res: &str, rounds: &[Round]) -> String {
    if res == "lock" { return format!("doctor {name} 1 - 0"); }
    let toks: Vec<String> = rounds.iter().map(|r| stage_token(Some(r), true)).collect();
    format!("doctor {name} 0 {} {}", if toks.is_empty() { "-".to_string() } else { toks.join(";") }, (res == "ok") as u8)
}

/// run `f` with the soft RLIMIT_FSIZE lowered to `limit` bytes (SIGXFSZ is ignored: writes fail with EFBIG)
fn with_fsize_limit<T>(limit: u64, f: impl FnOnce() -> T) -> T {
    unsafe {
        let mut old = libc::rlimit { rlim_cur: 0, rlim_max: 0 };
        libc::getrlimit(libc::RLIMIT_FSIZE, &mut old);
        let new = libc::rlimit { rlim_cur: limit, rlim_max: old.rlim_max };
        libc::setrlimit(libc::RLIMIT_FSIZE, &new);
        let r = f();
        libc::setrlimit(libc::RLIMIT_FSIZE, &old);
        r
    }
}

fn file_hash(p: &Path) -> String { std::fs::read(p).map(|b| b3short(&b)).unwrap_or_else(|_| "absent".into()) }

// ---------------------------------------------------------------------------------------
// one history on the real code, with the model alongside

struct Run<'d> {
    world: World,
    dir: PathBuf,
    watch: Watch,
    side: Option<Memvid>,
    side_ro: bool,
    /// what the CALLER put into the directory (independent bookkeeping of the oracle)
    expected: BTreeSet<String>,
    last: Obs,
    committed_once: bool,
    tampered: bool,
    drv: Option<&'d mut Driver>,
    branches: Vec<String>,
    rounds_seen: usize,
    failing_calls: usize,
    refusals: usize,
    crashed: bool,
    /// events of the operation being executed
    cur_events: Vec<Eff>,
}

#[derive(Default)]
struct Outcome {
    trace: Vec<String>,
    branches: Vec<String>,
    oracle: Option<(String, String, usize)>,
    disagree: Option<(String, String, String, usize)>,
    rounds: usize,
    failing: usize,
    refusals: usize,
    dead: bool,
    tmp_left: Vec<String>,
}

struct StepRes {
    /// model requests, in order
    reqs: Vec<String>,
    /// the answer class of the real code per request (None = do not compare the answer of this request)
    real: Vec<Option<String>>,
    /// oracle failure found while executing (refusal checks)
    oracle: Option<(String, String)>,
    dead: bool,
    /// inotify events of the whole operation, in order
    events: Vec<Eff>,
}

impl<'d> Run<'d> {
    fn start(drv: Option<&'d mut Driver>) -> Result<Run<'d>, String> {
        let mut world = World::create()?;
        let dir = world.dir.path().to_path_buf();
        let watch = Watch::new(&dir);
        let last = world.observe();
        let mut r = Run {
            world, dir, watch, side: None, side_ro: false, expected: BTreeSet::new(), last, committed_once: false, tampered: false,
            drv, branches: vec![], rounds_seen: 0, failing_calls: 0, refusals: 0, crashed: false, cur_events: vec![],
        };
        r.expected.insert(MAIN.into());
        if let Some(d) = r.drv.as_deref_mut() {
            d.ask("reset -");
            d.ask(&format!("create {MAIN} none"));
        }
        Ok(r)
    }

    fn tag(&mut self, b: &str) { if !self.branches.iter().any(|x| x == b) { self.branches.push(b.to_string()); } }

    fn write_foreign(&mut self, name: &str) { let _ = std::fs::write(self.dir.join(name), b"caller's own file"); self.expected.insert(name.into()); }
    fn remove_foreign(&mut self, name: &str) { let _ = std::fs::remove_file(self.dir.join(name)); self.expected.remove(name); }

    /// drain the watcher: the new events (also appended to the current operation's event list)
    fn take_events(&mut self) -> Vec<Eff> {
        let e = self.watch.drain();
        self.cur_events.extend(e.iter().cloned());
        e
    }

    fn exec(&mut self, x: &XOp) -> StepRes {
        let mut out = self.exec_inner(x);
        self.take_events();
        out.events = std::mem::take(&mut self.cur_events);
        out
    }

    fn exec_inner(&mut self, x: &XOp) -> StepRes {
        let mut out = StepRes { reqs: vec![], real: vec![], oracle: None, dead: false, events: vec![] };
        self.cur_events.clear();
        match x {
            XOp::Core(op) => {
                let before = self.last.clone();
                let work = before.pending_records > 0 || before.dirty || before.tantivy_dirty;
                let step = self.world.exec(op);
                if matches!(&step.ack, Ack::Err(k, _) if k == "dead") { out.dead = true; return out; }
                self.last = step.obs.clone();
                let ok = step.ack.is_ok();
                if !ok { self.failing_calls += 1; }
                let kind = match &step.ack { Ack::Err(k, _) => k.clone(), _ => String::new() };
                if !kind.is_empty() {
                    let k = kind.split(':').next().unwrap_or("").to_string();
                    self.tag(&format!("fail-{k}"));
                    if std::env::var("C19_VERBOSE").is_ok() { println!("      error: {:?}", step.ack); }
                }
                let commit_failed = kind.starts_with("commit-failed");
                let events = self.take_events();
                let (rounds, _) = rounds_of(&events, MAIN);
                let mut it = rounds.iter();
                match op {
                    Op::Put(_) | Op::Update(_) | Op::Delete { .. } => {
                        let accepted = ok || commit_failed;
                        let ac = step.request.split(' ').any(|t| t == "ac=1") || (commit_failed && accepted);
                        if ac { self.tag("auto-commit"); }
                        out.reqs.push(format!("call {MAIN} mutate {} {} {}", accepted as u8, ac as u8, stage_token(it.next(), ok)));
                        out.real.push(Some(if ok { "ok".into() } else if commit_failed { "commit-failed".into() } else { "rejected".into() }));
                    }
                    Op::Commit => {
                        if !work { self.tag("commit-without-work"); }
                        out.reqs.push(format!("call {MAIN} commit {} {}", work as u8, stage_token(it.next(), ok)));
                        out.real.push(Some(if ok { "ok".into() } else { "commit-failed".into() }));
                        if ok { self.committed_once = true; }
                    }
                    Op::Vacuum => {
                        out.reqs.push(format!("call {MAIN} vacuum {} {}", work as u8, stage_token(it.next(), ok)));
                        out.real.push(Some(if ok { "ok".into() } else { "commit-failed".into() }));
                        self.committed_once = true;
                        self.tag("op-vacuum");
                    }
                    Op::BeginBatch { .. } | Op::EndBatch | Op::CommitSkip | Op::Finalize | Op::Ticket { .. } => {
                        out.reqs.push(format!("call {MAIN} inplace {}", ok as u8));
                        out.real.push(Some(if ok { "ok".into() } else { "failed".into() }));
                    }
                    Op::Reopen => {
                        out.reqs.push(format!("drop {MAIN} {} {}", before.dirty as u8, if before.dirty { stage_token(it.next(), true) } else { "early".into() }));
                        out.reqs.push(format!("open {MAIN} 0 none"));
                        out.real.extend([Some("ok".into()), Some("ok".into())]);
                        if before.dirty { self.tag("drop-commit"); }
                        self.committed_once = true;
                    }
                    Op::Crash => {
                        out.reqs.push(format!("forget {MAIN}"));
                        out.reqs.push(format!("open {MAIN} 0 none"));
                        out.real.extend([Some("ok".into()), Some("ok".into())]);
                        self.tag("crash");
                        self.crashed = true;
                    }
                    Op::ReadOnly => {
                        out.reqs.push(format!("drop {MAIN} {} {}", before.dirty as u8, if before.dirty { stage_token(it.next(), true) } else { "early".into() }));
                        out.reqs.push(format!("open {MAIN} 1 none"));
                        out.reqs.push(format!("drop {MAIN} 0 early"));
                        out.reqs.push(format!("open {MAIN} 0 none"));
                        out.real.extend([Some("ok".into()), Some("ok".into()), Some("ok".into()), Some("ok".into())]);
                        self.tag("read-only-handle");
                        self.committed_once = true;
                    }
                    Op::Doctor { .. } => {
                        out.reqs.push(format!("drop {MAIN} {} {}", before.dirty as u8, if before.dirty { stage_token(it.next(), true) } else { "early".into() }));
                        let rest: Vec<String> = it.by_ref().map(|r| stage_token(Some(r), true)).collect();
                        let doc_ok = self.world.last_doctor.as_deref().map(|s| !s.starts_with("error") && !s.starts_with("panic")).unwrap_or(false);
                        if !rest.is_empty() { self.tag("doctor-internal-commit"); }
                        if std::env::var("C19_VERBOSE").is_ok() { println!("      doctor said: {:?}", self.world.last_doctor); }
                        out.reqs.push(format!("doctor {MAIN} 0 {} {}", if rest.is_empty() { "-".to_string() } else { rest.join(";") }, doc_ok as u8));
                        out.reqs.push(format!("open {MAIN} 0 none"));
                        out.real.extend([Some("ok".into()), Some(if doc_ok { "ok".into() } else { "failed".into() }), Some("ok".into())]);
                        self.tag("op-doctor");
                        self.committed_once = true;
                    }
                }
            }
            XOp::Read { kind } => {
                let ok = match kind % 3 {
                    0 => {
                        let req = SearchRequest { query: "alpha".into(), top_k: 5, snippet_chars: 80, uri: None, scope: None, cursor: None,
                            as_of_frame: None, as_of_ts: None, no_sketch: false, acl_context: None, acl_enforcement_mode: Default::default() };
                        let m = self.world.mem();
                        guarded(std::panic::AssertUnwindSafe(|| m.search(req).is_ok())).unwrap_or(false)
                    }
                    1 => { let m = self.world.mem(); guarded(std::panic::AssertUnwindSafe(|| m.timeline(TimelineQuery::default()).is_ok())).unwrap_or(false) }
                    _ => self.world.mem().stats().is_ok(),
                };
                self.tag("read-call");
                out.reqs.push(format!("call {MAIN} read {}", ok as u8));
                out.real.push(Some(if ok { "ok".into() } else { "failed".into() }));
            }
            XOp::Foreign { name } => {
                if self.expected.contains(name) { self.remove_foreign(name); out.reqs.push(format!("ext unlink {name}")); }
                else { self.write_foreign(name); out.reqs.push(format!("ext creat {name}")); }
                out.real.push(Some("ok".into()));
                self.tag("caller-file");
            }
            XOp::SideCreate => {
                if self.side.is_some() { return out; }
                let (res, h) = call_api(Api::Create, &self.dir.join(SIDE), &self.dir);
                if res == "ok" { self.expected.insert(SIDE.into()); }
                self.side = h; self.side_ro = false;
                out.reqs.push(format!("create {SIDE} none"));
                out.real.push(Some(res));
                self.tag("second-memory");
            }
            XOp::SideOpen { ro } => {
                if self.side.is_some() || !self.expected.contains(SIDE) { return out; }
                let (res, h) = call_api(if *ro { Api::OpenRo } else { Api::Open }, &self.dir.join(SIDE), &self.dir);
                self.side = h; self.side_ro = *ro;
                out.reqs.push(format!("open {SIDE} {} none", *ro as u8));
                out.real.push(Some(res));
            }
            XOp::SidePut { len, seed } => {
                if self.side_ro { return out; }
                let Some(m) = self.side.as_mut() else { return out; };
                let bytes = PayloadSpec::new(PayloadKind::Ascii, *len, *seed).bytes();
                let before_dirty = verif_hooks::verif_state(m).dirty;
                let r = m.put_bytes(&bytes);
                let after = verif_hooks::verif_state(m);
                let _ = before_dirty;
                let ok = r.is_ok();
                let ac = ok && !after.dirty;
                if ac { self.tag("auto-commit"); }
                let events = self.take_events();
                let (rounds, _) = rounds_of(&events, SIDE);
                out.reqs.push(format!("call {SIDE} mutate {} {} {}", ok as u8, ac as u8, stage_token(rounds.first(), ok)));
                out.real.push(Some(if ok { "ok".into() } else { "rejected".into() }));
            }
            XOp::SideCommit => {
                if self.side_ro { return out; }
                let Some(m) = self.side.as_mut() else { return out; };
                let st = verif_hooks::verif_state(m);
                let work = st.wal_pending_bytes > 0 || st.dirty || st.tantivy_dirty;
                let ok = m.commit().is_ok();
                let events = self.take_events();
                let (rounds, _) = rounds_of(&events, SIDE);
                out.reqs.push(format!("call {SIDE} commit {} {}", work as u8, stage_token(rounds.first(), ok)));
                out.real.push(Some(if ok { "ok".into() } else { "commit-failed".into() }));
            }
            XOp::SideDrop => {
                let Some(m) = self.side.take() else { return out; };
                let dirty = verif_hooks::verif_state(&m).dirty;
                drop(m);
                let events = self.take_events();
                let (rounds, _) = rounds_of(&events, SIDE);
                out.reqs.push(format!("drop {SIDE} {} {}", dirty as u8, if dirty { stage_token(rounds.first(), true) } else { "early".into() }));
                out.real.push(Some("ok".into()));
                self.side_ro = false;
            }
            XOp::SideAttempt { api, cands } => {
                if self.side.is_some() { return out; }
                let path = self.dir.join(SIDE);
                let existed = self.expected.contains(SIDE);
                if !existed && *api != Api::Create { return out; }
                let planted: Vec<String> = cands.iter().map(|k| cand_name(SIDE, *k)).collect();
                for c in &planted { self.write_foreign(c); out.reqs.push(format!("ext creat {c}")); out.real.push(Some("ok".into())); }
                let h_before = file_hash(&path);
                let l_before = listing(&self.dir);
                let (res, h) = call_api(*api, &path, &self.dir);
                let l_after = listing(&self.dir);
                let h_after = if h.is_some() { h_before.clone() } else { file_hash(&path) };
                if !planted.is_empty() {
                    self.refusals += 1;
                    self.tag(&format!("refused-{api:?}"));
                    for k in cands { self.tag(&format!("sidecar-{k}")); }
                    let named_ok = res.strip_prefix("aux:").map(|n| planted.iter().any(|p| p == n)).unwrap_or(false);
                    if !res.starts_with("aux:") {
                        out.oracle = Some(("sidecar-not-refused".into(), format!("{api:?} of {SIDE} with sidecar(s) {planted:?} present answered `{res}` instead of AuxiliaryFileDetected")));
                    } else if !named_ok {
                        out.oracle = Some(("refusal-names-wrong-path".into(), format!("{api:?} refused with `{res}` but the planted sidecars are {planted:?}")));
                    } else if l_before != l_after || h_before != h_after {
                        out.oracle = Some(("refusal-changed-state".into(), format!("{api:?} refused ({res}) but listing {l_before:?} -> {l_after:?}, memory bytes {h_before} -> {h_after}")));
                    }
                } else if res != "ok" { self.failing_calls += 1; }
                if res == "ok" && *api == Api::Create { self.expected.insert(SIDE.into()); }
                let req = match api {
                    Api::Create => format!("create {SIDE} none"),
                    Api::Open | Api::TryOpen => format!("open {SIDE} 0 none"),
                    Api::OpenRo | Api::Verify => format!("open {SIDE} 1 none"),
                    Api::Doctor => String::new(),
                };
                let events = self.take_events();
                // the planted files' own creat events come first
                let own: Vec<Eff> = events.iter().filter(|e| matches!(e, Eff::Creat(x) if planted.contains(x))).cloned().collect();
                let lib: Vec<Eff> = events.iter().filter(|e| !own.contains(e)).cloned().collect();
                let (rounds, _) = rounds_of(&lib, SIDE);
                if *api == Api::Doctor {
                    out.reqs.push(doctor_req(SIDE, &res, &rounds));
                    out.real.push(Some(res.clone()));
                } else {
                    out.reqs.push(req);
                    out.real.push(Some(res.clone()));
                    if *api == Api::Verify && res == "ok" {
                        // verify opens read-only and lets go of the handle itself
                        out.reqs.push(format!("drop {SIDE} 0 early"));
                        out.real.push(Some("ok".into()));
                    }
                }
                // a handle that was handed out (no refusal) is dropped at once
                if let Some(m) = h {
                    let dirty = verif_hooks::verif_state(&m).dirty;
                    drop(m);
                    let ev2 = self.take_events();
                    let (r2, _) = rounds_of(&ev2, SIDE);
                    out.reqs.push(format!("drop {SIDE} {} {}", dirty as u8, if dirty { stage_token(r2.first(), true) } else { "early".into() }));
                    out.real.push(Some("ok".into()));
                }
                for c in &planted { self.remove_foreign(c); out.reqs.push(format!("ext unlink {c}")); out.real.push(Some("ok".into())); }
            }
            XOp::FreshRefusedCreate { cand, n } => {
                let name = format!("f{n}.mv2");
                if self.expected.contains(&name) { return out; }
                let c = cand_name(&name, *cand);
                self.write_foreign(&c);
                let (res, h) = call_api(Api::Create, &self.dir.join(&name), &self.dir);
                self.refusals += 1;
                self.tag("refused-create-of-new-memory");
                if res != format!("aux:{c}") {
                    out.oracle = Some((if res.starts_with("aux:") { "refusal-names-wrong-path" } else { "sidecar-not-refused" }.into(),
                        format!("create of {name} with sidecar {c} present answered `{res}`")));
                }
                if res == "ok" { self.expected.insert(name.clone()); }
                drop(h);
                self.remove_foreign(&c);
                out.reqs.extend([format!("ext creat {c}"), format!("create {name} none"), format!("ext unlink {c}")]);
                out.real.extend([Some("ok".into()), Some(res), Some("ok".into())]);
            }
            XOp::Missing { api } => {
                let (path, req) = match api {
                    Api::Create => (self.dir.join("nodir").join("x.mv2"), "create nodir/x.mv2 io".to_string()),
                    Api::Open | Api::TryOpen => (self.dir.join("nope.mv2"), "open nope.mv2 0 none".to_string()),
                    Api::OpenRo | Api::Verify => (self.dir.join("nope.mv2"), "open nope.mv2 1 none".to_string()),
                    Api::Doctor => (self.dir.join("nope.mv2"), "doctor nope.mv2 0 - 0".to_string()),
                };
                let (res, h) = call_api(*api, &path, &self.dir);
                drop(h);
                self.failing_calls += 1;
                self.tag("missing-path");
                out.reqs.push(req);
                out.real.push(Some(res));
            }
            XOp::Busy { api } => {
                if self.committed_once || self.world.mem.is_none() { return out; }
                let (res, h) = call_api_opt(*api, &self.world.path.clone(), &self.dir, true, true);
                if let Some(m) = h { std::mem::forget(m); } // never expected: do not let a second writer commit
                self.failing_calls += 1;
                if res == "lock" { self.tag("lock-contention"); }
                let events = self.take_events();
                let (rounds, _) = rounds_of(&events, MAIN);
                out.reqs.push(match api { Api::Doctor => doctor_req(MAIN, &res, &rounds), _ => format!("open {MAIN} 0 lock") });
                out.real.push(Some(res));
            }
            XOp::QuotaCommit { tiny } => {
                if self.world.mem.is_none() { return out; }
                let before = self.last.clone();
                let work = before.pending_records > 0 || before.dirty || before.tantivy_dirty;
                let len = std::fs::metadata(&self.world.path).map(|m| m.len()).unwrap_or(0);
                let m = self.world.mem.as_mut().unwrap();
                // tiny: everything up to the end of the WAL region may still be written (the pending-records scan
                // rewrites the WAL sentinel in place), the copy into the staging file stops there
                let st = verif_hooks::verif_state(m);
                let limit = if *tiny { st.hdr_wal_offset + st.hdr_wal_size } else { len + 16 };
                let r = with_fsize_limit(limit, || m.commit());
                let ok = r.is_ok();
                let events = self.take_events();
                let (rounds, _) = rounds_of(&events, MAIN);
                if !ok { self.failing_calls += 1; self.tag("commit-failed-quota"); }
                if work && !ok && matches!(rounds.first(), Some(Round::Mid(_))) { self.tag(if *tiny { "staging-dropped-on-early-return" } else { "staging-discarded-on-op-error" }); }
                self.last = self.world.observe();
                if ok { self.committed_once = true; }
                out.reqs.push(format!("call {MAIN} commit {} {}", work as u8, stage_token(rounds.first(), ok)));
                out.real.push(Some(if ok { "ok".into() } else { "commit-failed".into() }));
            }
            XOp::QuotaReopen => {
                if self.world.mem.is_none() { return out; }
                let dirty = self.last.dirty;
                let len = std::fs::metadata(&self.world.path).map(|m| m.len()).unwrap_or(0);
                let m = self.world.mem.take().unwrap();
                with_fsize_limit(len + 16, || drop(m));
                let events = self.take_events();
                let (rounds, _) = rounds_of(&events, MAIN);
                if matches!(rounds.first(), Some(Round::Mid(_))) { self.tag("staging-discarded-in-destructor"); }
                out.reqs.push(format!("drop {MAIN} {} {}", dirty as u8, if dirty { stage_token(rounds.first(), true) } else { "early".into() }));
                out.real.push(Some("ok".into()));
                match Memvid::open(&self.world.path) {
                    Ok(m) => { self.world.mem = Some(m); self.world.batch = None; }
                    Err(_) => { out.dead = true; return out; }
                }
                self.last = self.world.observe();
                out.reqs.push(format!("open {MAIN} 0 none"));
                out.real.push(Some("ok".into()));
            }
            XOp::FaultReplaceByDir => {
                let p = self.world.path.clone();
                let _ = std::fs::remove_file(&p);
                let _ = std::fs::create_dir(&p);
                self.tampered = true;
                let r = self.world.mem().commit();
                let ok = r.is_ok();
                let events = self.take_events();
                let lib: Vec<Eff> = events.iter().filter(|e| !matches!(e, Eff::Unlink(x) | Eff::Creat(x) if x == MAIN)).cloned().collect();
                let (rounds, _) = rounds_of(&lib, MAIN);
                out.reqs.extend([format!("ext unlink {MAIN}"), format!("ext creat {MAIN}"), format!("call {MAIN} commit 1 {}", stage_token(rounds.first(), ok))]);
                out.real.extend([Some("ok".into()), Some("ok".into()), Some(if ok { "ok".into() } else { "commit-failed".into() })]);
                if matches!(rounds.first(), Some(Round::Leak(_))) { self.tag("fault-injection-rename-fails-temp-leaked"); }
            }
        }
        out
    }
}

// ---------------------------------------------------------------------------------------
// running a history: real code, model, oracle after EVERY operation

enum Source<'a> {
    Fixed(&'a [XOp]),
    Gen { rng: &'a mut Rng, prof: &'a GenProfile, len: usize, long: bool },
}

fn near_miss_names() -> Vec<String> {
    // names that are NOT forbidden sidecars of m.mv2 / s.mv2 (no refusal may follow) and ordinary files
    ["notes.txt", "m.mv2.bak", "m.mv2.wal", "m.mv2-walx", "m-wal", ".m.mv2-wal", "other.mv2-wal", ".other.mv2.lock", "m.mv2-WAL",
     ".m.mv2.journal2", "s.mv2.lock", "README"].iter().map(|s| s.to_string()).collect()
}

fn gen_xop(rng: &mut Rng, prof: &GenProfile, gs: &mut GenState, run: &Run) -> XOp {
    let r = rng.below(100);
    match r {
        0..=67 => XOp::Core(gen_op(rng, prof, gs, &run.last)),
        68..=71 => XOp::Read { kind: rng.below(3) as u8 },
        72..=77 => XOp::Foreign { name: rng.pick(&near_miss_names()).clone() },
        78..=89 => {
            if run.side.is_none() {
                if !run.expected.contains(SIDE) || rng.chance(1, 4) { XOp::SideCreate } else { XOp::SideOpen { ro: rng.chance(1, 4) } }
            } else {
                match rng.below(10) {
                    0..=4 => XOp::SidePut { len: if rng.chance(1, 6) { rng.usize(20_000, 70_000) } else { rng.usize(1, 3000) }, seed: rng.u64() },
                    5..=7 => XOp::SideCommit,
                    _ => XOp::SideDrop,
                }
            }
        }
        90..=95 => {
            if run.side.is_some() { XOp::SideDrop } else {
                let api = *rng.pick(&APIS);
                let cands = match rng.below(10) {
                    0..=5 => vec![rng.usize(0, 7)],
                    6..=7 => { let mut v = vec![rng.usize(0, 7), rng.usize(0, 7)]; v.dedup(); v }
                    _ => vec![],
                };
                XOp::SideAttempt { api, cands }
            }
        }
        96..=97 => XOp::FreshRefusedCreate { cand: rng.usize(0, 7), n: rng.below(1000) as u32 },
        98 => if rng.chance(1, 3) { XOp::QuotaReopen } else { XOp::QuotaCommit { tiny: rng.bool() } },
        _ => XOp::Missing { api: *rng.pick(&APIS) },
    }
}

fn run_history(src: Source, drv: Option<&mut Driver>, verbose: bool) -> (Vec<XOp>, Outcome) {
    let verbose = verbose || std::env::var("C19_VERBOSE").is_ok();
    let mut out = Outcome::default();
    let mut ops_done: Vec<XOp> = vec![];
    let has_model = drv.is_some();
    let tmp_before: BTreeSet<String> = listing(&std::env::temp_dir()).into_iter().collect();
    let mut run = match Run::start(drv) { Ok(r) => r, Err(e) => { out.dead = true; out.trace.push(format!("start failed: {e}")); return (ops_done, out); } };
    let (fixed, mut gen_state): (Option<&[XOp]>, Option<(&mut Rng, &GenProfile, usize, GenState)>) = match src {
        Source::Fixed(ops) => (Some(ops), None),
        Source::Gen { rng, prof, len, long } => { let gs = GenState::new(rng, long); (None, Some((rng, prof, len, gs))) }
    };
    let total = fixed.map(|f| f.len()).unwrap_or_else(|| gen_state.as_ref().map(|g| g.2).unwrap_or(0));
    // + 1: the final step drops every handle (Drop commits when dirty) and lists once more
    for i in 0..=total {
        let fin = i == total;
        let x: Option<XOp> = if fin { None } else if let Some(f) = fixed { Some(f[i].clone()) } else {
            let (rng, prof, _, gs) = gen_state.as_mut().unwrap();
            Some(gen_xop(rng, prof, gs, &run))
        };
        let t_op = std::time::Instant::now();
        let (label, res) = match &x {
            Some(x) => (x.name(), run.exec(x)),
            None => {
                // end of history: the caller lets go of every handle
                let mut res = StepRes { reqs: vec![], real: vec![], oracle: None, dead: false, events: vec![] };
                run.cur_events.clear();
                if let Some(m) = run.side.take() {
                    let dirty = verif_hooks::verif_state(&m).dirty;
                    drop(m);
                    let ev = run.take_events();
                    let (r, _) = rounds_of(&ev, SIDE);
                    res.reqs.push(format!("drop {SIDE} {} {}", dirty as u8, if dirty { stage_token(r.first(), true) } else { "early".into() }));
                    res.real.push(Some("ok".into()));
                }
                if let Some(m) = run.world.mem.take() {
                    let dirty = verif_hooks::verif_state(&m).dirty;
                    drop(m);
                    let ev = run.take_events();
                    let lib: Vec<Eff> = if run.tampered { ev.iter().filter(|e| !matches!(e, Eff::Unlink(x) | Eff::Creat(x) if x == MAIN)).cloned().collect() } else { ev };
                    let (r, _) = rounds_of(&lib, MAIN);
                    if dirty && !r.is_empty() { run.tag("drop-commit"); }
                    res.reqs.push(format!("drop {MAIN} {} {}", dirty as u8, if dirty { stage_token(r.first(), true) } else { "early".into() }));
                    res.real.push(Some("ok".into()));
                }
                res.events = std::mem::take(&mut run.cur_events);
                ("end-drop-all".to_string(), res)
            }
        };
        if let Some(x) = &x { ops_done.push(x.clone()); }
        if res.dead { out.dead = true; out.trace.push(format!("#{i} {label}: the memory can no longer be opened (not C19's concern) — history ends")); break; }
        let list = listing(&run.dir);
        let (rounds_main, _) = rounds_of(&res.events, MAIN);
        let (rounds_side, _) = rounds_of(&res.events, SIDE);
        run.rounds_seen += rounds_main.len() + rounds_side.len();
        for r in rounds_main.iter().chain(rounds_side.iter()) {
            match r { Round::Ok(_) => run.tag("staging-committed"), Round::Mid(_) => run.tag("staging-discarded"), Round::Leak(_) => run.tag("staging-leaked") }
        }
        // ---- model
        let mut model_effs: Vec<String> = vec![];
        let mut model_list = String::new();
        let mut model_res: Vec<String> = vec![];
        if has_model {
            for q in &res.reqs {
                let a = run.drv.as_deref_mut().unwrap().ask(q);
                let parts: Vec<&str> = a.split(" | ").collect();
                if parts.len() == 5 {
                    model_res.push(parts[0].to_string());
                    if parts[1] != "-" { model_effs.push(parts[1].to_string()); }
                    model_list = parts[2].to_string();
                } else {
                    model_res.push(a.clone());
                }
            }
        }
        let model_eff_line = if model_effs.is_empty() { "-".to_string() } else { model_effs.join(",") };
        let real_eff_line = show_effs(&res.events);
        let real_res_line = res.real.iter().map(|r| r.clone().unwrap_or_else(|| "*".into())).collect::<Vec<_>>().join(";");
        let line = format!("#{i} {label}: impl [{real_res_line}] events {real_eff_line} ls {} ({} ms)", show_list(&list), t_op.elapsed().as_millis());
        if verbose {
            println!("{line}");
            if has_model { for (q, a) in res.reqs.iter().zip(model_res.iter()) { println!("      model  {q}  ->  {a}"); } println!("      model  effects {model_eff_line} ls {model_list}"); }
        }
        out.trace.push(format!("{label}:{real_res_line}"));
        // ---- oracle (independent of the model)
        let exp: Vec<String> = run.expected.iter().cloned().collect();
        let mut oracle = res.oracle.clone();
        if oracle.is_none() && !run.tampered && list != exp {
            let extra: Vec<&String> = list.iter().filter(|n| !run.expected.contains(*n)).collect();
            let missing: Vec<&String> = exp.iter().filter(|n| !list.contains(n)).collect();
            oracle = Some(if !extra.is_empty() {
                ("foreign-entry-in-directory".into(), format!("after `{label}` (answer {real_res_line}) the directory holds {extra:?}, which the caller never created (listing {list:?}, caller's files {exp:?})"))
            } else {
                ("caller-file-vanished".into(), format!("after `{label}` the caller's file(s) {missing:?} are gone (listing {list:?})"))
            });
        }
        if let Some((sig, what)) = oracle {
            out.oracle = Some((sig, what, i));
            break;
        }
        // ---- model vs implementation
        if has_model && !res.reqs.is_empty() {
            let mut bad: Option<String> = None;
            for (k, (m, r)) in model_res.iter().zip(res.real.iter()).enumerate() {
                if let Some(r) = r { if m != r { bad = Some(format!("answer of `{}`: model {m}, impl {r}", res.reqs[k])); break; } }
            }
            if bad.is_none() && model_eff_line != real_eff_line { bad = Some("directory effects differ".into()); }
            if bad.is_none() && model_list != show_list(&list) { bad = Some("listing differs".into()); }
            if let Some(b) = bad {
                out.disagree = Some((format!("{label}: {b}"), format!("{} | {model_eff_line} | {model_list}", model_res.join(";")),
                    format!("{real_res_line} | {real_eff_line} | {}", show_list(&list)), i));
                break;
            }
        } else if !has_model && !run.tampered {
            // oracle-only mode: every event must still belong to a well-formed staging round or to the harness itself
        }
    }
    // system temp directory: nothing of the library may be left once every handle is gone
    let crashed = run.crashed;
    out.branches = std::mem::take(&mut run.branches);
    out.rounds = run.rounds_seen;
    out.failing = run.failing_calls;
    out.refusals = run.refusals;
    let base = std::env::temp_dir();
    let wdir = run.dir.clone();
    let tampered = run.tampered;
    drop(run);
    if tampered { let _ = std::fs::remove_dir_all(&wdir); }
    if !crashed && !out.dead && out.oracle.is_none() && out.disagree.is_none() {
        out.tmp_left = listing(&base).into_iter().filter(|n| !tmp_before.contains(n)).collect();
    }
    (ops_done, out)
}

// ---------------------------------------------------------------------------------------
// lock contention (real 10 s retry loops): three scenarios, each in its own directory and thread

struct Contention { api: Api, res: String, events: Vec<Eff>, before: Vec<String>, after: Vec<String>, hash_same: bool, secs: f64 }

fn contention(api: Api, base: &Path, ready: std::sync::mpsc::Sender<()>) -> Contention {
    let dir = tempfile::Builder::new().prefix("c19-lock-").tempdir_in(base).expect("tempdir");
    let path = dir.path().join("a.mv2");
    let mut a = Memvid::create(&path).expect("create");
    a.put_bytes(b"held by the first writer").expect("put");
    let _ = ready.send(());
    let mut w = Watch::new(dir.path());
    let before = listing(dir.path());
    let h0 = file_hash(&path);
    let t = std::time::Instant::now();
    let (res, h) = call_api_opt(api, &path, dir.path(), false, false);
    let secs = t.elapsed().as_secs_f64();
    if let Some(m) = h { std::mem::forget(m); }
    let events = w.drain();
    let after = listing(dir.path());
    let hash_same = h0 == file_hash(&path);
    std::mem::forget(a); // no drop-commit: the scenario ends here, the directory is removed
    Contention { api, res, events, before, after, hash_same, secs }
}

// ---------------------------------------------------------------------------------------

fn corpus() -> Vec<(String, Vec<XOp>)> {
    let put = |kind, len, seed, ts| XOp::Core(Op::Put(PutSpec::simple(PayloadSpec::new(kind, len, seed), ts)));
    let mut v: Vec<(String, Vec<XOp>)> = vec![];
    // the sidecar matrix: 8 candidates x {create, open, open_read_only, doctor, try_open, verify}
    let mut ops = vec![XOp::SideCreate, XOp::SidePut { len: 300, seed: 1 }, XOp::SideCommit, XOp::SideDrop];
    for api in APIS {
        for k in 0..8 { ops.push(XOp::SideAttempt { api, cands: vec![k] }); }
        ops.push(XOp::SideAttempt { api, cands: vec![7, 0] });
        ops.push(XOp::SideAttempt { api, cands: vec![] });
    }
    v.push(("sidecar-matrix".into(), ops));
    v.push(("refused-create-of-new-memory".into(), (0..8).map(|k| XOp::FreshRefusedCreate { cand: k, n: k as u32 }).collect()));
    v.push(("failing-calls".into(), vec![
        XOp::Busy { api: Api::TryOpen }, XOp::Busy { api: Api::Doctor },
        put(PayloadKind::Ascii, 400, 1, 100),
        XOp::Core(Op::Delete { id: 7 }), XOp::Core(Op::Update(UpdSpec { id: 9, ..Default::default() })),
        XOp::Core(Op::Put(PutSpec { emb: Some(EmbSpec { dim: 3, seed: 1 }), ..PutSpec::simple(PayloadSpec::new(PayloadKind::Ascii, 30, 2), 101) })),
        XOp::Core(Op::Put(PutSpec { emb: Some(EmbSpec { dim: 5, seed: 2 }), ..PutSpec::simple(PayloadSpec::new(PayloadKind::Ascii, 30, 3), 102) })),
        XOp::QuotaCommit { tiny: true }, XOp::QuotaCommit { tiny: false }, XOp::QuotaReopen,
        XOp::Core(Op::Put(PutSpec::simple(PayloadSpec::new(PayloadKind::Rand, 900, 11), 102))),
        XOp::Core(Op::Commit),
        XOp::Core(Op::Ticket { seq_no: 5, capacity: Some(4096 + 65536 + 500), issuer: "verif".into() }),
        put(PayloadKind::Rand, 5000, 4, 103), put(PayloadKind::Rand, 5000, 5, 104),
        XOp::Core(Op::Commit), XOp::Core(Op::Commit),
        XOp::Missing { api: Api::Create }, XOp::Missing { api: Api::Open }, XOp::Missing { api: Api::OpenRo }, XOp::Missing { api: Api::Doctor },
        XOp::Core(Op::Vacuum), XOp::Core(Op::Commit), XOp::Core(Op::Doctor { vacuum: true, rebuild_time: true, rebuild_lex: true, rebuild_vec: true }),
        XOp::Read { kind: 0 }, XOp::Read { kind: 1 }, XOp::Read { kind: 2 },
    ]));
    v.push(("two-memories-and-callers-files".into(), vec![
        XOp::Foreign { name: "notes.txt".into() }, XOp::Foreign { name: ".m.mv2-wal".into() }, XOp::Foreign { name: "other.mv2-wal".into() },
        put(PayloadKind::Ascii, 6000, 6, 100), XOp::SideCreate, XOp::SidePut { len: 66_000, seed: 7 }, XOp::Core(Op::Commit), XOp::SidePut { len: 30, seed: 8 },
        XOp::Core(Op::Reopen), XOp::SideDrop, XOp::Core(Op::ReadOnly), XOp::SideOpen { ro: true }, XOp::Core(Op::Crash), XOp::SideDrop,
        XOp::Foreign { name: "notes.txt".into() }, put(PayloadKind::Bin, 9, 9, 101),
    ]));
    v
}

fn fault_corpus() -> Vec<(String, Vec<XOp>)> {
    let put = |kind, len, seed, ts| XOp::Core(Op::Put(PutSpec::simple(PayloadSpec::new(kind, len, seed), ts)));
    vec![("fault-rename-fails".into(), vec![put(PayloadKind::Ascii, 200, 1, 100), XOp::FaultReplaceByDir])]
}

/// Path forms (seed C19-1 skipped the sidecar scan for a bare relative file name): the guard must not depend
/// on HOW the caller names the file.  A memory is addressed by its bare name (cwd = its directory), `./name`,
/// `sub/../name`, a relative path with a directory component and the absolute path; with each of the eight
/// sidecars planted, every entry point must answer AuxiliaryFileDetected naming that sidecar and leave listing
/// and bytes alone — exactly what the absolute form (the one the model stream uses) does.
/// Runs before any thread is started: it changes the process's working directory and restores it.
fn path_forms_scenario(sum: &mut Summary, base: &Path) {
    let dir = base.join("forms");
    let sub = dir.join("sub");
    std::fs::create_dir_all(&sub).expect("forms dir");
    let old = std::env::current_dir().expect("cwd");
    for (mem_dir, name, forms) in [
        (dir.clone(), "rel.mv2", vec![("bare", PathBuf::from("rel.mv2")), ("dot", PathBuf::from("./rel.mv2")), ("updown", PathBuf::from("sub/../rel.mv2")), ("absolute", dir.join("rel.mv2"))]),
        (sub.clone(), "m2.mv2", vec![("rel-dir", PathBuf::from("sub/m2.mv2")), ("dot-dir", PathBuf::from("./sub/m2.mv2")), ("absolute", sub.join("m2.mv2"))]),
    ] {
        let abs = mem_dir.join(name);
        {
            let mut m = Memvid::create(&abs).expect("create");
            let _ = m.put_bytes(b"path forms scenario payload");
            let _ = m.commit();
        }
        std::env::set_current_dir(&dir).expect("chdir");
        for k in 0..8 {
            let cand = cand_name(name, k);
            std::fs::write(mem_dir.join(&cand), b"caller's own file").expect("plant");
            for (label, p) in &forms {
                for api in [Api::Create, Api::Open, Api::OpenRo, Api::Doctor] {
                    let (h0, l0) = (file_hash(&abs), listing(&mem_dir));
                    let (res, h) = call_api(api, p, &mem_dir);
                    drop(h);
                    let (h1, l1) = (file_hash(&abs), listing(&mem_dir));
                    let named = res.strip_prefix("aux:").map(|n| Path::new(n).file_name().map(|f| f.to_string_lossy().to_string()).unwrap_or_default());
                    sum.branch(&format!("form-{label}"));
                    sum.case(&format!("forms|{name}|{k}|{label}|{api:?}|{res}"), true, || json!({"part": "path-forms", "form": label, "api": format!("{api:?}"), "sidecar": cand, "answer": res}));
                    let case = json!({"kind": "path-forms", "memory": name, "form": label, "path": p, "api": format!("{api:?}"), "sidecar": cand});
                    if named.is_none() {
                        sum.oracle_violation("sidecar-not-refused", &format!("{api:?}({}) [{label} form, cwd = the memory's directory{}] with sidecar {cand} present answered `{res}` instead of AuxiliaryFileDetected",
                            p.display(), if mem_dir == dir { "" } else { "'s parent" }), case);
                    } else if named.as_deref() != Some(cand.as_str()) {
                        sum.oracle_violation("refusal-names-wrong-path", &format!("{api:?}({}) refused with `{res}` but the planted sidecar is {cand}", p.display()), case);
                    } else if h0 != h1 || l0 != l1 {
                        sum.oracle_violation("refusal-changed-state", &format!("{api:?}({}) refused ({res}) but listing {l0:?} -> {l1:?}, memory bytes {h0} -> {h1}", p.display()), case);
                    }
                }
            }
            let _ = std::fs::remove_file(mem_dir.join(&cand));
        }
        // without a sidecar every form opens the same memory
        for (label, p) in &forms {
            let (res, h) = call_api(Api::OpenRo, p, &mem_dir);
            let n = h.as_ref().map(|m| verif_hooks::verif_frames(m).len()).unwrap_or(0);
            drop(h);
            if res != "ok" || n != 1 {
                sum.oracle_violation("path-form-opens-differently", &format!("open_read_only({}) [{label}] answered `{res}` with {n} frame(s); the absolute form opens 1 frame", p.display()),
                    json!({"kind": "path-forms", "memory": name, "form": label}));
            }
        }
        std::env::set_current_dir(&old).expect("restore cwd");
    }
    let _ = std::env::set_current_dir(&old);
}

fn ops_to_json(ops: &[XOp]) -> Value { serde_json::to_value(ops).unwrap() }

fn main() {
    let args = parse_args();
    unsafe { libc::signal(libc::SIGXFSZ, libc::SIG_IGN); }
    // a private system temp directory: histories live in sub-directories of it, Tantivy's work directories
    // directly in it (so that leftovers can be seen)
    let orig_tmp = std::env::temp_dir();
    let base = orig_tmp.join(format!("c19-{}", std::process::id()));
    let lock_base = orig_tmp.join(format!("c19-{}-lock", std::process::id()));
    std::fs::create_dir_all(&base).expect("private temp dir");
    std::fs::create_dir_all(&lock_base).expect("private temp dir");
    unsafe { std::env::set_var("TMPDIR", &base); }
    let rule = "histories on real files: the Core family's op generator on m.mv2 (puts incl. rejected ones: capacity, dimension, invalid frame id; \
                commit, auto-commit, reopen, crash, read-only, batch, vacuum, doctor, ticket) interleaved with a second memory s.mv2, the caller's own files \
                (incl. near-miss sidecar names), entry-point calls with planted sidecars (8 candidates x create/open/open_read_only/doctor/try_open/verify), calls on \
                missing paths, lock contention; after EVERY op: directory listing == the caller's own bookkeeping (oracle), inotify event stream + listing + \
                answer == the Lean model; non-trivial = a history with at least one staging round and one failing or refused call; distinct = op/answer trace";
    let mut sum = Summary::new("C19", &args, rule);
    sum.expect_branches(&["staging-committed", "auto-commit", "drop-commit", "crash", "op-vacuum", "op-doctor", "doctor-internal-commit", "second-memory",
        "caller-file", "lock-contention", "missing-path", "refused-Create", "refused-Open", "refused-OpenRo", "refused-Doctor", "refused-TryOpen", "refused-Verify",
        "refused-create-of-new-memory", "fail-capacity", "fail-dim-mismatch", "fail-not-found", "read-call", "commit-without-work",
        "contention-Create", "contention-Open", "contention-OpenRo", "fault-injection-rename-fails-temp-leaked",
        "staging-dropped-on-early-return", "staging-discarded-on-op-error", "staging-discarded-in-destructor",
        "form-bare", "form-dot", "form-updown", "form-rel-dir", "form-absolute"]);
    let mut drv = if args.driver.as_os_str() == "none" { None } else { Some(Driver::spawn(&args.driver).expect("spawn driver")) };

    if args.mode == "replay" {
        let case = load_replay(args.replay_file.as_ref().expect("replay file"));
        let input = case.get("input").cloned().unwrap_or(case);
        if input.get("kind").and_then(|k| k.as_str()) == Some("path-forms") {
            path_forms_scenario(&mut sum, &base);
            for v in &sum.oracle_violations { println!("ORACLE VIOLATED: {}: {}", v["signature"], v["what"]); }
            let _ = std::fs::remove_dir_all(&base); let _ = std::fs::remove_dir_all(&lock_base);
            sum.finish(&args);
        }
        if let Some(api) = input.get("api").and_then(|a| a.as_str()) {
            // a lock-contention scenario
            let api = match api { "Create" => Api::Create, "OpenRo" => Api::OpenRo, _ => Api::Open };
            let (tx, _rx) = std::sync::mpsc::channel::<()>();
            let c = contention(api, &lock_base, tx);
            println!("{api:?} while the first writer holds the lock: answer {} after {:.1} s, events {}, listing {:?} -> {:?}, bytes unchanged {}",
                c.res, c.secs, show_effs(&c.events), c.before, c.after, c.hash_same);
            if c.before != c.after || !c.hash_same { sum.oracle_violation("foreign-entry-in-directory", "lock contention changed the directory or the memory", input.clone()); }
            sum.case("contention", true, || json!({}));
            let _ = std::fs::remove_dir_all(&base); let _ = std::fs::remove_dir_all(&lock_base);
            sum.finish(&args);
        }
        let ops: Vec<XOp> = serde_json::from_value(input.get("ops").cloned().expect("ops")).expect("ops");
        let (_, o) = run_history(Source::Fixed(&ops), drv.as_mut(), true);
        if let Some((sig, what, i)) = &o.oracle { println!("ORACLE VIOLATED at op #{i}: {sig}: {what}"); sum.oracle_violation(sig, what, json!({"ops": ops_to_json(&ops)})); }
        if let Some((w, m, im, i)) = &o.disagree { println!("MODEL/IMPL DISAGREE at op #{i}: {w}\n  model {m}\n  impl  {im}"); sum.disagreement(w, json!({"ops": ops_to_json(&ops)}), m, im); }
        sum.case(&o.trace.join("|"), true, || json!({}));
        let _ = std::fs::remove_dir_all(&base); let _ = std::fs::remove_dir_all(&lock_base);
        sum.finish(&args);
    }

    path_forms_scenario(&mut sum, &base);
    // lock contention threads run while the histories do
    let lb = lock_base.clone();
    let (tx, rx) = std::sync::mpsc::channel::<()>();
    let threads: Vec<std::thread::JoinHandle<Contention>> = [Api::Create, Api::Open, Api::OpenRo].into_iter().map(|api| {
        let lb = lb.clone();
        let tx = tx.clone();
        std::thread::spawn(move || contention(api, &lb, tx))
    }).collect();
    drop(tx);
    // wait until every first writer exists (their Tantivy work directories are then in place)
    for _ in 0..threads.len() { let _ = rx.recv_timeout(std::time::Duration::from_secs(60)); }

    let mut rng = Rng::new(args.seed);
    let mut prof = GenProfile::standard(args.thorough);
    prof.w_commit = 12; prof.w_reopen = 7; prof.w_crash = 3; prof.w_vacuum = 4; prof.w_doctor = 3; prof.w_ticket = 3; prof.wrong_dim_percent = 10;
    prof.valid_target_percent = 70;
    let n_short = args.extra.get("nshort").and_then(|s| s.parse().ok()).unwrap_or(if args.thorough { 60 } else { 4 });
    let n_long = args.extra.get("nlong").and_then(|s| s.parse().ok()).unwrap_or(if args.thorough { 3 } else { 0 });
    let known: Vec<String> = args.extra.get("known").map(|s| s.split(',').map(|x| x.to_string()).collect()).unwrap_or_default();
    let _ = &known;
    let mut tmp_left_total = 0usize;
    let shrink_secs: u64 = args.extra.get("shrink").and_then(|s| s.parse().ok()).unwrap_or(if args.thorough { 240 } else { 60 });
    let mut total_ops = 0usize;

    let mut record = |sum: &mut Summary, label: &str, ops: &[XOp], o: &Outcome, drv: &mut Option<Driver>, fault: bool| {
        total_ops += o.trace.len();
        for b in &o.branches { sum.branch(b); }
        if let Some((sig, what, idx)) = &o.oracle {
            // shrink: same failure class on the real code alone
            let sig0 = sig.clone();
            let deadline = std::time::Instant::now() + std::time::Duration::from_secs(shrink_secs);
            let mut fails = |cand: &[XOp]| -> bool {
                if std::time::Instant::now() > deadline { return false; }
                let (_, oo) = run_history(Source::Fixed(cand), None, false);
                oo.oracle.as_ref().map(|x| x.0 == sig0).unwrap_or(false)
            };
            let prefix = &ops[..(*idx + 1).min(ops.len())];
            let small = if prefix.len() > 1 && fails(prefix) { shrink_list(prefix, &mut fails) } else { ops.to_vec() };
            sum.oracle_violation(sig, what, json!({"label": label, "ops": ops_to_json(&small)}));
        } else if let Some((w, m, im, _)) = &o.disagree {
            sum.disagreement(w, json!({"label": label, "ops": ops_to_json(ops)}), m, im);
        }
        let _ = drv;
        if !o.tmp_left.is_empty() && !fault {
            sum.branch("system-temp-leftover");
            if sum.notes.len() < 6 { sum.notes.push(format!("history {label}: left in the system temp directory after every handle was dropped: {:?}", o.tmp_left)); }
        }
        let nontrivial = o.rounds > 0 && (o.failing > 0 || o.refusals > 0);
        let canon = o.trace.join("|");
        sum.case(&canon, nontrivial, || json!({"label": label, "ops": ops.len(), "staging_rounds": o.rounds, "failing_calls": o.failing, "refusals": o.refusals,
            "trace_head": o.trace.iter().take(12).cloned().collect::<Vec<_>>()}));
    };

    for (label, ops) in corpus() {
        if std::env::var("C19_VERBOSE").is_ok() { println!("== {label}"); }
        let (done, o) = run_history(Source::Fixed(&ops), drv.as_mut(), false);
        tmp_left_total += o.tmp_left.len();
        record(&mut sum, &label, &done, &o, &mut drv, false);
    }
    for (label, ops) in fault_corpus() {
        let (done, o) = run_history(Source::Fixed(&ops), drv.as_mut(), false);
        record(&mut sum, &label, &done, &o, &mut drv, true);
    }
    for h in 0..(n_short + n_long) {
        let long = h >= n_short;
        let len = if long { rng.usize(110, 170) } else if args.thorough { rng.usize(12, 60) } else { rng.usize(10, 36) };
        let mut hr = rng.fork();
        let (done, o) = run_history(Source::Gen { rng: &mut hr, prof: &prof, len, long }, drv.as_mut(), false);
        tmp_left_total += o.tmp_left.len();
        record(&mut sum, &format!("gen-{h}"), &done, &o, &mut drv, false);
        // a violation is decisive: stop generating once one is in hand
        if !sum.oracle_violations.is_empty() || sum.disagreements.len() >= 3 { break; }
    }

    // lock contention results
    for t in threads {
        let c = match t.join() { Ok(c) => c, Err(e) => {
            let msg = e.downcast_ref::<String>().cloned().or_else(|| e.downcast_ref::<&str>().map(|s| s.to_string())).unwrap_or_else(|| "?".into());
            sum.notes.push(format!("a lock-contention scenario could not be run: {msg}")); continue; } };
        let label = format!("contention-{:?}", c.api);
        sum.branch(&label);
        let case = json!({"label": label, "api": format!("{:?}", c.api), "answer": c.res, "seconds": c.secs});
        if c.res != "lock" {
            sum.notes.push(format!("{label}: a second {:?} while the first writer holds the lock answered `{}` after {:.1} s", c.api, c.res, c.secs));
        }
        if c.before != c.after || !c.hash_same {
            sum.oracle_violation(if c.before != c.after { "foreign-entry-in-directory" } else { "refused-call-changed-memory" },
                &format!("{:?} under lock contention answered {} and left listing {:?} -> {:?}, bytes unchanged: {}", c.api, c.res, c.before, c.after, c.hash_same), case.clone());
        }
        if let Some(d) = drv.as_mut() {
            d.ask("reset a.mv2");
            let q = match c.api { Api::Create => "create a.mv2 lock".to_string(), Api::OpenRo => "open a.mv2 1 lock".into(), _ => "open a.mv2 0 lock".into() };
            let a = d.ask(&q);
            let want = format!("{} | {} | {} | {} | -", c.res, show_effs(&c.events), show_list(&c.after), show_list(&c.after));
            if a != want { sum.disagreement(&format!("{label}: model and implementation differ"), case.clone(), &a, &want); }
        }
        sum.case(&format!("{label}:{}", c.res), true, || case.clone());
    }
    drop(record);
    sum.notes.push(format!("{total_ops} operations executed on the real API; after each one: listing vs caller's bookkeeping (oracle), answer + inotify events + listing vs the Lean model"));
    let dp = DOCTOR_PANICS.load(std::sync::atomic::Ordering::Relaxed);
    if dp > 0 { sum.notes.push(format!("{dp} doctor runs tripped the debug assertion `probe detected N pending wal records` (C21/C22 finding); counted as failed calls here")); }
    if tmp_left_total > 0 { sum.notes.push(format!("{tmp_left_total} entries were left in the (private) system temp directory after all handles of a crash-free history were dropped")); }
    if let Some(d) = &drv { sum.model_requests = d.requests; }
    let _ = std::fs::remove_dir_all(&base); let _ = std::fs::remove_dir_all(&lock_base);
    sum.finish(&args);
}
