/- Driver for C15 (timeline).
   wire formats:  frames  = `-` | comma list of `id:ts:role:status`   role ∈ d(ocument) c(hunk) i(mage), status ∈ a(ctive) s(uperseded) x(deleted)
                  entries = `-` | comma list of `ts:id`
                  index   = `none` | entries            (`none` ↔ toc.time_index is None)
                  since/until = `n` | integer;  limit = 0 (no limit) | n;  rev = 0 | 1
   requests:  tl cur|fix <frames> <index> <since> <until> <limit> <rev>  → ok <entries> | err unsorted-index
              tindex <frames>        → <entries>      (time index written by rebuild_indexes)
              sort <entries>         → <entries>      (append_track's sort)
              readtrack <entries>    → ok <entries> | err unsorted-index -/
import MvModel.Timeline
import MvModel.DrvUtil
open Mv Mv.Timeline

def parseRole : String → Option Role
  | "d" => some .document | "c" => some .chunk | "i" => some .image | _ => none
def parseStatus : String → Option Status
  | "a" => some .active | "s" => some .superseded | "x" => some .deleted | _ => none

def parseFrame (s : String) : Option Frame :=
  match s.splitOn ":" with
  | [i, t, r, st] => do
      let i ← i.toNat?
      let t ← parseInt t
      let r ← parseRole r
      let st ← parseStatus st
      pure { id := i, ts := t, role := r, status := st }
  | _ => none

def parseFrames (s : String) : Option (List Frame) :=
  if s == "-" then some [] else (s.splitOn ",").mapM parseFrame

def parseEntry (s : String) : Option Entry :=
  match s.splitOn ":" with
  | [t, i] => do
      let t ← parseInt t
      let i ← i.toNat?
      pure { ts := t, id := i }
  | _ => none

def parseEntries (s : String) : Option (List Entry) :=
  if s == "-" then some [] else (s.splitOn ",").mapM parseEntry

def parseIndex (s : String) : Option (Option (List Entry)) :=
  if s == "none" then some none else (parseEntries s).map some

def parseOptInt (s : String) : Option (Option Int) :=
  if s == "n" then some none else (parseInt s).map some

def showEntries (l : List Entry) : String :=
  if l.isEmpty then "-" else ",".intercalate (l.map (fun e => s!"{e.ts}:{e.id}"))

def showRes (r : Option (List Entry)) : String :=
  match r with
  | none => "err unsorted-index"
  | some l => "ok " ++ showEntries l

def step (_ : Unit) (ws : List String) : Unit × String :=
  match ws with
  | ["tl", v, fr, ix, si, un, li, rv] =>
      match parseFrames fr, parseIndex ix, parseOptInt si, parseOptInt un, li.toNat?, rv.toNat? with
      | some frames, some ti, some since, some «until», some lim, some r =>
          let q : Query := { limit := if lim = 0 then none else some lim, since := since, «until» := «until», reverse := r != 0 }
          if v == "cur" then ((), showRes (timeline frames ti q))
          else if v == "fix" then ((), showRes (timelineFixed frames ti q))
          else ((), "bad-op")
      | _, _, _, _, _, _ => ((), "bad-op")
  | ["tindex", fr] => match parseFrames fr with
      | some frames => ((), showEntries (timeIndexOf frames))
      | none => ((), "bad-op")
  | ["sort", es] => match parseEntries es with
      | some l => ((), showEntries (sortE l))
      | none => ((), "bad-op")
  | ["readtrack", es] => match parseEntries es with
      | some l => ((), showRes (readTrack l))
      | none => ((), "bad-op")
  | _ => ((), "bad-op")

def main : IO Unit := runDriver () step
