/-
  C31 — Footer scan finds the most recent valid commit.
  Property theorems only; the model is MvModel/Footer.lean (mirror of /repo/src/footer.rs).
-/
import MvModel.Footer
namespace Mv.Footer

theorem slice_slice (b : Bytes) (o l o' l' : Nat) (h : o' + l' ≤ l) :
    slice (slice b o l) o' l' = slice b (o + o') l' := by
  simp only [slice, List.drop_take, List.take_take, List.drop_drop]
  congr 1
  omega

theorem slice_head (b : Bytes) (p n : Nat) (x : UInt8) (rest : Bytes)
    (h : slice b p (n+1) = x :: rest) : b[p]? = some x := by
  unfold slice at h
  have h0 : ((b.drop p).take (n+1))[0]? = some x := by rw [h]; rfl
  simpa [List.getElem?_take, List.getElem?_drop] using h0

/-- decoding the 56 bytes at a position where the fields are consistent -/
theorem decode_at (bytes : Bytes) (p : Nat) (hlen : p + FOOTER_SIZE ≤ bytes.length)
    (hm : slice bytes p 8 = MAGIC) :
    decode (slice bytes p FOOTER_SIZE) = some (sliceAt bytes p).footer := by
  have hl : (slice bytes p FOOTER_SIZE).length = FOOTER_SIZE := slice_length _ _ _ hlen
  unfold decode
  simp only [hl, ne_eq, not_true_eq_false, if_false]
  have e0 : slice (slice bytes p FOOTER_SIZE) 0 8 = slice bytes p 8 := by
    simpa using slice_slice bytes p FOOTER_SIZE 0 8 (by decide)
  have e1 : slice (slice bytes p FOOTER_SIZE) 8 8 = slice bytes (p+8) 8 :=
    slice_slice bytes p FOOTER_SIZE 8 8 (by decide)
  have e2 : slice (slice bytes p FOOTER_SIZE) 16 32 = slice bytes (p+16) 32 :=
    slice_slice bytes p FOOTER_SIZE 16 32 (by decide)
  have e3 : slice (slice bytes p FOOTER_SIZE) 48 8 = slice bytes (p+48) 8 :=
    slice_slice bytes p FOOTER_SIZE 48 8 (by decide)
  simp [e0, e1, e2, e3, hm, sliceAt]

theorem decode_some_magic (b : Bytes) (f : Footer) (h : decode b = some f) :
    b.length = FOOTER_SIZE ∧ slice b 0 8 = MAGIC ∧ f.tocLen = leVal (slice b 8 8) ∧
    f.tocHash = slice b 16 32 ∧ f.generation = leVal (slice b 48 8) := by
  unfold decode at h
  split at h
  · cases h
  · split at h
    · cases h
    · cases h
      simp_all

/-- one step of the scan, valid case -/
theorem scan_step_valid (H : Bytes → Bytes) (bytes : Bytes) (e : Nat) (hv : ValidAt H bytes e) :
    scanFrom H bytes (e+1) = some (sliceAt bytes e) := by
  obtain ⟨hlen, hm, hpos, hle, hh⟩ := hv
  have hb : bytes[e]? = some 0x4D := slice_head bytes e 7 0x4D _ hm
  have hd := decode_at bytes e hlen hm
  unfold scanFrom
  simp only [hb, if_true]
  have : ¬ (e + FOOTER_SIZE > bytes.length) := by omega
  simp only [this, if_false, hd]
  have h1 : ¬ ((sliceAt bytes e).footer.tocLen = 0 ∨ (sliceAt bytes e).footer.tocLen > e) := by
    simp only [sliceAt]; omega
  simp only [h1, if_false]
  have h2 : ¬ (H (slice bytes (e - (sliceAt bytes e).footer.tocLen) (sliceAt bytes e).footer.tocLen)
      ≠ (sliceAt bytes e).footer.tocHash) := by
    simp only [sliceAt]; exact fun hne => hne hh
  simp only [h2, if_false]
  rfl

/-- one step of the scan, invalid case: the position is skipped -/
theorem scan_step_invalid (H : Bytes → Bytes) (bytes : Bytes) (e : Nat) (hv : ¬ ValidAt H bytes e) :
    scanFrom H bytes (e+1) = scanFrom H bytes e := by
  have h0 : e = 0 → scanFrom H bytes e = none := by intro h; subst h; rfl
  rw [scanFrom]
  split
  · split
    · split
      · rename_i h; rw [h0 h]
      · rfl
    · rename_i hlen
      split
      · rename_i f hd
        split
        · rfl
        · rename_i hcond
          dsimp only
          split
          · rfl
          · rename_i hhash
            exfalso
            apply hv
            have hlen' : e + FOOTER_SIZE ≤ bytes.length := by omega
            obtain ⟨_, hm, htl, hth, _⟩ := decode_some_magic _ _ hd
            have e0 : slice (slice bytes e FOOTER_SIZE) 0 8 = slice bytes e 8 := by
              simpa using slice_slice bytes e FOOTER_SIZE 0 8 (by decide)
            have e1 : slice (slice bytes e FOOTER_SIZE) 8 8 = slice bytes (e+8) 8 :=
              slice_slice bytes e FOOTER_SIZE 8 8 (by decide)
            have e2 : slice (slice bytes e FOOTER_SIZE) 16 32 = slice bytes (e+16) 32 :=
              slice_slice bytes e FOOTER_SIZE 16 32 (by decide)
            rw [e1] at htl; rw [e2] at hth; rw [e0] at hm
            refine ⟨hlen', hm, ?_, ?_, ?_⟩
            · rw [← htl]; omega
            · rw [← htl]; omega
            · rw [← htl, ← hth]; simpa using hhash
      · split
        · rename_i h; rw [h0 h]
        · rfl
  · rfl

/-- **C31_naive** — the scan equals the naive reference scan at every bound. -/
theorem scanFrom_eq_naive (H : Bytes → Bytes) (bytes : Bytes) (e : Nat) :
    scanFrom H bytes e = naiveFrom H bytes e := by
  induction e with
  | zero => rfl
  | succ e ih =>
    by_cases hv : ValidAt H bytes e
    · rw [scan_step_valid H bytes e hv]; simp [naiveFrom, hv]
    · rw [scan_step_invalid H bytes e hv, ih]; simp [naiveFrom, hv]

theorem naive_some (H : Bytes → Bytes) (bytes : Bytes) (e : Nat) (s : FooterSlice)
    (h : naiveFrom H bytes e = some s) :
    s.footerOffset < e ∧ ValidAt H bytes s.footerOffset ∧ s = sliceAt bytes s.footerOffset ∧
    ∀ q, s.footerOffset < q → q < e → ¬ ValidAt H bytes q := by
  induction e with
  | zero => simp [naiveFrom] at h
  | succ e ih =>
    unfold naiveFrom at h
    split at h
    · rename_i hv
      cases h
      refine ⟨by simp [sliceAt], by simpa [sliceAt] using hv, by simp [sliceAt], ?_⟩
      intro q h1 h2; simp [sliceAt] at h1; omega
    · rename_i hv
      obtain ⟨a, b, c, d⟩ := ih h
      refine ⟨by omega, b, c, ?_⟩
      intro q h1 h2
      by_cases hq : q = e
      · subst hq; exact hv
      · exact d q h1 (by omega)

theorem naive_none (H : Bytes → Bytes) (bytes : Bytes) (e : Nat)
    (h : naiveFrom H bytes e = none) : ∀ q, q < e → ¬ ValidAt H bytes q := by
  induction e with
  | zero => intro q hq; omega
  | succ e ih =>
    unfold naiveFrom at h
    split at h
    · cases h
    · rename_i hv
      intro q hq
      by_cases hqe : q = e
      · subst hqe; exact hv
      · exact ih h q (by omega)

theorem valid_lt_len (H : Bytes → Bytes) (bytes : Bytes) (q : Nat) (h : ValidAt H bytes q) :
    q < bytes.length ∧ FOOTER_SIZE ≤ bytes.length := by
  have := h.1; simp [FOOTER_SIZE_eq] at *; omega

/-- **C31_naive** — `find_last_valid_footer` equals the naive scan over all offsets. -/
theorem C31_naive (H : Bytes → Bytes) (bytes : Bytes) : findLast H bytes = naiveScan H bytes := by
  unfold findLast naiveScan
  split
  · rename_i hlt
    cases hn : naiveFrom H bytes bytes.length with
    | none => rfl
    | some s =>
      have := (naive_some H bytes _ s hn).2.1
      have := (valid_lt_len H bytes _ this).2
      omega
  · exact scanFrom_eq_naive H bytes _

/-- **C31_sound** — a returned slice is a valid footer and carries exactly the bytes it describes. -/
theorem C31_sound (H : Bytes → Bytes) (bytes : Bytes) (s : FooterSlice) (h : findLast H bytes = some s) :
    ValidAt H bytes s.footerOffset ∧
    s.tocOffset + s.footer.tocLen = s.footerOffset ∧
    s.tocBytes = slice bytes s.tocOffset (s.footerOffset - s.tocOffset) ∧
    decode (slice bytes s.footerOffset FOOTER_SIZE) = some s.footer := by
  rw [C31_naive] at h
  obtain ⟨_, hv, hs, _⟩ := naive_some H bytes _ s h
  obtain ⟨hlen, hm, hpos, hle, hh⟩ := hv
  refine ⟨⟨hlen, hm, hpos, hle, hh⟩, ?_, ?_, ?_⟩
  · rw [hs]; simp only [sliceAt]; omega
  · rw [hs]; simp only [sliceAt]
    congr 1; omega
  · rw [decode_at bytes _ hlen hm]; exact congrArg (fun x => some x.footer) hs.symm

/-- **C31_highest** — no valid footer ends at a higher offset than the one returned. -/
theorem C31_highest (H : Bytes → Bytes) (bytes : Bytes) (s : FooterSlice) (h : findLast H bytes = some s) :
    ∀ q, s.footerOffset < q → ¬ ValidAt H bytes q := by
  rw [C31_naive] at h
  obtain ⟨_, _, _, hq⟩ := naive_some H bytes _ s h
  intro q h1 hv
  exact hq q h1 (valid_lt_len H bytes q hv).1 hv

/-- **C31_complete** — `none` is returned only when no offset holds a valid footer. -/
theorem C31_complete (H : Bytes → Bytes) (bytes : Bytes) (h : findLast H bytes = none) :
    ∀ q, ¬ ValidAt H bytes q := by
  rw [C31_naive] at h
  intro q hv
  exact naive_none H bytes _ h q (valid_lt_len H bytes q hv).1 hv

/-- the writer's output is recognised: TOC bytes followed by `encode` of a matching footer -/
theorem C31_finds_written (H : Bytes → Bytes) (pre toc : Bytes) (gen : Nat)
    (hH : (H toc).length = 32) (hne : toc ≠ []) (hl : toc.length < 2^64) :
    ValidAt H (pre ++ toc ++ encode { tocLen := toc.length, tocHash := H toc, generation := gen })
      (pre.length + toc.length) := by
  have hlen : 0 < toc.length := by cases toc <;> simp_all
  have h256 : (256:Nat)^8 = 2^64 := by decide
  have hv : leVal (u64le toc.length) = toc.length := leVal_leBytes 8 _ (by omega)
  have hpre : ∀ (k n : Nat) (tl : Bytes), slice (pre ++ toc ++ tl) (pre.length + toc.length + k) n =
      slice tl k n := by
    intro k n tl
    have : pre.length + toc.length + k = (pre ++ toc).length + k := by simp
    rw [slice, slice, this, List.drop_length_add_append]
  have hu : (u64le toc.length).length = 8 := by simp [u64le]
  have h8 : slice (pre ++ toc ++ encode { tocLen := toc.length, tocHash := H toc, generation := gen })
      (pre.length + toc.length + 8) 8 = u64le toc.length := by
    rw [hpre]; simp [slice, encode, MAGIC_eq, hu]
  refine ⟨?_, ?_, ?_, ?_, ?_⟩
  · simp [encode, MAGIC_eq, FOOTER_SIZE_eq, u64le, hH]; omega
  · have := hpre 0 8 (encode { tocLen := toc.length, tocHash := H toc, generation := gen })
    simp only [Nat.add_zero] at this
    rw [this]; simp [slice, encode, MAGIC_eq]
  · rw [h8, hv]; exact hlen
  · rw [h8, hv]; omega
  · rw [h8, hv]
    have h16 : slice (pre ++ toc ++ encode { tocLen := toc.length, tocHash := H toc, generation := gen })
        (pre.length + toc.length + 16) 32 = H toc := by
      rw [hpre]; simp [slice, encode, MAGIC_eq, hu, ← hH]
    rw [h16]
    congr 1
    have : pre.length + toc.length - toc.length = pre.length + 0 := by omega
    rw [this]
    simp [slice, List.append_assoc]

/-- non-vacuity: a concrete image with one valid footer (H = first 32 bytes, zero padded) -/
def toyH (b : Bytes) : Bytes := (b ++ zeros 32).take 32

example : (findLast toyH ([1,2,3] ++ encode { tocLen := 3, tocHash := toyH [1,2,3], generation := 7 })).map
    (fun s => (s.footerOffset, s.footer.generation, s.tocBytes)) = some (3, 7, [1,2,3]) := by decide

end Mv.Footer
