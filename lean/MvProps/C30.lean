/-
  C30 — File-format codecs round-trip and reject malformed input.
  Property theorems only.  Models: MvModel/Header.lean (src/io/header.rs), MvModel/Footer.lean
  (src/footer.rs), MvModel/TimeIndex.lean (src/io/time_index.rs), MvModel/Bincode.lean +
  MvModel/Toc.lean (src/toc.rs over the generated schema).  Helper lemmas: MvProps/C30Lemmas.lean,
  MvModel/BincodeLemmas.lean.
-/
import MvProps.C30Lemmas
import MvModel.BincodeLemmas
import MvModel.Toc
set_option linter.unusedSimpArgs false
set_option linter.unusedVariables false

/-! ## Commit footer (src/footer.rs) -/
namespace Mv.Footer

/-- what the Rust field types guarantee (`u64`, `[u8; 32]`, `u64`) -/
def WellFormed (f : Footer) : Prop := f.tocLen < 2^64 ∧ f.tocHash.length = 32 ∧ f.generation < 2^64

instance (f : Footer) : Decidable (WellFormed f) := by unfold WellFormed; infer_instance

theorem encode_length (f : Footer) (wf : WellFormed f) : (encode f).length = FOOTER_SIZE := by
  obtain ⟨_, h, _⟩ := wf
  simp [encode, MAGIC_eq, FOOTER_SIZE_eq, u64le, h]

/-- **C30_footer_roundtrip** — `CommitFooter::decode(f.encode()) = Some(f)`. -/
theorem C30_footer_roundtrip (f : Footer) (wf : WellFormed f) : decode (encode f) = some f := by
  have hl := encode_length f wf
  obtain ⟨h1, h2, h3⟩ := wf
  have h256 : (256:Nat)^8 = 2^64 := by decide
  have v1 : leVal (u64le f.tocLen) = f.tocLen := leVal_leBytes 8 _ (by omega)
  have v2 : leVal (u64le f.generation) = f.generation := leVal_leBytes 8 _ (by omega)
  have lu : ∀ v, (u64le v).length = 8 := fun v => by simp [u64le]
  have s0 : slice (encode f) 0 8 = MAGIC := by simp [slice, encode, MAGIC_eq]
  have s1 : slice (encode f) 8 8 = u64le f.tocLen := by simp [slice, encode, MAGIC_eq, lu]
  have s2 : slice (encode f) 16 32 = f.tocHash := by simp [slice, encode, MAGIC_eq, lu, ← h2]
  have s3 : slice (encode f) 48 8 = u64le f.generation := by
    have : encode f = (MAGIC ++ u64le f.tocLen ++ f.tocHash) ++ u64le f.generation ++ [] := by simp [encode]
    rw [this]; exact Mv.Header.slice_seg _ _ _ _ _ (by simp [MAGIC_eq, lu, h2]) (by simp [lu])
  unfold decode
  simp only [hl, ne_eq, not_true_eq_false, if_false, s0, s1, s2, s3, v1, v2]

/-- **C30_footer_decode_exact** — decoding is the exact inverse of encoding: whatever `decode`
    returns re-encodes to the very image that was decoded (so two different images never decode
    to the same footer, and no image decodes to a footer it does not spell out). -/
theorem C30_footer_decode_exact (b : Bytes) (f : Footer) (h : decode b = some f) :
    WellFormed f ∧ encode f = b := by
  unfold decode at h
  split at h
  · cases h
  · rename_i hl
    split at h
    · cases h
    · rename_i hm
      cases h
      have hl' : b.length = 56 := by simpa [FOOTER_SIZE_eq] using hl
      have hm' : slice b 0 8 = MAGIC := by simpa using hm
      have len : ∀ o n, o + n ≤ 56 → (slice b o n).length = n := fun o n hh => slice_length b o n (by omega)
      have lt8 : ∀ o, o + 8 ≤ 56 → leVal (slice b o 8) < 2^64 := by
        intro o ho
        have := leVal_lt (slice b o 8); rw [len o 8 ho] at this
        exact this
      have rt8 : ∀ o, o + 8 ≤ 56 → u64le (leVal (slice b o 8)) = slice b o 8 := by
        intro o ho
        have := leBytes_leVal (slice b o 8); rw [len o 8 ho] at this
        exact this
      refine ⟨⟨lt8 8 (by decide), len 16 32 (by decide), lt8 48 (by decide)⟩, ?_⟩
      simp only [encode, rt8 8 (by decide), rt8 48 (by decide), ← hm']
      have : b = slice b 0 56 := by simp [slice, ← hl']
      conv => rhs; rw [this, show (56:Nat) = 8 + (8 + (32 + 8)) by rfl]
      simp only [Mv.Header.slice_split, List.append_assoc]

/-- **C30_footer_rejects_length** — any image that is not exactly `FOOTER_SIZE` bytes is rejected. -/
theorem C30_footer_rejects_length (b : Bytes) (h : b.length ≠ FOOTER_SIZE) : decode b = none := by
  simp [decode, h]

/-- **C30_footer_rejects_magic** — any image whose first eight bytes are not `MV2FOOT!` is rejected. -/
theorem C30_footer_rejects_magic (b : Bytes) (h : slice b 0 8 ≠ MAGIC) : decode b = none := by
  unfold decode; split
  · rfl
  · simp [h]

/-- mutation form: an image that differs from `encode f` in any byte does not decode to `f` -/
theorem C30_footer_mutation (f : Footer) (b' : Bytes) (hne : b' ≠ encode f) : decode b' ≠ some f := by
  intro h
  exact hne (C30_footer_decode_exact b' f h).2.symm

example : WellFormed { tocLen := 3, tocHash := zeros 32, generation := 7 } := by decide
example : decode (encode { tocLen := 3, tocHash := zeros 32, generation := 2^64 - 1 }) =
    some { tocLen := 3, tocHash := zeros 32, generation := 2^64 - 1 } := by decide

end Mv.Footer

/-! ## Header (src/io/header.rs) -/
namespace Mv.Header

/-- **C30_header_roundtrip** — for every header the field types allow and the four value checks
    accept, `encode` succeeds with a 4096-byte image and `decode` returns the header. -/
theorem C30_header_roundtrip (h : Header) (wf : WellFormed h) (acc : Accepted h) :
    ∃ b, encode h = .ok b ∧ b.length = HEADER_SIZE ∧ decode b = .ok h ∧
      b = fieldBytes h ++ zeros (HEADER_SIZE - 80) := by
  refine ⟨_, encode_eq h wf acc, ?_, ?_, rfl⟩
  · simp [fieldBytes_length h wf, HEADER_SIZE_eq]
  · rw [decode_eq, firstError_canonical h wf acc, readFields_canonical h wf]

/-- **C30_header_encode_rejects** — `encode` refuses exactly the headers that fail a value check
    (magic, version, `wal_offset < WAL_OFFSET`, `wal_size = 0`). -/
theorem C30_header_encode_rejects (h : Header) : (∃ e, encode h = .error e) ↔ ¬ Accepted h := by
  unfold encode Accepted
  constructor
  · rintro ⟨e, he⟩ ⟨a1, a2, a3, a4⟩
    have h1 : ¬ (h.walOffset < WAL_OFFSET) := by omega
    have h2 : ¬ (h.walSize = 0) := by omega
    simp [a1, a2, h1, h2] at he
  · intro hn
    by_cases a1 : h.magic = MAGIC
    · by_cases a2 : h.version = EXPECTED_VERSION
      · by_cases a3 : h.walOffset < WAL_OFFSET
        · exact ⟨.walOffset, by simp [a1, a2, a3]⟩
        · by_cases a4 : h.walSize = 0
          · exact ⟨.walSize, by simp [a1, a2, a3, a4]⟩
          · exact absurd ⟨a1, a2, by omega, by omega⟩ hn
      · exact ⟨.version, by simp [a1, a2]⟩
    · exact ⟨.magic, by simp [a1]⟩

/-- **C30_header_decode_exact** — whatever `decode` returns passes the type and value checks and
    re-encodes to the decoded image with the padding zeroed: the first 80 bytes of an accepted
    image determine the header and are determined by it. -/
theorem C30_header_decode_exact (b : Bytes) (h : Header) (hd : decode b = .ok h) :
    WellFormed h ∧ Accepted h ∧ b.length = HEADER_SIZE ∧
    encode h = .ok (slice b 0 80 ++ zeros (HEADER_SIZE - 80)) := by
  rw [decode_eq] at hd
  cases hf : firstError b with
  | some e => rw [hf] at hd; cases hd
  | none =>
    rw [hf] at hd
    cases hd
    obtain ⟨wf, acc, hfb⟩ := decode_sound_fields b hf
    refine ⟨wf, acc, (firstError_none b hf).1, ?_⟩
    rw [encode_eq _ wf acc, hfb]

/-- **C30_header_rejects** — `decode` fails with the first failing check, in the code's order:
    magic, version, spec bytes, `wal_offset`, `wal_size`; and succeeds only when none fails. -/
theorem C30_header_rejects (b : Bytes) (hl : b.length = HEADER_SIZE) :
    (slice b 0 4 ≠ MAGIC → decode b = .error .magic) ∧
    (slice b 0 4 = MAGIC → leVal (slice b VERSION_OFFSET 2) ≠ EXPECTED_VERSION → decode b = .error .version) ∧
    (slice b 0 4 = MAGIC → leVal (slice b VERSION_OFFSET 2) = EXPECTED_VERSION →
       (b[SPEC_BYTES_OFFSET]? ≠ some (UInt8.ofNat SPEC_MAJOR) ∨ b[SPEC_BYTES_OFFSET + 1]? ≠ some (UInt8.ofNat SPEC_MINOR)) →
       decode b = .error .spec) ∧
    (leVal (slice b WAL_OFFSET_POS 8) < WAL_OFFSET → ∃ e, decode b = .error e) ∧
    (leVal (slice b WAL_SIZE_POS 8) = 0 → ∃ e, decode b = .error e) := by
  rw [decode_eq]
  refine ⟨?_, ?_, ?_, ?_, ?_⟩
  · intro h; simp [firstError, hl, h]
  · intro h1 h2; simp [firstError, hl, h1, h2]
  · intro h1 h2 h3; simp only [firstError, hl, h1, h2, h3, ne_eq, not_true_eq_false, if_false, if_true]
  · intro h
    cases hf : firstError b with
    | some e => exact ⟨e, rfl⟩
    | none => have := (firstError_none b hf).2.2.2.2.2.1; omega
  · intro h
    cases hf : firstError b with
    | some e => exact ⟨e, rfl⟩
    | none => have := (firstError_none b hf).2.2.2.2.2.2; omega

/-- **C30_header_fixed_prefix** — the magic, version and spec bytes of every accepted image are
    the constants: any mutation confined to bytes `[0, 8)` is rejected. -/
theorem C30_header_fixed_prefix (b : Bytes) (h : Header) (hd : decode b = .ok h) :
    slice b 0 8 = MAGIC ++ u16le EXPECTED_VERSION ++ [UInt8.ofNat SPEC_MAJOR, UInt8.ofNat SPEC_MINOR] := by
  rw [decode_eq] at hd
  cases hf : firstError b with
  | some e => rw [hf] at hd; cases hd
  | none => exact prefix_of_ok b hf

/-- mutation form: a 4096-byte image that differs from `encode h` inside the 80 field bytes never
    decodes to `h` -/
theorem C30_header_mutation (h : Header) (b b' : Bytes) (he : encode h = .ok b)
    (hne : slice b' 0 80 ≠ slice b 0 80) : decode b' ≠ .ok h := by
  intro hd
  obtain ⟨wf, acc, hl, he'⟩ := C30_header_decode_exact b' h hd
  rw [he] at he'
  have hb : b = slice b' 0 80 ++ zeros (HEADER_SIZE - 80) := by injection he'
  apply hne
  rw [hb]
  have : (slice b' 0 80).length = 80 := slice_length _ _ _ (by rw [hl, HEADER_SIZE_eq]; omega)
  have := slice_seg [] (slice b' 0 80) (zeros (HEADER_SIZE - 80)) 0 80 rfl this.symm
  simpa using this.symm

def sampleHeader : Header :=
  { magic := MAGIC, version := EXPECTED_VERSION, footerOffset := 1048576, walOffset := WAL_OFFSET,
    walSize := 4194304, walCheckpointPos := 0, walSequence := 42, tocChecksum := List.replicate 32 0xAB }

example : WellFormed sampleHeader ∧ Accepted sampleHeader := by decide
example : (match encode sampleHeader with
    | .ok b => (match decode b with | .ok h => decide (h = sampleHeader) | .error _ => false)
    | .error _ => false) = true := by
  decide +kernel

end Mv.Header

/-! ## Time index track (src/io/time_index.rs) -/
namespace Mv.TimeIndex

/-- **C30_timeidx_sorted** — `append_track` leaves the entries as a sorted permutation of its
    input (by `(timestamp, frame_id)`), and writes the canonical bytes of that sorted list. -/
theorem C30_timeidx_sorted (es : List Entry) :
    (appendTrack es).1.Pairwise (fun a b => le a b = true) ∧ (appendTrack es).1.Perm es ∧
    (appendTrack es).2 = trackBytes (appendTrack es).1 ∧
    (appendTrack es).2.length = 12 + 16 * es.length := by
  refine ⟨List.pairwise_mergeSort le_trans' le_total' es, List.mergeSort_perm es le, rfl, ?_⟩
  simp [appendTrack, trackBytes_length, List.length_mergeSort]

/-- **C30_timeidx_roundtrip** — reading back what `append_track` wrote (anywhere in a stream,
    with the `(offset, length)` it returned) yields exactly the sorted entries. -/
theorem C30_timeidx_roundtrip (pre post : Bytes) (es : List Entry)
    (hr : ∀ e ∈ es, InRange e) (hn : es.length * 16 < 2^64) :
    readTrack (pre ++ (appendTrack es).2 ++ post) pre.length (appendTrack es).2.length
      = .ok (appendTrack es).1 := by
  have hp : (es.mergeSort le).Perm es := List.mergeSort_perm es le
  exact readTrack_written pre post _ (List.pairwise_mergeSort le_trans' le_total' es)
    (fun e he => hr e (hp.mem_iff.mp he)) (by rw [List.length_mergeSort]; exact hn)

/-- **C30_timeidx_decode_exact** — whatever `read_track` returns is sorted, in range, has the
    declared count, `length = 12 + 16·count`, lies inside the stream, and its canonical encoding
    is exactly the `length` bytes at `offset`. -/
theorem C30_timeidx_decode_exact (file : Bytes) (off len : Nat) (es : List Entry)
    (h : readTrack file off len = .ok es) :
    es.Pairwise (fun a b => le a b = true) ∧ (∀ e ∈ es, InRange e) ∧ len = 12 + 16 * es.length ∧
    es.length = leVal (slice file (off + 4) 8) ∧ off + len ≤ file.length ∧
    slice file off len = trackBytes es :=
  let ⟨a, b, c, d, _, e, f⟩ := readTrack_sound file off len es h
  ⟨a, b, c, d, e, f⟩

/-- **C30_timeidx_rejects_magic** -/
theorem C30_timeidx_rejects_magic (file : Bytes) (off len : Nat)
    (h : slice file off 4 ≠ MAGIC) : ∃ e, readTrack file off len = .error e := by
  unfold readTrack
  dsimp only
  split
  · exact ⟨_, rfl⟩
  · have : (file.drop off).take 4 ≠ MAGIC := h
    simp only [this, ne_eq, not_false_eq_true, if_true]
    exact ⟨_, rfl⟩

/-- **C30_timeidx_rejects_length** — a `length` that is not `12 + 16·count` for the count stored
    in the image is rejected. -/
theorem C30_timeidx_rejects_length (file : Bytes) (off len : Nat)
    (h : len ≠ 12 + 16 * leVal (slice file (off + 4) 8)) : ∃ e, readTrack file off len = .error e := by
  cases hr : readTrack file off len with
  | error e => exact ⟨e, rfl⟩
  | ok es =>
    obtain ⟨_, _, c, d, _⟩ := C30_timeidx_decode_exact file off len es hr
    omega

/-- **C30_timeidx_rejects_unsorted** — the canonical image of an unsorted entry list is rejected
    (the reader neither re-sorts it nor returns it). -/
theorem C30_timeidx_rejects_unsorted (pre post : Bytes) (s : List Entry) (len : Nat)
    (hr : ∀ e ∈ s, InRange e) (hn : s.length * 16 < 2^64)
    (hns : ¬ s.Pairwise (fun a b => le a b = true)) :
    ∃ e, readTrack (pre ++ trackBytes s ++ post) pre.length len = .error e := by
  cases hrd : readTrack (pre ++ trackBytes s ++ post) pre.length len with
  | error e => exact ⟨e, rfl⟩
  | ok es =>
    exfalso
    obtain ⟨hp, _⟩ := readTrack_sound _ _ _ _ hrd
    have h256 : (256:Nat)^8 = 2^64 := by decide
    have hd : (pre ++ trackBytes s ++ post).drop pre.length = MAGIC ++ (u64le s.length ++ (encodeEntries s ++ post)) := by
      simp [trackBytes, List.append_assoc]
    have lu : (u64le s.length).length = 8 := by simp [u64le]
    have hv : leVal (u64le s.length) = s.length := leVal_leBytes 8 _ (by omega)
    unfold readTrack at hrd
    simp only [hd] at hrd
    have t1 : (MAGIC ++ (u64le s.length ++ (encodeEntries s ++ post))).take 4 = MAGIC := by
      simp [List.take_append, MAGIC_length]
    have t2 : (MAGIC ++ (u64le s.length ++ (encodeEntries s ++ post))).drop 4 = u64le s.length ++ (encodeEntries s ++ post) := by
      simp [List.drop_append, MAGIC_length]
    have t3 : (u64le s.length ++ (encodeEntries s ++ post)).take 8 = u64le s.length := by simp [List.take_append, lu]
    have t4 : (u64le s.length ++ (encodeEntries s ++ post)).drop 8 = encodeEntries s ++ post := by simp [List.drop_append, lu]
    simp only [t1, t2, t3, t4, hv, ne_eq, not_true_eq_false, if_false] at hrd
    split at hrd
    · cases hrd
    · split at hrd
      · cases hrd
      · split at hrd
        · cases hrd
        · split at hrd
          · cases hrd
          · split at hrd
            · cases hrd
            · have := readLoop_encode_eq s post none es hr hrd
              subst this
              exact hns hp

/-- the witness of the pre-allocation defect: while the source pre-allocates the declared count
    uncapped, a 12-byte track image declaring 2^59 entries (with the matching `length`) makes
    `read_track` panic instead of returning an error -/
theorem C30_timeidx_prealloc_witness (h : PREALLOC_CAP = none) :
    reachesPrealloc (MAGIC ++ u64le (2^59)) 0 (12 + 2^63) = some (2^59) ∧
    preallocPanics (preallocRequest (2^59)) = true := by
  refine ⟨by decide, ?_⟩
  simp only [preallocRequest, h]
  decide

instance (e : Entry) : Decidable (InRange e) := by unfold InRange; infer_instance

example : (∀ e ∈ [(⟨-1, 7⟩ : Entry), ⟨5, 1⟩, ⟨5, 2⟩], InRange e) ∧ [(⟨-1, 7⟩ : Entry), ⟨5, 1⟩, ⟨5, 2⟩].length * 16 < 2^64 := by
  refine ⟨?_, by decide⟩
  intro e he
  simp only [List.mem_cons, List.not_mem_nil, or_false] at he
  rcases he with rfl | rfl | rfl <;> decide
example : (match readTrack ([9] ++ trackBytes [⟨-1, 7⟩, ⟨5, 1⟩, ⟨5, 2⟩] ++ [3]) 1 60 with
    | .ok es => decide (es = [⟨-1, 7⟩, ⟨5, 1⟩, ⟨5, 2⟩]) | .error _ => false) = true := by decide
example : (match readTrack (trackBytes [⟨5, 2⟩, ⟨-1, 7⟩]) 0 44 with
    | .error .unsorted => true | _ => false) = true := by decide

end Mv.TimeIndex

/-! ## Bincode (generic) and the TOC (src/toc.rs) -/
namespace Mv.Toc
open Mv.Bincode Mv.Gen.C30Toc

/-- **C30_bincode_prefix** — the one generic theorem: for every schema, every well-typed value and
    every byte string `rest`, decoding `encode s v ++ rest` returns `v` and leaves exactly `rest`.
    (`ext` is the foreign date parser; well-typedness of a `strExt` leaf says it is canonical for it.) -/
theorem C30_bincode_prefix (ext : Nat → Bytes → Option Bytes) (s : Schema) (v : Value) (rest : Bytes)
    (h : WellTyped ext s v) : decode ext s (encode s v ++ rest) = some (v, rest) :=
  bincode_prefix ext s v rest h

/-- **C30_bincode_exact** — the second generic theorem: at a strict schema (no lenient leaf) the
    decoder accepts only canonical encodings.  Whatever `decode` returns is well typed and the bytes
    it consumed are exactly the encoding of that value: a corrupted length prefix, option tag, enum
    tag, bool or string is either rejected or yields the value the corrupted bytes canonically
    spell — never anything else. -/
theorem C30_bincode_exact (ext : Nat → Bytes → Option Bytes) (s : Schema) (hs : strict s = true)
    (b : Bytes) (v : Value) (rest : Bytes) (h : decode ext s b = some (v, rest)) :
    WellTyped ext s v ∧ b = encode s v ++ rest :=
  bincode_exact ext s hs b v rest h

/-- consequently, on strict schemas two different images never decode to the same value + rest -/
theorem C30_bincode_injective (ext : Nat → Bytes → Option Bytes) (s : Schema) (hs : strict s = true)
    (b b' : Bytes) (v : Value) (rest : Bytes)
    (h : decode ext s b = some (v, rest)) (h' : decode ext s b' = some (v, rest)) : b = b' := by
  rw [(bincode_exact ext s hs b v rest h).2, (bincode_exact ext s hs b' v rest h').2]

/-- which parts of the generated TOC schema are strict: every manifest, the segment catalog, the
    ticket, the queue — everything except `Frame` (its `canonical_encoding` is decoded leniently and
    its `extra_metadata` / audio `tags` maps accept duplicate or unsorted keys) and `MemoryBinding`
    (its date goes through chrono) -/
theorem C30_toc_strict_parts :
    strict s_SegmentMeta = true ∧ strict s_IndexManifests = true ∧ strict s_TimeIndexManifest = true ∧
    strict s_TemporalTrackManifest = true ∧ strict s_MemoriesTrackManifest = true ∧ strict s_LogicMeshManifest = true ∧
    strict s_SketchTrackManifest = true ∧ strict s_SegmentCatalog = true ∧ strict s_TicketRef = true ∧
    strict s_ReplayManifest = true ∧ strict s_EnrichmentQueueManifest = true ∧
    strict s_DocExifMetadata = true ∧ strict s_MediaManifest = true ∧ strict s_TextChunkManifest = true ∧
    strict s_Frame = false ∧ strict s_DocAudioMetadata = false ∧ strict s_MemoryBinding = false := by decide

theorem decodeLim_encode (ext : Nat → Bytes → Option Bytes) (s : Schema) (v : Value) (rest : Bytes)
    (h : WellTyped ext s v) (hl : (encode s v).length ≤ LIMIT) :
    decodeLim ext s (encode s v ++ rest) = some (v, rest) := by
  unfold decodeLim
  rw [bincode_prefix ext s v rest h]
  have : (encode s v ++ rest).length - rest.length ≤ LIMIT := by simp; exact hl
  simp [this, hl]

/-- **C30_toc_roundtrip** — `Toc::decode(t.encode()) = Ok(t)` for every TOC value of the generated
    schema whose encoding fits the decoder's byte limit (`MAX_INDEX_BYTES`). -/
theorem C30_toc_roundtrip (ext : Nat → Bytes → Option Bytes) (t : Value)
    (h : WellTyped ext tocSchema t) (hl : (encodeToc t).length ≤ LIMIT) :
    decodeToc ext (encodeToc t) = .ok t := by
  have := decodeLim_encode ext tocSchema t [] h hl
  simp only [List.append_nil] at this
  simp [decodeToc, encodeToc, this]

/-- **C30_toc_rejects_trailing** — a valid TOC image followed by at least one byte is rejected with
    "unexpected trailing bytes" (the legacy decoders are not even consulted). -/
theorem C30_toc_rejects_trailing (ext : Nat → Bytes → Option Bytes) (t : Value) (extra : Bytes)
    (h : WellTyped ext tocSchema t) (hl : (encodeToc t).length ≤ LIMIT) (hne : extra ≠ []) :
    decodeToc ext (encodeToc t ++ extra) = .error .trailing := by
  have := decodeLim_encode ext tocSchema t extra h hl
  simp [decodeToc, encodeToc, this, hne]

/-- **C30_toc_lenient_roundtrip** — `decode_lenient` ignores the trailing bytes and returns the value. -/
theorem C30_toc_lenient_roundtrip (ext : Nat → Bytes → Option Bytes) (t : Value) (extra : Bytes)
    (h : WellTyped ext tocSchema t) (hl : (encodeToc t).length ≤ LIMIT) :
    decodeLenient ext (encodeToc t ++ extra) = .ok t := by
  have := decodeLim_encode ext tocSchema t extra h hl
  simp [decodeLenient, encodeToc, this]

/-- **C30_toc_legacy_v2** — a pre-replay (V2) image that the current-format decoder does not
    accept is read through `LegacyTocV2` and mapped by `From<LegacyTocV2>`; with trailing bytes it
    is rejected. -/
theorem C30_toc_legacy_v2 (ext : Nat → Bytes → Option Bytes) (l : Value) (extra : Bytes)
    (h : WellTyped ext tocV2Schema l) (hl : (encode tocV2Schema l).length ≤ LIMIT)
    (hcur : decodeLim ext tocSchema (encode tocV2Schema l ++ extra) = none) :
    decodeToc ext (encode tocV2Schema l ++ extra) =
      if extra ≠ [] then .error .trailingV2
      else match remap fromV2 l with | some t => .ok t | none => .error .decode := by
  have := decodeLim_encode ext tocV2Schema l extra h hl
  simp only [decodeToc, hcur, this]
  by_cases hne : extra = []
  · cases hrm : remap fromV2 l <;> simp [hne, hrm]
  · simp [hne]

theorem toc_schemas_wf : wfSchema tocSchema = true ∧ wfSchema tocV2Schema = true ∧ wfSchema tocV1Schema = true := by decide

/-- **C30_toc_decode_wellformed** — whatever the current-format path of `Toc::decode` returns
    (lenient leaves included) is a well-typed TOC, and its canonical encoding decodes to the same
    value: the decoder never produces a value outside the type, and never one that its own
    encoder would not reproduce. -/
theorem C30_toc_decode_wellformed (ext : Nat → Bytes → Option Bytes) (hext : ExtCanonical ext)
    (b : Bytes) (t : Value) (h : decodeLim ext tocSchema b = some (t, [])) :
    WellTyped ext tocSchema t ∧ decodeToc ext b = .ok t ∧
    ((encodeToc t).length ≤ LIMIT → decodeToc ext (encodeToc t) = .ok t) := by
  have hd : decode ext tocSchema b = some (t, []) := by
    unfold decodeLim at h
    split at h
    · rename_i v rest hv
      split at h
      · injection h with h; injection h with e1 e2; subst e1 e2; exact hv
      · cases h
    · cases h
  have hw := decode_wt ext hext tocSchema toc_schemas_wf.1 b t [] hd
  refine ⟨hw, by simp [decodeToc, h], fun hl => C30_toc_roundtrip ext t hw hl⟩

/-- **C30_bincode_decode_welltyped** — third generic theorem: at every schema, lenient leaves
    included, a successful decode returns a value of the type (well typed), provided the foreign
    parser returns canonical strings; so `decode (encode (decode b)) = decode b`. -/
theorem C30_bincode_decode_welltyped (ext : Nat → Bytes → Option Bytes) (hext : ExtCanonical ext)
    (s : Schema) (hw : wfSchema s = true) (b : Bytes) (v : Value) (rest : Bytes)
    (h : decode ext s b = some (v, rest)) :
    WellTyped ext s v ∧ ∀ rest', decode ext s (encode s v ++ rest') = some (v, rest') :=
  ⟨decode_wt ext hext s hw b v rest h, fun r => decode_normal_form ext hext s hw b v rest h r⟩

/-- non-vacuity of `ExtCanonical`: a parser that accepts exactly the valid UTF-8 strings shorter
    than 2^64 and returns them unchanged.  (The driver's identity `extId` is NOT canonical in this
    sense — it would return invalid UTF-8 unchanged — which is harmless there because `strExt`
    hands it only strings that already passed the UTF-8 check; the theorem is stated for parsers
    that are.) -/
def extStrict (_ : Nat) (x : Bytes) : Option Bytes :=
  if utf8Valid x = true ∧ x.length < 2^64 then some x else none

example : ExtCanonical extStrict := by
  intro k x x' h
  unfold extStrict at h
  split at h
  · rename_i hc
    injection h with h
    subst h
    exact ⟨hc.2, hc.1, by simp [extStrict, hc]⟩
  · cases h

/-- **C30_toc_checksum_iff** — exactly when `verify_checksum` accepts: the stored checksum is the
    hash of the current encoding with the checksum zeroed, or — only for a TOC without replay
    manifest — of the V2 re-encoding, or — only without replay manifest and memories track — of
    the V1 re-encoding. -/
theorem C30_toc_checksum_iff (H : Bytes → Bytes) (t : Value) :
    verifyChecksum H t = true ↔
      (some (Value.bytes (H (encodeToc (zeroChecksum t)))) = storedChecksum t) ∨
      (fieldsNone v2Guard t = true ∧ legacyDigest H toV2 tocV2Schema t = storedChecksum t ∧ (storedChecksum t).isSome = true) ∨
      (fieldsNone v1Guard t = true ∧ legacyDigest H toV1 tocV1Schema t = storedChecksum t ∧ (storedChecksum t).isSome = true) := by
  unfold verifyChecksum
  split
  · simp_all
  · rename_i h1
    split
    · rename_i h2
      simp only [Bool.and_eq_true, decide_eq_true_eq] at h2
      simp [h1, h2]
    · rename_i h2
      split
      · rename_i h3
        simp only [Bool.and_eq_true, decide_eq_true_eq] at h3
        simp [h1, h3]
      · rename_i h3
        simp only [Bool.and_eq_true, decide_eq_true_eq, not_and] at h2 h3
        simp only [h1, false_or, Bool.false_eq_true, false_iff, not_or, not_and]
        exact ⟨fun a b => h2 ⟨a, b⟩, fun a b => h3 ⟨a, b⟩⟩

theorem guard_subset : ∀ i ∈ v2Guard, i ∈ v1Guard := by decide

/-- **C30_toc_checksum_detects** — for a TOC that carries a replay manifest (any TOC written by the
    current code path with replay data) a stored checksum different from the hash of its zeroed
    encoding is always reported; no legacy fallback applies. -/
theorem C30_toc_checksum_detects (H : Bytes → Bytes) (t : Value)
    (hr : fieldsNone v2Guard t = false)
    (hne : some (Value.bytes (H (encodeToc (zeroChecksum t)))) ≠ storedChecksum t) :
    verifyChecksum H t = false := by
  have h1 : fieldsNone v1Guard t = false := by
    cases hc : fieldsNone v1Guard t with
    | false => rfl
    | true =>
      have : fieldsNone v2Guard t = true := by
        simp only [fieldsNone, List.all_eq_true] at hc ⊢
        intro i hi; exact hc i (guard_subset i hi)
      rw [this] at hr; cases hr
  cases hv : verifyChecksum H t with
  | false => rfl
  | true =>
    rcases (C30_toc_checksum_iff H t).mp hv with h | h | h
    · exact absurd h hne
    · rw [hr] at h; exact absurd h.1 (by simp)
    · rw [h1] at h; exact absurd h.1 (by simp)

/-- a stamped TOC verifies -/
theorem C30_toc_checksum_accepts (H : Bytes → Bytes) (t : Value)
    (h : storedChecksum t = some (Value.bytes (H (encodeToc (zeroChecksum t))))) : verifyChecksum H t = true :=
  (C30_toc_checksum_iff H t).mpr (Or.inl h.symm)

/-! non-vacuity: a concrete TOC value (no frames, one segment, ticket "m") is well typed at the
    generated schema, round-trips, and is rejected with one trailing byte -/
def extId (_ : Nat) (b : Bytes) : Option Bytes := some b

def sampleToc : Value := Value.ofList [
  .nat 1,
  Value.ofList [Value.ofList [.nat 0, Value.ofList [.nat 0, .nat 2], .bytes (zeros 32), .nat 1, .nat 4096, .nat 512]],
  .unit,
  Value.ofList [.none, .unit, .none, .none],
  .some (Value.ofList [.nat 8192, .nat 96, .nat 2, .bytes (zeros 32)]),
  .none, .none, .none, .none,
  Value.ofList [.nat 0, .nat 1, .bool false, .unit, .unit, .unit, .unit, .unit, .unit],
  Value.ofList [.bytes [0x6D], .int (-1), .nat 3600, .nat 0, .bool false],
  .none, .none,
  Value.ofList [.unit, .nat 0],
  .bytes (zeros 32), .bytes (zeros 32)]

example : WellTyped extId tocSchema sampleToc := by unfold WellTyped; decide +kernel
example : decide ((encodeToc sampleToc).length ≤ LIMIT) = true := by decide +kernel
example : (match decodeToc extId (encodeToc sampleToc) with
    | .ok t => decide (t = sampleToc) | .error _ => false) = true := by decide +kernel
example : (match decodeToc extId (encodeToc sampleToc ++ [0]) with
    | .error .trailing => true | _ => false) = true := by decide +kernel
example : fieldsNone v2Guard sampleToc = true := by decide +kernel

end Mv.Toc
