#!/bin/sh
# Build everything once from files on disk (offline): generated Lean data, all property
# modules + model drivers, all harness binaries.  Every check rebuilds incrementally.
set -u
cd /verif
export CARGO_NET_OFFLINE=true
mkdir -p evidence replays .work
for g in tools/gen/C*.py; do [ -f "$g" ] && (cd tools/gen && python3 "$(basename "$g")") ; done
cd /verif/lean
mods=""; for f in MvProps/C*.lean; do [ -f "$f" ] && mods="$mods MvProps.$(basename "$f" .lean)"; done
drvs=""; for f in MvDrv/C*.lean; do [ -f "$f" ] && drvs="$drvs drv_$(basename "$f" .lean | tr 'C' 'c')"; done
lake build $mods $drvs 2>&1 | tail -5
cd /verif/harness
cp -f /repo/Cargo.lock Cargo.lock 2>/dev/null || true
cargo build --offline --bins 2>&1 | tail -3
cargo build --offline --features hist --bins 2>&1 | tail -3
if ls src/bin | grep -q '^c29.rs$'; then cargo build --offline --features encryption --bin c29 2>&1 | tail -1; fi
exit 0
