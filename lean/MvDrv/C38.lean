/- Driver for C38 (SIMD L2 distance), model instantiated over exact rationals.
   A vector travels as hex, 8 digits per f32 bit pattern (big-endian), `-` = empty.
   requests:  sq <A> <B>        → panic | nonfinite | sq <num> <den>      l2_distance_squared_simd, exact
              scalar <A> <B>    → nonfinite | sq <num> <den>               scalar definition, exact
              dist <A> <B>      → panic | nonfinite | dist <num> <den> exact|floor   (sqrt; `exact` iff perfect square)
              err <R> <A> <B>   → panic | nonfinite | ulps <n> | ulps inf  ⌊|R − E| / E · 2^24⌋ for E = exact squared distance
              derr <R> <A> <B>  → same for a distance R: ⌊|R² − E| / E · 2^24⌋ -/
import MvModel.Simd
import MvModel.DrvUtil
open Mv Mv.Simd

def words : List UInt8 → Option (List Nat)
  | [] => some []
  | a :: b :: c :: d :: rest =>
    (words rest).map fun t => (a.toNat * 2 ^ 24 + b.toNat * 2 ^ 16 + c.toNat * 2 ^ 8 + d.toNat) :: t
  | _ => none

def parseVec (s : String) : Option (Option (List Rat)) :=   -- none = malformed, some none = non-finite
  match ofHex s with
  | none => none
  | some bytes => match words bytes with
    | none => none
    | some ws => some (ws.mapM f32ToRat)

def showRat (tag : String) (r : Rat) : String := s!"{tag} {r.num} {r.den}"

def relUlps (r e : Rat) : String :=
  let d := if r ≥ e then r - e else e - r
  if e = 0 then (if d = 0 then "ulps 0" else "ulps inf")
  else s!"ulps {(d * ((2 ^ 24 : Nat) : Rat) / e).floor}"

def withVecs (sa sb : String) (k : List Rat → List Rat → String) : String :=
  match parseVec sa, parseVec sb with
  | some (some a), some (some b) => k a b
  | some _, some _ => "nonfinite"
  | _, _ => "bad-op"

def step (_ : Unit) (ws : List String) : Unit × String :=
  match ws with
  | ["sq", sa, sb] => ((), withVecs sa sb fun a b =>
      match l2DistanceSquaredSimd ratOps a b with
      | none => "panic"
      | some r => showRat "sq" r)
  | ["scalar", sa, sb] => ((), withVecs sa sb fun a b => showRat "sq" (scalarSumSq ratOps a b))
  | ["dist", sa, sb] => ((), withVecs sa sb fun a b =>
      match l2DistanceSquaredSimd ratOps a b, l2DistanceSimd ratOps a b with
      | some e, some r => showRat "dist" r ++ (if r * r = e then " exact" else " floor")
      | _, _ => "panic")
  | ["err", sr, sa, sb] => ((), withVecs sa sb fun a b =>
      match parseVec sr, l2DistanceSquaredSimd ratOps a b with
      | some (some [r]), some e => relUlps r e
      | some (some [_]), none => "panic"
      | some none, _ => "nonfinite"
      | _, _ => "bad-op")
  | ["derr", sr, sa, sb] => ((), withVecs sa sb fun a b =>
      match parseVec sr, l2DistanceSquaredSimd ratOps a b with
      | some (some [r]), some e => relUlps (r * r) e
      | some (some [_]), none => "panic"
      | some none, _ => "nonfinite"
      | _, _ => "bad-op")
  | _ => ((), "bad-op")

def main : IO Unit := runDriver () step
