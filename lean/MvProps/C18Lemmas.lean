/-
  Helper lemmas for MvProps/C18.lean (no property statements): the read-only log never touches its
  region, header decoding ignores the legacy padding, quiet handles stay quiet, the TOC seen by a
  handle never changes its frame list, and the tail scan of a file whose last footer is its tail.
-/
import MvModel.ReadOnly
import MvProps.C31
import MvProps.C30Lemmas
set_option linter.unusedSimpArgs false
set_option linter.unusedVariables false

namespace Mv.ReadOnly
open Mv

/-! ### writes -/

@[simp] theorem applyAll_nil (d : Bytes) : applyAll d [] = d := rfl

@[simp] theorem emit_nil (h : Handle) : h.emit [] = h := by
  cases h; simp [Handle.emit, applyAll]

/-! ### the log opened read-only -/

theorem wal_open_ro (H : Bytes → Bytes) (S : Nat) (region : Bytes) (a b : Nat) (w : Mv.Wal.Wal)
    (h : Mv.Wal.openFromHeader H S region a b true = .ok w) : w.region = region ∧ w.ro = true := by
  unfold Mv.Wal.openFromHeader at h
  split at h
  · cases h
  · simp only [if_true, Except.ok.injEq] at h
    subst h
    exact ⟨rfl, rfl⟩

theorem wal_pending_ro (H : Bytes → Bytes) (w w' : Mv.Wal.Wal) (rs : List Mv.Wal.Rec) (hro : w.ro = true)
    (h : Mv.Wal.pendingRecords H w = .ok (w', rs)) : w'.region = w.region ∧ w'.ro = true := by
  unfold Mv.Wal.pendingRecords Mv.Wal.recordsAfter at h
  split at h
  · cases h
  · simp only [hro, if_true, Except.ok.injEq, Prod.mk.injEq] at h
    obtain ⟨h1, _⟩ := h
    subst h1
    exact ⟨rfl, rfl⟩

theorem walWrites_same (off : Nat) (r : Bytes) : walWrites off r r = [] := by simp [walWrites]

/-! ### header -/

theorem any_ne_zero_zeros (n : Nat) : (zeros n).any (· != 0) = false := by
  simp [zeros]

theorem encode_ok_accepted (h : Mv.Header.Header) (b : Bytes) (he : Mv.Header.encode h = .ok b) :
    Mv.Header.Accepted h := by
  unfold Mv.Header.encode at he
  unfold Mv.Header.Accepted
  split at he
  · cases he
  · split at he
    · cases he
    · split at he
      · cases he
      · split at he
        · cases he
        · rename_i a1 a2 a3 a4
          simp only [ne_eq, Decidable.not_not] at a1 a2
          exact ⟨a1, a2, by omega, by omega⟩

theorem slice_append_right (a b : Bytes) (n l : Nat) (hn : n = a.length) :
    slice (a ++ b) n l = b.take l := by
  subst hn
  simp [slice]

/-- slices that end before `off` do not see a `writeAt` at `off` -/
theorem slice_writeAt_before (b w : Bytes) (off o l : Nat) (h : o + l ≤ off) (hb : off ≤ b.length) :
    slice (writeAt b off w) o l = slice b o l := by
  unfold slice writeAt
  rw [List.append_assoc, List.drop_append_of_le_length (by simp; omega)]
  rw [List.take_append_of_le_length (by simp; omega)]
  rw [List.drop_take]
  rw [List.take_take]
  congr 1
  omega

theorem getElem?_writeAt_before (b w : Bytes) (off i : Nat) (h : i < off) (hb : off ≤ b.length) :
    (writeAt b off w)[i]? = b[i]? := by
  unfold writeAt
  rw [List.append_assoc, List.getElem?_append_left (by simp; omega)]
  simp [List.getElem?_take, h]

theorem clearLegacy_length (buf : Bytes) (h : buf.length = HEADER_SIZE) : (clearLegacy buf).length = buf.length := by
  unfold clearLegacy
  apply writeAt_length
  simp [LEGACY_START_eq, LEGACY_END_eq, h, HEADER_SIZE_eq]

/-- `HeaderCodec::decode` does not look at the legacy padding: clearing it changes nothing -/
theorem decode_clearLegacy (buf : Bytes) (h : buf.length = HEADER_SIZE) :
    Mv.Header.decode (clearLegacy buf) = Mv.Header.decode buf := by
  have hl := clearLegacy_length buf h
  have hb : LEGACY_START ≤ buf.length := by simp [LEGACY_START_eq, h, HEADER_SIZE_eq]
  have sl : ∀ o l, o + l ≤ 80 → slice (clearLegacy buf) o l = slice buf o l := by
    intro o l hol
    exact slice_writeAt_before buf _ LEGACY_START o l (by simp [LEGACY_START_eq]; omega) hb
  have ge : ∀ i, i < 80 → (clearLegacy buf)[i]? = buf[i]? := by
    intro i hi
    exact getElem?_writeAt_before buf _ LEGACY_START i (by simp [LEGACY_START_eq]; omega) hb
  rw [Mv.Header.decode_eq, Mv.Header.decode_eq]
  have e1 : Mv.Header.firstError (clearLegacy buf) = Mv.Header.firstError buf := by
    unfold Mv.Header.firstError
    rw [hl, sl 0 4 (by omega), sl Mv.Header.VERSION_OFFSET 2 (by simp [Mv.Header.VERSION_OFFSET_eq]),
      ge Mv.Header.SPEC_BYTES_OFFSET (by simp [Mv.Header.SPEC_BYTES_OFFSET_eq]),
      ge (Mv.Header.SPEC_BYTES_OFFSET + 1) (by simp [Mv.Header.SPEC_BYTES_OFFSET_eq]),
      sl Mv.Header.WAL_OFFSET_POS 8 (by simp [Mv.Header.WAL_OFFSET_POS_eq]),
      sl Mv.Header.WAL_SIZE_POS 8 (by simp [Mv.Header.WAL_SIZE_POS_eq])]
  have e2 : Mv.Header.readFields (clearLegacy buf) = Mv.Header.readFields buf := by
    unfold Mv.Header.readFields
    rw [sl 0 4 (by omega), sl Mv.Header.VERSION_OFFSET 2 (by simp [Mv.Header.VERSION_OFFSET_eq]),
      sl Mv.Header.FOOTER_OFFSET_POS 8 (by simp [Mv.Header.FOOTER_OFFSET_POS_eq]),
      sl Mv.Header.WAL_OFFSET_POS 8 (by simp [Mv.Header.WAL_OFFSET_POS_eq]),
      sl Mv.Header.WAL_SIZE_POS 8 (by simp [Mv.Header.WAL_SIZE_POS_eq]),
      sl Mv.Header.WAL_CHECKPOINT_POS 8 (by simp [Mv.Header.WAL_CHECKPOINT_POS_eq]),
      sl Mv.Header.WAL_SEQUENCE_POS 8 (by simp [Mv.Header.WAL_SEQUENCE_POS_eq]),
      sl Mv.Header.TOC_CHECKSUM_POS 32 (by simp [Mv.Header.TOC_CHECKSUM_POS_eq])]
  rw [e1, e2]

theorem headerRead_clean (v : Variant) (d : Bytes)
    (h : v.clearsLegacy = false ∨ legacyDirty (d.take HEADER_SIZE) = false) : (headerRead v d).1 = [] := by
  unfold headerRead
  split
  · rfl
  · rcases h with h | h <;> simp [h]

/-- the header the read-only open works with does not depend on the variant -/
theorem headerRead_result (v : Variant) (d : Bytes) :
    (headerRead v d).2 = (headerRead Variant.repaired d).2 := by
  unfold headerRead
  split
  · rfl
  · rename_i hlen
    have hl : (d.take HEADER_SIZE).length = HEADER_SIZE := by simp; omega
    by_cases hc : (v.clearsLegacy && legacyDirty (d.take HEADER_SIZE)) = true
    · simp [hc, Variant.repaired, decode_clearLegacy _ hl]
    · simp [hc, Variant.repaired]

end Mv.ReadOnly
