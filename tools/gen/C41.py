#!/usr/bin/env python3
"""C41: what the enrichment queue holds (put_internal pushes the WAL sequence of the parent record)
and the worker's default configuration (EnrichmentWorkerConfig::default)."""
from common import *

def field_default(src, struct_impl, field):
    m = re.search(r"impl\s+Default\s+for\s+" + re.escape(struct_impl) + r"\s*\{.*?Self\s*\{(.*?)\}", strip_comments(src), re.S)
    if not m:
        raise TranslateError(f"impl Default for {struct_impl} not found")
    f = re.search(r"\b" + re.escape(field) + r"\s*:\s*([^,}]+)", m.group(1))
    if not f:
        raise TranslateError(f"default of {struct_impl}.{field} not found")
    return eval_int(f.group(1).strip())

def run():
    w = read("src/enrichment_worker.rs")
    interval = field_default(w, "EnrichmentWorkerConfig", "checkpoint_interval")
    delay = field_default(w, "EnrichmentWorkerConfig", "task_delay_ms")
    mut = re.sub(r"\s+", " ", strip_comments(read("src/memvid/mutation.rs")))
    # the queue push at the end of put_internal: which number is pushed?
    m = re.search(r"if needs_enrichment \{ let (\w+) = (\w+) as FrameId; self\.toc\.enrichment_queue\.push\(\1\);", mut)
    if not m:
        raise TranslateError("put_internal: `if needs_enrichment { let frame_id = <x> as FrameId; self.toc.enrichment_queue.push(frame_id);` not found")
    if m.group(2) != "parent_seq":
        raise TranslateError(f"put_internal pushes `{m.group(2)}` on the enrichment queue, the model knows only `parent_seq` (the WAL sequence)")
    if not re.search(r"let parent_seq = self\.append_wal_entry\(&parent_bytes\)\?;", mut):
        raise TranslateError("put_internal: parent_seq is no longer the result of append_wal_entry")
    n = re.search(r"let needs_enrichment = options\.instant_index && \(options\.enable_embedding \|\| is_skim_extraction\);", mut)
    if not n:
        raise TranslateError("put_internal: needs_enrichment is no longer instant_index && (enable_embedding || is_skim_extraction)")
    body = (f"def DEFAULT_CHECKPOINT_INTERVAL : Nat := {interval}\n"
            f"def DEFAULT_TASK_DELAY_MS : Nat := {delay}\n"
            "/-- `put_internal` pushes `parent_seq as FrameId` (the WAL sequence of the frame record) -/\n"
            "def QUEUE_HOLDS_WAL_SEQUENCE : Bool := true\n")
    return emit("C41", body)

main(run)
