/-
  C35 — Snippet slices are valid, ordered, bounded ranges.

  "For any text, any list of occurrence ranges (even out of bounds), any window and any maximum,
   the computed snippet slices are non-empty byte ranges inside the text that start and end on
   character boundaries, are strictly increasing and non-overlapping, and number at most the
   maximum.  Slicing the text with them never panics."

  Model: MvModel/Snippet.lean (`compute fx`; `fx = false` the code as found, `fx = true` the code
  with /verif/fixes/C35.diff).  Every theorem below quantifies over ALL byte strings `c` (valid
  UTF-8 or not), ALL occurrence lists (unsorted, overlapping, reversed, out of bounds, up to and
  beyond usize::MAX), ALL windows and ALL maxima.  The only hypothesis anywhere is, for the
  no-panic clause, `c.length ≤ isize::MAX` (Rust's allocation limit, true of every `&str`).

  The full statement is FALSE for the code as found (three independent witnesses, replayed on
  the real code by the harness) and TRUE for the repaired code.
-/
import MvModel.SnippetLemmas
import MvModel.SnippetCharsLemmas
namespace Mv.Snippet

/-- `isize::MAX`: no Rust allocation, hence no `&str`, is longer -/
def ISIZE_MAX : Nat := 2 ^ 63 - 1

/-- the property, literally, for code variant `fx` -/
def C35_full (fx : Bool) : Prop :=
  ∀ (c : Bytes) (occ : List (Nat × Nat)) (window maxS : Nat), c.length ≤ ISIZE_MAX →
    ∃ r, compute fx c occ window maxS = some r ∧                        -- computing does not panic
      (∀ p ∈ r, p.1 < p.2 ∧ p.2 ≤ c.length ∧                            -- non-empty, inside the text
        isCharBoundary c p.1 = true ∧ isCharBoundary c p.2 = true ∧     -- on char boundaries
        sliceOk c p.1 p.2 = true) ∧                                     -- `&content[a..b]` does not panic
      r.Pairwise (fun x y => x.1 < y.1 ∧ x.2 ≤ y.1) ∧                   -- strictly increasing, non-overlapping
      r.length ≤ maxS                                                   -- at most the maximum

/-! ## The repaired code: every clause, for every input -/

/-- computing the slices never panics (needs only `len ≤ isize::MAX`) -/
theorem C35_no_panic (c : Bytes) (occ : List (Nat × Nat)) (window maxS : Nat)
    (hlen : c.length ≤ ISIZE_MAX) : ∃ r, compute true c occ window maxS = some r := by
  have h := compute_spec c occ window maxS
  cases hc : compute true c occ window maxS with
  | some r => exact ⟨r, rfl⟩
  | none =>
    simp only [hc] at h
    have : MERGE_GAP = 20 := MERGE_GAP_eq
    simp only [USIZE_MAX, ISIZE_MAX] at h hlen
    omega

private theorem valid_of (c : Bytes) (occ : List (Nat × Nat)) (window maxS : Nat) (r : List (Nat × Nat))
    (h : compute true c occ window maxS = some r) : Valid c maxS r := by
  have := compute_spec c occ window maxS
  simpa only [h] using this

/-- every slice lies inside the text -/
theorem C35_inside (c : Bytes) (occ : List (Nat × Nat)) (window maxS : Nat) (r : List (Nat × Nat))
    (h : compute true c occ window maxS = some r) : ∀ p ∈ r, p.1 ≤ p.2 ∧ p.2 ≤ c.length := by
  intro p hp
  have := (valid_of c occ window maxS r h).1 p hp
  exact ⟨Nat.le_of_lt this.1, this.2.1⟩

/-- every slice starts and ends on a char boundary -/
theorem C35_boundaries (c : Bytes) (occ : List (Nat × Nat)) (window maxS : Nat) (r : List (Nat × Nat))
    (h : compute true c occ window maxS = some r) :
    ∀ p ∈ r, isCharBoundary c p.1 = true ∧ isCharBoundary c p.2 = true := by
  intro p hp
  have := (valid_of c occ window maxS r h).1 p hp
  exact ⟨this.2.2.1, this.2.2.2⟩

/-- every slice is non-empty -/
theorem C35_nonempty (c : Bytes) (occ : List (Nat × Nat)) (window maxS : Nat) (r : List (Nat × Nat))
    (h : compute true c occ window maxS = some r) : ∀ p ∈ r, p.1 < p.2 := by
  intro p hp
  exact ((valid_of c occ window maxS r h).1 p hp).1

/-- the slices are strictly increasing and do not overlap — in fact consecutive slices are more
    than MERGE_GAP = 20 bytes apart.  No sortedness of `occ` is needed. -/
theorem C35_increasing (c : Bytes) (occ : List (Nat × Nat)) (window maxS : Nat) (r : List (Nat × Nat))
    (h : compute true c occ window maxS = some r) :
    r.Pairwise (fun x y => x.1 < y.1 ∧ x.2 ≤ y.1 ∧ x.2 + 20 < y.1) := by
  obtain ⟨hok, hpw, hcnt⟩ := valid_of c occ window maxS r h
  clear hcnt
  have hg : MERGE_GAP = 20 := MERGE_GAP_eq
  have hpw' : r.Pairwise (fun x y => (x.1 < x.2) ∧ x.2 + MERGE_GAP < y.1) := by
    clear h
    induction r with
    | nil => exact List.Pairwise.nil
    | cons a l ih =>
      rw [List.pairwise_cons] at hpw ⊢
      refine ⟨fun b hb => ⟨(hok a (by simp)).1, hpw.1 b hb⟩, ih (fun p hp => hok p (by simp [hp])) hpw.2⟩
  exact hpw'.imp (fun {x y} hxy => by obtain ⟨h1, h2⟩ := hxy; omega)

/-- at most `max_snippets` slices -/
theorem C35_count (c : Bytes) (occ : List (Nat × Nat)) (window maxS : Nat) (r : List (Nat × Nat))
    (h : compute true c occ window maxS = some r) : r.length ≤ maxS :=
  (valid_of c occ window maxS r h).2.2

/-- slicing the text with any returned range does not panic -/
theorem C35_slicing_no_panic (c : Bytes) (occ : List (Nat × Nat)) (window maxS : Nat) (r : List (Nat × Nat))
    (h : compute true c occ window maxS = some r) : ∀ p ∈ r, sliceOk c p.1 p.2 = true := by
  intro p hp
  obtain ⟨h1, h2, h3, h4⟩ := (valid_of c occ window maxS r h).1 p hp
  simp [sliceOk, h2, h3, h4, Nat.le_of_lt h1]

/-- the whole property holds for the repaired code -/
theorem C35_repaired : C35_full true := by
  intro c occ window maxS hlen
  obtain ⟨r, hr⟩ := C35_no_panic c occ window maxS hlen
  refine ⟨r, hr, ?_, ?_, C35_count c occ window maxS r hr⟩
  · intro p hp
    exact ⟨C35_nonempty c occ window maxS r hr p hp, (C35_inside c occ window maxS r hr p hp).2,
      (C35_boundaries c occ window maxS r hr p hp).1, (C35_boundaries c occ window maxS r hr p hp).2,
      C35_slicing_no_panic c occ window maxS r hr p hp⟩
  · exact (C35_increasing c occ window maxS r hr).imp (fun {x y} hxy => ⟨hxy.1, hxy.2.1⟩)

/-! ## The code as found: three witnesses against the literal quantifier -/

/-- `end + window / 2` overflows: text "a", occurrence (0, usize::MAX), window 2 → panic -/
theorem C35_found_overflow_panics :
    compute false [0x61] [(0, 18446744073709551615)] 2 1 = none := by decide

/-- `max_snippets = 0` still yields one slice: text "a", occurrence (0,1), window 80, max 0 -/
theorem C35_found_max_zero_one_slice :
    compute false [0x61] [(0, 1)] 80 0 = some [(0, 1)] := by decide

/-- `window = 0` with no (usable) occurrence yields the empty slice (0,0): text "ab" -/
theorem C35_found_window_zero_empty_slice :
    compute false [0x61, 0x62] [] 0 3 = some [(0, 0)] := by decide

/-- the same with an in-range occurrence that is skipped: text ".  ", occurrence (1,2), window 0 -/
theorem C35_found_window_zero_empty_slice' :
    compute false [0x2E, 0x20, 0x20] [(1, 2)] 0 3 = some [(0, 0)] := by decide

/-- the literal property is false for the code as found -/
theorem C35_found_counterexample : ¬ C35_full false := by
  intro h
  obtain ⟨r, hr, _⟩ := h [0x61] [(0, 18446744073709551615)] 2 1 (by decide)
  rw [C35_found_overflow_panics] at hr
  cases hr

/-- the count clause alone is false for the code as found -/
theorem C35_found_counterexample_count :
    ¬ (∀ c occ window maxS r, compute false c occ window maxS = some r → r.length ≤ maxS) := by
  intro h
  have := h _ _ _ _ _ C35_found_max_zero_one_slice
  simp at this

/-- the non-empty clause alone is false for the code as found -/
theorem C35_found_counterexample_nonempty :
    ¬ (∀ c occ window maxS r, compute false c occ window maxS = some r → ∀ p ∈ r, p.1 < p.2) := by
  intro h
  have := h _ _ _ _ _ C35_found_window_zero_empty_slice (0, 0) (by simp)
  simp at this

/-- Strongest simple statement true of the code as found: with `max ≥ 1`, `window ≥ 1` and every
    occurrence end satisfying `end + window/2 ≤ usize::MAX` (both callers: window ≥ 80, max ≥ 1,
    ends inside the text) it computes exactly what the repaired code computes — for any text and
    any occurrence order — so every clause above holds for it. -/
theorem C35_found_partial (c : Bytes) (occ : List (Nat × Nat)) (window maxS : Nat)
    (hm : 1 ≤ maxS) (hw : 1 ≤ window) (hocc : ∀ p ∈ occ, p.2 + window / 2 ≤ USIZE_MAX)
    (hlen : c.length ≤ ISIZE_MAX) :
    ∃ r, compute false c occ window maxS = some r ∧
      (∀ p ∈ r, p.1 < p.2 ∧ p.2 ≤ c.length ∧ isCharBoundary c p.1 = true ∧ isCharBoundary c p.2 = true ∧
        sliceOk c p.1 p.2 = true) ∧
      r.Pairwise (fun x y => x.1 < y.1 ∧ x.2 ≤ y.1) ∧ r.length ≤ maxS := by
  have heq := compute_found_eq c occ window maxS hm hw (by simpa only [WINDOW_DIV_eq] using hocc)
  rw [heq]
  exact C35_repaired c occ window maxS hlen

/-! ## The literal char-level transcription (`str::char_indices` decoding) -/

/-- For every well-formed UTF-8 text (every `&str`), the char-level transcription of the Rust
    loops — `computeC`, which decodes chars the way `Chars::next` does — returns exactly what the
    byte-level model returns, for both code variants. -/
theorem C35_chars_agree (fx : Bool) (c : Bytes) (hv : ValidUtf8 c) (occ : List (Nat × Nat))
    (window maxS : Nat) : computeC fx c occ window maxS = compute fx c occ window maxS :=
  computeC_eq fx c hv occ window maxS

/-- hence the whole property holds for the char-level transcription of the repaired code -/
theorem C35_chars_repaired (c : Bytes) (hv : ValidUtf8 c) (occ : List (Nat × Nat)) (window maxS : Nat)
    (hlen : c.length ≤ ISIZE_MAX) :
    ∃ r, computeC true c occ window maxS = some r ∧
      (∀ p ∈ r, p.1 < p.2 ∧ p.2 ≤ c.length ∧ isCharBoundary c p.1 = true ∧ isCharBoundary c p.2 = true ∧
        sliceOk c p.1 p.2 = true) ∧
      r.Pairwise (fun x y => x.1 < y.1 ∧ x.2 ≤ y.1) ∧ r.length ≤ maxS := by
  rw [C35_chars_agree true c hv]
  exact C35_repaired c occ window maxS hlen

/-- "on character boundaries" means what it says: on a well-formed text every slice starts at the
    offset of a decoded char and ends at the offset of a decoded char or at the end of the text -/
theorem C35_boundaries_are_char_starts (c : Bytes) (hv : ValidUtf8 c) (occ : List (Nat × Nat))
    (window maxS : Nat) (r : List (Nat × Nat)) (h : compute true c occ window maxS = some r) :
    ∀ p ∈ r, p.1 ∈ charStarts c 0 ∧ (p.2 = c.length ∨ p.2 ∈ charStarts c 0) := by
  intro p hp
  have hb := C35_boundaries c occ window maxS r h p hp
  have hn := C35_nonempty c occ window maxS r h p hp
  have hi := C35_inside c occ window maxS r h p hp
  have h1 := (isCharBoundary_iff_charStart c hv p.1).mp hb.1
  have h2 := (isCharBoundary_iff_charStart c hv p.2).mp hb.2
  refine ⟨?_, h2⟩
  rcases h1 with h1 | h1
  · omega
  · exact h1

/-! ## Non-vacuity: concrete instances -/

/-- "é. ü" is well-formed UTF-8 and the char-level transcription runs on it -/
example : ValidUtf8 [0xC3, 0xA9, 0x2E, 0x20, 0xC3, 0xBC] ∧
    computeC true [0xC3, 0xA9, 0x2E, 0x20, 0xC3, 0xBC] [(4, 6)] 2 3 = some [(4, 6)] :=
  ⟨.two _ _ _ (by decide) (by decide) (by decide) (.one _ _ (by decide) (.one _ _ (by decide)
    (.two _ _ _ (by decide) (by decide) (by decide) .nil))), by decide⟩


/-- "Hello. World" with the occurrence "World": the slice is the second sentence -/
example : compute true [0x48,0x65,0x6C,0x6C,0x6F,0x2E,0x20,0x57,0x6F,0x72,0x6C,0x64] [(7, 12)] 0 3
    = some [(7, 12)] := by decide

/-- an UNSORTED, partly out-of-bounds, partly reversed list on a multi-byte text
    ("é. ü! ab. " ++ 30 × "x" ++ ". z"): two slices, increasing, on char boundaries -/
example : compute true ([0xC3,0xA9,0x2E,0x20,0xC3,0xBC,0x21,0x20,0x61,0x62,0x2E,0x20] ++
      List.replicate 30 0x78 ++ [0x2E,0x20,0x7A]) [(5, 6), (44, 45), (1, 1000), (9, 3)] 2 5
    = some [(4, 11), (44, 45)] := by decide

/-- the hypotheses of `C35_found_partial` are satisfiable by a non-trivial instance -/
example : ∃ r, compute false [0x61,0x2E,0x20,0x62,0x63] [(3, 5)] 80 3 = some r ∧ r = [(0, 5)] :=
  ⟨_, by decide, rfl⟩

/-- the repaired code on the three witnesses -/
example : compute true [0x61] [(0, 18446744073709551615)] 2 1 = some [(0, 1)] := by decide
example : compute true [0x61] [(0, 1)] 80 0 = some [] := by decide
example : compute true [0x61, 0x62] [] 0 3 = some [] := by decide

end Mv.Snippet
