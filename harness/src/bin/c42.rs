//! C42 — vacuum compacts without changing content.
//! impl: real `Memvid` (`vacuum()` directly, or `Memvid::doctor` with the vacuum option); model: drv_c42 (Lean
//! Core model, full observation compared after every op); oracle (independent of the model, on the
//! implementation's own outputs), evaluated after every vacuum:
//!   (a) frame table vs the independent reference of acknowledged calls: same number of frames, ids = positions,
//!       every frame keeps URI / role / timestamp / kind / track / tags / labels / supersedes / chunk fields,
//!       status and superseded_by are what the acknowledged calls say, every ACTIVE frame reads back
//!       (`frame_canonical_payload`) exactly the bytes (blake3 token) the client expects;
//!   (b) frame table vs the observation BEFORE the vacuum: identity unchanged, a frame that was inactive stays
//!       inactive, a frame that was active and is still active reads the same bytes (this also covers the frames
//!       whose expected read the reference does not determine);
//!   (c) when nothing was pending before the vacuum: `search` (several word queries, with and without sketch
//!       pre-filter; hit SETS with uri and snippet text — the ranking is not compared: a rebuilt Tantivy index
//!       has other collection statistics), `timeline` (both directions, ordered, with preview text and
//!       children), `search_vec` (hit set), the persisted time index and the in-memory vector index are what
//!       they were before;
//!   (d) the file as it is on disk right after the vacuum (copied aside): `Memvid::verify(deep)` = Passed,
//!       `Memvid::open` succeeds, and the re-opened copy shows the same frame table, the same reads and the
//!       same search / timeline answers as the live handle;
//!   (e) `stats().active_frame_count` = number of active frames; the doctor reported no failure.
//! After a vacuum happened, (a) keeps being checked after every later op of the history whenever nothing is
//! pending (later puts / commits / reopen must not damage compacted payloads).
use memvid_core::{AclEnforcementMode, Memvid, SearchRequest, TimelineQuery, VerificationStatus};
use mvh::hist::*;
use mvh::guarded;
use std::collections::BTreeMap;
use std::num::NonZeroU64;
use std::panic::AssertUnwindSafe;

const QUERIES: &[(&str, bool)] = &[("alpha", false), ("memory", false), ("memory", true), ("paris", false), ("quartz river", false),
    ("report", false), ("café", false), ("xenon OR willow", true)];

/// everything a client can read without knowing ids: search answers, timeline, vector search
#[derive(Clone, Debug, PartialEq)]
struct Reads {
    /// per query: Ok(frame id → (uri, snippet text)) or Err(kind of error)
    search: Vec<Result<BTreeMap<u64, (String, String)>, String>>,
    /// per direction: ordered (frame id, timestamp, preview, uri, children)
    timeline: Vec<Result<Vec<(u64, i64, String, Option<String>, Vec<u64>)>, String>>,
    /// `search_vec` hit ids (sorted)
    vec: Option<Result<Vec<u64>, String>>,
}

fn short_err(e: &str) -> String { e.chars().take(60).collect() }

fn reads(mem: &mut Memvid, vec_dim: Option<usize>) -> Reads {
    let mut search = vec![];
    for (q, no_sketch) in QUERIES {
        let req = SearchRequest {
            query: q.to_string(), top_k: 500, snippet_chars: 80, uri: None, scope: None, cursor: None, as_of_frame: None,
            as_of_ts: None, no_sketch: *no_sketch, acl_context: None, acl_enforcement_mode: AclEnforcementMode::Audit,
        };
        search.push(match guarded(AssertUnwindSafe(|| mem.search(req))) {
            Ok(Ok(r)) => Ok(r.hits.iter().map(|h| (h.frame_id, (h.uri.clone(), h.text.clone()))).collect()),
            Ok(Err(e)) => Err(short_err(&e.to_string())),
            Err(p) => Err(format!("panic: {}", short_err(&p))),
        });
    }
    let mut timeline = vec![];
    for reverse in [false, true] {
        let tq = TimelineQuery { limit: NonZeroU64::new(1_000_000), since: None, until: None, reverse };
        timeline.push(match guarded(AssertUnwindSafe(|| mem.timeline(tq))) {
            Ok(Ok(es)) => Ok(es.iter().map(|e| (e.frame_id, e.timestamp, e.preview.clone(), e.uri.clone(), e.child_frames.clone())).collect()),
            Ok(Err(e)) => Err(short_err(&e.to_string())),
            Err(p) => Err(format!("panic: {}", short_err(&p))),
        });
    }
    let vec = vec_dim.map(|d| {
        let q: Vec<f32> = (0..d).map(|i| 0.25 + i as f32 * 0.5).collect();
        match guarded(AssertUnwindSafe(|| mem.search_vec(&q, 100_000))) {
            Ok(Ok(hits)) => { let mut ids: Vec<u64> = hits.iter().map(|h| h.frame_id).collect(); ids.sort_unstable(); Ok(ids) }
            Ok(Err(e)) => Err(short_err(&e.to_string())),
            Err(p) => Err(format!("panic: {}", short_err(&p))),
        }
    });
    Reads { search, timeline, vec }
}

fn vec_dim_of(o: &Obs) -> Option<usize> {
    if !o.vec_enabled { return None; }
    o.vec.as_ref().and_then(|v| v.first()).and_then(|e| e.1.parse::<usize>().ok())
}

fn reads_diff(a: &Reads, b: &Reads, what_a: &str, what_b: &str) -> Option<(String, String)> {
    for (i, (x, y)) in a.search.iter().zip(b.search.iter()).enumerate() {
        if x != y {
            let ids = |r: &Result<BTreeMap<u64, (String, String)>, String>| match r { Ok(m) => format!("{:?}", m.keys().collect::<Vec<_>>()), Err(e) => format!("error `{e}`") };
            let same_ids = ids(x) == ids(y);
            return Some(("search-results-changed-by-vacuum".into(),
                format!("search(`{}`, no_sketch={}) {what_a}: {}; {what_b}: {}{}", QUERIES[i].0, QUERIES[i].1, ids(x), ids(y),
                    if same_ids { " (same ids, different uri/snippet)" } else { "" })));
        }
    }
    for (i, (x, y)) in a.timeline.iter().zip(b.timeline.iter()).enumerate() {
        if x != y {
            let ids = |r: &Result<Vec<(u64, i64, String, Option<String>, Vec<u64>)>, String>| match r { Ok(m) => format!("{:?}", m.iter().map(|e| e.0).collect::<Vec<_>>()), Err(e) => format!("error `{e}`") };
            return Some(("timeline-changed-by-vacuum".into(), format!("timeline(reverse={}) {what_a}: {}; {what_b}: {}", i == 1, ids(x), ids(y))));
        }
    }
    if a.vec != b.vec {
        return Some(("vector-search-changed-by-vacuum".into(), format!("search_vec {what_a}: {:?}; {what_b}: {:?}", a.vec, b.vec)));
    }
    None
}

/// (a): the committed table against the acknowledged calls; content findings that belong to C01's known
/// findings (reads the reference cannot predict) are left to check (b)
fn table_vs_reference(obs: &Obs, refm: &RefModel) -> Option<(String, String)> {
    if obs.frames.len() != refm.frames.len() {
        return Some(("frame-count-differs-from-acknowledged-inserts".into(), format!("{} frames in the table, {} acknowledged inserts", obs.frames.len(), refm.frames.len())));
    }
    // versions whose expected read descends, through payload-less updates, from a frame with one of C01's known read
    // findings (e.g. the payload-less update of a payload-less update of a chunked document): not predictable either
    let mut tainted = vec![false; refm.frames.len()];
    for (i, r) in refm.frames.iter().enumerate() {
        tainted[i] = !r.note.is_empty() || r.supersedes.is_some_and(|o| (o as usize) < i && tainted[o as usize] && r.n_chunks == 0 && refm.frames[o as usize].content == r.content);
    }
    for (i, (f, r)) in obs.frames.iter().zip(refm.frames.iter()).enumerate() {
        if f.id != i as u64 { return Some(("frame-id-not-its-position".into(), format!("frame at position {i} has id {}", f.id))); }
        if let Some((sig, what)) = frame_vs_reference(f, r, refm, true) {
            match sig.as_str() {
                "payloadless-update-of-chunked-document-reads-empty" | "binary-payload-with-extracted-text-chunks-reads-as-text"
                | "chunked-put-with-non-document-role-reads-empty" => continue,
                "frame-content-differs-from-acknowledged-call" if tainted[i] => continue,
                _ => return Some((sig, what)),
            }
        }
    }
    None
}

/// (b): against the observation before the vacuum
fn table_vs_before(b: &Obs, a: &Obs, b_quiet: bool) -> Option<(String, String)> {
    if a.frames.len() < b.frames.len() { return Some(("frame-table-shrank".into(), format!("{} frames before, {} after", b.frames.len(), a.frames.len()))); }
    for (x, y) in b.frames.iter().zip(a.frames.iter()) {
        if identity_of(x) != identity_of(y) { return Some(("vacuum-changed-frame-identity".into(), format!("frame {}: [{}] before, [{}] after", x.id, identity_of(x), identity_of(y)))); }
        if !x.active() && y.active() { return Some(("inactive-frame-resurrected-by-vacuum".into(), format!("frame {} was {} before the vacuum and is active after it", x.id, x.status))); }
        // (with records pending before the vacuum, the read of a chunked document may legitimately change: the vacuum's
        // leading commit applies pending updates / deletes of its chunks)
        if x.active() && y.active() && x.canon_raw != y.canon_raw && (b_quiet || x.manifest.is_none()) {
            return Some(("vacuum-changed-active-content".into(), format!("frame {}: canonical payload token {} before, {} after", x.id, x.canon_raw, y.canon_raw)));
        }
        if x.active() && y.active() && x.parent != y.parent {
            return Some(("vacuum-changed-frame-identity".into(), format!("frame {}: parent {:?} before, {:?} after", x.id, x.parent, y.parent)));
        }
    }
    None
}

fn main() {
    let args = mvh::parse_args();
    let mut prof = GenProfile::standard(args.thorough);
    // deletes, updates (with and without payload: the payload-less ones share the superseded frame's bytes),
    // commits so that many vacuums start from a quiescent handle, many vacuums and doctor runs
    // skip-index commits leave the lexical index stale until the next full rebuild (property C40's subject): the short
    // histories do not draw them; the long ones do, and the oracle then compares only the index-independent reads
    prof.w_put = 34; prof.w_update = 18; prof.w_delete = 12; prof.w_commit = 14; prof.w_reopen = 6; prof.w_crash = 2; prof.w_readonly = 1;
    prof.w_batch = 2; prof.w_skip = 0; prof.w_finalize = 1; prof.w_vacuum = 9; prof.w_doctor = 3; prof.w_ticket = 0;
    prof.emb_percent = 25; prof.wrong_dim_percent = 1; prof.instant_index_percent = 10;
    prof.n_short = if args.thorough { 100 } else { 14 };
    prof.short_len = (12, 44);
    prof.n_long = if args.thorough { 6 } else { 1 };
    prof.corpus = corpus();
    // histories centred on doctor(vacuum), generated offline (always on a memory that already holds committed frames)
    prof.corpus.extend(doctor_histories(args.seed, if args.thorough { 30 } else { 7 }, &prof));
    let cfg = FamilyConfig {
        property: "C42",
        rule: "operation histories on a real .mv2 file and on the Lean Core model (full observation compared after every op) with \
               many deletes, updates with payload and payload-less updates (the new version shares the superseded frame's stored \
               bytes), chunked documents, embeddings, commits, then vacuum() or Memvid::doctor(vacuum) — followed by more puts, \
               reopen, crash; oracle after every vacuum: frame table = acknowledged calls (ids, metadata, status, exact content \
               token of every active frame) and = table before (identity, inactive stays inactive, active reads unchanged), search \
               hit sets / timeline / vector search / time index / vector index unchanged when nothing was pending, the on-disk file \
               (copied aside) verifies deep = Passed, opens, and shows the same table and the same read answers; after a vacuum the \
               table keeps being compared with the acknowledged calls after every later op; non-trivial = at least two \
               acknowledged mutations and a commit point; distinct = op/answer trace",
        expect_branches: vec!["op-vacuum", "op-doctor", "vacuum-checked", "doctor-vacuum-checked", "vacuum-with-inactive-frames",
                              "vacuum-with-shared-payload", "vacuum-with-chunked-document", "vacuum-from-quiescent", "vacuum-with-pending",
                              "reads-compared", "search-hits-compared", "vec-hits-compared", "copy-verified", "copy-reopened",
                              "post-vacuum-watch", "update-reuse", "update-payload", "corpus"],
    };
    // read snapshot taken after the previous op (only when nothing was pending)
    let mut snap: Option<Reads> = None;
    let mut vacuumed = false;
    let mut copy_no: u64 = 0;
    // a skip-index commit happened and no full lexical rebuild since (finalize / vacuum / doctor / open): the lexical
    // index the snapshot was taken from is stale (C40's subject), the vacuum's rebuild legitimately changes answers
    let mut lex_stale = false;
    let mut oracle = move |v: &mut StepView| -> Option<(String, String)> {
        if v.index == 0 { snap = None; vacuumed = false; lex_stale = false; }
        let stale_before = lex_stale;
        match v.op {
            Op::CommitSkip if v.ack.is_ok() => lex_stale = true,
            Op::Finalize | Op::Vacuum | Op::Doctor { .. } | Op::Reopen | Op::Crash | Op::ReadOnly => lex_stale = false,
            _ => {}
        }
        let (b, a) = (v.before, v.after);
        let direct = matches!(v.op, Op::Vacuum);
        let via_doctor = matches!(v.op, Op::Doctor { vacuum: true, .. });
        let mut res: Option<(String, String)> = None;
        if (direct || via_doctor) && !v.ack.is_ok() {
            if let Ack::Err(k, d) = v.ack { res = Some(("vacuum-failed".into(), format!("{k}: {d}"))); }
        }
        if (direct || via_doctor) && v.ack.is_ok() {
            vacuumed = true;
            v.world.branches.push(if direct { "vacuum-checked".into() } else { "doctor-vacuum-checked".into() });
            let b_quiet = b.pending_inserts == 0 && !b.dirty;
            v.world.branches.push(if b_quiet { "vacuum-from-quiescent".into() } else { "vacuum-with-pending".into() });
            if a.frames.iter().any(|f| !f.active()) { v.world.branches.push("vacuum-with-inactive-frames".into()); }
            if a.frames.iter().any(|f| f.active() && f.manifest.is_some()) { v.world.branches.push("vacuum-with-chunked-document".into()); }
            // an active version made by a payload-less update (it shared the bytes of the frame it superseded)
            if v.reference.frames.iter().any(|r| r.status == 'a' && r.supersedes.is_some() && r.n_chunks == 0
                && v.reference.frames.get(r.supersedes.unwrap() as usize).is_some_and(|o| o.content == r.content && o.note != "reuse-of-chunked")) {
                v.world.branches.push("vacuum-with-shared-payload".into());
            }
            // (a) (b)
            res = table_vs_reference(a, v.reference).or_else(|| table_vs_before(b, a, b_quiet));
            // a compacted table: active payloads packed from the data start in id order, inactive ones dropped
            if res.is_none() {
                let mut cur = 0u64;
                for f in &a.frames {
                    if f.active() {
                        if f.len > 0 && f.off != cur { res = Some(("vacuum-layout-not-compact".into(), format!("active frame {} stored at +{} (length {}), expected +{cur}", f.id, f.off, f.len))); break; }
                        cur += f.len;
                    } else if f.len != 0 { res = Some(("vacuum-layout-not-compact".into(), format!("inactive frame {} still owns {} stored bytes", f.id, f.len))); break; }
                }
            }
            // (e)
            if res.is_none() {
                let act = a.frames.iter().filter(|f| f.active()).count() as u64;
                match v.world.mem().stats() {
                    Ok(s) if s.active_frame_count == act && s.frame_count == a.frames.len() as u64 => {}
                    Ok(s) => res = Some(("stats-differ-after-vacuum".into(), format!("stats: {} frames / {} active; table: {} / {act}", s.frame_count, s.active_frame_count, a.frames.len()))),
                    Err(e) => res = Some(("stats-differ-after-vacuum".into(), format!("stats failed: {e}"))),
                }
            }
            if res.is_none() && via_doctor {
                let st = v.world.last_doctor.clone().unwrap_or_default();
                if st.starts_with("error") || st.starts_with("panic") || st == "Failed" || st == "Partial" {
                    res = Some(("doctor-vacuum-reports-failure".into(), format!("Memvid::doctor(vacuum) -> {st}")));
                }
            }
            // (c) reads before / after
            let dim = vec_dim_of(a).or(vec_dim_of(b));
            let live = reads(v.world.mem(), dim);
            if res.is_none() && b_quiet {
                if let (Some(s), true) = (&snap, stale_before) {
                    // only the index-independent reads are comparable
                    v.world.branches.push("stale-lexical-index-before-vacuum".into());
                    if s.timeline != live.timeline { let mut s2 = live.clone(); s2.timeline = s.timeline.clone(); res = reads_diff(&s2, &live, "before the vacuum", "after it"); }
                } else if let Some(s) = &snap {
                    v.world.branches.push("reads-compared".into());
                    if live.search.iter().any(|r| r.as_ref().is_ok_and(|m| !m.is_empty())) { v.world.branches.push("search-hits-compared".into()); }
                    if live.vec.as_ref().is_some_and(|r| r.as_ref().is_ok_and(|m| !m.is_empty())) { v.world.branches.push("vec-hits-compared".into()); }
                    // the snapshot's vector query exists only when the index had a known dimension then
                    let mut s2 = s.clone();
                    if s2.vec.is_none() || live.vec.is_none() { s2.vec = live.vec.clone(); }
                    // a hit on an INACTIVE frame before the vacuum is a stale index entry (property C08's business);
                    // the vacuum's rebuild may drop it — but it must never report one itself
                    let inactive = |id: &u64| a.frames.get(*id as usize).is_none_or(|f| !f.active());
                    for r in s2.search.iter_mut() { if let Ok(m) = r { m.retain(|id, _| !inactive(id)); } }
                    for (i, r) in live.search.iter().enumerate() {
                        if let Ok(m) = r { if let Some(id) = m.keys().find(|id| inactive(id)) {
                            res = Some(("search-returns-inactive-frame-after-vacuum".into(), format!("search(`{}`) after the vacuum reports frame {id}, which is not active", QUERIES[i].0)));
                        } }
                    }
                    if res.is_none() { res = reads_diff(&s2, &live, "before the vacuum", "after it"); }
                }
                if res.is_none() && direct {
                    if b.time.is_some() && b.time != a.time { res = Some(("time-index-changed-by-vacuum".into(), format!("time index {:?} before, {:?} after", b.time, a.time))); }
                    let key = |o: &Obs| o.vec.clone().map(|mut x| { x.sort(); x }).unwrap_or_default();
                    if res.is_none() && b.vec_enabled && key(b) != key(a) {
                        res = Some(("vector-index-changed-by-vacuum".into(), format!("in-memory vector index {:?} before, {:?} after", key(b), key(a))));
                    }
                }
            }
            // time index = active documents (independent of the snapshot)
            if res.is_none() {
                let mut want: Vec<(i64, u64)> = a.frames.iter().filter(|f| f.active() && f.role == 'd').map(|f| (f.ts, f.id)).collect();
                want.sort();
                if a.time.as_ref() != Some(&want) { res = Some(("time-index-not-the-active-documents".into(), format!("time index {:?}, active documents {:?}", a.time, want))); }
            }
            // (d) the file as it is on disk now
            if res.is_none() {
                copy_no += 1;
                let copy = v.world.dir.path().join(format!("copy-{copy_no}.mv2"));
                match std::fs::copy(&v.world.path, &copy) {
                    Err(e) => res = Some(("harness-copy-failed".into(), e.to_string())),
                    Ok(_) => {
                        let c2 = copy.clone();
                        match guarded(move || Memvid::verify(&c2, true)) {
                            Ok(Ok(rep)) => {
                                v.world.branches.push("copy-verified".into());
                                if rep.overall_status != VerificationStatus::Passed {
                                    let failed: Vec<String> = rep.checks.iter().filter(|c| c.status == VerificationStatus::Failed)
                                        .map(|c| format!("{} ({})", c.name, c.details.clone().unwrap_or_default())).collect();
                                    let only_wal = rep.checks.iter().filter(|c| c.status == VerificationStatus::Failed).all(|c| c.name == "WalPendingRecords");
                                    res = Some((if only_wal { "verify-fails-after-vacuum-pending-wal-record".into() } else { "verify-fails-after-vacuum".into() },
                                        format!("Memvid::verify(deep) of the file right after {} = {:?}: {}", if direct { "vacuum()" } else { "doctor(vacuum)" }, rep.overall_status, failed.join(", "))));
                                }
                            }
                            Ok(Err(e)) => res = Some(("verify-fails-after-vacuum".into(), format!("Memvid::verify(deep) returned an error: {e}"))),
                            Err(p) => res = Some(("verify-fails-after-vacuum".into(), format!("Memvid::verify(deep) panicked: {p}"))),
                        }
                        if res.is_none() {
                            let c3 = copy.clone();
                            match guarded(move || Memvid::open(&c3)) {
                                Ok(Ok(m2)) => {
                                    v.world.branches.push("copy-reopened".into());
                                    let (o2, m2) = v.world.observe_handle(Some(m2));
                                    let la: Vec<String> = a.frames.iter().map(|f| f.line()).collect();
                                    let lb: Vec<String> = o2.frames.iter().map(|f| f.line()).collect();
                                    if la != lb {
                                        let i = la.iter().zip(lb.iter()).position(|(x, y)| x != y).unwrap_or(la.len().min(lb.len()));
                                        res = Some(("reopened-file-differs-after-vacuum".into(), format!("frame {i}: live handle `{}`, re-opened file `{}`",
                                            la.get(i).cloned().unwrap_or_default(), lb.get(i).cloned().unwrap_or_default())));
                                    } else if let Some(mut m2) = m2 {
                                        let mut r2 = reads(&mut m2, dim);
                                        // a re-loaded sketch track numbers its entries 0..n-1 (known finding of C39): when the live
                                        // track's frame ids are not exactly that, the sketch pre-filtered queries are not comparable
                                        let dense = a.sketch.iter().enumerate().all(|(i, id)| *id == i as u64);
                                        if !dense {
                                            v.world.branches.push("sketch-ids-not-dense-prefiltered-queries-skipped".into());
                                            for (i, (_, no_sketch)) in QUERIES.iter().enumerate() { if !*no_sketch { r2.search[i] = live.search[i].clone(); } }
                                        }
                                        res = reads_diff(&live, &r2, "on the live handle after the vacuum", "on the re-opened file");
                                        if res.is_none() && a.vec_enabled {
                                            let key = |o: &Obs| o.vec.clone().map(|mut x| { x.sort(); x }).unwrap_or_default();
                                            if key(a) != key(&o2) { res = Some(("reopened-file-differs-after-vacuum".into(), format!("vector index live {:?}, re-opened {:?}", key(a), key(&o2)))); }
                                        }
                                        if res.is_none() && a.sketch.len() != o2.sketch.len() {
                                            res = Some(("reopened-file-differs-after-vacuum".into(), format!("sketch track: {} entries on the live handle, {} in the re-opened file", a.sketch.len(), o2.sketch.len())));
                                        }
                                        if res.is_none() && a.time != o2.time { res = Some(("reopened-file-differs-after-vacuum".into(), format!("time index live {:?}, re-opened {:?}", a.time, o2.time))); }
                                    }
                                }
                                Ok(Err(e)) => res = Some(("file-does-not-open-after-vacuum".into(), e.to_string())),
                                Err(p) => res = Some(("file-does-not-open-after-vacuum".into(), format!("panic: {p}"))),
                            }
                        }
                        let _ = std::fs::remove_file(&copy);
                    }
                }
            }
        } else if vacuumed && res.is_none() && a.pending_inserts == 0 && !a.dirty {
            // later ops must not damage what the vacuum compacted
            v.world.branches.push("post-vacuum-watch".into());
            res = table_vs_reference(a, v.reference).map(|(s, w)| (format!("after-vacuum-{s}"), w));
        }
        // snapshot for the next step
        snap = if res.is_none() && a.pending_inserts == 0 && !a.dirty { Some(reads(v.world.mem(), vec_dim_of(a))) } else { None };
        res
    };
    run_family(cfg, prof, &mut oracle);
}

/// histories around `Memvid::doctor(vacuum)`, generated without feedback from the handle: the generator keeps its own
/// count of frame ids (document + chunks of the plan `put_chunk_plan` computes) and of what is still active
fn doctor_histories(seed: u64, n: usize, prof: &GenProfile) -> Vec<(String, Vec<Op>)> {
    let mut rng = mvh::Rng::new(seed ^ 0xd0c7_04c4);
    let mut out = vec![];
    for k in 0..n {
        let mut gs = GenState::new(&mut rng, false);
        let mut ops: Vec<Op> = vec![];
        // (id, active) of the document frames the generator knows about; `next` = next frame id
        let mut docs: Vec<(u64, bool)> = vec![];
        let mut next: u64 = 0;
        let mut committed: u64 = 0;
        let chunks_of = |bytes: &[u8], uri: Option<&str>| memvid_core::verif_hooks::put_chunk_plan(bytes, uri).ok().flatten().map(|c| c.len() as u64).unwrap_or(0);
        let len = rng.usize(10, 34);
        for i in 0..len {
            let r = if i < 3 { 0 } else if i == 3 { 60 } else { rng.below(100) };
            let live: Vec<u64> = docs.iter().filter(|d| d.1 && d.0 < committed).map(|d| d.0).collect();
            match r {
                0..=37 => {
                    let p = gen_put(&mut rng, prof, &mut gs);
                    let n_chunks = chunks_of(&p.payload.bytes(), p.uri.as_deref());
                    docs.push((next, true));
                    next += 1 + n_chunks;
                    ops.push(Op::Put(p));
                }
                38..=49 if !live.is_empty() => {
                    // payload-less update: the new version shares the stored bytes of the old one
                    let id = *rng.pick(&live);
                    if let Some(d) = docs.iter_mut().find(|d| d.0 == id) { d.1 = false; }
                    docs.push((next, true));
                    next += 1;
                    ops.push(Op::Update(UpdSpec { id, tags: vec!["upd".into()], ..Default::default() }));
                }
                50..=55 if !live.is_empty() => {
                    let id = *rng.pick(&live);
                    let pl = gen_payload(&mut rng, false);
                    let n_chunks = chunks_of(&pl.bytes(), None);
                    if let Some(d) = docs.iter_mut().find(|d| d.0 == id) { d.1 = false; }
                    docs.push((next, true));
                    next += 1 + n_chunks;
                    ops.push(Op::Update(UpdSpec { id, payload: Some(pl), ..Default::default() }));
                }
                56..=67 if !live.is_empty() => {
                    let id = *rng.pick(&live);
                    if let Some(d) = docs.iter_mut().find(|d| d.0 == id) { d.1 = false; }
                    ops.push(Op::Delete { id });
                }
                68..=77 => { committed = next; ops.push(Op::Commit); }
                78..=82 => { committed = next; ops.push(Op::Reopen); }
                83..=87 => { committed = next; ops.push(Op::Vacuum); }
                _ if next > 0 => {
                    committed = next;
                    ops.push(Op::Doctor { vacuum: rng.chance(75, 100), rebuild_time: rng.chance(30, 100), rebuild_lex: rng.chance(30, 100), rebuild_vec: rng.chance(15, 100) });
                }
                _ => { committed = next; ops.push(Op::Commit); }
            }
        }
        ops.push(Op::Doctor { vacuum: true, rebuild_time: false, rebuild_lex: false, rebuild_vec: false });
        ops.push(Op::Reopen);
        out.push((format!("doctor-gen-{k}"), ops));
    }
    out
}

fn corpus() -> Vec<(String, Vec<Op>)> {
    let put = |kind, len, seed, ts| Op::Put(PutSpec::simple(PayloadSpec::new(kind, len, seed), ts));
    let pute = |kind, len, seed, ts, es| { let mut p = PutSpec::simple(PayloadSpec::new(kind, len, seed), ts); p.emb = Some(EmbSpec { dim: 3, seed: es }); Op::Put(p) };
    let upd_reuse = |id, tag: &str| Op::Update(UpdSpec { id, tags: vec![tag.into()], ..Default::default() });
    let upd_payload = |id, kind, len, seed| Op::Update(UpdSpec { id, payload: Some(PayloadSpec::new(kind, len, seed)), ..Default::default() });
    vec![
        // the smallest interesting one: delete + vacuum
        ("delete-vacuum-reopen".into(), vec![put(PayloadKind::Ascii, 300, 1, 100), put(PayloadKind::Ascii, 200, 2, 101), put(PayloadKind::Bin, 40, 3, 102),
            Op::Commit, Op::Delete { id: 0 }, Op::Commit, Op::Vacuum, Op::Reopen, put(PayloadKind::Ascii, 100, 4, 103), Op::Commit, Op::Reopen]),
        // payload-reusing update: the new version shares the superseded frame's stored bytes
        ("shared-payload-vacuum".into(), vec![put(PayloadKind::Ascii, 500, 5, 100), put(PayloadKind::Utf8, 300, 6, 101), Op::Commit,
            upd_reuse(0, "x"), Op::Commit, Op::Vacuum, Op::Reopen, upd_reuse(2, "y"), Op::Commit, Op::Vacuum, Op::Vacuum, Op::Crash]),
        // two payload-less updates of the same frame in one batch: two active frames share one stored range
        ("doubly-shared-payload-vacuum".into(), vec![put(PayloadKind::Ascii, 400, 7, 100), put(PayloadKind::Ascii, 100, 8, 101), Op::Commit,
            upd_reuse(0, "x"), upd_reuse(0, "y"), Op::Commit, Op::Vacuum, Op::Reopen]),
        // vacuum with pending work (it commits first), chunked documents, payload updates
        ("pending-chunked-vacuum".into(), vec![put(PayloadKind::Ascii, 5000, 9, 100), put(PayloadKind::Ascii, 50, 10, 101), put(PayloadKind::Ascii, 60, 23, 102), Op::Commit,
            upd_payload(5, PayloadKind::Ascii, 3000, 11), Op::Delete { id: 6 }, put(PayloadKind::Table, 2000, 12, 105), Op::Vacuum,
            put(PayloadKind::Ascii, 60, 13, 106), Op::Commit, Op::Reopen, Op::Vacuum, Op::ReadOnly]),
        // embeddings: the vector index survives
        ("embedded-vacuum".into(), vec![pute(PayloadKind::Ascii, 100, 14, 100, 1), pute(PayloadKind::Ascii, 120, 15, 101, 2), pute(PayloadKind::Bin, 30, 16, 102, 3),
            Op::Commit, Op::Delete { id: 1 }, upd_reuse(0, "z"), Op::Commit, Op::Vacuum, Op::Reopen, Op::Vacuum, Op::Reopen]),
        // through the doctor
        ("doctor-vacuum".into(), vec![put(PayloadKind::Ascii, 300, 17, 100), pute(PayloadKind::Ascii, 200, 18, 101, 4), put(PayloadKind::Rand, 700, 19, 102),
            Op::Commit, Op::Delete { id: 0 }, upd_reuse(1, "w"), Op::Commit,
            Op::Doctor { vacuum: true, rebuild_time: false, rebuild_lex: false, rebuild_vec: false }, put(PayloadKind::Ascii, 80, 20, 103), Op::Commit,
            Op::Doctor { vacuum: true, rebuild_time: true, rebuild_lex: true, rebuild_vec: false }, Op::Reopen]),
        // everything inactive / empty memory
        ("vacuum-empty-and-all-deleted".into(), vec![Op::Vacuum, put(PayloadKind::Ascii, 90, 21, 100), Op::Commit, Op::Delete { id: 0 }, Op::Vacuum,
            Op::Reopen, put(PayloadKind::Ascii, 70, 22, 101), Op::Commit, Op::Vacuum, Op::Reopen]),
    ]
}
