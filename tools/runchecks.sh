#!/bin/bash
# runchecks.sh <tier> <ids...> : run checks sequentially, one summary line each
tier="$1"; shift
for id in "$@"; do
  s=$(date +%s)
  out=$(cd /verif && ./check "$id" "$tier" 2>&1); rc=$?
  e=$(date +%s)
  echo "== $id rc=$rc $((e-s))s :: $(echo "$out" | grep -E '^(OK|VIOLATION|AUDIT|HARNESS|KNOWN-FINDING)' | cut -c1-160 | tr '\n' '|')"
  if [ $rc -ne 0 ]; then echo "$out" | tail -15 | cut -c1-300; fi
done
