/-
  C28 — the clause "searches issued between a put and its commit never return a frame that does not
  contain the query", at the level of `SearchHit`s with the query evaluator spelled out
  (model MvModel/Search.lean = `Memvid::search` after the engine call; theorem `C10_any_tree`).
  The id-level statement over the composed search model is `C28_instant` in MvProps/C28.lean.
-/
import MvProps.C10
namespace Mv.Persist
open Mv Mv.Search

/-- **C28_instant_hits** — a search issued while instant-index puts are still uncommitted.  The engine
    then holds their documents under WAL sequence numbers, not frame ids; NOTHING is assumed about what
    it answers (`engine` is an arbitrary id list: stale ids, ids of other frames, duplicates,
    non-matching documents).  Every hit of a successful search names a frame of the COMMITTED table
    whose own searchable text (its `search_text`, else its chunk text) satisfies the parsed query, and
    the hit's text is a slice of that frame's stored text.  Holds for every tree variant `V`
    (as found and repaired) and both dispatch paths. -/
theorem C28_instant_hits (B : Box) (hperm : RerankSound B) (V : Variant) (frames : List Frame) (req : Request)
    (expr : Mv.Query.Expr) (stage : Mv.Filter.Stage) (engine : Option (List Nat)) (hasLex lexLoaded : Bool)
    (r : Response) (h : searchParsed B V frames req expr stage engine hasLex lexLoaded = .ok r) :
    ∀ x ∈ r.hits, ∃ f content, frames[x.frame]? = some f ∧ Searchable f content ∧
      expr.eval B.T B.cfg (docOf f content) = true ∧ StoredChunk f x := by
  intro x hx
  obtain ⟨f, content, hf, _, hs, he, _, hst, _⟩ :=
    (C10_any_tree B hperm V frames req expr stage engine hasLex lexLoaded r h).2 x hx
  exact ⟨f, content, hf, hs, he, hst⟩

/-- the same for the query string: the expression is the one `parse_query` produces -/
theorem C28_instant_query (B : Box) (hperm : RerankSound B) (V : Variant) (frames : List Frame) (req : Request)
    (q : Mv.Query.Str) (stage : Mv.Filter.Stage) (engine : Option (List Nat)) (hasLex lexLoaded : Bool)
    (r : Response) (h : search B V frames req q stage engine hasLex lexLoaded = .ok r) :
    ∃ expr, Mv.Query.parse B.T B.cfg q = .ok expr ∧
      ∀ x ∈ r.hits, ∃ f content, frames[x.frame]? = some f ∧ Searchable f content ∧
        expr.eval B.T B.cfg (docOf f content) = true := by
  unfold search at h
  split at h
  · cases h
  · rename_i expr hp
    refine ⟨expr, hp, fun x hx => ?_⟩
    obtain ⟨f, content, hf, hs, he, _⟩ := C28_instant_hits B hperm V frames req expr stage engine hasLex lexLoaded r h x hx
    exact ⟨f, content, hf, hs, he⟩

/-- non-vacuity: the engine answers WAL sequence number 0 and a stale id 7 for a pending put; committed
    frame 0 contains the query word — it is returned (and the stale id is counted, not returned) -/
example :
    ∃ r, search cxBox found [cxActive] cxReq ['x'] (some none) (some [0, 7]) false false = .ok r ∧
      r.hits.length = 1 ∧ r.staleSkips = 1 := by
  have h : okWith (search cxBox found [cxActive] cxReq ['x'] (some none) (some [0, 7]) false false)
      (fun r => r.hits.length == 1 && r.staleSkips == 1) = true := by decide +kernel
  obtain ⟨r, hr, hp⟩ := okWith_elim h
  simp only [Bool.and_eq_true, beq_iff_eq] at hp
  exact ⟨r, hr, hp.1, hp.2⟩

end Mv.Persist
