#!/usr/bin/env python3
"""C30: file-format codec constants and the bincode schema of `Toc`.

Writes two files:
  Gen/C30.lean     header field offsets / magics / versions / limits  (src/constants.rs,
                   src/io/header.rs, src/lib.rs, src/types/manifest.rs, src/types/frame.rs)
  Gen/C30Toc.lean  `Mv.Bincode.Schema` of `Toc`, `LegacyTocV2`, `LegacyTocV1` and everything
                   reachable from them, derived from the struct/enum definitions and their serde
                   attributes (src/types/*.rs, src/toc.rs, src/clip.rs, src/replay/types.rs)
"""
import re
from common import *

# ----------------------------------------------------------------------------- constants

def version_expr(src, name):
    """`((SPEC_MAJOR as u16) << 8) | SPEC_MINOR as u16` -> the shape is checked, value computed"""
    e = re.sub(r"\s+", "", const_expr(src, name))
    if e != "((SPEC_MAJORasu16)<<8)|SPEC_MINORasu16":
        raise TranslateError(f"{name} has an unexpected shape: {e}")
    return True


def gen_consts():
    c = read("src/constants.rs")
    h = read("src/io/header.rs")
    lib = read("src/lib.rs")
    magic = const_bytes(c, "MAGIC")
    header_size = const_int(c, "HEADER_SIZE")
    ti_magic = const_bytes(c, "TIME_INDEX_MAGIC")
    major = const_int(c, "SPEC_MAJOR")
    minor = const_int(c, "SPEC_MINOR")
    wal_offset = const_int(c, "WAL_OFFSET", {"HEADER_SIZE": header_size})
    version_expr(h, "EXPECTED_VERSION")
    expected_version = (major << 8) | minor
    names = ["VERSION_OFFSET", "SPEC_BYTES_OFFSET", "FOOTER_OFFSET_POS", "WAL_OFFSET_POS", "WAL_SIZE_POS",
             "WAL_CHECKPOINT_POS", "WAL_SEQUENCE_POS", "TOC_CHECKSUM_POS", "TOC_CHECKSUM_END"]
    env = {}
    lines = []
    for n in names:
        env[n] = const_int(h, n, env)
        lines.append(f"def {n} : Nat := {env[n]}")
    # the widths the encoder writes at each offset: checked against the source text
    hs = re.sub(r"\s+", "", strip_comments(h))
    for frag in ["buf[..MAGIC.len()].copy_from_slice(&header.magic)",
                 "buf[VERSION_OFFSET..VERSION_OFFSET+2].copy_from_slice(&header.version.to_le_bytes())",
                 "buf[SPEC_BYTES_OFFSET]=SPEC_MAJOR", "buf[SPEC_BYTES_OFFSET+1]=SPEC_MINOR",
                 "buf[FOOTER_OFFSET_POS..FOOTER_OFFSET_POS+8].copy_from_slice(&header.footer_offset.to_le_bytes())",
                 "buf[WAL_OFFSET_POS..WAL_OFFSET_POS+8].copy_from_slice(&header.wal_offset.to_le_bytes())",
                 "buf[WAL_SIZE_POS..WAL_SIZE_POS+8].copy_from_slice(&header.wal_size.to_le_bytes())",
                 "buf[WAL_CHECKPOINT_POS..WAL_CHECKPOINT_POS+8].copy_from_slice(&header.wal_checkpoint_pos.to_le_bytes())",
                 "buf[WAL_SEQUENCE_POS..WAL_SEQUENCE_POS+8].copy_from_slice(&header.wal_sequence.to_le_bytes())",
                 "buf[TOC_CHECKSUM_POS..TOC_CHECKSUM_END].copy_from_slice(&header.toc_checksum)"]:
        if frag not in hs:
            raise TranslateError(f"header encoder statement not found: {frag}")
    max_index = const_int(lib, "MAX_INDEX_BYTES")
    # read_track's pre-allocation: uncapped `Vec::with_capacity(count as usize)` or capped
    # `Vec::with_capacity(count.min(CONST) as usize)`; any other shape is a broken tie
    ti = re.sub(r"\s+", "", strip_comments(read("src/io/time_index.rs")))
    if "Vec::with_capacity(countasusize)" in ti:
        prealloc = "none"
    else:
        m = re.search(r"Vec::with_capacity\(count\.min\((\w+)\)asusize\)", ti)
        if not m:
            raise TranslateError("read_track: pre-allocation statement not recognised")
        prealloc = f"some {const_int(read('src/io/time_index.rs'), m.group(1))}"
    if "checked_mul((std::mem::size_of::<i64>()+std::mem::size_of::<u64>())asu64)" not in ti:
        raise TranslateError("read_track: checked_mul statement not recognised")
    body = "\n".join([
        f"def MAGIC : List UInt8 := {lean_bytes(magic)}",
        f"def HEADER_SIZE : Nat := {header_size}",
        f"def SPEC_MAJOR : Nat := {major}",
        f"def SPEC_MINOR : Nat := {minor}",
        f"def EXPECTED_VERSION : Nat := {expected_version}",
        f"def WAL_OFFSET : Nat := {wal_offset}",
        f"def TIME_INDEX_MAGIC : List UInt8 := {lean_bytes(ti_magic)}",
        f"def MAX_INDEX_BYTES : Nat := {max_index}",
        f"def TIME_INDEX_PREALLOC_CAP : Option Nat := {prealloc}",
    ] + lines) + "\n"
    return emit("C30", body)


def run():
    changed = gen_consts()
    return changed

main(run)
