/- Driver for C21 (doctor).
   file encoding (three words):
     frames   `id:a:digest,…` or `-`      (a = 1 active / 0 tombstoned)
     pending  `p<digest>,d<id>,…` or `-`
     flags    9 characters: hdrPtr hdrSum tocSum (0/1 = damaged/ok)  foot (o/m/b)  time lex vec (o/m/c)  walOk (0/1)  — e.g. `111oooo1`
   run <dbg 0|1> <optbits> <frames> <pending> <flags>
        optbits: 1 rebuild_time, 2 rebuild_lex, 4 rebuild_vec, 8 vacuum, 16 dry_run
     → `<status> <why> | <plan> | <ran> | <frames> <pending> <flags> | opens=<0|1> verify=<passed|failed|error> | logical=<id:digest,…|->`
   logical <frames> <pending> <flags> → `id:digest,…` or `-` (acknowledged view) -/
import MvModel.Doctor
import MvModel.DrvUtil
open Mv Mv.Doctor

def parseFrame (s : String) : Option Frame :=
  match s.splitOn ":" with
  | [i, a, d] => do pure { id := (← i.toNat?), active := a == "1", digest := (← d.toNat?) }
  | _ => none

def parseFrames (s : String) : Option (List Frame) :=
  if s == "-" then some [] else (s.splitOn ",").mapM parseFrame

def parseOp (s : String) : Option Op :=
  if s.startsWith "p" then (s.drop 1).toString.toNat?.map Op.put
  else if s.startsWith "d" then (s.drop 1).toString.toNat?.map Op.del
  else none

def parseOps (s : String) : Option (List Op) :=
  if s == "-" then some [] else (s.splitOn ",").mapM parseOp

def parseIdx : Char → Option Idx
  | 'o' => some .ok | 'm' => some .missing | 'c' => some .corrupt | _ => none

def parseFoot : Char → Option Foot
  | 'o' => some .ok | 'm' => some .magic | 'b' => some .body | _ => none

def parseBit : Char → Option Bool
  | '0' => some false | '1' => some true | _ => none

def parseFile (fr pe fl : String) : Option File :=
  match fl.toList with
  | [a, b, c, d, e, f, g, h] => do
    pure { frames := (← parseFrames fr), pending := (← parseOps pe),
           hdrPtr := (← parseBit a), hdrSum := (← parseBit b), tocSum := (← parseBit c), foot := (← parseFoot d),
           time := (← parseIdx e), lex := (← parseIdx f), vec := (← parseIdx g), walOk := (← parseBit h) }
  | _ => none

def showBit (b : Bool) : String := if b then "1" else "0"
def showIdx : Idx → String | .ok => "o" | .missing => "m" | .corrupt => "c"
def showFoot : Foot → String | .ok => "o" | .magic => "m" | .body => "b"

def showFrames (fs : List Frame) : String :=
  if fs.isEmpty then "-" else ",".intercalate (fs.map fun f => s!"{f.id}:{showBit f.active}:{f.digest}")

def showOps (os : List Op) : String :=
  if os.isEmpty then "-" else ",".intercalate (os.map fun | .put d => s!"p{d}" | .del i => s!"d{i}")

def showFile (f : File) : String :=
  s!"{showFrames f.frames} {showOps f.pending} {showBit f.hdrPtr}{showBit f.hdrSum}{showBit f.tocSum}{showFoot f.foot}{showIdx f.time}{showIdx f.lex}{showIdx f.vec}{showBit f.walOk}"

def showPairs (l : List (Nat × Nat)) : String :=
  if l.isEmpty then "-" else ",".intercalate (l.map fun (i, d) => s!"{i}:{d}")

def showPhase : Phase → String
  | .headerHealing => "header_healing" | .walReplay => "wal_replay" | .vacuum => "vacuum"
  | .indexRebuild => "index_rebuild" | .finalize => "finalize" | .verify => "verify"

def showAction : Action → String
  | .healHeaderPointer => "heal_header_pointer" | .healTocChecksum => "heal_toc_checksum" | .replayWal => "replay_wal"
  | .rebuildTime => "rebuild_time_index" | .rebuildLex => "rebuild_lex_index" | .rebuildVec => "rebuild_vec_index"
  | .vacuumCompaction => "vacuum_compaction" | .recomputeToc => "recompute_toc" | .updateHeader => "update_header"
  | .deepVerify => "deep_verify"

def showPlan (pl : Plan) : String :=
  " ".intercalate (pl.map fun (ph, as) => s!"{showPhase ph}[{"+".intercalate (as.map showAction)}]")

def showPStat : PStat → String | .skipped => "skipped" | .executed => "executed" | .failed => "failed"

def showRan (r : List (Phase × PStat)) : String :=
  if r.isEmpty then "-" else " ".intercalate (r.map fun (ph, s) => s!"{showPhase ph}={showPStat s}")

def showStatus : Status → String
  | .clean => "clean" | .healed => "healed" | .failed => "failed" | .planOnly => "plan_only"

def showWhy : Why → String
  | .none => "-" | .walRecovery => "wal-recovery-failed" | .repairedStillCorrupt => "repaired-still-corrupt"
  | .repairFailed => "repair-failed" | .openOther => "open-other"

def showOutcome : Outcome → String
  | .report s w r => s!"{showStatus s} {showWhy w} | {showRan r}"
  | .error => "error - | -"
  | .panic => "panic - | -"

def optsOf (n : Nat) : Opts :=
  { rebuildTime := n % 2 == 1, rebuildLex := (n / 2) % 2 == 1, rebuildVec := (n / 4) % 2 == 1,
    vacuum := (n / 8) % 2 == 1, dryRun := (n / 16) % 2 == 1 }

def step (_ : Unit) (ws : List String) : Unit × String :=
  match ws with
  | ["run", dbg, bits, fr, pe, fl] =>
    match bits.toNat?, parseFile fr pe fl with
    | some b, some f =>
      let o := optsOf b
      let r := doctor (dbg == "1") o f
      let pl := planOf o (probe o f.cond)
      let v := match verify r.file.cond with | none => "error" | some true => "passed" | some false => "failed"
      let outS := match r.out with
        | .report s w ran => s!"{showStatus s} {showWhy w} | {showPlan pl} | {showRan ran}"
        | .error => s!"error - | {showPlan pl} | -"
        | .panic => "panic - | - | -"
      ((), s!"{outS} | {showFile r.file} | opens={showBit (opens r.file.cond)} verify={v} | logical={showPairs (logical r.file)}")
    | _, _ => ((), "bad-op")
  | ["logical", fr, pe, fl] =>
    match parseFile fr pe fl with
    | some f => ((), showPairs (logical f))
    | none => ((), "bad-op")
  | _ => ((), "bad-op")

def main : IO Unit := runDriver () step
