/-
  Software IEEE-754 binary32 (round-to-nearest-even, gradual underflow, overflow to ±∞, NaN),
  written with `Nat`/`Int` only so that it both compiles into the C37 driver and reduces in the
  kernel (`decide`).  It provides the `Ops` instance `f32Ops` over which the driver runs the
  adaptive cut-off model; every operation is differentially tested against the hardware by
  `harness/src/bin/c37.rs` (`op` requests), so a bug here shows as a correspondence failure.
-/
import MvModel.Adaptive
namespace Mv.F32

/-- precision (bits of the significand, hidden bit included) -/
def P : Nat := 24
/-- exponent of the unit of the subnormals: the least positive value is `2^EMIN` -/
def EMIN : Int := -149
/-- largest exponent of a significand unit: `MAX = (2^24 - 1) * 2^EMAX` -/
def EMAX : Int := 104

/-- an unpacked binary32: finite values are `(-1)^neg * m * 2^e`, canonical when
    `m < 2^24`, `EMIN ≤ e ≤ EMAX`, and `m < 2^23 → e = EMIN` -/
inductive F where
  | nan
  | inf (neg : Bool)
  | fin (neg : Bool) (m : Nat) (e : Int)
deriving DecidableEq, Repr

/-- number of bits of `m` (0 for 0) -/
def bitLen (m : Nat) : Nat := if m = 0 then 0 else Nat.log2 m + 1

/-- round the exact value `m * 2^e` (strictly more, by less than one unit `2^e`, when `sticky`)
    to binary32, nearest-even.  With `sticky` the caller supplies at least `P + 2` bits in `m`. -/
def round (neg : Bool) (m : Nat) (e : Int) (sticky : Bool) : F :=
  if m = 0 && !sticky then .fin neg 0 EMIN
  else
    let nb : Int := bitLen m
    let e' : Int := if e + nb - P < EMIN then EMIN else e + nb - P
    if e' ≤ e then
      -- exact: fewer than P significant bits, no shifting out
      let m' := m <<< (e - e').toNat
      if e' > EMAX then .inf neg else .fin neg m' e'
    else
      let sh := (e' - e).toNat
      let q := m >>> sh
      let rem := m % (2 ^ sh)
      let half := 2 ^ (sh - 1)
      let up := rem > half || (rem == half && (sticky || q % 2 == 1))
      let q' := if up then q + 1 else q
      let (q'', e'') := if q' == 2 ^ P then (2 ^ (P - 1), e' + 1) else (q', e')
      if e'' > EMAX then .inf neg else .fin neg q'' e''

def zero (neg : Bool) : F := .fin neg 0 EMIN

def isNaN : F → Bool
  | .nan => true
  | _ => false

def neg : F → F
  | .nan => .nan
  | .inf s => .inf (!s)
  | .fin s m e => .fin (!s) m e

def abs : F → F
  | .nan => .nan
  | .inf _ => .inf false
  | .fin _ m e => .fin false m e

def add : F → F → F
  | .nan, _ => .nan
  | _, .nan => .nan
  | .inf a, .inf b => if a == b then .inf a else .nan
  | .inf a, .fin .. => .inf a
  | .fin .., .inf b => .inf b
  | .fin sa ma ea, .fin sb mb eb =>
    let e := if ea ≤ eb then ea else eb
    let va : Int := (ma <<< (ea - e).toNat : Nat)
    let vb : Int := (mb <<< (eb - e).toNat : Nat)
    let v : Int := (if sa then -va else va) + (if sb then -vb else vb)
    if v == 0 then zero (sa && sb)        -- x + (-x) = +0; (-0) + (-0) = -0
    else round (decide (v < 0)) v.natAbs e false

def sub (a b : F) : F := add a (neg b)

def mul : F → F → F
  | .nan, _ => .nan
  | _, .nan => .nan
  | .inf a, .inf b => .inf (a != b)
  | .inf a, .fin sb mb _ => if mb == 0 then .nan else .inf (a != sb)
  | .fin sa ma _, .inf b => if ma == 0 then .nan else .inf (sa != b)
  | .fin sa ma ea, .fin sb mb eb => round (sa != sb) (ma * mb) (ea + eb) false

def div : F → F → F
  | .nan, _ => .nan
  | _, .nan => .nan
  | .inf _, .inf _ => .nan
  | .inf a, .fin sb _ _ => .inf (a != sb)
  | .fin sa _ _, .inf b => zero (sa != b)
  | .fin sa ma ea, .fin sb mb eb =>
    if mb == 0 then (if ma == 0 then .nan else .inf (sa != sb))
    else if ma == 0 then zero (sa != sb)
    else
      let k : Nat := 3 * P
      let num := ma <<< k
      round (sa != sb) (num / mb) (ea - eb - k) (num % mb != 0)

/-- integer square root by bisection on `fuel` bits: the largest `r` with `r * r ≤ n` below `2^fuel` -/
def isqrtGo (n : Nat) : Nat → Nat → Nat
  | 0, r => r
  | b + 1, r => let c := r + 2 ^ b; isqrtGo n b (if c * c ≤ n then c else r)

def isqrt (n : Nat) : Nat := isqrtGo n (bitLen n / 2 + 1) 0

def sqrt : F → F
  | .nan => .nan
  | .inf s => if s then .nan else .inf false
  | .fin s m e =>
    if m == 0 then zero s
    else if s then .nan
    else
      -- scale to an even exponent and at least 2 * (P + 2) bits
      let k0 : Nat := 2 * (P + 2)
      let k : Nat := if (e - k0) % 2 == 0 then k0 else k0 + 1
      let M := m <<< k
      let r := isqrt M
      round false r ((e - k) / 2) (r * r != M)

/-- `a < b`; false when either is NaN; `-0 = +0` -/
def lt : F → F → Bool
  | .nan, _ => false
  | _, .nan => false
  | .inf a, .inf b => a && !b
  | .inf a, .fin .. => a
  | .fin .., .inf b => !b
  | .fin sa ma ea, .fin sb mb eb =>
    let e := if ea ≤ eb then ea else eb
    let va : Int := (ma <<< (ea - e).toNat : Nat)
    let vb : Int := (mb <<< (eb - e).toNat : Nat)
    decide ((if sa then -va else va) < (if sb then -vb else vb))

/-- `n as f32` -/
def ofNat (n : Nat) : F := round false n 0 false

/-- `f32::EPSILON = 2^-23` -/
def eps : F := .fin false (2 ^ 23) (-46)

def ofBits (b : Nat) : F :=
  let s := (b >>> 31) % 2 == 1
  let ex := (b >>> 23) % 256
  let fr := b % 2 ^ 23
  if ex == 255 then (if fr == 0 then .inf s else .nan)
  else if ex == 0 then .fin s fr EMIN
  else .fin s (fr + 2 ^ 23) ((ex : Int) - 150)

/-- canonical bit pattern (every NaN is `0x7FC00000`) -/
def toBits : F → Nat
  | .nan => 0x7FC00000
  | .inf s => (if s then 0x80000000 else 0) + 0x7F800000
  | .fin s m e =>
    (if s then 0x80000000 else 0) +
      (if m < 2 ^ 23 then m else ((e + 150).toNat <<< 23) + (m - 2 ^ 23))

def isFinite : F → Bool
  | .fin .. => true
  | _ => false

open Mv.Adaptive in
/-- binary32 as the arithmetic of the adaptive cut-off model -/
def f32Ops : Ops F where
  lt := lt
  isNaN := isNaN
  add := add
  sub := sub
  mul := mul
  div := div
  abs := abs
  sqrt := sqrt
  ofNat := ofNat
  eps := eps
  inf := .inf false
  negInf := .inf true

end Mv.F32
