#!/usr/bin/env python3
"""C12: the ACL metadata contract read from the source.

 * the five metadata key names evaluated by src/memvid/acl.rs (constants of src/types/acl.rs),
   and the fact that parse_acl_metadata reads exactly these (tenant, visibility, then the three
   allow-lists in the order roles, groups, principals)
 * the visibility keywords of `parse_acl_metadata` (`"public" => …::Public`, `"restricted" => …`)
 * the serde names of the two enforcement modes (`rename_all = "snake_case"` over Audit/Enforce,
   default Audit)
 * the JSON escape letters of the serde_json version pinned in Cargo.lock are NOT read (registry
   source is outside /repo); the model's escape table is tied by the correspondence run instead."""
from common import *


def fn_body(src, name):
    m = re.search(r"\bfn\s+" + re.escape(name) + r"\b", src)
    if not m:
        raise TranslateError(f"fn {name} not found")
    i = src.find("{", m.end())
    depth, j = 0, i
    while j < len(src):
        if src[j] == "{":
            depth += 1
        elif src[j] == "}":
            depth -= 1
            if depth == 0:
                return src[i:j + 1]
        j += 1
    raise TranslateError(f"fn {name}: unbalanced braces")


def str_const(src, name):
    e = const_expr(src, name)
    m = re.fullmatch(r'"((?:[^"\\]|\\.)*)"', e)
    if not m:
        raise TranslateError(f"constant {name} is not a string literal: {e!r}")
    if "\\" in m.group(1):
        raise TranslateError(f"constant {name}: escapes not supported: {e!r}")
    return m.group(1)


def lean_str(s):
    """a `List Char` literal (kernel-reducible, unlike `String.toList` of a string literal)"""
    for c in s:
        if not (c.isascii() and (c.isalnum() or c in "_-")):
            raise TranslateError(f"unsupported character {c!r} in {s!r}")
    return "[" + ", ".join(f"'{c}'" for c in s) + "]"


def run():
    tsrc = strip_comments(read("src/types/acl.rs"))
    asrc = strip_comments(read("src/memvid/acl.rs"))
    names = ["ACL_TENANT_ID_KEY", "ACL_VISIBILITY_KEY", "ACL_READ_ROLES_KEY", "ACL_READ_GROUPS_KEY",
             "ACL_READ_PRINCIPALS_KEY"]
    keys = {n: str_const(tsrc, n) for n in names}
    if len(set(keys.values())) != len(keys):
        raise TranslateError("ACL key constants are not pairwise distinct")

    pm = fn_body(asrc, "parse_acl_metadata")
    # order and identity of the keys parse_acl_metadata reads
    used = re.findall(r"\b(ACL_[A-Z_]+_KEY)\b", pm)
    if used != names:
        raise TranslateError(f"parse_acl_metadata reads keys {used}, model expects {names}")
    arms = re.findall(r'"([^"]*)"\s*=>\s*FrameVisibility::(\w+)', pm)
    vis = {v: k for k, v in arms}
    if sorted(vis) != ["Public", "Restricted"] or len(arms) != 2:
        raise TranslateError(f"visibility match arms changed: {arms}")
    if not re.search(r"_\s*=>\s*return\s+Err\(\(\)\)", pm):
        raise TranslateError("visibility fallback arm `_ => return Err(())` not found")

    # enforcement mode enum: variants, rename rule, default
    m = re.search(r"((?:#\[[^\]]*\]\s*)*)pub\s+enum\s+AclEnforcementMode\s*\{(.*?)\}", tsrc, re.S)
    if not m:
        raise TranslateError("enum AclEnforcementMode not found")
    attrs, body = m.group(1), m.group(2)
    if 'rename_all = "snake_case"' not in attrs:
        raise TranslateError("AclEnforcementMode: serde rename_all snake_case not found")
    variants = re.findall(r"((?:#\[[^\]]*\]\s*)*)(\w+)\s*,", body)
    vnames = [v for _, v in variants]
    if vnames != ["Audit", "Enforce"]:
        raise TranslateError(f"AclEnforcementMode variants changed: {vnames}")
    default = [v for a, v in variants if "#[default]" in a]
    if default != ["Audit"]:
        raise TranslateError(f"AclEnforcementMode default changed: {default}")

    body = ""
    for n in names:
        body += f"def {n} : List Char := {lean_str(keys[n])}\n"
    body += f"def VIS_PUBLIC : List Char := {lean_str(vis['Public'])}\n"
    body += f"def VIS_RESTRICTED : List Char := {lean_str(vis['Restricted'])}\n"
    body += f"def MODE_AUDIT : List Char := {lean_str('audit')}\n"
    body += f"def MODE_ENFORCE : List Char := {lean_str('enforce')}\n"
    body += f"def MODE_DEFAULT : List Char := {lean_str('audit')}\n"
    return emit("C12", body)


main(run)
