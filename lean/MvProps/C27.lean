/-
  C27 — Memory-card queries are temporally consistent and persistent.
  Property theorems; model: MvModel/Cards.lean; helper lemmas: MvProps/C27Lemmas.lean,
  MvProps/C27Reach.lean (tracks built by add_card), MvProps/C27Store.lean (commit / reopen / crash).

  Part 1 (this file, queries) holds for EVERY track value — also for tracks that were deserialised
  from arbitrary JSON — and for every lower-casing function.
-/
import MvProps.C27Lemmas
import MvProps.C27Reach
import MvProps.C27Store
namespace Mv.Cards

variable (lower : Bytes → Bytes) (tr : Track) (e s : Bytes)

/-- `get_current` = reference: first card with maximal timestamp among the non-retractions -/
theorem getCurrent_eq_best : tr.getCurrent lower e s = best (tr.getCards lower e s) := by
  unfold Track.getCurrent; exact firstLive_sortDesc _

theorem getAtTime_eq_best (t : Int) :
    tr.getAtTime lower e s t = best ((tr.getCards lower e s).filter (fun c => decide (c.effTs ≤ t))) := by
  unfold Track.getAtTime; exact firstLive_sortDesc _

/-- **C27 (first clause)** — `get_at_time(e, s, t)` never returns a card whose effective time is
    after `t` or that is a retraction; the card it returns is one of the slot's cards and no other
    non-retraction of the slot at or before `t` is more recent. -/
theorem C27_at_time (t : Int) (c : Card) (h : tr.getAtTime lower e s t = some c) :
    c.effTs ≤ t ∧ c.isRetracted = false ∧ c ∈ tr.getCards lower e s ∧
    ∀ d ∈ tr.getCards lower e s, d.isRetracted = false → d.effTs ≤ t → d.effTs ≤ c.effTs := by
  rw [getAtTime_eq_best] at h
  obtain ⟨hm, hl, hmax⟩ := best_some h
  simp only [List.mem_filter, decide_eq_true_eq] at hm
  refine ⟨hm.2, hl, hm.1, ?_⟩
  intro d hd hdl hdt
  exact hmax d (by simp [List.mem_filter, hd, hdt]) hdl

/-- `get_at_time` answers `None` exactly when the slot has no non-retraction at or before `t` -/
theorem C27_at_time_none (t : Int) :
    tr.getAtTime lower e s t = none ↔
      ∀ d ∈ tr.getCards lower e s, d.effTs ≤ t → d.isRetracted = true := by
  rw [getAtTime_eq_best]
  constructor
  · intro h d hd hdt
    exact best_none h d (by simp [List.mem_filter, hd, hdt])
  · intro h
    cases hb : best ((tr.getCards lower e s).filter (fun c => decide (c.effTs ≤ t))) with
    | none => rfl
    | some c =>
      obtain ⟨hm, hl, _⟩ := best_some hb
      simp only [List.mem_filter, decide_eq_true_eq] at hm
      have := h c hm.1 hm.2
      simp [hl] at this

/-- **C27 (second clause)** — for `t` at or beyond the latest card of the slot, `get_at_time`
    equals `get_current`. -/
theorem C27_latest (t : Int) (h : ∀ c ∈ tr.getCards lower e s, c.effTs ≤ t) :
    tr.getAtTime lower e s t = tr.getCurrent lower e s := by
  unfold Track.getAtTime Track.getCurrent
  have : (tr.getCards lower e s).filter (fun c => decide (c.effTs ≤ t)) = tr.getCards lower e s := by
    rw [List.filter_eq_self]
    intro c hc
    simpa using h c hc
  rw [this]

/-- stronger: it is enough that `t` is at or beyond the CURRENT card (later retractions and nothing
    else may lie beyond `t`) -/
theorem C27_latest_strong (t : Int) (c : Card) (hcur : tr.getCurrent lower e s = some c)
    (ht : c.effTs ≤ t) : tr.getAtTime lower e s t = some c := by
  rw [getCurrent_eq_best] at hcur
  rw [getAtTime_eq_best, ← best_filter_live]
  obtain ⟨_, _, hmax⟩ := best_some hcur
  have : ((tr.getCards lower e s).filter (fun c => decide (c.effTs ≤ t))).filter Card.live =
      (tr.getCards lower e s).filter Card.live := by
    rw [List.filter_filter]
    apply List.filter_congr
    intro d hd
    by_cases hl : d.live = true
    · have hdl : d.isRetracted = false := by simpa [Card.live] using hl
      have := hmax d hd hdl
      have hdt : d.effTs ≤ t := by omega
      simp [hl, hdt]
    · simp [hl]
  rw [this, best_filter_live]
  exact hcur

/-- no current value ⇒ no value at any time -/
theorem C27_current_none (t : Int) (hcur : tr.getCurrent lower e s = none) :
    tr.getAtTime lower e s t = none := by
  rw [getCurrent_eq_best] at hcur
  rw [C27_at_time_none]
  intro d hd _
  exact best_none hcur d hd

/-- the answer moves forward in time with the query time -/
theorem C27_at_time_mono (t t' : Int) (htt : t ≤ t') (c : Card)
    (h : tr.getAtTime lower e s t = some c) :
    ∃ c', tr.getAtTime lower e s t' = some c' ∧ c.effTs ≤ c'.effTs := by
  obtain ⟨hct, hcl, hcm, _⟩ := C27_at_time lower tr e s t c h
  cases h' : tr.getAtTime lower e s t' with
  | none =>
    have := (C27_at_time_none lower tr e s t').1 h' c hcm (by omega)
    simp [hcl] at this
  | some c' =>
    obtain ⟨_, _, _, hmax⟩ := C27_at_time lower tr e s t' c' h'
    exact ⟨c', rfl, hmax c hcm hcl (by omega)⟩

/-- ties: among the non-retractions at or before `t` that share the maximal timestamp, the answer
    is the one standing first in the slot's list (for tracks built by `add_card`: the newest,
    see `C27_tie_newest`) -/
theorem C27_tie_first (t : Int) (c : Card) (h : tr.getAtTime lower e s t = some c) :
    ∃ pre post, (tr.getCards lower e s).filter (fun c => decide (c.effTs ≤ t)) = pre ++ c :: post ∧
      ∀ d ∈ pre, d.isRetracted = false → d.effTs < c.effTs := by
  rw [getAtTime_eq_best] at h
  exact best_first h

/-- the timeline is chronological and consists exactly of the entity's event cards -/
theorem C27_timeline_sorted (en : Bytes) :
    (tr.getTimeline lower en).Pairwise (fun a b => a.effTs ≤ b.effTs) := sortAsc_pairwise _

theorem C27_timeline_mem (en : Bytes) (c : Card) :
    c ∈ tr.getTimeline lower en ↔ c ∈ tr.getEntityCards lower en ∧ c.kind = Kind.event := by
  unfold Track.getTimeline
  rw [mem_sortBy]; simp [List.mem_filter]

/-! ### non-vacuity: ties, a retraction that is the newest card, mixed case, a card without dates -/

def asciiLower (b : Bytes) : Bytes := b.map (fun c => if 0x41 ≤ c ∧ c ≤ 0x5A then c + 0x20 else c)

def mk (ent slot : Bytes) (ev doc : Option Int) (rel : Rel) (created : Int) : Card :=
  { id := 0, kind := Kind.fact, entity := ent, slot := slot, value := [], eventDate := ev,
    documentDate := doc, versionKey := none, rel := rel, createdAt := created }

/-- "User"/"loc": sets@10 (doc), updates@20 (event), sets@20 (tie, added later), retracts@30, and a
    dateless card created at 5, stored under entity "USER" -/
def exTrack : Track :=
  ((((Track.empty.addCard asciiLower (mk [0x55,0x73,0x65,0x72] [0x6C,0x6F,0x63] none (some 10) Rel.sets 1)).1
    |>.addCard asciiLower (mk [0x75,0x73,0x65,0x72] [0x4C,0x6F,0x63] (some 20) (some 3) Rel.updates 1)).1
    |>.addCard asciiLower (mk [0x75,0x73,0x65,0x72] [0x6C,0x6F,0x63] none (some 20) Rel.sets 1)).1
    |>.addCard asciiLower (mk [0x75,0x73,0x65,0x72] [0x6C,0x6F,0x63] (some 30) none Rel.retracts 1)).1
    |>.addCard asciiLower (mk [0x55,0x53,0x45,0x52] [0x6C,0x6F,0x63] none none Rel.extends 5) |>.1

def exE : Bytes := [0x75,0x53,0x65,0x72]
def exS : Bytes := [0x4C,0x4F,0x43]

example : (exTrack.getCards asciiLower exE exS).map (·.id) = [4, 3, 2, 1, 0] := by decide
example : (exTrack.getCurrent asciiLower exE exS).map (·.id) = some 2 := by decide
example : (exTrack.getAtTime asciiLower exE exS 30).map (·.id) = some 2 := by decide
example : (exTrack.getAtTime asciiLower exE exS 20).map (·.id) = some 2 := by decide
example : (exTrack.getAtTime asciiLower exE exS 19).map (·.id) = some 0 := by decide
example : (exTrack.getAtTime asciiLower exE exS 9).map (·.id) = some 4 := by decide
example : (exTrack.getAtTime asciiLower exE exS 4).map (·.id) = none := by decide
/-- hypotheses of `C27_latest` / `C27_latest_strong` are satisfiable with a non-trivial slot -/
example : ∀ c ∈ exTrack.getCards asciiLower exE exS, c.effTs ≤ 30 := by decide
example : ∃ c, exTrack.getCurrent asciiLower exE exS = some c ∧ c.effTs ≤ 25 ∧
    ∃ d ∈ exTrack.getCards asciiLower exE exS, ¬ d.effTs ≤ 25 := by
  refine ⟨_, rfl, by decide, ?_⟩
  decide


/-! ### tracks built by `add_card` (what every `Memvid` handle holds) -/

/-- `get_cards(e, s)` = the cards whose lower-cased "entity:slot" key equals the query's, newest
    first — so the three queries range over exactly the slot's cards. -/
theorem C27_getCards_spec (h : Reachable lower tr)
    (hfix : ∀ e s, lower (slotKey lower e s) = slotKey lower e s) :
    tr.getCards lower e s =
      (tr.cards.filter (fun c => decide (c.key lower = slotKey lower e s))).reverse :=
  getCards_spec h hfix e s

/-- ties are resolved in favour of the most recently added card -/
theorem C27_tie_newest (h : Reachable lower tr)
    (hfix : ∀ e s, lower (slotKey lower e s) = slotKey lower e s) (t : Int) (c : Card)
    (hat : tr.getAtTime lower e s t = some c) :
    ∀ d ∈ tr.getCards lower e s, d.isRetracted = false → d.effTs ≤ t → d.effTs = c.effTs → d.id ≤ c.id := by
  intro d hd hdl hdt hde
  obtain ⟨pre, post, hsplit, hpre⟩ := C27_tie_first lower tr e s t c hat
  have hdesc : ((tr.getCards lower e s).filter (fun c => decide (c.effTs ≤ t))).Pairwise
      (fun a b => b.id < a.id) := List.Pairwise.filter _ (getCards_ids_desc h hfix e s)
  have hdm : d ∈ pre ++ c :: post := by
    rw [← hsplit]; simp [List.mem_filter, hd, hdt]
  rw [hsplit] at hdesc
  rcases List.mem_append.1 hdm with hp | hp
  · have := hpre d hp hdl; omega
  · rcases List.mem_cons.1 hp with rfl | hpost
    · exact Nat.le_refl _
    · have h2 := (List.pairwise_append.1 hdesc).2.1
      rw [List.pairwise_cons] at h2
      exact Nat.le_of_lt (h2.1 d hpost)

example : Reachable asciiLower exTrack :=
  Reachable.add _ _ (Reachable.add _ _ (Reachable.add _ _ (Reachable.add _ _ (Reachable.add _ _ Reachable.empty))))


/-- the hypothesis `hfix` holds for ASCII lower-casing (the driver's instance) -/
theorem asciiLower_fix (e s : Bytes) : asciiLower (slotKey asciiLower e s) = slotKey asciiLower e s := by
  have hb : ∀ c : UInt8, (fun c : UInt8 => if 0x41 ≤ c ∧ c ≤ 0x5A then c + 0x20 else c)
      ((fun c : UInt8 => if 0x41 ≤ c ∧ c ≤ 0x5A then c + 0x20 else c) c) =
      (fun c : UInt8 => if 0x41 ≤ c ∧ c ≤ 0x5A then c + 0x20 else c) c := by
    intro c
    have h : ∀ n : Fin 256, (fun c : UInt8 => if 0x41 ≤ c ∧ c ≤ 0x5A then c + 0x20 else c)
        ((fun c : UInt8 => if 0x41 ≤ c ∧ c ≤ 0x5A then c + 0x20 else c) (UInt8.ofNat n.val)) =
        (fun c : UInt8 => if 0x41 ≤ c ∧ c ≤ 0x5A then c + 0x20 else c) (UInt8.ofNat n.val) := by decide +kernel
    have := h ⟨c.toNat, c.toNat_lt⟩
    simpa using this
  have hidem : ∀ b : Bytes, asciiLower (asciiLower b) = asciiLower b := by
    intro b
    unfold asciiLower
    rw [List.map_map]
    apply List.map_congr_left
    intro c _
    exact hb c
  unfold slotKey
  have happ : ∀ a b : Bytes, asciiLower (a ++ COLON :: b) = asciiLower a ++ COLON :: asciiLower b := by
    intro a b
    unfold asciiLower
    rw [List.map_append, List.map_cons]
    rfl
  rw [happ, hidem, hidem]

example : exTrack.getCards asciiLower exE exS =
    (exTrack.cards.filter (fun c => decide (c.key asciiLower = slotKey asciiLower exE exS))).reverse :=
  C27_getCards_spec asciiLower exTrack exE exS
    (Reachable.add _ _ (Reachable.add _ _ (Reachable.add _ _ (Reachable.add _ _ (Reachable.add _ _ Reachable.empty)))))
    asciiLower_fix

/-! ## Part 2 — persistence

  `C27_persist_full g l` is the third clause of the property for the commit / open code selected by
  the two switches of the model (`g` = keep the `card_count() > 0` / `!is_empty()` guards of
  `commit_from_records`, `l` = load the tracks before `recover_wal` in `open_locked`):
  for every history of put_memory_card / clear_memories / mesh updates / frame puts / commit /
  reopen / crash starting from `Memvid::create`, no operation fails, and

  * closing (Drop commits a dirty handle) and reopening leaves the card track — hence the whole card
    set and every query answer — unchanged, and the mesh unchanged up to the serialiser's sort;
  * after a commit, whatever uncommitted operations follow, a crash + reopen gives back exactly the
    committed card track and mesh.

  It is FALSE for the code as found (`g = true`, `l = false`; two independent defects, each with a
  counterexample below and a replay on the real code) and TRUE for the repaired code
  (`g = false`, `l = true`; /verif/fixes/C27.diff), under the round-trip assumptions `EnvOk`. -/

def C27_persist_full (g l : Bool) : Prop :=
  ∀ (M B : Type) (env : Env M B) (canon : M → M), EnvOk env canon →
    ∀ (ops : List (Op M)) (s : Store M B), runWith g l env (Store.create env) ops = some s →
      (∃ s', s.reopenWith g l env = some s' ∧ s'.mem = s.mem ∧ s'.mesh = canon s.mesh) ∧
      (∀ tail : List (Op M), (∀ op ∈ tail, op.uncommitted) →
        ∃ s1 s', runWith g l env (s.commitWith g env) tail = some s1 ∧
          s1.crashWith l env = some s' ∧ s'.mem = s.mem ∧ s'.mesh = canon s.mesh)

/-- **C27 (third clause), repaired code** -/
theorem C27_persist : C27_persist_full false true := by
  intro M B env canon ok ops s hrun
  obtain ⟨s0, h0, inv⟩ := inv_run ok ops ⟨_, _, inv_create env canon ok⟩
  have hs : s0 = s := by
    have : run env (Store.create env) ops = some s := hrun
    rw [h0] at this; exact Option.some.inj this
  subst hs
  constructor
  · obtain ⟨s', h, a, b, _⟩ := reopen_spec ok inv
    exact ⟨s', h, a, b⟩
  · intro tail hu
    obtain ⟨dtr, dm, i⟩ := inv
    obtain ⟨hd, _, hm, hme, dtr', dm', i', _⟩ := inv_commit i
    obtain ⟨e1, e2⟩ := i'.sync hd
    obtain ⟨s1, h1, i1⟩ := inv_run_uncommitted tail hu i'
    obtain ⟨s', hc, a, b, _⟩ := crash_spec ok i1
    refine ⟨s1, s', h1, hc, ?_, ?_⟩
    · rw [a, ← e1, hm]
    · rw [b, ← e2, hme]

/-- consequence spelled out for the observable API: the card list and every query answer -/
theorem C27_persist_queries {M B : Type} (env : Env M B) (canon : M → M) (ok : EnvOk env canon)
    (ops : List (Op M)) (s : Store M B) (h : run env (Store.create env) ops = some s) :
    ∃ s', s.reopen env = some s' ∧ s'.mem.cards = s.mem.cards ∧
      ∀ e sl t, s'.mem.getCards env.lower e sl = s.mem.getCards env.lower e sl ∧
        s'.mem.getCurrent env.lower e sl = s.mem.getCurrent env.lower e sl ∧
        s'.mem.getAtTime env.lower e sl t = s.mem.getAtTime env.lower e sl t ∧
        s'.mem.getTimeline env.lower e = s.mem.getTimeline env.lower e := by
  obtain ⟨⟨s', h1, h2, _⟩, _⟩ := C27_persist M B env canon ok ops s h
  refine ⟨s', h1, by rw [h2], ?_⟩
  intro e sl t
  rw [h2]
  exact ⟨rfl, rfl, rfl, rfl⟩

/-! ### the code as found: two counterexamples -/

/-- a trivially correct environment: blobs are the values themselves; mesh = a number, empty = 0 -/
def cexEnv : Env Nat (Track × Nat) :=
  { lower := asciiLower
    cardsCodec := { ser := fun tr => (tr, 0), de := fun b => some b.1 }
    meshCodec := { ser := fun m => (Track.empty, m), de := fun b => some b.2 }
    meshNew := 0
    meshIsEmpty := fun m => decide (m = 0) }

theorem cexEnv_ok : EnvOk cexEnv id := by
  refine ⟨fun _ => rfl, fun _ => rfl, fun _ => rfl, ?_, rfl, rfl⟩
  intro m h
  simpa [cexEnv] using h

def cexCard : Card := mk [0x75] [0x6C] none (some 1000) Rel.sets 1

/-- state after put; commit; clear; commit with the guards of the code as found -/
def cexA : Store Nat (Track × Nat) :=
  (((Store.create cexEnv).putCard cexEnv cexCard).1.commitWith true cexEnv).clearCards.commitWith true cexEnv

theorem cexA_run (l : Bool) :
    runWith true l cexEnv (Store.create cexEnv) [Op.put cexCard, Op.commit, Op.clear, Op.commit] = some cexA := by
  cases l <;> rfl

theorem cexA_reopen (l : Bool) :
    (cexA.reopenWith true l cexEnv).map (fun s => s.mem.cards.length) = some 1 := by
  cases l <;> decide

theorem cexA_len : cexA.mem.cards.length = 0 := by decide

/-- defect A — `clear_memories` is not persisted: put; commit; clear; commit; reopen → the card is back.
    (`commit_from_records` persists the track only `if card_count() > 0`, leaving the old manifest.) -/
theorem C27_unrepaired_clear_counterexample (l : Bool) : ¬ C27_persist_full true l := by
  intro h
  obtain ⟨⟨s', h1, h2, _⟩, _⟩ := h Nat (Track × Nat) cexEnv id cexEnv_ok _ cexA (cexA_run l)
  have h3 := cexA_reopen l
  rw [h1] at h3
  simp only [Option.map_some, Option.some.injEq] at h3
  rw [h2, cexA_len] at h3
  cases h3

/-- state after put (uncommitted) -/
def cexB : Store Nat (Track × Nat) := ((Store.create cexEnv).putCard cexEnv cexCard).1

theorem cexB_run (g : Bool) : runWith g false cexEnv (Store.create cexEnv) [Op.put cexCard] = some cexB := by
  cases g <;> rfl

theorem cexB_crash (g : Bool) :
    ((runWith g false cexEnv (cexB.commitWith g cexEnv) [Op.frame]).bind (fun s1 => s1.crashWith false cexEnv)).map
      (fun s => s.mem.cards.length) = some 0 := by
  cases g <;> decide

theorem cexB_len : cexB.mem.cards.length = 1 := by decide

/-- defect B — WAL recovery on open wipes the committed tracks: put; commit; then a frame is put
    (WAL only) and the process dies; reopening yields no card.
    (`open_locked` runs `recover_wal` → `rebuild_indexes` while the in-memory track is still empty.) -/
theorem C27_unrepaired_recovery_counterexample (g : Bool) : ¬ C27_persist_full g false := by
  intro h
  obtain ⟨_, hc⟩ := h Nat (Track × Nat) cexEnv id cexEnv_ok _ cexB (cexB_run g)
  obtain ⟨s1, s', h1, h2, h3, _⟩ := hc [Op.frame] (by intro op hop; simp at hop; subst hop; trivial)
  have h4 := cexB_crash g
  rw [h1] at h4
  simp only [Option.bind_some, h2, Option.map_some, Option.some.injEq] at h4
  rw [h3, cexB_len] at h4
  cases h4

/-- non-vacuity of `C27_persist`: a history with every kind of operation runs to completion in the
    sample environment and ends with two cards -/
example : (run cexEnv (Store.create cexEnv)
    [Op.put cexCard, Op.frame, Op.commit, Op.mesh (· + 1), Op.put cexCard, Op.reopen, Op.clear, Op.commit,
     Op.put cexCard, Op.commit, Op.frame, Op.put cexCard, Op.crash, Op.put cexCard]).map (·.mem.cards.length)
    = some 2 := by decide

end Mv.Cards
