/-
  C07 — tie between the theorems about the REPAIRED apply_records (`early = true`) and the code in
  /repo: the translator tools/gen/C07.py reads off apply_records whether `data_end` is advanced right
  after the payload write (fixes/C07.diff).  This module builds only when it is; on a tree without the
  repair it fails (and the harness exhibits the failing commit of `C07_unrepaired_commit_fails`).
-/
import MvProps.C07
namespace Mv.Content
open Mv

/-- the code in /repo advances `data_end` before the index text of a fresh record is read -/
theorem C07_code_repaired : Mv.Gen.C07.DATA_END_ADVANCED_EARLY = true := by decide

/-- `C07_fidelity` for the model exactly as the driver runs it (`early` = the flag read off the source) -/
theorem C07_fidelity_code (c : Codec) (hc : c.RoundTrip) (H : Bytes → Bytes) (ops : List Op)
    (hok : ∀ a ∈ putsOf ops, PutOk c a) :
    (commit c H Mv.Gen.C07.DATA_END_ADVANCED_EARLY (run c H Mv.Gen.C07.DATA_END_ADVANCED_EARLY {} ops)).2 = .ok ∧
    ∃ bl, Inv c H (commit c H Mv.Gen.C07.DATA_END_ADVANCED_EARLY (run c H Mv.Gen.C07.DATA_END_ADVANCED_EARLY {} ops)).1 bl [] ∧
      bl.map Prod.snd = putsOf ops := by
  rw [C07_code_repaired]
  exact C07_fidelity c hc H ops hok

end Mv.Content
