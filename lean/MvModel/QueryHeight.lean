/-
  Part E of the C32 lemmas: with a nesting limit `L` every parsed expression has height at most
  `2·L + 3`, so the recursions over the AST (`Expr::evaluate`, `collect_tokens`, the destructor)
  are bounded as well.
-/
import MvModel.QueryLemmas
namespace Mv.Query
open Mv.Gen.C32

mutual
/-- height of the expression tree = recursion depth of `Expr::evaluate` on it -/
def Expr.height : Expr → Nat
  | .or l => 1 + heightList l
  | .and l => 1 + heightList l
  | .not e => 1 + Expr.height e
  | .term _ => 1
def heightList : List Expr → Nat
  | [] => 0
  | e :: es => max (Expr.height e) (heightList es)
end

theorem heightList_append (l : List Expr) (e : Expr) : heightList (l ++ [e]) = max (heightList l) e.height := by
  induction l with
  | nil => simp [heightList]
  | cons x xs ih => simp only [List.cons_append, heightList, ih]; omega

/-- loop accumulator of `parse_term`: an operand of height ≤ `h`, or an AND list of such -/
def AccAnd (h : Nat) (acc : Expr) : Prop := acc.height ≤ h ∨ ∃ l, acc = .and l ∧ heightList l ≤ h
/-- loop accumulator of `parse_expression` -/
def AccOr (h : Nat) (acc : Expr) : Prop := acc.height ≤ h ∨ ∃ l, acc = .or l ∧ heightList l ≤ h

theorem AccAnd.height_le {h : Nat} {acc : Expr} (ha : AccAnd h acc) : acc.height ≤ h + 1 := by
  rcases ha with ha | ⟨l, rfl, hl⟩
  · omega
  · simp only [Expr.height]; omega

theorem AccOr.height_le {h : Nat} {acc : Expr} (ha : AccOr h acc) : acc.height ≤ h + 1 := by
  rcases ha with ha | ⟨l, rfl, hl⟩
  · omega
  · simp only [Expr.height]; omega

theorem AccAnd.push {h : Nat} {acc r : Expr} (ha : AccAnd h acc) (hr : r.height ≤ h) : AccAnd h (pushAnd acc r) := by
  right
  cases acc with
  | and l =>
    refine ⟨l ++ [r], rfl, ?_⟩
    rw [heightList_append]
    rcases ha with ha | ⟨l', hl', hh⟩
    · simp only [Expr.height] at ha; omega
    · cases hl'; omega
  | or l =>
    rcases ha with ha | ⟨l', hl', _⟩
    · exact ⟨[.or l, r], rfl, by simp only [heightList]; omega⟩
    · cases hl'
  | not e =>
    rcases ha with ha | ⟨l', hl', _⟩
    · exact ⟨[.not e, r], rfl, by simp only [heightList]; omega⟩
    · cases hl'
  | term t =>
    rcases ha with ha | ⟨l', hl', _⟩
    · exact ⟨[.term t, r], rfl, by simp only [heightList]; omega⟩
    · cases hl'

theorem AccOr.push {h : Nat} {acc r : Expr} (ha : AccOr h acc) (hr : r.height ≤ h) : AccOr h (pushOr acc r) := by
  right
  cases acc with
  | or l =>
    refine ⟨l ++ [r], rfl, ?_⟩
    rw [heightList_append]
    rcases ha with ha | ⟨l', hl', hh⟩
    · simp only [Expr.height] at ha; omega
    · cases hl'; omega
  | and l =>
    rcases ha with ha | ⟨l', hl', _⟩
    · exact ⟨[.and l, r], rfl, by simp only [heightList]; omega⟩
    · cases hl'
  | not e =>
    rcases ha with ha | ⟨l', hl', _⟩
    · exact ⟨[.not e, r], rfl, by simp only [heightList]; omega⟩
    · cases hl'
  | term t =>
    rcases ha with ha | ⟨l', hl', _⟩
    · exact ⟨[.term t, r], rfl, by simp only [heightList]; omega⟩
    · cases hl'

theorem parseAtom_height (T : Tables) {ts : List Token} {e : Expr} {r : List Token}
    (h : parseAtom T ts = .ok (e, r)) : e.height = 1 := by
  unfold parseAtom at h
  split at h
  · cases h; rfl
  · cases h; rfl
  · split at h
    · cases h
    · cases h; rfl
  · split at h
    · cases h
    · cases h; rfl
  · cases h
  · cases h

/-- height bounds of everything the limited parser returns at nesting depth `dep ≤ L` -/
structure Heights (T : Tables) (L n : Nat) : Prop where
  or : ∀ dep ts e r, dep ≤ L → parseOr T (some L) n dep ts = .ok (e, r) → e.height ≤ 2 * (L - dep) + 3
  orL : ∀ dep acc ts e r, dep ≤ L → AccOr (2 * (L - dep) + 2) acc →
      orLoop T (some L) n dep acc ts = .ok (e, r) → AccOr (2 * (L - dep) + 2) e
  and : ∀ dep ts e r, dep ≤ L → parseAnd T (some L) n dep ts = .ok (e, r) → e.height ≤ 2 * (L - dep) + 2
  andL : ∀ dep acc ts e r, dep ≤ L → AccAnd (2 * (L - dep) + 1) acc →
      andLoop T (some L) n dep acc ts = .ok (e, r) → AccAnd (2 * (L - dep) + 1) e
  not : ∀ dep ts e r, dep ≤ L → parseNot T (some L) n dep ts = .ok (e, r) → e.height ≤ 2 * (L - dep) + 1
  prim : ∀ dep ts e r, dep ≤ L → parsePrimary T (some L) n dep ts = .ok (e, r) → e.height ≤ 2 * (L - dep) + 1

theorem heights (T : Tables) (L : Nat) : ∀ n, Heights T L n := by
  intro n
  induction n with
  | zero =>
    constructor <;> intros <;> rename_i h <;>
      simp [parseOr, orLoop, parseAnd, andLoop, parseNot, parsePrimary] at h
  | succ n ih =>
    constructor
    · intro dep ts e r hd h
      rw [parseOr] at h
      obtain ⟨e', r', h1, h2⟩ := bindP_ok_inv h
      have := (ih.orL dep e' r' e r hd (Or.inl (ih.and _ _ _ _ hd h1)) h2).height_le
      omega
    · intro dep acc ts e r hd ha h
      by_cases hts : ∃ r0, ts = Token.or :: r0
      · obtain ⟨r0, rfl⟩ := hts
        rw [orLoop.eq_2] at h
        obtain ⟨e', r', h1, h2⟩ := bindP_ok_inv h
        exact ih.orL dep _ r' e r hd (ha.push (ih.and _ _ _ _ hd h1)) h2
      · have hne : ∀ r0, ts = Token.or :: r0 → False := fun r0 hr => hts ⟨r0, hr⟩
        rw [orLoop.eq_3 _ _ _ _ _ _ hne] at h
        cases h; exact ha
    · intro dep ts e r hd h
      rw [parseAnd] at h
      obtain ⟨e', r', h1, h2⟩ := bindP_ok_inv h
      have := (ih.andL dep e' r' e r hd (Or.inl (ih.not _ _ _ _ hd h1)) h2).height_le
      omega
    · intro dep acc ts e r hd ha h
      rcases ts with _ | ⟨t, r0⟩
      · simp only [andLoop] at h; cases h; exact ha
      · cases t <;> simp only [andLoop] at h <;>
          first
            | (cases h; exact ha)
            | (obtain ⟨e', r', h1, h2⟩ := bindP_ok_inv h
               exact ih.andL dep _ r' e r hd (ha.push (ih.not _ _ _ _ hd h1)) h2)
    · intro dep ts e r hd h
      by_cases hts : ∃ r0, ts = Token.not :: r0
      · obtain ⟨r0, rfl⟩ := hts
        rw [parseNot.eq_2] at h
        split at h
        · cases h
        · rename_i htd
          have hlt : dep < L := by
            simp only [tooDeep, decide_eq_true_eq] at htd; omega
          obtain ⟨e', r', h1, h2⟩ := bindP_ok_inv h
          cases h2
          have := ih.not (dep + 1) r0 e' r (by omega) h1
          simp only [Expr.height]
          omega
      · have hne : ∀ r0, ts = Token.not :: r0 → False := fun r0 hr => hts ⟨r0, hr⟩
        rw [parseNot.eq_3 _ _ _ _ _ hne] at h
        exact ih.prim _ _ _ _ hd h
    · intro dep ts e r hd h
      by_cases hts : ∃ r0, ts = Token.lparen :: r0
      · obtain ⟨r0, rfl⟩ := hts
        rw [parsePrimary.eq_2] at h
        split at h
        · cases h
        · rename_i htd
          have hlt : dep < L := by
            simp only [tooDeep, decide_eq_true_eq] at htd; omega
          obtain ⟨e', r', h1, h2⟩ := bindP_ok_inv h
          unfold closeParen at h2
          split at h2
          · cases h2
            have := ih.or (dep + 1) r0 e _ (by omega) h1
            omega
          · cases h2
      · have hne : ∀ r0, ts = Token.lparen :: r0 → False := fun r0 hr => hts ⟨r0, hr⟩
        rw [parsePrimary.eq_3 _ _ _ _ _ hne] at h
        have := parseAtom_height T h
        omega

/-- at depth `L` the limited parser refuses to descend: no call is ever made at depth `L + 1` -/
theorem depth_cut (T : Tables) (L n : Nat) (r : List Token) :
    parseNot T (some L) (n + 1) L (.not :: r) = .error .tooDeep ∧
    parsePrimary T (some L) (n + 1) L (.lparen :: r) = .error .tooDeep := by
  rw [parseNot.eq_2, parsePrimary.eq_2]
  simp [tooDeep]

end Mv.Query
