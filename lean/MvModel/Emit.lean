/-
  The write PROTOCOLS of memvid's API steps as lists of abstract syscalls (`Mv.Disk.Sys`), region by
  region.  Element type `β` is generic (bytes or symbolic cells); offsets and lengths that depend on
  serde/zstd/Tantivy sizes are parameters (trace inputs of the correspondence harness, which compares
  the recorded syscall stream of every API step with these lists — tie #1).

  Sources mirrored (src/memvid/mutation.rs, src/io/wal.rs, src/memvid/lifecycle.rs,
  atomic-write-file 0.3 generic unix implementation):
    * `stagedProto`  — `with_staging_lock` + `CommitStaging` + `AtomicWriteFile::commit`:
                       named temp sibling, writes to it, fsync, rename over the path, fsync(dir)
    * `stagedCommit` — the same with the concrete frame of `Memvid::commit`
    * `putProto`     — `EmbeddedWal::append_entry`: record write, fsync, sentinel write
    * `putProtoFixed`— proposed repair: the sentinel travels in the record's write
    * in-place paths — `growProto`, `recoverProto`, `rewriteTocProto`, `vacuumProto`
-/
import MvModel.Disk
namespace Mv.Emit
open Mv.Disk

variable {β : Type}

/-- copy-and-rename: create the temp sibling `tmp` (inode `i`), apply `ws` to it, fsync it, rename
    it over `p`, fsync the directory -/
def stagedProto (tmp p : String) (i : Nat) (ws : List (Sys β)) : List (Sys β) :=
  [.create tmp i] ++ (ws ++ [.fsync i, .rename tmp p, .fsyncDir])

/-- `Memvid::commit` as recorded: the pending-records scan rewrites the sentinel of the original
    (`sent`: the zero bytes already there), `with_staging_lock` fsyncs the original, creates the temp
    file, truncates it, copies the whole original (`copy`), fsyncs; `inner` = everything
    `commit_from_records` writes into the temp file (it ends with its own fsync); one more fsync by
    `with_staging_lock`, then `AtomicWriteFile::commit` = the fsync, rename, directory fsync of
    `stagedProto`; finally `EmbeddedWal::open` on the reopened
    path rewrites the sentinel (`sentNew`) -/
def stagedCommit (tmp p : String) (o i : Nat) (sentOff : Nat) (sent : List β) (copy : List β)
    (inner : List (Sys β)) (sentNewOff : Nat) (sentNew : List β) : List (Sys β) :=
  [.pwrite o sentOff sent, .fsync o] ++
  stagedProto tmp p i ([.ftruncate i 0, .pwrite i 0 copy, .fsync i] ++ inner ++ [.fsync i]) ++
  [.pwrite i sentNewOff sentNew]

/-- `append_entry` (current code): ONE write of header+payload at the write head, fsync, then the
    zero sentinel as a SECOND write behind it -/
def putProto (o : Nat) (recOff : Nat) (record : List β) (sentinel : List β) : List (Sys β) :=
  [.pwrite o recOff record, .fsync o, .pwrite o (recOff + record.length) sentinel]

/-- repaired `append_entry`: the sentinel is part of the record's write (then rewritten, harmlessly) -/
def putProtoFixed (o : Nat) (recOff : Nat) (record : List β) (sentinel : List β) : List (Sys β) :=
  [.pwrite o recOff (record ++ sentinel), .fsync o, .pwrite o (recOff + record.length) sentinel]

/-- `rewrite_toc_footer`: TOC write, footer write right behind it, `set_len`, fsync -/
def rewriteTocProto (o : Nat) (tocOff : Nat) (toc footer : List β) : List (Sys β) :=
  [.pwrite o tocOff toc, .pwrite o (tocOff + toc.length) footer,
   .ftruncate o (tocOff + toc.length + footer.length), .fsync o]

/-- `shift_data_for_wal_growth` + the rest of `grow_wal_region`/`ensure_wal_capacity`: extend the file,
    move the tail `[dataStart, oldLen)` up by `delta` in chunks from the END (`chunks` = the moved
    pieces as (source offset, bytes), last piece first), zero-fill the new log space, rewrite TOC and
    footer at the shifted offset, persist the header, fsync -/
def growProto (o : Nat) (oldLen delta dataStart : Nat) (chunks : List (Nat × List β))
    (zeroFill : List (List β)) (tocOff : Nat) (toc footer header : List β) : List (Sys β) :=
  [.ftruncate o (oldLen + delta)] ++
  chunks.map (fun c => Sys.pwrite o (c.1 + delta) c.2) ++
  (zeroFill.foldl (fun (acc : List (Sys β) × Nat) z => (acc.1 ++ [Sys.pwrite o acc.2 z], acc.2 + z.length))
      ([], dataStart)).1 ++
  rewriteTocProto o tocOff toc footer ++ [.pwrite o 0 header, .fsync o]

/-- the in-place half of `vacuum` (after its staged commit): active payloads are re-written
    back to back from the end of the log region — over the old payload area, while the only valid TOC
    still lists the OLD offsets — then `rebuild_indexes` truncates, writes the segments, rewrites TOC
    and footer and persists the header -/
def vacuumProto (o : Nat) (payloads : List (Nat × List β)) (truncTo : Nat) (segments : List (Nat × List β))
    (tocOff : Nat) (toc footer header : List β) : List (Sys β) :=
  payloads.map (fun c => Sys.pwrite o c.1 c.2) ++ [.ftruncate o truncTo] ++
  segments.map (fun c => Sys.pwrite o c.1 c.2) ++
  rewriteTocProto o tocOff toc footer ++ [.pwrite o 0 header, .fsync o]

/-- `commit_skip_indexes` ("skips the staging lock for performance — not crash-safe" says its doc
    comment): sentinel rewrite, replayed payloads at `data_end`, TOC+footer in place, sentinel,
    header with the new checkpoint, fsync -/
def skipIndexProto (o : Nat) (sentOff : Nat) (sent : List β) (payloads : List (Nat × List β))
    (tocOff : Nat) (toc footer header : List β) : List (Sys β) :=
  [.pwrite o sentOff sent] ++ payloads.map (fun c => Sys.pwrite o c.1 c.2) ++
  rewriteTocProto o tocOff toc footer ++ [.pwrite o sentOff sent, .pwrite o 0 header, .fsync o]

/-- `finalize_indexes` = `rebuild_indexes` in place: truncate to the footer offset (this removes
    the only TOC), segments, TOC+footer, header -/
def finalizeProto (o : Nat) (truncTo : Nat) (segments : List (Nat × List β)) (tocOff : Nat)
    (toc footer header : List β) : List (Sys β) :=
  [.ftruncate o truncTo] ++ segments.map (fun c => Sys.pwrite o c.1 c.2) ++
  rewriteTocProto o tocOff toc footer ++ [.pwrite o 0 header, .fsync o]

/-- open-time recovery (`EmbeddedWal::open` sentinel, `recover_wal` → `apply_records` →
    `rebuild_indexes` → [re-persist the sketch track + `rewrite_toc_footer`] → `record_checkpoint` →
    `persist_header`), all IN PLACE on the original: sentinel rewrites, replayed payloads from
    `data_end` on (= over the old index/TOC area), `set_len` back to the old footer offset when the
    file is longer, index segments, `set_len` up, TOC+footer, header (still the OLD checkpoint),
    optionally the sketch track and a second TOC+footer behind it, sentinel, header (new checkpoint),
    fsync -/
def recoverProto (o : Nat) (sentOff : Nat) (sent : List β) (payloads : List (Nat × List β))
    (truncTo : Option Nat) (segments : List (Nat × List β)) (growTo : Option Nat)
    (tocOff : Nat) (toc footer : List β) (header1 : List β)
    (sketch : List (Nat × List β)) (toc2 : Option (Nat × List β × List β)) (header2 : List β) : List (Sys β) :=
  [.pwrite o sentOff sent, .pwrite o sentOff sent] ++
  payloads.map (fun c => Sys.pwrite o c.1 c.2) ++
  (match truncTo with | some n => [Sys.ftruncate o n] | none => []) ++
  segments.map (fun c => Sys.pwrite o c.1 c.2) ++
  (match growTo with | some n => [Sys.ftruncate o n] | none => []) ++
  rewriteTocProto o tocOff toc footer ++
  [.pwrite o 0 header1] ++
  sketch.map (fun c => Sys.pwrite o c.1 c.2) ++
  (match toc2 with | some (off, t, f) => rewriteTocProto o off t f | none => []) ++
  [.pwrite o sentOff sent, .pwrite o 0 header2, .fsync o]

end Mv.Emit
