/-
  C08Lemmas — index-maintenance lemmas for property C08 over the shared Core model:
  what `apply_records` / `rebuild_indexes` / open / vacuum / doctor do to the ids held by the in-memory
  vector index, the persisted vector index, the persisted time index and the lexical engine.

  Main results
    * `applyOne_insert_form`, `applyOne_tombstone_form`   explicit shape of one `apply_records` step
    * `applyLoop_ok`            the loop keeps "every indexed id names an Active frame"
    * `applyLoop_quiet`         a batch without Insert / Tombstone records changes nothing
    * `RdOk`                    the read-path invariant (vector index, persisted vector index, time index
                                and — flag `lx` — lexical engine hold ids of Active frames only)
    * `rdOk_step`               preserved by every operation; `commit_skip_indexes` loses the lexical part
    * `rdOk_finalize`, `rdOk_vacuum`   a full rebuild restores the lexical part
-/
import MvProps.CoreLemmas
import MvModel.ReadPaths
namespace Mv.Core

/-! ## A. `isActive` -/

theorem isActive_eq_true_iff (fs : List Frame) (id : Nat) :
    isActive fs id = true ↔ ∃ f, fs[id]? = some f ∧ f.status = Status.active := by
  unfold isActive
  cases h : fs[id]? with
  | none => simp
  | some f => simp

theorem isActive_lt {fs : List Frame} {id : Nat} (h : isActive fs id = true) : id < fs.length := by
  obtain ⟨f, hf, _⟩ := (isActive_eq_true_iff fs id).mp h
  exact (List.getElem?_eq_some_iff.mp hf).1

theorem isActive_append_left (fs gs : List Frame) (id : Nat) (h : id < fs.length) :
    isActive (fs ++ gs) id = isActive fs id := by
  unfold isActive; rw [List.getElem?_append_left h]

theorem isActive_append_of (fs gs : List Frame) (id : Nat) (h : isActive fs id = true) :
    isActive (fs ++ gs) id = true := by
  rw [isActive_append_left fs gs id (isActive_lt h)]; exact h

theorem isActive_append_new (fs : List Frame) (f : Frame) (h : f.status = .active) :
    isActive (fs ++ [f]) fs.length = true := by
  unfold isActive; simp [h]

theorem isActive_modify_ne (fs : List Frame) (t id : Nat) (g : Frame → Frame) (h : t ≠ id) :
    isActive (fs.modify t g) id = isActive fs id := by
  unfold isActive; rw [List.getElem?_modify]; simp [h]

theorem isActive_modify_status (fs : List Frame) (t id : Nat) (g : Frame → Frame)
    (hg : ∀ f, (g f).status = f.status) : isActive (fs.modify t g) id = isActive fs id := by
  unfold isActive; rw [List.getElem?_modify]
  by_cases h : t = id
  · simp only [h, if_true]; cases fs[id]? <;> simp [hg]
  · simp [h]

/-! ## B. One step of `apply_records`, explicitly -/

/-- frames after the predecessor of an Insert has been marked -/
def supFrames (fs : List Frame) : Option Nat → List Frame
  | none => fs
  | some old => fs.modify old (Frame.markSup fs.length)

def supVec (v : Option (List VecEnt)) : Option Nat → Option (List VecEnt)
  | none => v
  | some old => v.map (·.filter (·.id != old))

def supLex (engine : Bool) (l : List Nat) : Option Nat → List Nat
  | none => l
  | some old => if engine then l.filter (· != old) else l

def supDirty (engine d : Bool) : Option Nat → Bool
  | none => d
  | some _ => if engine then true else d

def embOf (id : Nat) : Option Emb → List VecEnt
  | some (d, t) => [{ id := id, dim := d, tok := t }]
  | none => []

theorem applyOne_tombstone_form (st : ApSt) (sq t : Nat) (st' : ApSt)
    (h : applyOne st (sq, .tombstone t) = some st') :
    t < st.frames.length ∧
    st' = ({ st with frames := st.frames.modify t Frame.markDel, mutated := true } : ApSt).removeFromIndexes t := by
  by_cases hlt : t < st.frames.length
  · simp [applyOne, markDeleted, hlt] at h
    exact ⟨hlt, h.symm⟩
  · simp [applyOne, markDeleted, hlt] at h

theorem applyOne_insert_form (st : ApSt) (sq : Nat) (e : Ins) (st' : ApSt)
    (h : applyOne st (sq, .insert e) = some st') :
    ∃ frame : Frame, frame.status = .active ∧ frame.id = st.frames.length ∧
      (∀ old, e.supersedes = some old → old < st.frames.length) ∧
      st'.frames = supFrames st.frames e.supersedes ++ [frame] ∧
      st'.vec = supVec st.vec e.supersedes ∧
      st'.embs = st.embs ++ embOf st.frames.length e.emb ∧
      st'.engine = st.engine ∧
      st'.lexDocs = supLex st.engine (if (st.engine && e.idx) = true then st.lexDocs ++ [st.frames.length] else st.lexDocs) e.supersedes ∧
      st'.tantivyDirty = supDirty st.engine (if (st.engine && e.idx) = true then true else st.tantivyDirty) e.supersedes ∧
      st'.inserted = st.inserted ++ [st.frames.length] ∧ st'.mutated = st.mutated := by
  have hemb : ∀ (l : List VecEnt), (match e.emb with
      | some (d, t) => l ++ [({ id := st.frames.length, dim := d, tok := t } : VecEnt)]
      | none => l) = l ++ embOf st.frames.length e.emb := by
    intro l
    cases e.emb with
    | none => simp [embOf]
    | some p => obtain ⟨d, t⟩ := p; rfl
  simp only [applyOne] at h
  cases hr : e.reuseFrom with
  | none =>
    simp only [hr] at h
    cases hs : e.supersedes with
    | none =>
      simp only [hs] at h
      injection h with h
      subst h
      exact ⟨_, rfl, rfl, (fun old ho => by cases ho), rfl, rfl, hemb _, rfl, rfl, rfl, rfl, rfl⟩
    | some old =>
      simp only [hs, markSuperseded] at h
      by_cases ho : old < st.frames.length
      · simp only [ho, if_true] at h
        injection h with h
        subst h
        refine ⟨_, rfl, rfl, (fun o2 h2 => by cases h2; exact ho), rfl, rfl, hemb _, rfl, rfl, rfl, rfl, rfl⟩
      · simp [ho] at h
  | some src =>
    simp only [hr] at h
    cases hg : st.frames[src]? with
    | none => simp [hg] at h
    | some s =>
      simp only [hg] at h
      cases hs : e.supersedes with
      | none =>
        simp only [hs] at h
        injection h with h
        subst h
        exact ⟨_, rfl, rfl, (fun old ho => by cases ho), rfl, rfl, hemb _, rfl, rfl, rfl, rfl, rfl⟩
      | some old =>
        simp only [hs, markSuperseded] at h
        by_cases ho : old < st.frames.length
        · simp only [ho, if_true] at h
          injection h with h
          subst h
          refine ⟨_, rfl, rfl, (fun o2 h2 => by cases h2; exact ho), rfl, rfl, hemb _, rfl, rfl, rfl, rfl, rfl⟩
        · simp [ho] at h

theorem applyOne_lex_form (st : ApSt) (sq : Nat) (st' : ApSt) (h : applyOne st (sq, .lex) = some st') : st' = st := by
  simp [applyOne] at h; exact h.symm

@[simp] theorem supFrames_length (fs : List Frame) (sup : Option Nat) : (supFrames fs sup).length = fs.length := by
  cases sup <;> simp [supFrames]

theorem isActive_sup (fs : List Frame) (sup : Option Nat) (id : Nat) (hne : ∀ old, sup = some old → old ≠ id) :
    isActive (supFrames fs sup) id = isActive fs id := by
  cases sup with
  | none => rfl
  | some old => exact isActive_modify_ne fs old id _ (hne old rfl)

theorem mem_supVec {v : Option (List VecEnt)} {sup : Option Nat} {x : VecEnt} (h : x ∈ (supVec v sup).getD []) :
    x ∈ v.getD [] ∧ ∀ old, sup = some old → old ≠ x.id := by
  cases sup with
  | none => exact ⟨h, fun old ho => by cases ho⟩
  | some o =>
    cases v with
    | none => simp [supVec] at h
    | some l =>
      simp only [supVec, Option.map_some, Option.getD_some, List.mem_filter] at h
      refine ⟨h.1, fun old ho => ?_⟩
      cases ho
      intro heq
      have := h.2
      simp [heq] at this

/-- the frame at position `i` has id `i` -/
def DenseF (fs : List Frame) : Prop := ∀ (i : Nat) (f : Frame), fs[i]? = some f → f.id = i

theorem denseF_modify (fs : List Frame) (t : Nat) (g : Frame → Frame) (hg : ∀ f, (g f).id = f.id) (h : DenseF fs) :
    DenseF (fs.modify t g) := by
  intro i f hf
  rw [List.getElem?_modify] at hf
  cases hq : fs[i]? with
  | none => rw [hq] at hf; simp at hf
  | some f0 =>
    rw [hq] at hf
    simp only [Option.map_eq_map, Option.map_some, Option.some.injEq] at hf
    rw [← hf]
    split
    · rw [hg]; exact h i f0 hq
    · exact h i f0 hq

theorem denseF_append_one (fs : List Frame) (f : Frame) (hf : f.id = fs.length) (h : DenseF fs) : DenseF (fs ++ [f]) := by
  intro i g hg
  by_cases hlt : i < fs.length
  · rw [List.getElem?_append_left hlt] at hg; exact h i g hg
  · have hge : fs.length ≤ i := Nat.le_of_not_lt hlt
    rw [List.getElem?_append_right hge] at hg
    cases hk : i - fs.length with
    | zero =>
      rw [hk] at hg
      simp at hg
      rw [← hg, hf]; omega
    | succ k => rw [hk] at hg; simp at hg

theorem denseF_sup (fs : List Frame) (sup : Option Nat) (h : DenseF fs) : DenseF (supFrames fs sup) := by
  cases sup with
  | none => exact h
  | some old => exact denseF_modify fs old _ (fun _ => rfl) h

/-! ## C. Loop invariants of `apply_records` -/

/-- the part of the read-path invariant that lives in the apply state: the in-memory vector index and
    the embeddings collected so far name Active frames; the latter belong to frames of this batch -/
structure ApOk (n0 : Nat) (st : ApSt) : Prop where
  dense : DenseF st.frames
  len : n0 ≤ st.frames.length
  vec : ∀ e ∈ st.vec.getD [], isActive st.frames e.id = true
  embs : ∀ e ∈ st.embs, n0 ≤ e.id ∧ isActive st.frames e.id = true

theorem applyOne_ok (n0 : Nat) (st st' : ApSt) (r : Nat × Entry) (hrec : recOk n0 r.2) (hok : ApOk n0 st)
    (h : applyOne st r = some st') : ApOk n0 st' := by
  obtain ⟨sq, en⟩ := r
  cases en with
  | lex => rw [applyOne_lex_form st sq st' h]; exact hok
  | tombstone t =>
    obtain ⟨_, hst⟩ := applyOne_tombstone_form st sq t st' h
    have ht : t < n0 := hrec
    subst hst
    refine ⟨denseF_modify _ _ _ (fun _ => rfl) hok.dense, by simpa [ApSt.removeFromIndexes] using hok.len, ?_, ?_⟩
    · intro e he
      have he' : e ∈ (supVec st.vec (some t)).getD [] := he
      obtain ⟨hm, hne⟩ := mem_supVec he'
      show isActive (st.frames.modify t Frame.markDel) e.id = true
      rw [isActive_modify_ne _ _ _ _ (hne t rfl)]; exact hok.vec e hm
    · intro e he
      obtain ⟨h1, h2⟩ := hok.embs e he
      refine ⟨h1, ?_⟩
      show isActive (st.frames.modify t Frame.markDel) e.id = true
      rw [isActive_modify_ne _ _ _ _ (by omega)]; exact h2
  | insert e =>
    obtain ⟨frame, hact, hfid, hsup, hfr, hvec, hembs, _, _, _, _⟩ := applyOne_insert_form st sq e st' h
    have hsup0 : ∀ old, e.supersedes = some old → old < n0 := hrec.1
    refine ⟨by rw [hfr]; exact denseF_append_one _ _ (by simpa using hfid) (denseF_sup _ _ hok.dense), by rw [hfr]; simp; have := hok.len; omega, ?_, ?_⟩
    · intro x hx
      rw [hvec] at hx
      obtain ⟨hm, hne⟩ := mem_supVec hx
      have ha := hok.vec x hm
      rw [hfr]
      apply isActive_append_of
      rw [isActive_sup _ _ _ hne]; exact ha
    · intro x hx
      rw [hembs] at hx
      rw [hfr]
      rcases List.mem_append.mp hx with hx | hx
      · obtain ⟨h1, h2⟩ := hok.embs x hx
        refine ⟨h1, isActive_append_of _ _ _ ?_⟩
        rw [isActive_sup _ _ _ (fun old ho => by have := hsup0 old ho; omega)]; exact h2
      · have hid : x.id = st.frames.length := by
          cases hq : e.emb with
          | none => rw [hq] at hx; simp [embOf] at hx
          | some p => obtain ⟨d, t⟩ := p; rw [hq] at hx; simp [embOf] at hx; rw [hx]
        refine ⟨by rw [hid]; exact hok.len, ?_⟩
        rw [hid]
        have := isActive_append_new (supFrames st.frames e.supersedes) frame hact
        simpa using this

theorem applyLoop_ok (n0 : Nat) (recs : List (Nat × Entry)) (st st' : ApSt) (hall : AllOk n0 recs) (hok : ApOk n0 st)
    (h : applyLoop st recs = some st') : ApOk n0 st' := by
  induction recs generalizing st with
  | nil => simp [applyLoop] at h; rw [← h]; exact hok
  | cons r rs ih =>
    simp only [applyLoop] at h
    cases h1 : applyOne st r with
    | none => simp [h1] at h
    | some st1 =>
      simp only [h1] at h
      exact ih st1 (fun x hx => hall x (by simp [hx])) (applyOne_ok n0 st st1 r (hall r (by simp)) hok h1) h

/-- with the engine attached, `apply_records` keeps "every engine document is an Active frame":
    a frame loses its Active status only together with its engine document -/
theorem applyOne_lex (st st' : ApSt) (r : Nat × Entry) (heng : st.engine = true)
    (hK : ∀ x ∈ st.lexDocs, isActive st.frames x = true) (h : applyOne st r = some st') :
    st'.engine = true ∧ ∀ x ∈ st'.lexDocs, isActive st'.frames x = true := by
  obtain ⟨sq, en⟩ := r
  cases en with
  | lex => rw [applyOne_lex_form st sq st' h]; exact ⟨heng, hK⟩
  | tombstone t =>
    obtain ⟨_, hst⟩ := applyOne_tombstone_form st sq t st' h
    subst hst
    refine ⟨heng, ?_⟩
    intro x hx
    have hx' : x ∈ st.lexDocs.filter (· != t) := by simpa [ApSt.removeFromIndexes, heng] using hx
    obtain ⟨hm, hne⟩ := List.mem_filter.mp hx'
    show isActive (st.frames.modify t Frame.markDel) x = true
    rw [isActive_modify_ne _ _ _ _ (by intro hq; simp [hq] at hne)]; exact hK x hm
  | insert e =>
    obtain ⟨frame, hact, _, _, hfr, _, _, hen, hlex, _, _⟩ := applyOne_insert_form st sq e st' h
    refine ⟨by rw [hen]; exact heng, ?_⟩
    intro x hx
    rw [hlex, heng] at hx
    rw [hfr]
    -- membership in the list before the predecessor's document is removed
    have hbase : ∀ y, y ∈ (if (true && e.idx) = true then st.lexDocs ++ [st.frames.length] else st.lexDocs) →
        (y ∈ st.lexDocs ∨ y = st.frames.length) := by
      intro y hy
      split at hy
      · rcases List.mem_append.mp hy with hy | hy
        · exact Or.inl hy
        · exact Or.inr (by simpa using hy)
      · exact Or.inl hy
    have hx2 : (x ∈ st.lexDocs ∨ x = st.frames.length) ∧ ∀ old, e.supersedes = some old → old ≠ x := by
      cases hs : e.supersedes with
      | none => rw [hs] at hx; exact ⟨hbase x hx, fun old ho => by cases ho⟩
      | some o =>
        rw [hs] at hx
        simp only [supLex, if_true] at hx
        obtain ⟨hm, hne⟩ := List.mem_filter.mp hx
        refine ⟨hbase x hm, fun old ho => ?_⟩
        cases ho
        intro hq; simp [hq] at hne
    rcases hx2.1 with hm | hm
    · apply isActive_append_of
      rw [isActive_sup _ _ _ hx2.2]; exact hK x hm
    · rw [hm]
      have := isActive_append_new (supFrames st.frames e.supersedes) frame hact
      simpa using this

theorem applyLoop_lex (recs : List (Nat × Entry)) (st st' : ApSt) (heng : st.engine = true)
    (hK : ∀ x ∈ st.lexDocs, isActive st.frames x = true) (h : applyLoop st recs = some st') :
    ∀ x ∈ st'.lexDocs, isActive st'.frames x = true := by
  induction recs generalizing st with
  | nil => simp [applyLoop] at h; rw [← h]; exact hK
  | cons r rs ih =>
    simp only [applyLoop] at h
    cases h1 : applyOne st r with
    | none => simp [h1] at h
    | some st1 =>
      simp only [h1] at h
      obtain ⟨e1, k1⟩ := applyOne_lex st st1 r heng hK h1
      exact ih st1 e1 k1 h

/-- a record that makes the engine dirty when it is applied with the engine attached -/
def IdxInsert (en : Entry) : Prop := ∃ e, en = Entry.insert e ∧ e.idx = true

def HasIdxInsert (recs : List (Nat × Entry)) : Prop := ∃ r ∈ recs, IdxInsert r.2

theorem applyOne_dirty (st st' : ApSt) (r : Nat × Entry) (h : applyOne st r = some st') :
    st'.engine = st.engine ∧ (st.tantivyDirty = true → st'.tantivyDirty = true) ∧
    (st.engine = true → IdxInsert r.2 → st'.tantivyDirty = true) := by
  obtain ⟨sq, en⟩ := r
  cases en with
  | lex =>
    rw [applyOne_lex_form st sq st' h]
    exact ⟨rfl, id, fun _ hi => by obtain ⟨e, he, _⟩ := hi; cases he⟩
  | tombstone t =>
    obtain ⟨_, hst⟩ := applyOne_tombstone_form st sq t st' h
    subst hst
    refine ⟨rfl, fun hd => ?_, fun _ hi => by obtain ⟨e, he, _⟩ := hi; cases he⟩
    show (if st.engine = true then true else st.tantivyDirty) = true
    split <;> simp [hd]
  | insert e =>
    obtain ⟨frame, _, _, _, _, _, _, hen, _, hd, _⟩ := applyOne_insert_form st sq e st' h
    refine ⟨hen, fun h0 => ?_, fun he hi => ?_⟩
    · rw [hd]
      cases e.supersedes <;> simp [supDirty, h0] <;> (try split) <;> simp [h0]
    · obtain ⟨e', he', hidx⟩ := hi
      cases he'
      rw [hd, he, hidx]
      cases e.supersedes <;> simp [supDirty]

theorem applyLoop_dirty (recs : List (Nat × Entry)) (st st' : ApSt) (h : applyLoop st recs = some st') :
    st'.engine = st.engine ∧ (st.tantivyDirty = true → st'.tantivyDirty = true) ∧
    (st.engine = true → HasIdxInsert recs → st'.tantivyDirty = true) := by
  induction recs generalizing st with
  | nil =>
    simp [applyLoop] at h; rw [← h]
    exact ⟨rfl, id, fun _ hh => by obtain ⟨r, hr, _⟩ := hh; cases hr⟩
  | cons r rs ih =>
    simp only [applyLoop] at h
    cases h1 : applyOne st r with
    | none => simp [h1] at h
    | some st1 =>
      simp only [h1] at h
      obtain ⟨a1, b1, c1⟩ := applyOne_dirty st st1 r h1
      obtain ⟨a2, b2, c2⟩ := ih st1 h
      refine ⟨a2.trans a1, fun hd => b2 (b1 hd), fun he hh => ?_⟩
      obtain ⟨x, hx, hi⟩ := hh
      rcases List.mem_cons.mp hx with hx | hx
      · subst hx; exact b2 (c1 he hi)
      · exact c2 (a1.trans he) ⟨x, hx, hi⟩

theorem applyOne_mono (st st1 : ApSt) (r : Nat × Entry) (h : applyOne st r = some st1) :
    st.inserted.length ≤ st1.inserted.length ∧ (st.mutated = true → st1.mutated = true) ∧
    (st1.inserted.length = st.inserted.length → st1.mutated = false → st1 = st) := by
  obtain ⟨sq, en⟩ := r
  cases en with
  | lex => rw [applyOne_lex_form st sq st1 h]; exact ⟨Nat.le_refl _, id, fun _ _ => rfl⟩
  | tombstone t =>
    obtain ⟨_, hst⟩ := applyOne_tombstone_form st sq t st1 h
    subst hst
    exact ⟨Nat.le_refl _, fun _ => rfl, fun _ hm => by simp [ApSt.removeFromIndexes] at hm⟩
  | insert e =>
    obtain ⟨frame, _, _, _, _, _, _, _, _, _, hins, hmut⟩ := applyOne_insert_form st sq e st1 h
    exact ⟨by rw [hins]; simp, fun hm => by rw [hmut]; exact hm, fun hl _ => by rw [hins] at hl; simp at hl⟩

theorem applyLoop_mono (recs : List (Nat × Entry)) (st st' : ApSt) (h : applyLoop st recs = some st') :
    st.inserted.length ≤ st'.inserted.length ∧ (st.mutated = true → st'.mutated = true) := by
  induction recs generalizing st with
  | nil => simp [applyLoop] at h; rw [← h]; exact ⟨Nat.le_refl _, id⟩
  | cons r rs ih =>
    simp only [applyLoop] at h
    cases h1 : applyOne st r with
    | none => simp [h1] at h
    | some st1 =>
      simp only [h1] at h
      obtain ⟨a1, b1, _⟩ := applyOne_mono st st1 r h1
      obtain ⟨a2, b2⟩ := ih st1 h
      exact ⟨Nat.le_trans a1 a2, fun hm => b2 (b1 hm)⟩

/-- a batch in which no Insert and no Tombstone was processed leaves the apply state as it was -/
theorem applyLoop_quiet (recs : List (Nat × Entry)) (st st' : ApSt) (h : applyLoop st recs = some st')
    (hi : st'.inserted.length = st.inserted.length) (hm : st'.mutated = false) : st' = st := by
  induction recs generalizing st with
  | nil => simp [applyLoop] at h; exact h.symm
  | cons r rs ih =>
    simp only [applyLoop] at h
    cases h1 : applyOne st r with
    | none => simp [h1] at h
    | some st1 =>
      simp only [h1] at h
      obtain ⟨a1, b1, c1⟩ := applyOne_mono st st1 r h1
      obtain ⟨a2, b2⟩ := applyLoop_mono rs st1 st' h
      have hl : st1.inserted.length = st.inserted.length := by omega
      have hm1 : st1.mutated = false := by
        cases hq : st1.mutated with
        | false => rfl
        | true => rw [b2 hq] at hm; cases hm
      have e1 : st1 = st := c1 hl hm1
      rw [← e1]
      exact ih st1 h (by rw [hi, hl]) 

/-! ## D. Ids are positions; membership in the rebuilt indexes -/

theorem mem_insertBy {α : Type} (le : α → α → Bool) (x y : α) (l : List α) :
    y ∈ insertBy le x l ↔ y = x ∨ y ∈ l := by
  induction l with
  | nil => simp [insertBy]
  | cons z zs ih =>
    simp only [insertBy]
    split
    · simp
    · rw [List.mem_cons, ih, List.mem_cons]
      constructor
      · intro h; rcases h with h | h | h <;> simp [h]
      · intro h; rcases h with h | h | h <;> simp [h]

theorem mem_sortBy {α : Type} (le : α → α → Bool) (y : α) (l : List α) : y ∈ sortBy le l ↔ y ∈ l := by
  induction l with
  | nil => simp [sortBy]
  | cons x xs ih => simp [sortBy, mem_insertBy, ih]

theorem active_of_mem (fs : List Frame) (hd : DenseF fs) (f : Frame) (hf : f ∈ fs) (ha : f.status = .active) :
    isActive fs f.id = true := by
  obtain ⟨i, hi⟩ := List.getElem?_of_mem hf
  rw [hd i f hi]
  exact (isActive_eq_true_iff fs i).mpr ⟨f, hi, ha⟩

theorem fullLex_active (fs : List Frame) (hd : DenseF fs) (x : Nat) (hx : x ∈ fullLexRebuild fs) :
    isActive fs x = true := by
  simp only [fullLexRebuild, List.mem_map, List.mem_filter] at hx
  obtain ⟨f, ⟨hf, hp⟩, rfl⟩ := hx
  simp at hp
  exact active_of_mem fs hd f hf hp.1

theorem timeEntries_active (fs : List Frame) (hd : DenseF fs) (e : Int × Nat) (he : e ∈ timeEntries fs) :
    isActive fs e.2 = true := by
  simp only [timeEntries, mem_sortBy, List.mem_map, List.mem_filter] at he
  obtain ⟨f, ⟨hf, hp⟩, rfl⟩ := he
  simp at hp
  exact active_of_mem fs hd f hf hp.1

/-! ## E. `apply_records` on the handle -/

theorem foldl_parent_isActive (res : List (Nat × Nat)) (fs : List Frame) (id : Nat) :
    isActive (res.foldl (fun fs (cp : Nat × Nat) => fs.modify cp.1 (fun f => { f with parent := some cp.2 })) fs) id
      = isActive fs id := by
  induction res generalizing fs with
  | nil => rfl
  | cons cp rest ih => rw [List.foldl_cons, ih]; exact isActive_modify_status _ _ _ _ (fun _ => rfl)

theorem secondPass_isActive (fs : List Frame) (ins : List Nat) (id : Nat) :
    isActive (secondPass fs ins) id = isActive fs id := by
  unfold secondPass; exact foldl_parent_isActive _ fs id

theorem foldl_parent_dense (res : List (Nat × Nat)) (fs : List Frame) (h : DenseF fs) :
    DenseF (res.foldl (fun fs (cp : Nat × Nat) => fs.modify cp.1 (fun f => { f with parent := some cp.2 })) fs) := by
  induction res generalizing fs with
  | nil => exact h
  | cons cp rest ih => rw [List.foldl_cons]; exact ih _ (denseF_modify _ _ _ (fun _ => rfl) h)

theorem secondPass_dense (fs : List Frame) (ins : List Nat) (h : DenseF fs) : DenseF (secondPass fs ins) := by
  unfold secondPass; exact foldl_parent_dense _ fs h

theorem secondPass_nil (fs : List Frame) : secondPass fs [] = fs := by simp [secondPass]

/-- the apply state `apply_records` starts from -/
@[reducible] def apSt0 (m : Mem) (eng : Bool) : ApSt :=
  { frames := m.frames, cursor := m.dataEnd, payloadEnd := m.payloadEnd, vec := m.vec,
    engine := eng && m.engine, lexDocs := m.lexDocs, tantivyDirty := m.tantivyDirty, sketch := m.sketch }

theorem applyRecords_form (m : Mem) (recs : List (Nat × Entry)) (eng : Bool) (m1 : Mem) (δ : Delta)
    (h : applyRecords m recs eng = some (m1, δ)) :
    (recs = [] ∧ m1 = m ∧ δ.embs = [] ∧ δ.inserted = [] ∧ δ.nonEmpty = false) ∨
    ∃ st, applyLoop (apSt0 m eng) recs = some st ∧
      m1 = { m with frames := secondPass st.frames st.inserted, payloadEnd := st.payloadEnd,
                    dataEnd := max m.dataEnd st.cursor, vec := st.vec, lexDocs := st.lexDocs,
                    tantivyDirty := st.tantivyDirty, sketch := st.sketch } ∧
      δ.embs = st.embs ∧ δ.inserted = st.inserted ∧
      δ.nonEmpty = (!st.inserted.isEmpty || !st.embs.isEmpty || st.timeN != 0 || st.mutated) := by
  unfold applyRecords at h
  by_cases he : recs.isEmpty
  · simp only [he, if_true] at h
    have hnil : recs = [] := by simpa using he
    simp only [Option.some.injEq, Prod.mk.injEq] at h
    left; exact ⟨hnil, h.1.symm, by rw [← h.2], by rw [← h.2], by rw [← h.2]⟩
  · simp only [he, Bool.false_eq_true, if_false] at h
    right
    split at h
    · cases h
    · rename_i st hst
      simp only [Option.some.injEq, Prod.mk.injEq] at h
      exact ⟨st, hst, h.1.symm, by rw [← h.2], by rw [← h.2], by rw [← h.2]⟩

theorem applyRecords_rd (m : Mem) (recs : List (Nat × Entry)) (eng : Bool) (m1 : Mem) (δ : Delta)
    (hall : AllOk m.frames.length recs) (hd : DenseF m.frames)
    (hv : ∀ e ∈ m.vec.getD [], isActive m.frames e.id = true)
    (h : applyRecords m recs eng = some (m1, δ)) :
    DenseF m1.frames ∧
    (∀ e ∈ m1.vec.getD [], isActive m1.frames e.id = true) ∧
    (∀ e ∈ δ.embs, isActive m1.frames e.id = true) ∧
    (δ.nonEmpty = false → m1.frames = m.frames ∧ m1.lexDocs = m.lexDocs ∧ m1.tantivyDirty = m.tantivyDirty) ∧
    m1.pVec = m.pVec ∧ m1.time = m.time ∧ m1.pending = m.pending ∧ m1.engine = m.engine ∧
    m1.lexEnabled = m.lexEnabled := by
  rcases applyRecords_form m recs eng m1 δ h with ⟨_, hm, he, _, _⟩ | ⟨st, hl, hm, he, _, hne⟩
  · subst hm
    exact ⟨hd, hv, (by rw [he]; intro e h0; cases h0), fun _ => ⟨rfl, rfl, rfl⟩, rfl, rfl, rfl, rfl, rfl⟩
  · have ok0 : ApOk m.frames.length (apSt0 m eng) := ⟨hd, Nat.le_refl _, hv, fun e h0 => by cases h0⟩
    have ok := applyLoop_ok m.frames.length recs (apSt0 m eng) st hall ok0 hl
    subst hm
    refine ⟨secondPass_dense _ _ ok.dense, ?_, ?_, ?_, rfl, rfl, rfl, rfl, rfl⟩
    · intro e h0
      show isActive (secondPass st.frames st.inserted) e.id = true
      rw [secondPass_isActive]; exact ok.vec e h0
    · intro e h0
      show isActive (secondPass st.frames st.inserted) e.id = true
      rw [he] at h0
      rw [secondPass_isActive]; exact (ok.embs e h0).2
    · intro hq
      rw [hne] at hq
      simp only [Bool.or_eq_false_iff, Bool.not_eq_false', bne_eq_false_iff_eq] at hq
      have hi : st.inserted.length = (apSt0 m eng).inserted.length := by
        have : st.inserted = [] := by simpa using hq.1.1.1
        rw [this]
      have hst := applyLoop_quiet recs (apSt0 m eng) st hl hi hq.2
      subst hst
      exact ⟨secondPass_nil _, rfl, rfl⟩

theorem applyLoop_grows (recs : List (Nat × Entry)) (st st' : ApSt) (h : applyLoop st recs = some st')
    (hi : HasIdxInsert recs) : st.inserted.length < st'.inserted.length := by
  induction recs generalizing st with
  | nil => obtain ⟨r, hr, _⟩ := hi; cases hr
  | cons r rs ih =>
    simp only [applyLoop] at h
    cases h1 : applyOne st r with
    | none => simp [h1] at h
    | some st1 =>
      simp only [h1] at h
      obtain ⟨a1, _, _⟩ := applyOne_mono st st1 r h1
      obtain ⟨x, hx, hxi⟩ := hi
      rcases List.mem_cons.mp hx with hx | hx
      · subst hx
        obtain ⟨sq, en⟩ := x
        obtain ⟨e, he, _⟩ := hxi
        simp only at he
        subst he
        obtain ⟨frame, _, _, _, _, _, _, _, _, _, hins, _⟩ := applyOne_insert_form st sq e st1 h1
        have := (applyLoop_mono rs st1 st' h).1
        rw [hins] at this
        simp at this
        omega
      · have := ih st1 h ⟨x, hx, hxi⟩
        omega

theorem applyRecords_lex (m : Mem) (recs : List (Nat × Entry)) (m1 : Mem) (δ : Delta) (heng : m.engine = true)
    (h : applyRecords m recs true = some (m1, δ)) :
    (HasIdxInsert recs → m1.tantivyDirty = true ∧ δ.nonEmpty = true) ∧
    ((∀ x ∈ m.lexDocs, isActive m.frames x = true) → ∀ x ∈ m1.lexDocs, isActive m1.frames x = true) := by
  rcases applyRecords_form m recs true m1 δ h with ⟨hnil, hm, _, _, _⟩ | ⟨st, hl, hm, _, _, hne⟩
  · subst hm
    exact ⟨fun hh => (by rw [hnil] at hh; obtain ⟨r, hr, _⟩ := hh; cases hr), fun hk => hk⟩
  · have he0 : (apSt0 m true).engine = true := by simp [heng]
    subst hm
    refine ⟨fun hh => ⟨(applyLoop_dirty recs (apSt0 m true) st hl).2.2 he0 hh, ?_⟩, fun hk => ?_⟩
    · have hg := applyLoop_grows recs (apSt0 m true) st hl hh
      rw [hne]
      have : st.inserted ≠ [] := by intro hq; rw [hq] at hg; simp at hg
      cases hq : st.inserted with
      | nil => exact absurd hq this
      | cons a l => simp
    · intro x hx
      show isActive (secondPass st.frames st.inserted) x = true
      rw [secondPass_isActive]
      exact applyLoop_lex recs (apSt0 m true) st he0 hk hl x hx

/-! ## F. The read-path invariant -/

theorem hasIdx_append_lex (p l : List (Nat × Entry)) (hl : OnlyLex l) : HasIdxInsert (p ++ l) ↔ HasIdxInsert p := by
  constructor
  · intro ⟨r, hr, hi⟩
    rcases List.mem_append.mp hr with h | h
    · exact ⟨r, h, hi⟩
    · obtain ⟨e, he, _⟩ := hi; rw [hl r h] at he; cases he
  · intro ⟨r, hr, hi⟩; exact ⟨r, List.mem_append_left _ hr, hi⟩

theorem hasIdx_append_left (p q : List (Nat × Entry)) (h : HasIdxInsert p) : HasIdxInsert (p ++ q) := by
  obtain ⟨r, hr, hi⟩ := h; exact ⟨r, List.mem_append_left _ hr, hi⟩

theorem not_hasIdx_nil : ¬ HasIdxInsert [] := by
  intro ⟨r, hr, _⟩; cases hr

/-- `m'` has the frame table, the index contents and the engine of `m`; pending records differ by `Lex`
    records at the end at most -/
structure Same (m' m : Mem) : Prop where
  frames : m'.frames = m.frames
  vec : m'.vec = m.vec
  pvec : m'.pVec = m.pVec
  time : m'.time = m.time
  lexDocs : m'.lexDocs = m.lexDocs
  engine : m'.engine = m.engine
  lexEnabled : m'.lexEnabled = m.lexEnabled
  pend : ∃ l, OnlyLex l ∧ m'.pending = m.pending ++ l

theorem onlyLex_nil : OnlyLex [] := by intro r hr; cases hr

theorem Same.refl (m : Mem) : Same m m := ⟨rfl, rfl, rfl, rfl, rfl, rfl, rfl, [], onlyLex_nil, by simp⟩

theorem Same.trans {a b c : Mem} (h1 : Same a b) (h2 : Same b c) : Same a c := by
  obtain ⟨l1, o1, p1⟩ := h1.pend
  obtain ⟨l2, o2, p2⟩ := h2.pend
  refine ⟨h1.frames.trans h2.frames, h1.vec.trans h2.vec, h1.pvec.trans h2.pvec, h1.time.trans h2.time,
    h1.lexDocs.trans h2.lexDocs, h1.engine.trans h2.engine, h1.lexEnabled.trans h2.lexEnabled, l2 ++ l1, ?_,
    by rw [p1, p2, List.append_assoc]⟩
  intro r hr
  rcases List.mem_append.mp hr with h | h
  · exact o2 r h
  · exact o1 r h

/-- THE READ-PATH INVARIANT.  Ids are positions; the engine is attached; the in-memory vector index,
    the persisted vector index and the persisted time index hold ids of Active frames only; and — when
    `lx` — so does the lexical engine, unless an indexed Insert is still pending (which forces a full
    engine rebuild when it is applied). -/
structure RdOk (lx : Bool) (m : Mem) : Prop where
  dense : DenseF m.frames
  eng : m.engine = true
  lexOn : m.lexEnabled = true
  vec : ∀ e ∈ m.vec.getD [], isActive m.frames e.id = true
  pvec : ∀ e ∈ m.pVec.getD [], isActive m.frames e.id = true
  time : ∀ e ∈ m.time.getD [], isActive m.frames e.2 = true
  lex : lx = true → HasIdxInsert m.pending ∨ ∀ x ∈ m.lexDocs, isActive m.frames x = true

theorem RdOk.of_same {lx : Bool} {m' m : Mem} (h : Same m' m) (hr : RdOk lx m) : RdOk lx m' := by
  obtain ⟨l, ol, pl⟩ := h.pend
  refine ⟨by rw [h.frames]; exact hr.dense, by rw [h.engine]; exact hr.eng, by rw [h.lexEnabled]; exact hr.lexOn,
    by rw [h.frames, h.vec]; exact hr.vec, by rw [h.frames, h.pvec]; exact hr.pvec,
    by rw [h.frames, h.time]; exact hr.time, fun hl => ?_⟩
  rw [h.frames, h.lexDocs, pl]
  rcases hr.lex hl with h1 | h1
  · exact Or.inl (hasIdx_append_left _ _ h1)
  · exact Or.inr h1

theorem RdOk.weaken {lx : Bool} {m : Mem} (hr : RdOk lx m) : RdOk false m :=
  ⟨hr.dense, hr.eng, hr.lexOn, hr.vec, hr.pvec, hr.time, fun h => by cases h⟩

theorem persistToc_same (m : Mem) : Same m.persistToc m :=
  ⟨rfl, rfl, rfl, rfl, rfl, rfl, rfl, [], onlyLex_nil, by simp [Mem.persistToc]⟩

theorem flushTantivy_same (m : Mem) (ft : Nat) : Same (m.flushTantivy ft) m := by
  unfold Mem.flushTantivy
  split
  · exact Same.refl m
  · split
    · exact ⟨rfl, rfl, rfl, rfl, rfl, rfl, rfl, [(m.seq + 1, Entry.lex)], by simp [OnlyLex], rfl⟩
    · exact ⟨rfl, rfl, rfl, rfl, rfl, rfl, rfl, [], onlyLex_nil, by simp⟩

theorem setWalSize_same (m : Mem) (ws : Nat) : Same (m.setWalSize ws) m := by
  unfold Mem.setWalSize
  split
  · exact Same.refl m
  · exact ⟨rfl, rfl, rfl, rfl, rfl, rfl, rfl, [], onlyLex_nil, by simp [Mem.persistToc]⟩

theorem addCards_same (m : Mem) (nc pseq : Nat) : Same (m.addCards nc pseq) m := by
  unfold Mem.addCards
  split
  · exact Same.refl m
  · exact ⟨rfl, rfl, rfl, rfl, rfl, rfl, rfl, [], onlyLex_nil, by simp⟩

theorem enableVec_same (m : Mem) : Same m.enableVec m := by
  unfold Mem.enableVec
  split
  · exact Same.refl m
  · exact ⟨rfl, rfl, rfl, rfl, rfl, rfl, rfl, [], onlyLex_nil, by simp⟩

theorem noteDim_same (m : Mem) (d : Nat) : Same (m.noteDim d) m := by
  unfold Mem.noteDim
  split
  · exact ⟨rfl, rfl, rfl, rfl, rfl, rfl, rfl, [], onlyLex_nil, by simp⟩
  · exact Same.refl m

/-! ### `rebuild_indexes` -/

theorem rebuildLex_report (m1 : Mem) (ins : List Nat) (ft : Nat) (hle : m1.lexEnabled = true) :
    (m1.rebuildLex ins ft).frames = m1.frames ∧ (m1.rebuildLex ins ft).vec = m1.vec ∧
    (m1.rebuildLex ins ft).pVec = m1.pVec ∧ (m1.rebuildLex ins ft).time = m1.time ∧
    (m1.rebuildLex ins ft).engine = true ∧ (m1.rebuildLex ins ft).lexEnabled = true ∧
    (m1.rebuildLex ins ft).vecEnabled = m1.vecEnabled ∧
    (∃ l, OnlyLex l ∧ (m1.rebuildLex ins ft).pending = m1.pending ++ l) ∧
    (m1.rebuildLex ins ft).lexDocs =
      (if m1.tantivyDirty then fullLexRebuild m1.frames
       else if m1.engine && !ins.isEmpty then
         m1.lexDocs ++ ins.filter (fun id => match m1.frames[id]? with
           | some f => f.status == .active && f.idx
           | none => false)
       else fullLexRebuild m1.frames) := by
  unfold Mem.rebuildLex
  rw [if_pos hle]
  exact ⟨rfl, rfl, rfl, rfl, rfl, hle, rfl, ⟨[(m1.seq + 1, Entry.lex)], by simp [OnlyLex], rfl⟩, rfl⟩

theorem rebuildVec_report (m2 : Mem) (embs : List VecEnt)
    (hembs : ∀ e ∈ embs, isActive m2.frames e.id = true) :
    (m2.rebuildVec embs).frames = m2.frames ∧ (m2.rebuildVec embs).time = m2.time ∧
    (m2.rebuildVec embs).engine = m2.engine ∧ (m2.rebuildVec embs).lexEnabled = m2.lexEnabled ∧
    (m2.rebuildVec embs).lexDocs = m2.lexDocs ∧ (m2.rebuildVec embs).pending = m2.pending ∧
    (∀ e ∈ (m2.rebuildVec embs).vec.getD [], isActive m2.frames e.id = true) ∧
    (∀ e ∈ (m2.rebuildVec embs).pVec.getD [], isActive m2.frames e.id = true) := by
  have hboth : ∀ e ∈ (m2.vec.getD []).filter (fun e => isActive m2.frames e.id) ++ embs, isActive m2.frames e.id = true := by
    intro e he
    rcases List.mem_append.mp he with h | h
    · exact (List.mem_filter.mp h).2
    · exact hembs e h
  unfold Mem.rebuildVec
  split
  · exact ⟨rfl, rfl, rfl, rfl, rfl, rfl, hboth, hboth⟩
  · exact ⟨rfl, rfl, rfl, rfl, rfl, rfl, (fun e he => by cases he), (fun e he => by cases he)⟩

/-- `rebuild_indexes` on a handle with the lexical index enabled -/
theorem rebuildIndexes_rd (m : Mem) (embs : List VecEnt) (ins : List Nat) (ft : Nat) (hle : m.lexEnabled = true)
    (hd : DenseF m.frames) (hembs : ∀ e ∈ embs, isActive m.frames e.id = true) :
    (m.rebuildIndexes embs ins ft).frames = m.frames ∧ (m.rebuildIndexes embs ins ft).engine = true ∧
    (m.rebuildIndexes embs ins ft).lexEnabled = true ∧
    (∃ l, OnlyLex l ∧ (m.rebuildIndexes embs ins ft).pending = m.pending ++ l) ∧
    (∀ e ∈ (m.rebuildIndexes embs ins ft).vec.getD [], isActive m.frames e.id = true) ∧
    (∀ e ∈ (m.rebuildIndexes embs ins ft).pVec.getD [], isActive m.frames e.id = true) ∧
    (∀ e ∈ (m.rebuildIndexes embs ins ft).time.getD [], isActive m.frames e.2 = true) ∧
    ((m.tantivyDirty = true ∨ ins = [] ∨ ∀ x ∈ m.lexDocs, isActive m.frames x = true) →
        ∀ x ∈ (m.rebuildIndexes embs ins ft).lexDocs, isActive m.frames x = true) := by
  have hc : ¬ ((m.frames.isEmpty && !m.lexEnabled && !m.vecEnabled) = true) := by rw [hle]; simp
  let m1 : Mem := { m with dataEnd := m.payloadEnd, time := some (timeEntries m.frames) }
  obtain ⟨lf, lv, lpv, lt, le, lle, _, lp, ld⟩ := rebuildLex_report m1 ins ft hle
  obtain ⟨vf, vt, ve, vle, vd, vp, vv, vpv⟩ := rebuildVec_report (m1.rebuildLex ins ft) embs (by rw [lf]; exact hembs)
  unfold Mem.rebuildIndexes
  rw [if_neg hc]
  refine ⟨?_, ?_, ?_, ?_, ?_, ?_, ?_, ?_⟩
  · show ((m1.rebuildLex ins ft).rebuildVec embs).frames = m.frames
    rw [vf, lf]
  · show ((m1.rebuildLex ins ft).rebuildVec embs).engine = true
    rw [ve, le]
  · show ((m1.rebuildLex ins ft).rebuildVec embs).lexEnabled = true
    rw [vle, lle]
  · show ∃ l, OnlyLex l ∧ ((m1.rebuildLex ins ft).rebuildVec embs).pending = m.pending ++ l
    rw [vp]; exact lp
  · intro e he
    have := vv e he
    rwa [lf] at this
  · intro e he
    have := vpv e he
    rwa [lf] at this
  · intro e he
    have he' : e ∈ ((m1.rebuildLex ins ft).rebuildVec embs).time.getD [] := he
    rw [vt, lt] at he'
    exact timeEntries_active m.frames hd e he'
  · intro hcase x hx
    have hx' : x ∈ ((m1.rebuildLex ins ft).rebuildVec embs).lexDocs := hx
    rw [vd, ld] at hx'
    have hfull : ∀ y ∈ fullLexRebuild m.frames, isActive m.frames y = true := fun y hy => fullLex_active m.frames hd y hy
    split at hx'
    · exact hfull x hx'
    · split at hx'
      · rename_i hnd hinc
        rcases hcase with h | h | h
        · exact absurd h hnd
        · rw [h] at hinc; simp at hinc
        · rcases List.mem_append.mp hx' with h2 | h2
          · exact h x h2
          · have := (List.mem_filter.mp h2).2
            unfold isActive
            revert this
            cases m.frames[x]? with
            | none => simp
            | some f => simp; intro a _; exact a
      · exact hfull x hx'

/-! ### commit -/

/-- the facts of `RdOk` about a handle on which nothing relevant is pending -/
structure Settled (lx : Bool) (m2 : Mem) : Prop where
  dense : DenseF m2.frames
  eng : m2.engine = true
  lexOn : m2.lexEnabled = true
  vec : ∀ e ∈ m2.vec.getD [], isActive m2.frames e.id = true
  pvec : ∀ e ∈ m2.pVec.getD [], isActive m2.frames e.id = true
  time : ∀ e ∈ m2.time.getD [], isActive m2.frames e.2 = true
  lex : lx = true → ∀ x ∈ m2.lexDocs, isActive m2.frames x = true

theorem Settled.rdOk {lx : Bool} {m' m2 : Mem} (s : Settled lx m2) (hf : m'.frames = m2.frames) (hv : m'.vec = m2.vec)
    (hpv : m'.pVec = m2.pVec) (ht : m'.time = m2.time) (hld : m'.lexDocs = m2.lexDocs) (he : m'.engine = m2.engine)
    (hle : m'.lexEnabled = m2.lexEnabled) : RdOk lx m' :=
  ⟨by rw [hf]; exact s.dense, by rw [he]; exact s.eng, by rw [hle]; exact s.lexOn, by rw [hf, hv]; exact s.vec,
   by rw [hf, hpv]; exact s.pvec, by rw [hf, ht]; exact s.time, fun hl => Or.inr (by rw [hf, hld]; exact s.lex hl)⟩

theorem Settled.of_same {lx : Bool} {m' m2 : Mem} (h : Same m' m2) (s : Settled lx m2) : Settled lx m' :=
  ⟨by rw [h.frames]; exact s.dense, by rw [h.engine]; exact s.eng, by rw [h.lexEnabled]; exact s.lexOn,
   by rw [h.frames, h.vec]; exact s.vec, by rw [h.frames, h.pvec]; exact s.pvec, by rw [h.frames, h.time]; exact s.time,
   fun hl => by rw [h.frames, h.lexDocs]; exact s.lex hl⟩

/-- the tail `persist_sketch_track; footer; record_checkpoint` of `recover_wal` / `vacuum` -/
theorem settle_tail (lx : Bool) (R : Mem) (ft : Nat) (s : Settled lx R) : RdOk lx ((R.persistSketch.bumpFooter ft).checkpoint) :=
  s.rdOk rfl rfl rfl rfl rfl rfl rfl

/-- after `apply_records` (engine attached) and the index step that follows it in `commit` / `recover_wal`;
    `X` = the applied handle, possibly with switches flipped that no read path looks at (`enableVecForEmbs`) -/
theorem applied_rdX (lx : Bool) (m m1 : Mem) (δ : Delta) (ft : Nat) (hok : AllOk m.frames.length m.pending) (hr : RdOk lx m)
    (h1 : applyRecords m m.pending true = some (m1, δ)) (X : Mem)
    (xf : X.frames = m1.frames) (xv : X.vec = m1.vec) (xpv : X.pVec = m1.pVec) (xt : X.time = m1.time)
    (xld : X.lexDocs = m1.lexDocs) (xe : X.engine = m1.engine) (xle : X.lexEnabled = m1.lexEnabled)
    (xtd : X.tantivyDirty = m1.tantivyDirty) :
    Settled lx (if δ.nonEmpty = true then X.rebuildIndexes δ.embs δ.inserted ft else X.flushTantivy ft) := by
  obtain ⟨hd1, hv1, he1, hq1, hp1, ht1, _, hen1, hle1⟩ :=
    applyRecords_rd m m.pending true m1 δ hok hr.dense hr.vec h1
  obtain ⟨hx1, hk1⟩ := applyRecords_lex m m.pending m1 δ hr.eng h1
  have hdX : DenseF X.frames := by rw [xf]; exact hd1
  by_cases hne : δ.nonEmpty = true
  · rw [if_pos hne]
    obtain ⟨rf, re, rl, _, rv, rpv, rt, rlx⟩ :=
      rebuildIndexes_rd X δ.embs δ.inserted ft (by rw [xle, hle1]; exact hr.lexOn) hdX (by rw [xf]; exact he1)
    refine ⟨by rw [rf]; exact hdX, re, rl, by rw [rf]; exact rv, by rw [rf]; exact rpv, by rw [rf]; exact rt, ?_⟩
    intro hl
    rw [rf]
    refine rlx ?_
    rcases hr.lex hl with h0 | h0
    · exact Or.inl (by rw [xtd]; exact (hx1 h0).1)
    · exact Or.inr (Or.inr (by rw [xld, xf]; exact hk1 h0))
  · rw [if_neg hne]
    have hnf : δ.nonEmpty = false := by cases hq : δ.nonEmpty <;> simp_all
    obtain ⟨qf, ql, _⟩ := hq1 hnf
    refine Settled.of_same (flushTantivy_same X ft)
      ⟨hdX, by rw [xe, hen1]; exact hr.eng, by rw [xle, hle1]; exact hr.lexOn, by rw [xf, xv]; exact hv1, ?_, ?_, ?_⟩
    · rw [xpv, xf, hp1, qf]; exact hr.pvec
    · rw [xt, xf, ht1, qf]; exact hr.time
    · intro hl
      rw [xld, xf, ql, qf]
      rcases hr.lex hl with h0 | h0
      · have := (hx1 h0).2; rw [hnf] at this; cases this
      · exact h0

theorem applied_rd (lx : Bool) (m m1 : Mem) (δ : Delta) (ft : Nat) (hok : AllOk m.frames.length m.pending) (hr : RdOk lx m)
    (h1 : applyRecords m m.pending true = some (m1, δ)) :
    Settled lx (if δ.nonEmpty = true then m1.rebuildIndexes δ.embs δ.inserted ft else m1.flushTantivy ft) :=
  applied_rdX lx m m1 δ ft hok hr h1 m1 rfl rfl rfl rfl rfl rfl rfl rfl

theorem enableVecForEmbs_eqs (ma : Mem) (embs : List VecEnt) :
    (ma.enableVecForEmbs embs).frames = ma.frames ∧ (ma.enableVecForEmbs embs).vec = ma.vec ∧
    (ma.enableVecForEmbs embs).pVec = ma.pVec ∧ (ma.enableVecForEmbs embs).time = ma.time ∧
    (ma.enableVecForEmbs embs).lexDocs = ma.lexDocs ∧ (ma.enableVecForEmbs embs).engine = ma.engine ∧
    (ma.enableVecForEmbs embs).lexEnabled = ma.lexEnabled ∧ (ma.enableVecForEmbs embs).tantivyDirty = ma.tantivyDirty := by
  unfold Mem.enableVecForEmbs
  split <;> exact ⟨rfl, rfl, rfl, rfl, rfl, rfl, rfl, rfl⟩

theorem commitFromRecords_rd (lx : Bool) (m m' : Mem) (ft : Nat) (hi : Inv m) (hr : RdOk lx m)
    (h : m.commitFromRecords ft = some m') : RdOk lx m' := by
  unfold Mem.commitFromRecords at h
  split at h
  · cases h
  · rename_i m1 δ h1
    simp only [Option.some.injEq] at h
    have s := applied_rd lx m m1 δ ft hi.ok hr h1
    subst h
    by_cases hne : δ.nonEmpty = true
    · simp only [hne, if_true] at s ⊢
      exact s.rdOk rfl rfl rfl rfl rfl rfl rfl
    · simp only [hne] at s ⊢
      exact s.rdOk rfl rfl rfl rfl rfl rfl rfl

theorem commit_rd (lx : Bool) (m : Mem) (ft : Nat) (hi : Inv m) (hr : RdOk lx m) : RdOk lx (m.commit ft).1 := by
  unfold Mem.commit
  split
  · exact hr
  · cases hc : m.commitFromRecords ft with
    | none => exact hr
    | some m' => exact commitFromRecords_rd lx m m' ft hi hr hc

theorem autoCommit_rd (lx : Bool) (m : Mem) (t : Trace) (hi : Inv m) (hr : RdOk lx m) : RdOk lx (m.autoCommit t) := by
  unfold Mem.autoCommit; split
  · exact commit_rd lx m t.ft hi hr
  · exact hr

theorem afterAppend_rd (lx : Bool) (m : Mem) (t : Trace) (hi : Inv m) (hr : RdOk lx m) : RdOk lx (m.afterAppend t) := by
  unfold Mem.afterAppend
  have hs := setWalSize_same m t.ws
  split
  · exact RdOk.of_same hs hr
  · exact autoCommit_rd lx _ t ((setWalSize_skel m t.ws).inv hi) (RdOk.of_same hs hr)

/-! ### put / update / delete -/

theorem appendPut_rd (lx : Bool) (m : Mem) (a : PutArgs) (sup reuse : Option Nat) (hr : RdOk lx m) :
    RdOk lx (m.appendPut a sup reuse) := by
  refine ⟨hr.dense, hr.eng, hr.lexOn, hr.vec, hr.pvec, hr.time, fun hl => ?_⟩
  show HasIdxInsert (m.pending ++ putRecords m.seq a sup reuse) ∨
    ∀ x ∈ (if (a.ii && m.engine && a.st) = true then m.lexDocs ++ [m.nextFrameId] else m.lexDocs), isActive m.frames x = true
  rcases hr.lex hl with h0 | h0
  · exact Or.inl (hasIdx_append_left _ _ h0)
  · by_cases hinst : (a.ii && m.engine && a.st) = true
    · left
      have hst : a.st = true := by
        revert hinst; cases a.ii <;> cases m.engine <;> cases a.st <;> simp
      refine ⟨(m.seq + 1, Entry.insert (parentIns a sup reuse)), ?_, parentIns a sup reuse, rfl, ?_⟩
      · apply List.mem_append_right; simp [putRecords]
      · simp [parentIns, hst]
    · right; rw [if_neg hinst]; exact h0

theorem putTail_rd (lx : Bool) (m : Mem) (a : PutArgs) (sup reuse : Option Nat) (t : Trace) (hi : Inv m) (hr : RdOk lx m)
    (hsup : ∀ x, sup = some x → x < m.frames.length) (hreu : ∀ x, reuse = some x → x < m.frames.length) :
    RdOk lx (m.putTail a sup reuse t).1 := by
  have hi1 : Inv (m.appendPut a sup reuse) := by
    constructor
    · show AllOk m.frames.length (m.pending ++ putRecords m.seq a sup reuse)
      intro r hr0
      rcases List.mem_append.mp hr0 with hr0 | hr0
      · exact hi.ok r hr0
      · exact allOk_putRecords _ _ _ _ _ hsup hreu r hr0
    · show m.pendingInserts + (putRecords m.seq a sup reuse).length = countInserts (m.pending ++ putRecords m.seq a sup reuse)
      rw [countInserts_append, countInserts_putRecords, hi.pi]
  have hfin : ∀ k, RdOk lx (((m.appendPut a sup reuse).afterAppend t).addCards a.nc k) := fun k =>
    RdOk.of_same (addCards_same _ _ k) (afterAppend_rd lx _ t hi1 (appendPut_rd lx m a sup reuse hr))
  unfold Mem.putTail
  -- every rejection (capacity checks) leaves the handle as it was
  repeat' (first | exact hr | exact hfin _ | split)

theorem putCore_rd (lx : Bool) (m : Mem) (a : PutArgs) (sup reuse : Option Nat) (t : Trace) (hi : Inv m) (hr : RdOk lx m)
    (hsup : ∀ x, sup = some x → x < m.frames.length) (hreu : ∀ x, reuse = some x → x < m.frames.length) :
    RdOk lx (m.putCore a sup reuse t).1 := by
  have hev := enableVec_same m
  have hevk : SkelLex m.enableVec m := by
    unfold Mem.enableVec; split
    · exact SkelLex.refl m
    · exact SkelLex.of_eq rfl rfl rfl
  unfold Mem.putCore
  split
  · exact hr
  · split
    · split
      · exact hr
      · split
        · exact RdOk.of_same hev hr
        · rename_i d rest _ _ _
          have hnd : Same (m.enableVec.noteDim d) m := Same.trans (noteDim_same _ d) hev
          have hndk : SkelLex (m.enableVec.noteDim d) m := by
            refine SkelLex.trans ?_ hevk
            unfold Mem.noteDim; split
            · exact SkelLex.of_eq rfl rfl rfl
            · exact SkelLex.refl _
          exact putTail_rd lx _ a sup reuse t (hndk.inv hi) (RdOk.of_same hnd hr)
            (by rw [hnd.frames]; exact hsup) (by rw [hnd.frames]; exact hreu)
    · exact putTail_rd lx m a sup reuse t hi hr hsup hreu

theorem put_rd (lx : Bool) (m : Mem) (a : PutArgs) (t : Trace) (hi : Inv m) (hr : RdOk lx m) : RdOk lx (m.put a t).1 :=
  putCore_rd lx m a none none t hi hr (fun x h => by cases h) (fun x h => by cases h)

theorem loadVec_rd (lx : Bool) (m : Mem) (hr : RdOk lx m) : RdOk lx m.loadVec := by
  unfold Mem.loadVec
  split
  · exact ⟨hr.dense, hr.eng, hr.lexOn, hr.pvec, hr.pvec, hr.time, hr.lex⟩
  · exact hr

theorem update_rd (lx : Bool) (m : Mem) (id : Nat) (u : UpdArgs) (t : Trace) (hi : Inv m) (hr : RdOk lx m) :
    RdOk lx (m.update id u t).1 := by
  have hl := loadVec_skel m
  have hlr := loadVec_rd lx m hr
  unfold Mem.update
  split
  · exact hr
  · split
    · exact hr
    · rename_i old hold
      split
      · exact hr
      · split
        · exact hlr
        · have hlt : id < m.frames.length := (List.getElem?_eq_some_iff.mp hold).1
          exact putCore_rd lx m.loadVec _ (some id) _ t (hl.inv hi) hlr
            (fun x hx => by cases hx; rw [hl.length]; exact hlt)
            (fun x hx => by
              rw [hl.length]
              split at hx
              · cases hx; exact hlt
              · cases hx)

theorem delete_rd (lx : Bool) (m : Mem) (id : Nat) (t : Trace) (hi : Inv m) (hr : RdOk lx m) :
    RdOk lx (m.delete id t).1 := by
  unfold Mem.delete
  split
  · exact hr
  · rename_i f hf
    split
    · exact hr
    · have hlt : id < m.frames.length := (List.getElem?_eq_some_iff.mp hf).1
      have hi1 : Inv ({ m with pending := m.pending ++ [(m.seq + 1, Entry.tombstone id)], seq := m.seq + 1, dirty := true } : Mem) := by
        constructor
        · intro r hr0
          rcases List.mem_append.mp hr0 with hr0 | hr0
          · exact hi.ok r hr0
          · simp at hr0; subst hr0; exact hlt
        · show m.pendingInserts = countInserts (m.pending ++ [(m.seq + 1, Entry.tombstone id)])
          rw [countInserts_append, hi.pi]; rfl
      have hr1 : RdOk lx ({ m with pending := m.pending ++ [(m.seq + 1, Entry.tombstone id)], seq := m.seq + 1, dirty := true } : Mem) := by
        refine ⟨hr.dense, hr.eng, hr.lexOn, hr.vec, hr.pvec, hr.time, fun hl => ?_⟩
        rcases hr.lex hl with h0 | h0
        · exact Or.inl (hasIdx_append_left _ _ h0)
        · exact Or.inr h0
      exact afterAppend_rd lx _ t hi1 hr1

/-! ### drop / open / crash -/

theorem dropHandle_rd (lx : Bool) (m : Mem) (ft : Nat) (hi : Inv m) (hr : RdOk lx m) : RdOk lx (m.dropHandle ft) := by
  unfold Mem.dropHandle; split
  · exact commit_rd lx m ft hi hr
  · exact hr

theorem openLoad_rd (lx : Bool) (m : Mem) (hr : RdOk lx m) : RdOk lx m.openLoad := by
  refine ⟨hr.dense, rfl, rfl, ?_, hr.pvec, hr.time, fun hl => ?_⟩
  · show ∀ e ∈ (if m.pVecMan = true then m.pVec else none).getD [], isActive m.frames e.id = true
    split
    · exact hr.pvec
    · intro e he; cases he
  · show HasIdxInsert m.pending ∨
      ∀ x ∈ (if m.tantivySegs = true then m.lexDocs else fullLexRebuild m.frames), isActive m.frames x = true
    split
    · exact hr.lex hl
    · exact Or.inr (fun x hx => fullLex_active m.frames hr.dense x hx)

theorem recoverWal_rd (lx : Bool) (m1 : Mem) (ft : Nat) (hok : AllOk m1.frames.length m1.pending) (hr : RdOk lx m1) :
    RdOk lx (m1.recoverWal ft) := by
  unfold Mem.recoverWal
  split
  · exact RdOk.of_same (flushTantivy_same m1 ft) hr
  · split
    · exact hr
    · rename_i ma δ h1
      obtain ⟨e1, e2, e3, e4, e5, e6, e7, e8⟩ := enableVecForEmbs_eqs ma δ.embs
      exact settle_tail lx _ ft (applied_rdX lx m1 ma δ ft hok hr h1 (ma.enableVecForEmbs δ.embs) e1 e2 e3 e4 e5 e6 e7 e8)

theorem loadTracks_same (m2 : Mem) : Same m2.loadTracks m2 :=
  ⟨rfl, rfl, rfl, rfl, rfl, rfl, rfl, [], onlyLex_nil, by simp [Mem.loadTracks]⟩

theorem openFrom_rd (lx : Bool) (m : Mem) (ft : Nat) (hok : AllOk m.frames.length m.pending) (hr : RdOk lx m) :
    RdOk lx (m.openFrom ft) := by
  unfold Mem.openFrom
  exact recoverWal_rd lx m.openLoad.loadTracks ft hok (RdOk.of_same (loadTracks_same _) (openLoad_rd lx m hr))

theorem reopen_rd (lx : Bool) (m : Mem) (a b : Nat) (hi : Inv m) (hr : RdOk lx m) : RdOk lx (m.reopen a b).1 :=
  openFrom_rd lx (m.dropHandle a) b (dropHandle_inv m a hi).ok (dropHandle_rd lx m a hi hr)

theorem crash_rd (lx : Bool) (m : Mem) (ft : Nat) (hi : Inv m) (hr : RdOk lx m) : RdOk lx (m.crash ft).1 := by
  have h0 : RdOk lx ({ m with queue := m.pQueue } : Mem) :=
    RdOk.of_same (m := m) ⟨rfl, rfl, rfl, rfl, rfl, rfl, rfl, [], onlyLex_nil, by simp⟩ hr
  exact openFrom_rd lx _ ft hi.ok h0

/-! ### skip-index commit, finalize, vacuum, doctor -/

theorem foldEmbs_report (m1 : Mem) (embs : List VecEnt) (hv : ∀ e ∈ m1.vec.getD [], isActive m1.frames e.id = true)
    (he : ∀ e ∈ embs, isActive m1.frames e.id = true) :
    (m1.foldEmbs embs).frames = m1.frames ∧ (m1.foldEmbs embs).engine = m1.engine ∧
    (m1.foldEmbs embs).lexEnabled = m1.lexEnabled ∧
    (∀ e ∈ (m1.foldEmbs embs).vec.getD [], isActive m1.frames e.id = true) := by
  unfold Mem.foldEmbs
  split
  · exact ⟨rfl, rfl, rfl, hv⟩
  · refine ⟨rfl, rfl, rfl, ?_⟩
    intro e h0
    have h1 : e ∈ (m1.vec.getD []).filter (fun e => isActive m1.frames e.id) ++ embs := h0
    rcases List.mem_append.mp h1 with h | h
    · exact (List.mem_filter.mp h).2
    · exact he e h

/-- `commit_skip_indexes` keeps everything but the lexical part: the engine is detached while the
    records are applied, so a superseded / deleted frame keeps its engine document -/
theorem commitSkip_rd (lx : Bool) (m : Mem) (hi : Inv m) (hr : RdOk lx m) : RdOk false m.commitSkipIndexes.1 := by
  unfold Mem.commitSkipIndexes
  split
  · exact hr.weaken
  · split
    · exact RdOk.of_same (m := m) ⟨rfl, rfl, rfl, rfl, rfl, rfl, rfl, [], onlyLex_nil, by simp⟩ hr.weaken
    · rename_i m1 δ h1
      obtain ⟨hd1, hv1, he1, _, _, _, _, hen1, hle1⟩ := applyRecords_rd m m.pending false m1 δ hi.ok hr.dense hr.vec h1
      obtain ⟨ff, fe, fl, fv⟩ := foldEmbs_report m1 δ.embs hv1 he1
      refine ⟨?_, ?_, ?_, ?_, (fun e he => by cases he), (fun e he => by cases he), (fun h => by cases h)⟩
      · show DenseF (m1.foldEmbs δ.embs).frames
        rw [ff]; exact hd1
      · show (m1.foldEmbs δ.embs).engine = true
        rw [fe, hen1]; exact hr.eng
      · show (m1.foldEmbs δ.embs).lexEnabled = true
        rw [fl, hle1]; exact hr.lexOn
      · intro e he
        show isActive (m1.foldEmbs δ.embs).frames e.id = true
        rw [ff]; exact fv e he

/-- a full rebuild on top of any handle whose lexical index is enabled -/
theorem rebuildAll_settled (m : Mem) (ft : Nat) (hle : m.lexEnabled = true) (hd : DenseF m.frames) :
    Settled true (m.rebuildIndexes [] [] ft) := by
  obtain ⟨rf, re, rl, _, rv, rpv, rt, rlx⟩ := rebuildIndexes_rd m [] [] ft hle hd (fun e he => by cases he)
  exact ⟨by rw [rf]; exact hd, re, rl, by rw [rf]; exact rv, by rw [rf]; exact rpv, by rw [rf]; exact rt,
    fun _ => by rw [rf]; exact rlx (Or.inr (Or.inl rfl))⟩

/-- `finalize_indexes` (a full rebuild) restores the lexical part -/
theorem finalize_rd (lx : Bool) (m : Mem) (ft : Nat) (hr : RdOk lx m) : RdOk true (m.finalizeIndexes ft).1 := by
  have s := rebuildAll_settled m ft hr.lexOn hr.dense
  unfold Mem.finalizeIndexes
  exact s.rdOk rfl rfl rfl rfl rfl rfl rfl

theorem isActive_of_view (fs gs : List Frame) (h : fs.map view = gs.map view) (id : Nat) : isActive fs id = isActive gs id := by
  have h1 : (fs.map view)[id]? = (gs.map view)[id]? := by rw [h]
  rw [List.getElem?_map, List.getElem?_map] at h1
  unfold isActive
  cases hf : fs[id]? with
  | none =>
    rw [hf] at h1
    cases hg : gs[id]? with
    | none => rfl
    | some g => rw [hg] at h1; simp at h1
  | some f =>
    rw [hf] at h1
    cases hg : gs[id]? with
    | none => rw [hg] at h1; simp at h1
    | some g =>
      rw [hg] at h1
      simp only [Option.map_some, Option.some.injEq] at h1
      have : f.status = g.status := congrArg SFrame.status h1
      simp [this]

theorem denseF_of_view_eq (fs gs : List Frame) (h : fs.map view = gs.map view) (hd : DenseF gs) : DenseF fs := by
  intro i f hf
  have h1 : (fs.map view)[i]? = (gs.map view)[i]? := by rw [h]
  rw [List.getElem?_map, List.getElem?_map, hf] at h1
  cases hg : gs[i]? with
  | none => rw [hg] at h1; simp at h1
  | some g =>
    rw [hg] at h1
    simp only [Option.map_some, Option.some.injEq] at h1
    have : f.id = g.id := congrArg SFrame.id h1
    rw [this]; exact hd i g hg

/-- `vacuum` (commit, compaction, full rebuild) restores the lexical part -/
theorem vacuum_rd (lx : Bool) (m : Mem) (a b : Nat) (hi : Inv m) (hr : RdOk lx m) : RdOk true (m.vacuum a b).1 := by
  have hc := commit_rd lx m a hi hr
  have hack : (m.commit a).2.isAck = true := by rw [commit_ok m a hi]; rfl
  unfold Mem.vacuum
  rw [if_pos hack]
  have hv := view_compact (m.commit a).1.frames 0
  have s := rebuildAll_settled (m.commit a).1.compactFrames b hc.lexOn
    (denseF_of_view_eq _ _ hv hc.dense)
  exact settle_tail true _ b s

theorem rebuild_reset_rd (X : Mem) (ft : Nat) (hle : X.lexEnabled = true) (hd : DenseF X.frames) :
    RdOk true (X.rebuildIndexes [] [] ft).resetWal :=
  (rebuildAll_settled X ft hle hd).rdOk rfl rfl rfl rfl rfl rfl rfl

theorem doctorRebuild_rd (lx : Bool) (m2 : Mem) (rv : Bool) (ft : Nat) (hr : RdOk lx m2) :
    RdOk true (m2.doctorRebuild rv ft) := by
  unfold Mem.doctorRebuild
  -- whatever is done to the vector fields first, the frame table and the lexical switch are m2's
  repeat' (first | exact rebuild_reset_rd _ ft hr.lexOn hr.dense | split)

theorem resetWal_rd (lx : Bool) (X : Mem) (hq : Quiet X) (hr : RdOk lx X) : RdOk lx X.resetWal :=
  ⟨hr.dense, hr.eng, hr.lexOn, hr.vec, hr.pvec, hr.time, fun hl => by
    rcases hr.lex hl with h0 | h0
    · obtain ⟨r, hr0, e, he, _⟩ := h0
      rw [hq.lex r hr0] at he; cases he
    · exact Or.inr h0⟩

theorem doctor_rd (lx : Bool) (m : Mem) (vac rt rl rv : Bool) (a b c d : Nat) (hi : Inv m) (hr : RdOk lx m) :
    RdOk lx (m.doctor vac rt rl rv a b c d).1 := by
  have hd := dropHandle_inv m a hi
  obtain ⟨hq0, _⟩ := openFrom_spec (m.dropHandle a) b hd.ok
  have r0 : RdOk lx ((m.dropHandle a).openFrom b) := openFrom_rd lx _ b hd.ok (dropHandle_rd lx m a hi hr)
  -- stage 1
  have h1 : Quiet (m.doctorStage1 vac a b c) ∧ RdOk lx (m.doctorStage1 vac a b c) := by
    unfold Mem.doctorStage1
    split
    · refine ⟨vacuum_quiet _ b c hq0, ?_⟩
      have := vacuum_rd lx _ b c hq0.inv r0
      cases lx
      · exact this.weaken
      · exact this
    · exact ⟨hq0, r0⟩
  -- stage 2
  have h2 : Quiet ((m.doctorStage1 vac a b c).doctorStage2 (rt || rl || rv) rv c) ∧
      RdOk lx ((m.doctorStage1 vac a b c).doctorStage2 (rt || rl || rv) rv c) := by
    unfold Mem.doctorStage2
    split
    · refine ⟨(doctorRebuild_quiet _ rv c h1.1).1, ?_⟩
      have := doctorRebuild_rd lx _ rv c h1.2
      cases lx
      · exact this.weaken
      · exact this
    · exact h1
  -- the final WAL cleanup
  have h3q := (resetWal_quiet _ h2.1).1
  have h3 := resetWal_rd lx _ h2.1 h2.2
  have hd3 := dropHandle_inv _ c h3q.inv
  unfold Mem.doctor
  exact openFrom_rd lx _ d hd3.ok (dropHandle_rd lx _ c h3q.inv h3)

/-! ### every operation -/

def Op.isSkip : Op → Bool
  | .commitSkipIndexes => true
  | _ => false

theorem create_rd : RdOk true Mem.create :=
  ⟨(fun i f h => by simp [Mem.create] at h), rfl, rfl, (fun e he => by cases he), (fun e he => by cases he),
   (fun e he => by cases he), fun _ => Or.inr (fun x hx => by cases hx)⟩

/-- ONE STEP: the read-path invariant is preserved by every operation; only `commit_skip_indexes` loses
    its lexical part -/
theorem rdOk_step (lx : Bool) (m : Mem) (op : Op) (hi : Inv m) (hr : RdOk lx m) :
    RdOk (lx && !op.isSkip) (step m op).1 := by
  have hb : (lx && !false) = lx := by cases lx <;> rfl
  cases op with
  | create =>
    show RdOk (lx && !false) Mem.create
    rw [hb]; cases lx
    · exact create_rd.weaken
    · exact create_rd
  | put a t => show RdOk (lx && !false) (m.put a t).1; rw [hb]; exact put_rd lx m a t hi hr
  | update id u t => show RdOk (lx && !false) (m.update id u t).1; rw [hb]; exact update_rd lx m id u t hi hr
  | delete id t => show RdOk (lx && !false) (m.delete id t).1; rw [hb]; exact delete_rd lx m id t hi hr
  | commit ft => show RdOk (lx && !false) (m.commit ft).1; rw [hb]; exact commit_rd lx m ft hi hr
  | reopen a b => show RdOk (lx && !false) (m.reopen a b).1; rw [hb]; exact reopen_rd lx m a b hi hr
  | crash ft => show RdOk (lx && !false) (m.crash ft).1; rw [hb]; exact crash_rd lx m ft hi hr
  | beginBatch d ws =>
    have hs : Same (m.beginBatch d ws).1 m :=
      Same.trans (b := m.setWalSize ws) ⟨rfl, rfl, rfl, rfl, rfl, rfl, rfl, [], onlyLex_nil, by simp [Mem.beginBatch]⟩ (setWalSize_same m ws)
    show RdOk (lx && !false) (m.beginBatch d ws).1; rw [hb]; exact RdOk.of_same hs hr
  | endBatch =>
    have hs : Same m.endBatch.1 m := ⟨rfl, rfl, rfl, rfl, rfl, rfl, rfl, [], onlyLex_nil, by simp [Mem.endBatch]⟩
    show RdOk (lx && !false) m.endBatch.1; rw [hb]; exact RdOk.of_same hs hr
  | commitSkipIndexes =>
    show RdOk (lx && !true) m.commitSkipIndexes.1
    have : (lx && !true) = false := by cases lx <;> rfl
    rw [this]; exact commitSkip_rd lx m hi hr
  | finalizeIndexes ft =>
    have := finalize_rd lx m ft hr
    show RdOk (lx && !false) (m.finalizeIndexes ft).1; rw [hb]
    cases lx
    · exact this.weaken
    · exact this
  | vacuum a b =>
    have := vacuum_rd lx m a b hi hr
    show RdOk (lx && !false) (m.vacuum a b).1; rw [hb]
    cases lx
    · exact this.weaken
    · exact this
  | doctor v rt rl rv a b c d =>
    show RdOk (lx && !false) (m.doctor v rt rl rv a b c d).1; rw [hb]; exact doctor_rd lx m v rt rl rv a b c d hi hr
  | ticket sq c b f =>
    have hs : Same (m.applyTicket sq c b f).1 m := by
      unfold Mem.applyTicket; split
      · exact Same.refl m
      · exact ⟨rfl, rfl, rfl, rfl, rfl, rfl, rfl, [], onlyLex_nil, by simp [Mem.persistToc]⟩
    show RdOk (lx && !false) (m.applyTicket sq c b f).1; rw [hb]; exact RdOk.of_same hs hr

end Mv.Core
