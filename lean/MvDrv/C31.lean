/- Driver for C31 (footer scan) and the footer codec part of C30.
   requests:  scan <hex>            → none | some <footerOffset> <tocOffset> <tocLen> <generation> <hex tocHash> <hex H(tocBytes)>
              naive <hex>           → same format, from the naive reference
              fdecode <hex>         → none | some <tocLen> <generation> <hex hash>
              fencode <tocLen> <generation> <hex hash> → <hex> -/
import MvModel.Footer
import MvModel.Blake3
import MvModel.DrvUtil
open Mv Mv.Footer

def showSlice (r : Option FooterSlice) : String :=
  match r with
  | none => "none"
  | some s => s!"some {s.footerOffset} {s.tocOffset} {s.footer.tocLen} {s.footer.generation} {toHexW s.footer.tocHash} {toHexW (Blake3.hash s.tocBytes)}"

def step (_ : Unit) (ws : List String) : Unit × String :=
  match ws with
  | ["scan", h] => match ofHex h with
      | some b => ((), showSlice (findLast Blake3.hash b))
      | none => ((), "bad-op")
  | ["naive", h] => match ofHex h with
      | some b => ((), showSlice (naiveScan Blake3.hash b))
      | none => ((), "bad-op")
  | ["fdecode", h] => match ofHex h with
      | some b => match decode b with
        | some f => ((), s!"some {f.tocLen} {f.generation} {toHexW f.tocHash}")
        | none => ((), "none")
      | none => ((), "bad-op")
  | ["fencode", tl, g, h] => match tl.toNat?, g.toNat?, ofHex h with
      | some tl, some g, some hh => ((), toHexW (encode { tocLen := tl, tocHash := hh, generation := g }))
      | _, _, _ => ((), "bad-op")
  | _ => ((), "bad-op")

def main : IO Unit := runDriver () step
