/-
  C09 — lexical recall: the sketch pre-filter decision and what it does to a search.

  Mirrors
    src/types/sketch_track.rs   SketchEntry::hamming_distance, QuerySketch::from_query,
                                QuerySketch::score_entry (the two rejections; the score itself only
                                orders candidates), SketchTrack::find_candidates
    src/memvid/sketch.rs        Memvid::find_sketch_candidates (min_score = 0.0 removes nothing)
    src/memvid/search/mod.rs    Memvid::search: guard and options of the SKETCH PRE-FILTER stage
  and composes them with the finished models of the candidate-filter combination and engine
  hand-off (MvModel/Filter.lean, C11) and of the hit assembly loop (MvModel/Page.lean, C16).

  Black boxes, all explicit parameters: the token hash (blake3), the score order used before the
  truncation to `max_candidates` (f32 arithmetic; a permutation), Tantivy (`Filter.Engine`), the
  post-filter outcome per frame (`World.docs`: query evaluation + snippet slices, C32/C35), the
  recency re-sort (`World.reorder`, f32; a permutation).
-/
import MvModel.Sketch
import MvModel.Filter
import MvModel.Page
import MvModel.Gen.C09
namespace Mv.Recall
open Mv.Sketch Mv.Gen.C09

/-! ### Hamming distance -/

/-- `u64::count_ones` -/
def popcount (n : Nat) : Nat := ((List.range SIMHASH_BITS).filter fun i => n.testBit i).length

/-- `SketchEntry::hamming_distance`: `(self.simhash ^ other).count_ones()` -/
def hamming (a b : Nat) : Nat := popcount (a ^^^ b)

/-! ### Query sketch -/

/-- `QuerySketch` -/
structure QSketch where
  simhash : Nat
  termFilter : Bytes
  topTerms : List Nat
  tokenCount : Nat
deriving DecidableEq, Repr

/-- `build_term_filter` for a non-zero size (never panics there: `buildFilter_eq`) -/
def buildFilter (hs : List Nat) (size : Nat) : Bytes := hs.foldl (addHash (size * 8)) (zeros size)

theorem buildFilter_eq (hs : List Nat) (size : Nat) (h : 0 < size) :
    buildTermFilter hs size = some (buildFilter hs size) := by
  unfold buildTermFilter buildFilter
  have : ¬ (size = 0 ∧ hs ≠ []) := fun c => by omega
  simp [this]

/-- `QuerySketch::from_query` after tokenisation -/
def QSketch.ofTokens (hash : Bytes → Nat) (tokens : List Bytes) (v : Variant) : QSketch :=
  if tokens.isEmpty then { simhash := 0, termFilter := zeros v.filterSize, topTerms := [], tokenCount := 0 }
  else
    let weighted := computeTokenWeights hash wtNoIdf tokens
    { simhash := computeSimhash weighted
      termFilter := buildFilter (weighted.map (·.1)) v.filterSize
      topTerms := extractTopTerms weighted v.topTermsCount
      tokenCount := tokens.length }

/-! ### The per-entry decision of `score_entry` -/

/-- `if hamming > hamming_threshold { return None }` (comparison operator read from the source) -/
def cut (thr ham : Nat) : Bool := if HAMMING_CUT_STRICT then decide (ham > thr) else decide (ham ≥ thr)

inductive Verdict where
  | noOverlap     -- `!entry.term_filter_maybe_overlaps(&self.term_filter)` → `None`
  | tooFar        -- `hamming > hamming_threshold` → `None`
  | pass          -- `Some(score)`
deriving DecidableEq, Repr

/-- the two rejections of `QuerySketch::score_entry`, in source order -/
def verdict (q : QSketch) (thr : Nat) (e : Entry) : Verdict :=
  if !maybeOverlaps e.termFilter q.termFilter then .noOverlap
  else if cut thr (hamming e.simhash q.simhash) then .tooFar
  else .pass

def passes (q : QSketch) (thr : Nat) (e : Entry) : Bool := verdict q thr e == .pass

/-- `SketchTrack::find_candidates` + the frame ids `find_sketch_candidates` reports.
    `order` = the stable sort by score, descending (scores are f32: a parameter; only its being a
    permutation is ever used); `score >= 0.0` holds for every score (a sum of non-negative terms). -/
def findCandidates (order : List Entry → List Entry) (q : QSketch) (t : Track) (thr maxC : Nat) : List Nat :=
  ((order (t.entries.filter (passes q thr))).take maxC).map (·.frameId)

/-- `max_candidates: (params.top_k * 10).max(500)` -/
def maxCandidates (topK : Nat) : Nat := max (topK * SKETCH_CAND_MULT) SKETCH_CAND_FLOOR

/-- the guard `self.has_sketches() && has_text_terms && !request.no_sketch` and the call;
    `none` = stage skipped (what `Filter.sketchStage` expects) -/
def sketchIn (order : List Entry → List Entry) (q : QSketch) (t : Track) (hasTextTerms noSketch : Bool)
    (thr topK : Nat) : Option (List Nat) :=
  if !t.entries.isEmpty && hasTextTerms && !noSketch then some (findCandidates order q t thr (maxCandidates topK))
  else none

/-! ### A whole search, frame ids only -/

/-- everything outside the sketch stage that a search depends on -/
structure World where
  /-- Tantivy (+ legacy lex index) -/
  engine : Filter.Engine
  /-- outcome of the per-hit post-filter: `none` = culled (stale id, uri/scope, `parsed.evaluate`
      false, chunk context error, no snippet slice); `some d` = the document handed to the assembly
      loop (chunk range + snippet slices for this request's window and budget) -/
  docs : Nat → Option Page.Doc
  /-- recency re-sort of the evaluated list -/
  reorder : List Nat → List Nat
  frames : List Filter.Frame

/-- post-processing of `try_tantivy_search` between engine hits and `hits[].frame_id` (no cursor) -/
def post (W : World) (topK : Nat) : Filter.Post where
  keep := fun f => (W.docs f).isSome
  order := W.reorder
  page := fun l => (Page.page (l.filterMap W.docs) 0 topK).hits.map (·.frame)

/-- the part of a `SearchRequest` C09 varies (no cursor, no date range, no time travel, no ACL) -/
structure Request where
  topK : Nat
  noSketch : Bool
  hasTextTerms : Bool := true
deriving Repr

/-- `Memvid::search(request).hits[].frame_id` with Hamming threshold `thr` -/
def hitFramesAt (thr : Nat) (W : World) (order : List Entry → List Entry) (q : QSketch) (t : Track)
    (r : Request) : List Nat :=
  Filter.search .repaired W.engine (post W r.topK) W.frames
    { sketch := sketchIn order q t r.hasTextTerms r.noSketch thr r.topK
      topK := r.topK, offset := 0, hasTextTerms := r.hasTextTerms }

/-- … with the threshold `Memvid::search` passes -/
def hitFrames (W : World) (order : List Entry → List Entry) (q : QSketch) (t : Track) (r : Request) : List Nat :=
  hitFramesAt SKETCH_HAMMING W order q t r

/-- the candidate filter handed to the engine (`none` = early empty response) -/
def filterOf (thr : Nat) (order : List Entry → List Entry) (q : QSketch) (t : Track) (r : Request) : Filter.Stage :=
  Filter.candidateFilter .repaired []
    { sketch := sketchIn order q t r.hasTextTerms r.noSketch thr r.topK
      topK := r.topK, offset := 0, hasTextTerms := r.hasTextTerms }

end Mv.Recall
