/-
  Model of memvid's READ-ONLY access path (C18): `Memvid::open_read_only` →
  `open_read_only_snapshot` (src/memvid/lifecycle.rs) and the read APIs callable on the resulting
  handle, as functions over the file image that LOG every write they emit.

  What is mirrored, in source order:
    * `locate_footer_window` / `load_tail_snapshot`  — C31 scan over a tail window that starts at
      `MAX_SEARCH_SIZE` and doubles until it covers the file;
    * `HeaderCodec::read`                            — WRITE-CAPABLE PATH 1: when any of the legacy lock
      bytes 80..140 is non-zero the cleared 4 KiB header is written back (before decoding, before the
      shared lock is taken);
    * `EmbeddedWal::open_read_only`                  — scan only, no sentinel write (MvModel/Wal.lean);
    * `init_tantivy` → `materialize_tantivy_segments` → `align_footer_with_catalog` →
      `rewrite_toc_footer` + `persist_header`       — WRITE-CAPABLE PATH 2: an embedded segment that
      ends beyond the file or beyond `header.footer_offset` makes the handle re-align the footer:
      TOC + footer written at `catalog_data_end()`, `set_len`, header rewritten;
    * the read APIs (`frame_count`, `frame_by_id`, frame text, `search`, `timeline`, `stats`,
      `wal.pending_records` as used by `verify`) — none writes; `search` re-runs `init_tantivy` when
      the engine is missing.
  `open_read_only` opens the descriptor read+write, so nothing but this code discipline prevents
  writes.

  Black boxes are parameters (`Ext`): blake3 `H`, `Toc::decode`+`verify_checksum` (`decodeToc`, giving
  the `TocView` = the facts of the TOC the path looks at), `prepare_toc_bytes` (`encodeToc`).
  Tantivy itself (opening the materialised directory, rebuilding in memory) touches only a `TempDir`
  outside the file and is not modelled; errors of `materialize_tantivy_segments` are swallowed by
  `init_tantivy` exactly as in the source.

  `Variant` selects between the code as found (`current`) and the repair proposed in
  /verif/fixes/C18.diff (`repaired`); `codeVariant` is what tools/gen/C18.py saw in the source.
-/
import MvModel.Bytes
import MvModel.Header
import MvModel.Footer
import MvModel.Wal
import MvModel.Gen.C18
namespace Mv.ReadOnly
open Mv

def HEADER_SIZE : Nat := Mv.Gen.C18.HEADER_SIZE
def LEGACY_START : Nat := Mv.Gen.C18.LEGACY_LOCK_REGION_START
def LEGACY_END : Nat := Mv.Gen.C18.LEGACY_LOCK_REGION_END
def MAX_SEARCH_SIZE : Nat := Mv.Gen.C18.MAX_SEARCH_SIZE

theorem HEADER_SIZE_eq : HEADER_SIZE = 4096 := by decide
theorem LEGACY_START_eq : LEGACY_START = 80 := by decide
theorem LEGACY_END_eq : LEGACY_END = 140 := by decide
/-- the header model (C30) and this model agree on the header size, and the legacy region lies in
    the padding behind the last encoded field -/
theorem layout_ok : HEADER_SIZE = Mv.Header.HEADER_SIZE ∧ LEGACY_START = Mv.Header.TOC_CHECKSUM_END ∧
    LEGACY_START ≤ LEGACY_END ∧ LEGACY_END ≤ HEADER_SIZE ∧ 0 < MAX_SEARCH_SIZE := by decide

/-! ### writes and their effect on the file image -/

/-- the write-class operations the path can issue on the file descriptor -/
inductive Write where
  /-- `seek(off)` + `write_all(w)` -/
  | pwrite (off : Nat) (w : Bytes)
  /-- `set_len(n)` -/
  | setLen (n : Nat)
deriving Repr, DecidableEq

def padTo (b : Bytes) (n : Nat) : Bytes := b ++ zeros (n - b.length)

def Write.apply (d : Bytes) : Write → Bytes
  | .pwrite off w =>
    let p := padTo d (off + w.length)
    p.take off ++ w ++ p.drop (off + w.length)
  | .setLen n => padTo (d.take n) n

def applyAll (d : Bytes) (ws : List Write) : Bytes := ws.foldl Write.apply d

/-! ### variants, black boxes, TOC view -/

structure Variant where
  /-- the read-only open reads the header through `HeaderCodec::read` (clears legacy bytes in place) -/
  clearsLegacy : Bool
  /-- `align_footer_with_catalog` runs on a read-only handle -/
  alignsWhenReadOnly : Bool
deriving Repr, DecidableEq

/-- the code at the time the machinery was written -/
def Variant.current : Variant := { clearsLegacy := true, alignsWhenReadOnly := true }
/-- /verif/fixes/C18.diff applied -/
def Variant.repaired : Variant := { clearsLegacy := false, alignsWhenReadOnly := false }
/-- what the translator found in the working tree -/
def codeVariant : Variant :=
  { clearsLegacy := Mv.Gen.C18.HEADER_READ_CLEARS_LEGACY, alignsWhenReadOnly := Mv.Gen.C18.ALIGN_ON_READ_ONLY }

/-- the facts of a decoded `Toc` the read-only path depends on; extents are `(bytes_offset, bytes_length)` -/
structure TocView where
  /-- `toc.frames.len()` -/
  frames : Nat
  /-- `toc.toc_checksum` -/
  tocChecksum : Bytes
  /-- `has_lex_index(&toc)` -/
  lexIndex : Bool
  /-- `segment_catalog.tantivy_segments`, in order -/
  tantivySegs : List (Nat × Nat)
  /-- `indexes.lex_segments` as `EmbeddedLexStorage` iterates them (by path, last duplicate wins) -/
  lexStorageSegs : List (Nat × Nat)
  /-- every other extent `catalog_data_end` maximises over: catalog lex/vec/time segments and the
      `indexes.lex`, `indexes.vec`, `time_index` manifests -/
  catalogOther : List (Nat × Nat)
deriving Repr, DecidableEq

structure Ext where
  /-- blake3 -/
  H : Bytes → Bytes
  /-- `Toc::decode` followed by `verify_checksum`; `none` when either fails -/
  decodeToc : Bytes → Option TocView
  /-- `prepare_toc_bytes`: the canonical bytes and the checksum it stores into `toc.toc_checksum` -/
  encodeToc : TocView → Bytes × Bytes

inductive Err where
  | io
  | noFooter                      -- "no valid commit footer found"
  | badToc                        -- `Toc::decode` / `verify_checksum` failed
  | header (e : Mv.Header.Err)
  | wal (e : Mv.Wal.WalErr)
  | tantivy                       -- `MemvidError::Tantivy` inside `materialize_tantivy_segments`
deriving Repr, DecidableEq

/-! ### `load_tail_snapshot` -/

/-- the `loop` of `locate_footer_window`; `fuel` bounds the number of windows (the window at least
    doubles, so `len + 1` rounds always reach `window = len`; see `locateLoop_small` for the case
    every harness file is in) -/
def locateLoop (H : Bytes → Bytes) (d : Bytes) : Nat → Nat → Option (Mv.Footer.FooterSlice × Nat)
  | 0, _ => none
  | fuel+1, window =>
    let start := d.length - window
    match Mv.Footer.findLast H (d.drop start) with
    | some s => some (s, start)
    | none => if window = d.length then none else locateLoop H d fuel (min (window * 2) d.length)

/-- `locate_footer_window` -/
def locateFooterWindow (H : Bytes → Bytes) (d : Bytes) : Option (Mv.Footer.FooterSlice × Nat) :=
  if d.isEmpty then none else locateLoop H d (d.length + 1) (min MAX_SEARCH_SIZE d.length)

structure Snapshot where
  toc : TocView
  footerOffset : Nat
  generation : Nat
deriving Repr, DecidableEq

/-- `load_tail_snapshot`: `footer_offset` is the position of the footer MAGIC (not of the TOC) -/
def loadTailSnapshot (ext : Ext) (d : Bytes) : Except Err Snapshot :=
  match locateFooterWindow ext.H d with
  | none => .error .noFooter
  | some (s, adj) =>
    match ext.decodeToc s.tocBytes with
    | none => .error .badToc
    | some t => .ok { toc := t, footerOffset := s.footerOffset + adj, generation := s.footer.generation }

/-! ### `HeaderCodec::read` on the read-only path -/

/-- `region.iter().any(|byte| *byte != 0)` -/
def legacyDirty (buf : Bytes) : Bool := (slice buf LEGACY_START (LEGACY_END - LEGACY_START)).any (· != 0)

/-- `region.fill(0)` -/
def clearLegacy (buf : Bytes) : Bytes := writeAt buf LEGACY_START (zeros (LEGACY_END - LEGACY_START))

def liftHeader (r : Except Mv.Header.Err Mv.Header.Header) : Except Err Mv.Header.Header :=
  match r with
  | .ok h => .ok h
  | .error e => .error (.header e)

/-- `clearsLegacy`: `HeaderCodec::read(&mut file)` — `read_exact` 4 KiB, clear + write back when
    dirty, decode the (cleared) buffer.  Otherwise (repair): `read_exact` + `HeaderCodec::decode`. -/
def headerRead (v : Variant) (d : Bytes) : List Write × Except Err Mv.Header.Header :=
  if d.length < HEADER_SIZE then ([], .error .io)
  else
    let buf := d.take HEADER_SIZE
    if v.clearsLegacy && legacyDirty buf then
      ([.pwrite 0 (clearLegacy buf)], liftHeader (Mv.Header.decode (clearLegacy buf)))
    else ([], liftHeader (Mv.Header.decode buf))

/-! ### the handle -/

structure Handle where
  /-- current image of the file -/
  file : Bytes
  /-- every write issued so far through this handle, in order -/
  log : List Write
  header : Mv.Header.Header
  toc : TocView
  generation : Nat
  wal : Mv.Wal.Wal
  lexEnabled : Bool
  /-- `self.tantivy.is_some()` -/
  tantivy : Bool
  readOnly : Bool
deriving Repr, DecidableEq

def Handle.emit (h : Handle) (ws : List Write) : Handle :=
  { h with file := applyAll h.file ws, log := h.log ++ ws }

/-- a log operation's effect on the file: the log model keeps its own copy of the region; whatever
    it changed there is a write into `[wal_offset, wal_offset + wal_size)` -/
def walWrites (walOffset : Nat) (before after : Bytes) : List Write :=
  if after = before then [] else [.pwrite walOffset after]

/-- `catalog_data_end` -/
def catalogDataEnd (h : Handle) : Nat :=
  (h.toc.catalogOther ++ h.toc.tantivySegs).foldl
    (fun m e => if e.2 = 0 then m else max m (e.1 + e.2)) (h.header.walOffset + h.header.walSize)

/-- `rewrite_toc_footer` -/
def rewriteTocFooter (ext : Ext) (h : Handle) : Handle :=
  let enc := ext.encodeToc h.toc
  let tocBytes := enc.1
  let fo := h.header.footerOffset
  let footer := Mv.Footer.encode { tocLen := tocBytes.length, tocHash := ext.H tocBytes, generation := h.generation }
  let newLen := fo + tocBytes.length + footer.length
  let minLen := h.header.walOffset + h.header.walSize
  let h1 := { h with toc := { h.toc with tocChecksum := enc.2 } }
  h1.emit [.pwrite fo tocBytes, .pwrite (fo + tocBytes.length) footer, .setLen (max newLen minLen)]

/-- `align_footer_with_catalog`; the flag is its `Ok(bool)` -/
def alignFooter (v : Variant) (ext : Ext) (h : Handle) : Handle × Except Err Bool :=
  if h.readOnly && !v.alignsWhenReadOnly then (h, .ok false)
  else
    let ce := catalogDataEnd h
    if ce ≤ h.header.footerOffset then (h, .ok false)
    else
      let h1 := { h with header := { h.header with footerOffset := ce } }
      let h2 := rewriteTocFooter ext h1
      let h3 := { h2 with header := { h2.header with tocChecksum := h2.toc.tocChecksum } }
      match Mv.Header.encode h3.header with
      | .error e => (h3, .error (.header e))
      | .ok hb => (h3.emit [.pwrite 0 hb], .ok true)

/-- the `for segment in segments` loop of `materialize_tantivy_segments` (copying the segment bytes
    into the temp directory reads the file only) -/
def materialize (v : Variant) (ext : Ext) : Handle → List (Nat × Nat) → Nat → Nat → Handle × Except Err Unit
  | h, [], _, _ => (h, .ok ())
  | h, (off, len) :: rest, fileLen, dataLimit =>
    if len = 0 then materialize v ext h rest fileLen dataLimit
    else
      let end_ := off + len
      if end_ ≥ 2 ^ 64 then (h, .error .tantivy)          -- `checked_add` overflow
      else if end_ > fileLen ∨ end_ > dataLimit then
        match alignFooter v ext h with
        | (h', .error e) => (h', .error e)
        | (h', .ok aligned) =>
          let fileLen' := if aligned then h'.file.length else fileLen
          let dataLimit' := if aligned then h'.header.footerOffset else dataLimit
          if end_ > fileLen' ∨ end_ > dataLimit' then (h', .error .tantivy)
          else materialize v ext h' rest fileLen' dataLimit'
      else materialize v ext h rest fileLen dataLimit

/-- the segments `init_tantivy` materialises: the catalog's Tantivy segments, else the legacy
    `lex_storage` ones -/
def usedSegs (t : TocView) : List (Nat × Nat) :=
  if t.tantivySegs.isEmpty then t.lexStorageSegs else t.tantivySegs

/-- `init_tantivy` (an error of `materialize_tantivy_segments` or of opening the directory only makes
    it create a fresh in-memory engine) -/
def initTantivy (v : Variant) (ext : Ext) (h : Handle) : Handle :=
  if !h.lexEnabled then { h with tantivy := false }
  else
    let h' := if (usedSegs h.toc).isEmpty then h
              else (materialize v ext h (usedSegs h.toc) h.file.length h.header.footerOffset).1
    { h' with tantivy := true, lexEnabled := true }

/-! ### `open_read_only_snapshot` -/

structure Opened where
  /-- writes issued, also when the open fails half-way -/
  log : List Write
  /-- file image afterwards -/
  file : Bytes
  res : Except Err Handle

def openReadOnlyWith (walReadOnly : Bool) (v : Variant) (ext : Ext) (d : Bytes) : Opened :=
  match loadTailSnapshot ext d with
  | .error e => { log := [], file := d, res := .error e }
  | .ok snap =>
    let hr := headerRead v d
    let d1 := applyAll d hr.1
    match hr.2 with
    | .error e => { log := hr.1, file := d1, res := .error e }
    | .ok hdr0 =>
      let hdr := { hdr0 with footerOffset := snap.footerOffset, tocChecksum := snap.toc.tocChecksum }
      -- `FileLock::acquire_with_mode(&file, LockMode::Shared)`: C17
      let region := slice d1 hdr.walOffset hdr.walSize
      match Mv.Wal.openFromHeader ext.H hdr.walSize region hdr.walSequence hdr.walCheckpointPos walReadOnly with
      | .error e => { log := hr.1, file := d1, res := .error (.wal e) }
      | .ok wal =>
        let h0 : Handle := { file := d1, log := hr.1, header := hdr, toc := snap.toc, generation := snap.generation,
                             wal := wal, lexEnabled := snap.toc.lexIndex, tantivy := false, readOnly := true }
        let h1 := h0.emit (walWrites hdr.walOffset region wal.region)
        -- `load_lex_index_from_manifest`: `read_range` only
        let h2 := initTantivy v ext h1
        -- vec / clip / memories / logic mesh / sketch track loaders, `bootstrap_segment_catalog`: reads
        -- and in-memory state only
        { log := h2.log, file := h2.file, res := .ok h2 }

/-- `Memvid::open_read_only` as the source has it (the log is opened with the flag the translator saw) -/
def openReadOnly (v : Variant) (ext : Ext) (d : Bytes) : Opened :=
  openReadOnlyWith Mv.Gen.C18.WAL_OPENED_READ_ONLY v ext d

/-! ### read APIs on the handle -/

inductive ReadOp where
  | frameCount                 -- `frame_count()`
  | frameById (i : Nat)        -- `frame_by_id(i)`
  | frameText (i : Nat)        -- `frame_text_by_id(i)` / `frame_canonical_payload(i)`
  | search                     -- `search(request)`
  | timeline                   -- `timeline(query)`
  | stats                      -- `stats()`
  | walPending                 -- `wal.pending_records()` (what `verify` reports as WalPendingRecords)
deriving Repr, DecidableEq

inductive Out where
  | count (n : Nat)
  | found (b : Bool)
  | ok
  | err
deriving Repr, DecidableEq

def readStep (v : Variant) (ext : Ext) (h : Handle) : ReadOp → Handle × Out
  | .frameCount => (h, .count h.toc.frames)
  | .frameById i => (h, .found (decide (i < h.toc.frames)))
  | .frameText i => (h, .found (decide (i < h.toc.frames)))
  | .search =>
    if !h.lexEnabled then (h, .err)                     -- `LexNotEnabled`
    else
      let h' := if h.tantivy then h else initTantivy v ext h
      (h', .ok)
  | .timeline => (h, .ok)
  | .stats => (h, .count h.toc.frames)
  | .walPending =>
    match Mv.Wal.pendingRecords ext.H h.wal with
    | .error _ => (h, .err)
    | .ok (w', rs) =>
      (({ h with wal := w' }).emit (walWrites h.header.walOffset h.wal.region w'.region), .count rs.length)

def runOps (v : Variant) (ext : Ext) : Handle → List ReadOp → Handle × List Out
  | h, [] => (h, [])
  | h, op :: ops =>
    let r := readStep v ext h op
    let rest := runOps v ext r.1 ops
    (rest.1, r.2 :: rest.2)

structure SessionResult where
  /-- every write the session issued -/
  writes : List Write
  /-- the file afterwards -/
  file : Bytes
  /-- `none` when the open failed -/
  outs : Option (List Out)
  /-- frames visible through the handle (`none` when the open failed) -/
  frames : Option Nat
deriving Repr, DecidableEq

/-- a read-only session: `open_read_only`, then any sequence of read calls, then drop (a read-only
    handle is never `dirty`, so `Drop` does not commit) -/
def session (v : Variant) (ext : Ext) (d : Bytes) (ops : List ReadOp) : SessionResult :=
  let o := openReadOnly v ext d
  match o.res with
  | .error _ => { writes := o.log, file := o.file, outs := none, frames := none }
  | .ok h =>
    let r := runOps v ext h ops
    { writes := r.1.log, file := r.1.file, outs := some r.2, frames := some r.1.toc.frames }

/-! ### the writer's layout discipline (the part of `rebuild_indexes` the hypothesis rests on) -/

/-- `rebuild_indexes` places every index artefact at a cursor that only moves forward
    (`let off = footer_offset; write(off, bytes); footer_offset += bytes.len()`), then writes the TOC at
    `header.footer_offset = max(old, cursor)`.  `place cur lens` = the extents and the final cursor. -/
def place : Nat → List Nat → List (Nat × Nat) × Nat
  | cur, [] => ([], cur)
  | cur, l :: ls => let r := place (cur + l) ls; ((cur, l) :: r.1, r.2)

end Mv.ReadOnly
