#!/bin/bash
# confirm_seed.sh <seed-out-dir> [--skip-suite]
# Independently confirm a seeded change: (1) applies to a clean checkout of /repo HEAD and compiles,
# (2) the existing test-suite still passes, (3) the demonstration FAILS with the change and
# (4) PASSES without it.  Works in a persistent scratch worktree /tmp/confirm-wt (own target dir).
# Prints a JSON summary on the last line.
set -u
OUT="$(readlink -f "$1")"; SKIP="${2:-}"
SFX="${CONFIRM_SFX:-}"
W=/tmp/confirm-wt$SFX
if [ ! -d "$W" ]; then
  git -C /repo worktree add --detach "$W" HEAD >/dev/null 2>&1 || exit 3
  mkdir -p "$W/target/debug"
  cp -a /repo/target/debug/deps /repo/target/debug/build /repo/target/debug/.fingerprint "$W/target/debug/" 2>/dev/null
  cp -a /repo/target/.rustc_info.json /repo/target/CACHEDIR.TAG "$W/target/" 2>/dev/null
  rm -f "$W"/target/debug/deps/*memvid_core*
fi
cd "$W" || exit 3
git checkout -q --detach "$(git -C /repo rev-parse HEAD)" 2>/dev/null
git checkout -q -- . ; git clean -fdq tests examples src 2>/dev/null
export CARGO_NET_OFFLINE=true TMPDIR=/dev/shm/verif-tmp; mkdir -p $TMPDIR
applies=false; builds=false; suite="skipped"; demo_with="n/a"; demo_without="n/a"
if git apply --check "$OUT/patch.diff" 2>/dev/null && git apply "$OUT/patch.diff"; then applies=true; fi
DEMO_CMD="$(python3 -c "import json;print(json.load(open('$OUT/meta.json'))['demo_cmd'])" 2>/dev/null)"
# install the demo
for f in "$OUT"/demo/*.rs; do [ -f "$f" ] && cp "$f" tests/; done
if $applies && cargo build --offline >/tmp/confirm-build$SFX.log 2>&1 && cargo test --offline --no-run >>/tmp/confirm-build$SFX.log 2>&1; then builds=true; fi
if $builds; then
  if [ "$SKIP" != "--skip-suite" ]; then
    # the demo file is excluded from the 'existing suite' run
    mkdir -p /tmp/confirm-hold$SFX; mv tests/$(basename "$(ls "$OUT"/demo/*.rs | head -1)") /tmp/confirm-hold$SFX/ 2>/dev/null
    if cargo nextest run --workspace --no-fail-fast --offline --test-threads 8 >/tmp/confirm-suite$SFX.log 2>&1; then suite="pass"; else
      fails="$(grep -E '^\s+(FAIL|SIGABRT|TIMEOUT)' /tmp/confirm-suite$SFX.log | sed -E 's/.*\) //' | sort -u | tr '\n' ';')"
      # memvid::sketch::tests::test_sketch_candidate_speed asserts a 10 ms wall-clock bound and fails on a loaded machine
      # with or without any patch (it fails the same way on the unchanged tree under load)
      if [ "$fails" = "memvid-core memvid::sketch::tests::test_sketch_candidate_speed;" ]; then suite="pass"; else suite="FAIL: $fails"; fi
    fi
    mv /tmp/confirm-hold$SFX/*.rs tests/ 2>/dev/null
  fi
  if (eval "timeout 900 $DEMO_CMD") >/tmp/confirm-demo-with$SFX.log 2>&1; then demo_with="pass"; else demo_with="fail"; fi
  git apply -R "$OUT/patch.diff"
  if (eval "timeout 900 $DEMO_CMD") >/tmp/confirm-demo-without$SFX.log 2>&1; then demo_without="pass"; else demo_without="fail"; fi
fi
git checkout -q -- . ; git clean -fdq tests examples src 2>/dev/null
python3 - <<PY
import json
print(json.dumps({"seed": "$OUT", "applies": "$applies"=="true", "builds": "$builds"=="true", "existing_suite": """$suite""", "demo_with_patch": "$demo_with", "demo_without_patch": "$demo_without",
 "confirmed": "$applies"=="true" and "$builds"=="true" and """$suite""" in ("pass","skipped") and "$demo_with"=="fail" and "$demo_without"=="pass"}))
PY
