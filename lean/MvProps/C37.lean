/-
  C37 — Adaptive retrieval cut-off respects its bounds.
  Property theorems only.  Model: MvModel/Adaptive.lean (mirror of /repo/src/types/adaptive.rs) with
  the arithmetic as a parameter `Ops α`; statement vocabulary: MvModel/AdaptiveLaws.lean; software
  binary32 `f32Ops`: MvModel/AdaptiveF32.lean; helper lemmas: MvProps/C37Lemmas.lean.
-/
import MvModel.Adaptive
import MvModel.AdaptiveLaws
import MvModel.AdaptiveF32
import MvProps.C37Lemmas
namespace Mv.Adaptive

variable {α : Type} (o : Ops α)

/-! ## C37, first clause: the cut-off lies between `min(min_results, n)` and `n` -/

/-- **C37_bounds** — for EVERY arithmetic (`Ops`, so including IEEE f32 with NaN, ±∞, rounding and
    overflow), every score list and every configuration, the cut-off returned by the model of
    `find_adaptive_cutoff` lies between `min(min_results, n)` and `n`. -/
theorem C37_bounds (scores : List α) (cfg : Config α) :
    min cfg.minResults scores.length ≤ (findAdaptiveCutoff o scores cfg).1 ∧
    (findAdaptiveCutoff o scores cfg).1 ≤ scores.length := by
  unfold findAdaptiveCutoff
  split
  · rename_i h0; simp at h0; simp [h0]
  · split
    · simp only; omega
    · rename_i hne hlen
      dsimp only
      generalize hN : (if cfg.normalize = true then normalize o scores else scores) = nz
      have hl : nz.length = scores.length := by
        rw [← hN]; split
        · exact normalize_length o scores
        · rfl
      split
      · simp at hl; omega
      · rename_i top tl
        rw [← hl]
        split
        · exact findAbsoluteCutoff_bounds o _ _ _
        · exact findAbsoluteCutoff_bounds o _ _ _
        · exact findCliffCutoff_bounds o _ _ _
        · have h := findElbowCutoff_bounds o (top :: tl) ‹_› cfg.minResults (by omega)
          omega
        · exact findCombinedCutoff_bounds o _ _ _ _ _ _

/-- when there are no more results than `min_results`, all of them are kept -/
theorem C37_all_kept_below_min (scores : List α) (cfg : Config α) (h : scores.length ≤ cfg.minResults) :
    (findAdaptiveCutoff o scores cfg).1 = scores.length := by
  unfold findAdaptiveCutoff
  split
  · rename_i h0; simp at h0; simp [h0]
  · simp

/-! ## C37, third clause: absolute / relative threshold -/

/-- **C37_threshold** — for EVERY arithmetic: with an absolute or relative threshold strategy, every
    result kept at an index `≥ min_results` has an (effective) score that is NOT below the threshold,
    and the result just after the cut-off, if any, IS below it.  (`lt x thr = false` is `x ≥ thr`
    as soon as neither is NaN, see `C37_threshold_exact`.) -/
theorem C37_threshold (scores : List α) (cfg : Config α) (thr : α) (h : threshold o cfg scores = some thr) :
    (∀ j x, cfg.minResults ≤ j → j < (findAdaptiveCutoff o scores cfg).1 →
        (effective o cfg scores)[j]? = some x → o.lt x thr = false) ∧
    (∀ x, (effective o cfg scores)[(findAdaptiveCutoff o scores cfg).1]? = some x → o.lt x thr = true) := by
  have hlen : (effective o cfg scores).length = scores.length := by
    unfold effective; split
    · exact normalize_length o scores
    · rfl
  by_cases hsmall : scores.length ≤ cfg.minResults
  · rw [C37_all_kept_below_min o scores cfg hsmall]
    refine ⟨fun j x h1 h2 => by omega, fun x hx => ?_⟩
    rw [List.getElem?_eq_none (by omega)] at hx; cases hx
  · unfold findAdaptiveCutoff
    have hne : scores.isEmpty = false := by
      cases scores with
      | nil => simp at hsmall
      | cons a b => rfl
    simp only [hne, hsmall, if_false, Bool.false_eq_true]
    unfold threshold at h
    unfold effective at h ⊢
    generalize (if cfg.normalize = true then normalize o scores else scores) = nz at h ⊢
    split
    · refine ⟨fun j x _ h2 => by simp at h2, fun x hx => by simp at hx⟩
    · rename_i top rest
      cases hs : cfg.strategy with
      | absolute t =>
        rw [hs] at h; simp only [Option.some.injEq] at h; subst h
        exact findAbsoluteCutoff_spec o _ _ _
      | relative r =>
        rw [hs] at h; simp only [List.head?_cons, Option.map_some, Option.some.injEq] at h; subst h
        exact findAbsoluteCutoff_spec o _ _ _
      | cliff d => rw [hs] at h; cases h
      | elbow d => rw [hs] at h; cases h
      | combined a b c => rw [hs] at h; cases h

/-! ## beyond the property text: what the cliff and combined strategies cut at -/

/-- **C37_cliff** — the score-cliff strategy cuts at the FIRST index `i ≥ max(1, min_results)` whose
    drop from the previous score is a cliff (`prev > ε` and `(prev - curr)/prev > max_drop_ratio`):
    no kept index at or beyond `min_results` is a cliff, and the index of the cut-off, if inside
    the list, is one. -/
theorem C37_cliff (s : List α) (d : α) (m : Nat) :
    (∀ j p x, m ≤ j → 1 ≤ j → j < (findCliffCutoff o s d m).1 → s[j - 1]? = some p → s[j]? = some x →
        isCliff o d p x = false) ∧
    (∀ x, s[(findCliffCutoff o s d m).1]? = some x →
        1 ≤ (findCliffCutoff o s d m).1 ∧ ∃ p, s[(findCliffCutoff o s d m).1 - 1]? = some p ∧ isCliff o d p x = true) := by
  unfold findCliffCutoff
  split
  · simp
  · rename_i x0 rest
    split
    · rename_i k hk
      have hb := cliffGo_some o d m rest x0 1 k hk
      obtain ⟨⟨p', x, hp, hx, hc⟩, hall⟩ := cliffGo_some_spec o d m rest x0 1 k hk
      have ek : k = (k - 1) + 1 := by omega
      refine ⟨?_, ?_⟩
      · intro j p x' h1 h2 h3 hp' hx'
        simp only at h3
        have ej : j = (j - 1) + 1 := by omega
        rw [ej, List.getElem?_cons_succ] at hx'
        exact hall j p x' h2 h3 h1 hp' hx'
      · intro x' hx'
        simp only at hx' ⊢
        rw [ek, List.getElem?_cons_succ] at hx'
        rw [hx] at hx'; cases hx'
        exact ⟨hb.1, p', hp, hc⟩
    · rename_i hk
      refine ⟨?_, fun x hx => by simp at hx⟩
      intro j p x' h1 h2 _ hp' hx'
      have ej : j = (j - 1) + 1 := by omega
      rw [ej, List.getElem?_cons_succ] at hx'
      exact cliffGo_none_spec o d m rest x0 1 hk (j - 1) p x' (by omega) hp' hx'

/-- **C37_combined** — the combined strategy cuts at the FIRST index `≥ min_results` on which one of
    its three tests fires, and reports the test that fired (in the code's order). -/
theorem C37_combined (s : List α) (top rel d a : α) (m : Nat) :
    (∀ j x, m ≤ j → j < (findCombinedCutoff o s top rel d a m).1 → s[j]? = some x →
        combHit o (o.mul top rel) d a (prevOf none s j) x = none) ∧
    (∀ x, s[(findCombinedCutoff o s top rel d a m).1]? = some x →
        combHit o (o.mul top rel) d a (prevOf none s (findCombinedCutoff o s top rel d a m).1) x
          = some (findCombinedCutoff o s top rel d a m).2) := by
  unfold findCombinedCutoff
  dsimp only
  split
  · rename_i res hk
    obtain ⟨k, t⟩ := res
    obtain ⟨⟨x, hx, hc⟩, hall⟩ := combGo_some_spec o _ d a m s none 0 k t hk
    simp only [Nat.sub_zero] at hx hc hall
    refine ⟨fun j x' h1 h2 h3 => hall j x' (Nat.zero_le _) h2 h1 h3, ?_⟩
    intro x' hx'
    simp only at hx' ⊢
    rw [hx] at hx'; cases hx'; exact hc
  · rename_i hk
    refine ⟨fun j x' h1 _ h3 => combGo_none_spec o _ d a m s none 0 hk j x' (by omega) h3, ?_⟩
    intro x hx; simp at hx
/-! ## C37, second clause: normalised scores lie in [0, 1], the maximum is mapped to 1 -/

section norm
variable {o} {R : α → Prop} (L : Laws o R)
include L

/-- **C37_norm** — for every arithmetic satisfying `Laws` (exact rationals: `eratLaws`), every
    non-overflowing list of regular scores: `normalize_scores` keeps the length, every normalised
    score is a non-NaN value in `[0, 1]`, and every maximal score is mapped to (a value numerically
    equal to) `1`. -/
theorem C37_norm (s : List α) (hs : ∀ x ∈ s, R x) (hov : ∀ x ∈ s, ∀ m ∈ s, R (o.sub x m)) :
    (normalize o s).length = s.length ∧
    (∀ y ∈ normalize o s, o.isNaN y = false ∧ o.le o.zero y ∧ o.le y o.one) ∧
    (∀ (i : Nat) x y, s[i]? = some x → (normalize o s)[i]? = some y → (∀ z ∈ s, o.le z x) → o.eqv y o.one) := by
  refine ⟨normalize_length o s, ?_⟩
  cases hsl : s with
  | nil => simp [normalize]
  | cons a t =>
    rw [← hsl]
    have hne : s ≠ [] := by rw [hsl]; exact List.cons_ne_nil _ _
    have hemp : s.isEmpty = false := by rw [hsl]; rfl
    obtain ⟨rmx, rmn, rr, hx⟩ := L.range_facts s hne hs hov
    obtain ⟨hmx, hmxb⟩ := L.max_spec s hne hs
    have one_ok : o.isNaN o.one = false ∧ o.le o.zero o.one ∧ o.le o.one o.one :=
      ⟨L.not_nan _ L.R_one, L.zero_le_one, L.le_refl _⟩
    unfold normalize
    simp only [hemp, Bool.false_eq_true, if_false]
    split
    · -- range < EPSILON: everything becomes 1.0
      refine ⟨fun y hy => ?_, fun i x y _ hy _ => ?_⟩
      · obtain ⟨_, _, rfl⟩ := List.mem_map.mp hy; exact one_ok
      · rw [List.getElem?_map] at hy
        cases hsi : s[i]? with
        | none => rw [hsi] at hy; cases hy
        | some v => rw [hsi] at hy; cases hy; exact ⟨L.le_refl _, L.le_refl _⟩
    · rename_i hnlt
      have hpos : o.lt o.zero (o.sub (s.foldl o.fmax o.negInf) (s.foldl o.fmin o.inf)) = true :=
        L.lt_of_lt_of_le (Or.inl L.R_zero) (Or.inl L.R_eps) (Or.inl rr) L.eps_pos
          (by unfold Ops.le; simpa using hnlt)
      refine ⟨fun y hy => ?_, fun i x y hxi hy hmax => ?_⟩
      · obtain ⟨x, hxs, rfl⟩ := List.mem_map.mp hy
        obtain ⟨r1, h0, h1, _⟩ := hx x hxs
        exact L.div_unit _ _ r1 rr hpos h0 h1
      · rw [List.getElem?_map, hxi] at hy
        cases hy
        have hxs : x ∈ s := List.mem_of_getElem? hxi
        obtain ⟨r1, _, _, he⟩ := hx x hxs
        exact L.div_eqv_self _ _ r1 rr hpos (he (hmax _ hmx))

/-- the all-equal case "as the code does it": when all scores are numerically equal the range is
    below `EPSILON` and every score becomes `1.0` -/
theorem C37_norm_all_equal (s : List α) (hs : ∀ x ∈ s, R x) (hov : ∀ x ∈ s, ∀ m ∈ s, R (o.sub x m))
    (heq : ∀ x ∈ s, ∀ y ∈ s, o.le x y) : normalize o s = s.map (fun _ => o.one) := by
  cases hsl : s with
  | nil => simp [normalize]
  | cons a t =>
    rw [← hsl]
    have hne : s ≠ [] := by rw [hsl]; exact List.cons_ne_nil _ _
    have hemp : s.isEmpty = false := by rw [hsl]; rfl
    obtain ⟨rmx, rmn, rr, hx⟩ := L.range_facts s hne hs hov
    obtain ⟨hmx, hmxb⟩ := L.max_spec s hne hs
    obtain ⟨hmn, hmnb⟩ := L.min_spec s hne hs
    unfold normalize
    simp only [hemp, Bool.false_eq_true, if_false]
    have r0 : R (o.sub (s.foldl o.fmin o.inf) (s.foldl o.fmin o.inf)) := hov _ hmn _ hmn
    have hle : o.le (o.sub (s.foldl o.fmax o.negInf) (s.foldl o.fmin o.inf)) o.zero :=
      L.le_trans _ _ _ (Or.inl rr) (Or.inl r0) (Or.inl L.R_zero)
        (L.sub_mono _ _ _ rmx rmn rmn (heq _ hmx _ hmn)) (L.sub_self _ rmn).1
    have hlt := L.lt_of_le_of_lt (Or.inl rr) (Or.inl L.R_zero) (Or.inl L.R_eps) hle L.eps_pos
    simp only [hlt, if_true]

end norm

open Mv.F32

/-! ## the exact-arithmetic reading -/

theorem erat_le_iff (a b : Rat) : eratOps.le (.fin a) (.fin b) ↔ a ≤ b := by
  simp only [Ops.le, eratOps, ERat.lt, decide_eq_false_iff_not]; exact Rat.not_lt

def ERat.toRat : ERat → Rat
  | .fin q => q
  | _ => 0

/-- **C37_norm_exact** — over exact rationals, for EVERY score list: the normalised scores are
    rationals in `[0, 1]`, one per score, and every maximal score is mapped to exactly `1`. -/
theorem C37_norm_exact (s : List Rat) :
    ∃ t : List Rat, normalize eratOps (s.map .fin) = t.map .fin ∧ t.length = s.length ∧
      (∀ y ∈ t, 0 ≤ y ∧ y ≤ 1) ∧
      (∀ (i : Nat) x y, s[i]? = some x → t[i]? = some y → (∀ z ∈ s, z ≤ x) → y = 1) := by
  have hs : ∀ x ∈ s.map ERat.fin, ERat.IsFin x := by
    intro x hx; obtain ⟨q, _, rfl⟩ := List.mem_map.mp hx; trivial
  have hov : ∀ x ∈ s.map ERat.fin, ∀ m ∈ s.map ERat.fin, ERat.IsFin (eratOps.sub x m) := by
    intro x hx m hm
    obtain ⟨q, _, rfl⟩ := List.mem_map.mp hx
    obtain ⟨r, _, rfl⟩ := List.mem_map.mp hm
    trivial
  obtain ⟨hlen, hunit, hmax⟩ := C37_norm eratLaws (s.map .fin) hs hov
  have hfin : ∀ y ∈ normalize eratOps (s.map .fin), ∃ q : Rat, y = .fin q ∧ 0 ≤ q ∧ q ≤ 1 := by
    intro y hy
    obtain ⟨_, h0, h1⟩ := hunit y hy
    cases y with
    | ninf => simp [Ops.le, eratOps, ERat.lt, Ops.zero] at h0
    | pinf => simp [Ops.le, eratOps, ERat.lt, Ops.one] at h1
    | fin q =>
      refine ⟨q, rfl, ?_, ?_⟩
      · exact (erat_le_iff 0 q).mp (by simpa [Ops.zero, eratOps] using h0)
      · exact (erat_le_iff q 1).mp (by simpa [Ops.one, eratOps] using h1)
  refine ⟨(normalize eratOps (s.map .fin)).map ERat.toRat, ?_, ?_, ?_, ?_⟩
  · rw [List.map_map]
    symm
    calc List.map (ERat.fin ∘ ERat.toRat) (normalize eratOps (s.map .fin))
        = List.map id (normalize eratOps (s.map .fin)) := by
          apply List.map_congr_left
          intro y hy
          obtain ⟨q, rfl, _⟩ := hfin y hy
          rfl
      _ = _ := List.map_id _
  · simp [hlen]
  · intro y hy
    obtain ⟨e, he, rfl⟩ := List.mem_map.mp hy
    obtain ⟨q, rfl, h0, h1⟩ := hfin e he
    exact ⟨h0, h1⟩
  · intro i x y hx hy hmx
    rw [List.getElem?_map] at hy
    cases hn : (normalize eratOps (s.map .fin))[i]? with
    | none => rw [hn] at hy; cases hy
    | some e =>
      rw [hn] at hy; cases hy
      have := hmax i (.fin x) e (by rw [List.getElem?_map, hx]; rfl) hn
        (by intro z hz; obtain ⟨q, hq, rfl⟩ := List.mem_map.mp hz; exact (erat_le_iff q x).mpr (hmx q hq))
      obtain ⟨q, rfl, _⟩ := hfin e (List.mem_of_getElem? hn)
      have h1 := (erat_le_iff q 1).mp (by simpa [Ops.one, eratOps] using this.1)
      have h2 := (erat_le_iff 1 q).mp (by simpa [Ops.one, eratOps] using this.2)
      simp only [ERat.toRat]
      grind

/-! ## binary32: the clause is FALSE when `max - min` overflows -/

/-- the second clause at full strength over IEEE binary32: every finite score list is normalised
    into non-NaN values of `[0, 1]` -/
def C37_norm_f32_full : Prop :=
  ∀ s : List F, (∀ x ∈ s, isFinite x = true) →
    ∀ y ∈ normalize f32Ops s, F32.isNaN y = false ∧ F32.lt y (F32.ofNat 0) = false ∧ F32.lt (F32.ofNat 1) y = false

/-- `[f32::MAX, 0.0, -f32::MAX]` -/
def overflowWitness : List F := [.fin false (16777215 * 2 ^ 253), .fin false 0, .fin true (16777215 * 2 ^ 253)]

/-- what the model (and the real `normalize_scores`, replayed by the harness) returns on it -/
theorem overflowWitness_normalized :
    normalize f32Ops overflowWitness = [.nan, .fin false 0, .fin false 0] := by decide

/-- **C37_counterexample** — with f32 extremes the maximum is mapped to NaN -/
theorem C37_counterexample : ¬ C37_norm_f32_full := by
  intro h
  have := h overflowWitness (by decide) .nan (by rw [overflowWitness_normalized]; exact List.mem_cons_self ..)
  exact absurd this.1 (by decide)

/-! ## non-vacuity: concrete instances -/

section examples
open Mv.F32
private def f1 : F := .fin false (2 ^ 149)      -- 1.0
private def fhalf : F := .fin false (2 ^ 148)   -- 0.5
private def fq : F := .fin false (2 ^ 147)      -- 0.25
private def fe : F := .fin false (2 ^ 146)      -- 0.125

/-- C37_bounds / C37_threshold on binary32: a cut inside the list, threshold 0.5 -/
example : findAdaptiveCutoff f32Ops [f1, fhalf, fq, fe] { minResults := 1, strategy := .absolute fhalf, normalize := false }
    = (2, .absoluteThreshold) := by decide
example : threshold f32Ops { minResults := 1, strategy := .relative fhalf, normalize := true } [f1, fhalf, fq, fe]
    = some fhalf := by decide
example : findAdaptiveCutoff f32Ops [f1, fhalf, fq, fe] { minResults := 1, strategy := .elbow f1, normalize := true }
    = (2, .elbowDetection) := by decide +kernel
example : findAdaptiveCutoff f32Ops [f1, fhalf, fq, fe] (defaultConfig f32Ops) = (1, .relativeThreshold) := by
  decide +kernel
/-- C37_norm: the hypotheses are satisfiable (`eratLaws`) and the conclusion is about real work -/
example : normalize eratOps [.fin 3, .fin 1, .fin 2] = [.fin 1, .fin 0, .fin (1/2)] := by decide +kernel
example : ∀ x ∈ [ERat.fin 3, .fin 1, .fin 2], ∀ m ∈ [ERat.fin 3, .fin 1, .fin 2], ERat.IsFin (eratOps.sub x m) := by
  intro x hx m hm
  simp only [List.mem_cons, List.not_mem_nil, or_false] at hx hm
  rcases hx with rfl | rfl | rfl <;> rcases hm with rfl | rfl | rfl <;> trivial
end examples

end Mv.Adaptive
