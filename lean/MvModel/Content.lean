/-
  Content — byte-level model of the payload store of a `Memvid` handle (property C07: reads return
  exactly what was stored).

  The shared Core model (MvModel/Core.lean) carries payloads as opaque tokens and offsets as numbers.
  This model carries the BYTES: the data region of the file, the stored (possibly compressed) payload of
  every WAL record, and the read paths that turn stored bytes back into what the caller gets.  It covers
  the calls whose byte behaviour C07 quantifies over — put (whole / chunked, any compression level),
  commit, automatic checkpoint, drop + open, crash + open (WAL replay); supersede / tombstone marking,
  vacuum and doctor never write a payload and are the business of C01 / C08 / C42.

  What each definition mirrors
  ----------------------------
    Codec                        the `zstd` crate: `encode_all(payload, level)` / `decode_all` — a PARAMETER; the
                                 theorems assume only `Codec.RoundTrip` (A-zstd)
    prepare                      mutation.rs prepare_canonical_payload_with_level
    decodeCanonical              lib.rs decode_canonical_bytes
    writeExt                     `file.seek(cursor); file.write_all(payload)` (a write past EOF zero-fills the gap)
    validateBounds               frame.rs validate_frame_bounds (offsets RELATIVE to the data start
                                 `wal_offset + wal_size`, so "payload overlaps wal region" cannot occur)
    readPayload                  frame.rs read_frame_payload_bytes (with the checksum comparison on every read)
    ownCanonical                 frame.rs frame_canonical_bytes (frame without manifest) = the per-child body of
                                 document_chunk_payloads
    children / chunkLe           frame.rs document_chunk_frames (+ the sort key `(chunk_index, id)`)
    canonicalBytes               frame.rs frame_canonical_bytes  (`Memvid::frame_canonical_payload`)
    blobReader                   frame.rs blob_reader_from_frame + `BlobReader::read` to the end
    frameContentErr              frame.rs frame_content → frame_canonical_text: does it fail, and how
    parentEntry / chunkEntry / putRecords
                                 mutation.rs put_internal: the WAL records of one accepted put
    applyInsert / applyLoop / applyRecords
                                 mutation.rs apply_records, Insert branch: payload written at the data cursor,
                                 frame built, parent resolved through `sequence_to_frame`, index text read
                                 through `frame_content` when the record has no search text and Tantivy is attached.
                                 `early` = `data_end` is advanced right after the payload was written (the repair
                                 of /verif/fixes/C07.diff); `early = false` is the code before the repair, where
                                 that read is validated against the OLD `data_end` and always fails.
    commit / openStore / reopen / crash / put / step / run
                                 mutation.rs commit → commit_from_records (+ rebuild_indexes: `data_end` :=
                                 `cached_payload_end`), lifecycle.rs open_locked (+ compute_data_end,
                                 compute_payload_region_end, recover_wal), `impl Drop for Memvid`, put_internal

  Restrictions (made explicit by an error answer of the model, never silently):
    * every record carries `canonical_length` (put_internal always sets it); the decode fallback of
      apply_records for legacy records is not modelled;
    * the records of one put are applied in one batch (put_internal appends them without a checkpoint in
      between), so `sequence_to_frame` resolves every chunk's parent; the in-batch fallback and the orphan
      pass (modelled in Core.lean) are answered `orphan` here;
    * no `reuse_payload_from` records (payload-less `update_frame` stores nothing).
  Black boxes supplied as trace inputs of a put: the chunk plan (C34), the search text / mime the extractor,
  normalizer and `augment_search_text` produce (only: present or not, text mime or not).
-/
import MvModel.Bytes
import MvModel.Bincode
import MvModel.Gen.C07
namespace Mv.Content
open Mv

inductive Enc where
  | plain | zstd
deriving DecidableEq, Repr, Inhabited

inductive Role where
  | document | chunk | image
deriving DecidableEq, Repr, Inhabited

inductive Err where
  | tooLarge      -- "payload length exceeds maximum"
  | pastData      -- "payload extends past data region"
  | pastFile      -- "payload extends past file length"
  | decode        -- "failed to decode canonical payload"
  | canonLen      -- "canonical length mismatch"
  | noChildren    -- "document chunk manifest missing children"
  | manifestLen   -- "chunk manifest length mismatch"
  | checksum      -- "Checksum mismatch while validating frame payload"
  | orphan        -- outside the model: a chunk whose parent sequence is not in this batch
deriving DecidableEq, Repr, Inhabited

/-- the zstd black box -/
structure Codec where
  enc : Int → Bytes → Bytes
  dec : Bytes → Option Bytes

/-- A-zstd: decoding what was encoded (at any level) gives the input back -/
def Codec.RoundTrip (c : Codec) : Prop := ∀ (lvl : Int) (p : Bytes), c.dec (c.enc lvl p) = some p

def MAX_FRAME_BYTES : Nat := Mv.Gen.C07.MAX_FRAME_BYTES
def DEFAULT_LEVEL : Int := Mv.Gen.C07.DEFAULT_LEVEL

/-! ## Canonical encoding -/

structure Stored where
  bytes : Bytes
  enc : Enc
  canonLen : Nat
deriving DecidableEq, Repr, Inhabited

/-- `prepare_canonical_payload_with_level` -/
def prepare (c : Codec) (level : Int) (p : Bytes) : Stored :=
  if level = 0 then { bytes := p, enc := .plain, canonLen := p.length }
  else if Mv.Bincode.utf8Valid p then { bytes := c.enc level p, enc := .zstd, canonLen := p.length }
  else { bytes := p, enc := .plain, canonLen := p.length }

/-- `decode_canonical_bytes` -/
def decodeCanonical (c : Codec) (raw : Bytes) : Enc → Option Bytes
  | .plain => some raw
  | .zstd => c.dec raw

/-! ## Records, frames, the handle -/

/-- `WalEntryData` (op = Insert), the fields that decide storage and reading -/
structure Entry where
  payload : Bytes
  enc : Enc
  canonLen : Nat
  role : Role
  /-- `chunk_manifest`: number of chunk ranges -/
  manifest : Option Nat
  parentSeq : Option Nat
  chunkIndex : Option Nat
  /-- `search_text`: `none`, or `some nonEmpty` -/
  search : Option Bool
  /-- `metadata.mime`: `none` (no metadata / no mime), or `some isTextMime` -/
  mime : Option Bool
deriving DecidableEq, Repr, Inhabited

/-- `types::Frame`, the same fields (`off` relative to the data start) -/
structure Frame where
  id : Nat
  off : Nat
  len : Nat
  enc : Enc
  canonLen : Nat
  checksum : Bytes
  role : Role
  parent : Option Nat
  chunkIndex : Option Nat
  manifest : Option Nat
  search : Option Bool
  mime : Option Bool
deriving DecidableEq, Repr, Inhabited

structure Store where
  /-- the file from the data start on -/
  file : Bytes := []
  /-- `toc.frames` -/
  frames : List Frame := []
  /-- `data_end − base` -/
  dataEnd : Nat := 0
  /-- `cached_payload_end − base` -/
  payloadEnd : Nat := 0
  /-- pending Insert records `(sequence, entry)` -/
  pending : List (Nat × Entry) := []
  /-- last sequence number handed out to an Insert record of this model (relative numbering) -/
  seq : Nat := 0
  /-- `tantivy.is_some()` -/
  engine : Bool := true
deriving Repr, Inhabited

/-- `seek(off); write_all(w)` -/
def writeExt (file : Bytes) (off : Nat) (w : Bytes) : Bytes :=
  file.take off ++ zeros (off - file.length) ++ w ++ file.drop (off + w.length)

/-! ## Read paths -/

/-- `validate_frame_bounds`: `none` = Ok -/
def validateBounds (s : Store) (f : Frame) : Option Err :=
  if f.len = 0 then none
  else if f.len > MAX_FRAME_BYTES then some .tooLarge
  else if f.off + f.len > s.dataEnd then some .pastData
  else if f.off + f.len > s.file.length then some .pastFile
  else none

/-- `read_frame_payload_bytes`: bounds, read, then the stored bytes are compared with `frame.checksum` -/
def readPayload (H : Bytes → Bytes) (s : Store) (f : Frame) : Except Err Bytes :=
  match validateBounds s f with
  | some e => .error e
  | none =>
    let raw := slice s.file f.off f.len
    if !raw.isEmpty && H raw != f.checksum then .error .checksum else .ok raw

/-- read + decode + canonical-length check of ONE frame's own stored payload -/
def ownCanonical (c : Codec) (H : Bytes → Bytes) (s : Store) (f : Frame) : Except Err Bytes :=
  match readPayload H s f with
  | .error e => .error e
  | .ok raw =>
    match decodeCanonical c raw f.enc with
    | none => .error .decode
    | some d => if d.length = f.canonLen then .ok d else .error .canonLen

def insertBy {α : Type} (le : α → α → Bool) (x : α) : List α → List α
  | [] => [x]
  | y :: ys => if le x y then x :: y :: ys else y :: insertBy le x ys

/-- stable insertion sort (`sort_by_key`) -/
def sortBy {α : Type} (le : α → α → Bool) : List α → List α
  | [] => []
  | x :: xs => insertBy le x (sortBy le xs)

def chunkKey (f : Frame) : Nat × Nat := (f.chunkIndex.getD 4294967295, f.id)
def chunkLe (a b : Frame) : Bool :=
  decide ((chunkKey a).1 < (chunkKey b).1) ||
    (decide ((chunkKey a).1 = (chunkKey b).1) && decide ((chunkKey a).2 ≤ (chunkKey b).2))

def isChildOf (pid : Nat) (f : Frame) : Bool := f.role == .chunk && f.parent == some pid

/-- `document_chunk_frames(parent_id)` (every frame of this model is active) -/
def children (s : Store) (pid : Nat) : List Frame := sortBy chunkLe (s.frames.filter (isChildOf pid))

def isManifestDoc (f : Frame) : Bool := f.role == .document && f.manifest.isSome

/-- the loop of `document_chunk_payloads`: first failing child wins -/
def childPayloads (c : Codec) (H : Bytes → Bytes) (s : Store) : List Frame → Except Err (List Bytes)
  | [] => .ok []
  | ch :: rest =>
    match ownCanonical c H s ch with
    | .error e => .error e
    | .ok b =>
      match childPayloads c H s rest with
      | .error e => .error e
      | .ok bs => .ok (b :: bs)

/-- `frame_canonical_bytes` = `Memvid::frame_canonical_payload` -/
def canonicalBytes (c : Codec) (H : Bytes → Bytes) (s : Store) (f : Frame) : Except Err Bytes :=
  if isManifestDoc f then
    let kids := children s f.id
    if kids.isEmpty then .error .noChildren
    else if some kids.length ≠ f.manifest then .error .manifestLen
    else
      match childPayloads c H s kids with
      | .error e => .error e
      | .ok bs => .ok bs.flatten
  else ownCanonical c H s f

/-- `blob_reader` read to the end: a Plain frame is read straight from the file (no bounds validation;
    a non-empty payload is first streamed through the hasher and compared with the checksum — a short
    read counts as a mismatch), a Zstd frame goes through `frame_canonical_bytes` -/
def blobReader (c : Codec) (H : Bytes → Bytes) (s : Store) (f : Frame) : Except Err Bytes :=
  match f.enc with
  | .plain =>
    let raw := slice s.file f.off f.len
    if f.len > 0 && (raw.length != f.len || H raw != f.checksum) then .error .checksum else .ok raw
  | .zstd => canonicalBytes c H s f

def Except.toErr {α : Type} : Except Err α → Option Err
  | .ok _ => none
  | .error e => some e

/-- `frame_content(frame)`: `none` = Ok(text), `some e` = the error it returns -/
def frameContentErr (c : Codec) (H : Bytes → Bytes) (s : Store) (f : Frame) : Option Err :=
  if f.search = some true then none
  else if f.len = 0 && f.manifest.isNone then none
  else
    -- frame_canonical_text
    if isManifestDoc f then Except.toErr (canonicalBytes c H s f)
    else if f.search.isSome then none
    else if f.mime = some false then none
    else Except.toErr (canonicalBytes c H s f)

/-! ## put_internal: the records of one put -/

structure PutArgs where
  payload : Bytes
  /-- compression level: `DEFAULT_LEVEL`, or the batch's `compression_level` -/
  level : Int := DEFAULT_LEVEL
  /-- the chunk plan (chunk texts as UTF-8 bytes), when the planner produced one -/
  plan : Option (List Bytes) := none
  /-- the plan came from the raw payload (`plan_document_chunks`, valid UTF-8): the parent stores nothing -/
  rawPlan : Bool := false
  role : Role := .document
  /-- the parent record's `search_text` / `metadata.mime` -/
  search : Option Bool := some true
  mime : Option Bool := some true
  /-- `search_text` of chunk `i` (blank chunks have none); missing entries = `some true` -/
  chunkSearch : List (Option Bool) := []
deriving DecidableEq, Repr, Inhabited

def PutArgs.chunks (a : PutArgs) : List Bytes := a.plan.getD []

/-- what the parent record stores -/
def parentStored (c : Codec) (a : PutArgs) : Stored :=
  if a.plan.isSome && a.rawPlan then { bytes := [], enc := .plain, canonLen := 0 }
  else prepare c a.level a.payload

def parentEntry (c : Codec) (a : PutArgs) : Entry :=
  let st := parentStored c a
  { payload := st.bytes, enc := st.enc, canonLen := st.canonLen, role := a.role,
    manifest := a.plan.map (·.length), parentSeq := none, chunkIndex := none,
    search := a.search, mime := a.mime }

def chunkEntry (c : Codec) (a : PutArgs) (pseq i : Nat) (t : Bytes) : Entry :=
  let st := prepare c DEFAULT_LEVEL t
  { payload := st.bytes, enc := st.enc, canonLen := st.canonLen, role := .chunk, manifest := none,
    parentSeq := some pseq, chunkIndex := some i, search := (a.chunkSearch[i]?).getD (some true),
    mime := a.mime }

def chunkRecords (c : Codec) (a : PutArgs) (pseq : Nat) : List Bytes → Nat → List (Nat × Entry)
  | [], _ => []
  | t :: ts, i => (pseq + 1 + i, chunkEntry c a pseq i t) :: chunkRecords c a pseq ts (i + 1)

/-- the WAL records of one accepted put: the parent, then the chunks (`parent_sequence` = the
    parent's sequence number) -/
def putRecords (c : Codec) (seq0 : Nat) (a : PutArgs) : List (Nat × Entry) :=
  (seq0 + 1, parentEntry c a) :: chunkRecords c a (seq0 + 1) a.chunks 0

/-! ## apply_records -/

structure ApSt where
  s : Store
  /-- `data_cursor − base` -/
  cursor : Nat
  /-- `sequence_to_frame`, latest binding first -/
  seqMap : List (Nat × Nat) := []
deriving Repr, Inhabited

def mkFrame (H : Bytes → Bytes) (id off : Nat) (parent : Option Nat) (e : Entry) : Frame :=
  { id := id, off := off, len := e.payload.length, enc := e.enc, canonLen := e.canonLen,
    checksum := H e.payload, role := e.role, parent := parent, chunkIndex := e.chunkIndex,
    manifest := e.manifest, search := e.search, mime := e.mime }

/-- `sequence_to_frame.get(&parent_seq)`: `none` = outside the model -/
def resolveParent (seqMap : List (Nat × Nat)) : Option Nat → Option (Option Nat)
  | none => some none
  | some ps =>
    match seqMap.lookup ps with
    | some d => some (some d)
    | none => none

/-- the handle as `frame_content` sees it while the record is applied: the payload is in the file,
    `cached_payload_end` is advanced; `data_end` only in the repaired code -/
def viewAfterWrite (early : Bool) (st : ApSt) (e : Entry) : Store :=
  { st.s with
    file := writeExt st.s.file st.cursor e.payload
    payloadEnd := max st.s.payloadEnd (st.cursor + e.payload.length)
    dataEnd := if early then max st.s.dataEnd (st.cursor + e.payload.length) else st.s.dataEnd }

/-- the index text of a record while it is applied: `search_text` when the record has one, else
    `frame_content(frame)?` — only when Tantivy is attached; `none` = no error -/
def indexTextErr (c : Codec) (H : Bytes → Bytes) (view : Store) (engine : Bool) (e : Entry) (frame : Frame) : Option Err :=
  if engine && e.search.isNone then frameContentErr c H view frame else none

/-- one Insert record -/
def applyInsert (c : Codec) (H : Bytes → Bytes) (early : Bool) (st : ApSt) (seq : Nat) (e : Entry) :
    Except Err ApSt :=
  match resolveParent st.seqMap e.parentSeq with
  | none => .error .orphan
  | some parent =>
    let id := st.s.frames.length
    let frame := mkFrame H id st.cursor parent e
    let view := viewAfterWrite early st e
    match indexTextErr c H view st.s.engine e frame with
    | some err => .error err
    | none =>
      .ok { s := { view with frames := st.s.frames ++ [frame] }
            cursor := st.cursor + e.payload.length
            seqMap := (seq, id) :: st.seqMap }

def applyLoop (c : Codec) (H : Bytes → Bytes) (early : Bool) : ApSt → List (Nat × Entry) → Except Err ApSt
  | st, [] => .ok st
  | st, r :: rs =>
    match applyInsert c H early st r.1 r.2 with
    | .error e => .error e
    | .ok st' => applyLoop c H early st' rs

/-- `apply_records` -/
def applyRecords (c : Codec) (H : Bytes → Bytes) (early : Bool) (s : Store) (recs : List (Nat × Entry)) :
    Except Err Store :=
  if recs.isEmpty then .ok s else
  match applyLoop c H early { s := s, cursor := s.dataEnd, seqMap := [] } recs with
  | .error e => .error e
  | .ok st => .ok { st.s with dataEnd := max st.s.dataEnd st.cursor }

/-! ## commit / open / put -/

inductive Out where
  | ok
  | err (e : Err)
deriving DecidableEq, Repr, Inhabited

/-- what follows a successful `apply_records` with inserts: `rebuild_indexes` restarts the index
    region at the payload end, the WAL is checkpointed -/
def Store.checkpointed (s : Store) : Store := { s with pending := [], dataEnd := s.payloadEnd }

/-- `commit()`: on an error the staging copy is discarded and the handle keeps its state -/
def commit (c : Codec) (H : Bytes → Bytes) (early : Bool) (s : Store) : Store × Out :=
  if s.pending.isEmpty then (s, .ok) else
  match applyRecords c H early s s.pending with
  | .error e => (s, .err e)
  | .ok s' => (s'.checkpointed, .ok)

/-- `compute_payload_region_end` (relative) -/
def frameEnds (fs : List Frame) : Nat :=
  fs.foldl (fun acc f => if f.len ≠ 0 then max acc (f.off + f.len) else acc) 0

/-- `open_locked` on the file the state describes: `data_end` = max(footer, payload ends),
    `cached_payload_end` recomputed, then `recover_wal`.  `ft` = footer offset (relative, trace input).
    A failing replay makes the open fail: there is no handle, the file stays as it was. -/
def openStore (c : Codec) (H : Bytes → Bytes) (early : Bool) (s : Store) (ft : Nat) : Store × Out :=
  let s1 : Store := { s with dataEnd := max ft (frameEnds s.frames), payloadEnd := frameEnds s.frames }
  if s1.pending.isEmpty then (s1, .ok) else
  match applyRecords c H early s1 s1.pending with
  | .error e => (s, .err e)
  | .ok s' => (s'.checkpointed, .ok)

/-- drop (commit when dirty, result ignored) + open -/
def reopen (c : Codec) (H : Bytes → Bytes) (early : Bool) (s : Store) (ft : Nat) : Store × Out :=
  openStore c H early (commit c H early s).1 ft

/-- the process dies (no Drop) + open -/
def crash (c : Codec) (H : Bytes → Bytes) (early : Bool) (s : Store) (ft : Nat) : Store × Out :=
  openStore c H early s ft

/-- `put_internal` as far as the store goes; `ac` = the automatic checkpoint fired (trace input) -/
def put (c : Codec) (H : Bytes → Bytes) (early : Bool) (s : Store) (a : PutArgs) (ac : Bool) : Store × Out :=
  let recs := putRecords c s.seq a
  let s1 : Store := { s with pending := s.pending ++ recs, seq := s.seq + recs.length }
  if ac then commit c H early s1 else (s1, .ok)

inductive Op where
  | put (a : PutArgs) (ac : Bool)
  | commit
  | reopen (ft : Nat)
  | crash (ft : Nat)
deriving Repr, Inhabited

def step (c : Codec) (H : Bytes → Bytes) (early : Bool) (s : Store) : Op → Store × Out
  | .put a ac => put c H early s a ac
  | .commit => commit c H early s
  | .reopen ft => reopen c H early s ft
  | .crash ft => crash c H early s ft

def run (c : Codec) (H : Bytes → Bytes) (early : Bool) (s : Store) : List Op → Store
  | [] => s
  | op :: ops => run c H early (step c H early s op).1 ops

end Mv.Content
