/-
  Model of the ticket state machine of `/repo`:
    src/memvid/ticket.rs     apply_ticket, apply_signed_ticket, stats().seq_no / capacity_bytes
    src/signature.rs         verify_ticket_signature (message, 64-byte check, verify_strict)
    src/memvid/lifecycle.rs  set_memory_binding_only, bind_memory, unbind_memory, empty_toc,
                             open (state restored from the persisted TOC), Drop (commit if dirty)
    src/memvid/mutation.rs   capacity_limit, commit (TOC rewritten with ticket_ref and binding)

  Only what the ticket logic reads or writes is state: the in-memory `toc.ticket_ref`, the
  in-memory `toc.memory_binding` (its memory id), the `dirty` flag and the last TOC written to the
  file (`disk`).  Black boxes are parameters (`Params`): the embedded verifying key after parsing,
  the canonical JSON payload `msg` as a function of the ticket fields, and Ed25519
  `verify_strict` as `sigVerify`.

  `i64` sequence numbers are `Int`; the only arithmetic on them, the `expected` field of the
  `TicketSequence` error, is panic-explicit (`Arith`, `expectedSeq`).
-/
import MvModel.Gen.C25
namespace Mv.Ticket

abbrev Bytes := List UInt8

def I64_MAX : Int := 9223372036854775807
def I64_MIN : Int := -9223372036854775808
def inI64 (x : Int) : Prop := I64_MIN ≤ x ∧ x ≤ I64_MAX

/-- `types::TicketRef` (what the TOC stores) -/
structure TicketRef where
  issuer : Bytes
  seqNo : Int
  expires : Nat
  capacity : Nat
  verified : Bool
deriving DecidableEq, Repr

/-- `types::Ticket` -/
structure Ticket where
  issuer : Bytes
  seqNo : Int
  expires : Nat
  capacity : Option Nat
deriving DecidableEq, Repr

/-- `types::SignedTicket` -/
structure SignedTicket where
  issuer : Bytes
  seqNo : Int
  expires : Nat
  capacity : Option Nat
  memoryId : Bytes
  signature : Bytes
deriving DecidableEq, Repr

/-- the part of the last TOC written to the file that the ticket logic depends on -/
structure Disk where
  ticket : TicketRef
  binding : Option Bytes
deriving DecidableEq, Repr

structure Mem where
  ticket : TicketRef
  binding : Option Bytes
  dirty : Bool
  disk : Disk
deriving DecidableEq, Repr

/-- the `reason`s of `MemvidError::TicketSignatureInvalid`, in the order the code tests them -/
inductive SigReason where
  | badKey      -- parse_ed25519_public_key_base64 failed
  | unbound     -- toc.memory_binding is None
  | memoryId    -- ticket.memory_id != binding.memory_id
  | sigLength   -- to_signature: not exactly 64 bytes
  | mismatch    -- verify_strict failed
deriving DecidableEq, Repr

inductive Err where
  | sequence (expected actual : Int)   -- MemvidError::TicketSequence
  | signature (r : SigReason)          -- MemvidError::TicketSignatureInvalid
  | alreadyBound                       -- MemvidError::MemoryAlreadyBound
deriving DecidableEq, Repr

inductive Res where
  | ok
  | err (e : Err)
  | panic          -- arithmetic overflow in a build with overflow checks
deriving DecidableEq, Repr

/-- result of one call and whether the call wrote to the file -/
structure Out where
  res : Res
  wrote : Bool
deriving DecidableEq, Repr

/-- black boxes of `apply_signed_ticket` -/
structure Params (Key : Type) where
  /-- `parse_ed25519_public_key_base64(MEMVID_TICKET_PUBKEY)`; `none` = does not parse -/
  key : Option Key
  /-- `ticket_message_bytes(memory_id, issuer, seq_no, expires_in, capacity_bytes)` -/
  msg : Bytes → Bytes → Int → Nat → Option Nat → Bytes
  /-- `VerifyingKey::verify_strict(message, signature)` -/
  sigVerify : Key → Bytes → Bytes → Bool

/-- how the error path computes `expected` -/
inductive Arith where
  | checked      -- `current_seq + 1` with overflow checks (debug/test profile): panics on overflow
  | saturating   -- `current_seq.saturating_add(1)`
deriving DecidableEq, Repr

/-- the arithmetic the source currently uses (regenerated from src/memvid/ticket.rs) -/
def codeArith : Arith := if Mv.Gen.C25.SEQ_SUCC_SATURATING then .saturating else .checked

/-- `i64::saturating_add(x, 1)` -/
def satSucc (x : Int) : Int := if x + 1 > I64_MAX then I64_MAX else x + 1

/-- `expected:` of `MemvidError::TicketSequence`; `none` = overflow panic -/
def expectedSeq (a : Arith) (cur : Int) : Option Int :=
  match a with
  | .checked => if cur + 1 ≤ I64_MAX then some (cur + 1) else none
  | .saturating => some (satSucc cur)

/-- the `if ticket.seq_no <= current_seq { return Err(TicketSequence {..}) }` exit -/
def seqReject (a : Arith) (cur actual : Int) : Out :=
  match expectedSeq a cur with
  | some e => { res := .err (.sequence e actual), wrote := false }
  | none => { res := .panic, wrote := false }

/-- the five assignments to `toc.ticket_ref` followed by `rewrite_toc_footer` + header + fsync:
    the whole TOC (ticket_ref and memory_binding as they are in memory) goes to the file -/
def accept (s : Mem) (issuer : Bytes) (seq : Int) (expires : Nat) (cap : Option Nat)
    (verified : Bool) : Mem :=
  let tr : TicketRef :=
    { issuer := issuer, seqNo := seq, expires := expires, capacity := cap.getD 0, verified := verified }
  { s with ticket := tr, disk := { ticket := tr, binding := s.binding } }

/-- step 5/6 shared by both entry points:
    `if ticket.seq_no <= current_seq { return Err(TicketSequence{..}) }`, else the update `acc` -/
def seqGate (a : Arith) (s : Mem) (seq : Int) (acc : Mem) : Mem × Out :=
  if seq ≤ s.ticket.seqNo then (s, seqReject a s.ticket.seqNo seq)
  else (acc, { res := .ok, wrote := true })

/-- `Memvid::apply_ticket` -/
def applyTicket (a : Arith) (s : Mem) (t : Ticket) : Mem × Out :=
  seqGate a s t.seqNo (accept s t.issuer t.seqNo t.expires t.capacity false)

/-- steps 1–4 of `apply_signed_ticket` in source order: the first check that fails, if any
    (1 key parses, 2 memory bound, 3 memory id equal, 4 `verify_ticket_signature`: 64 bytes, then
    `verify_strict` over the payload of the ticket's own fields) -/
def signedCheck {Key : Type} (P : Params Key) (s : Mem) (t : SignedTicket) : Option SigReason :=
  match P.key with
  | none => some .badKey
  | some pk =>
    match s.binding with
    | none => some .unbound
    | some id =>
      if t.memoryId ≠ id then some .memoryId
      else if t.signature.length ≠ Mv.Gen.C25.SIGNATURE_LEN then some .sigLength
      else if P.sigVerify pk (P.msg t.memoryId t.issuer t.seqNo t.expires t.capacity) t.signature = false then
        some .mismatch
      else none

/-- `Memvid::apply_signed_ticket` -/
def applySignedTicket {Key : Type} (P : Params Key) (a : Arith) (s : Mem) (t : SignedTicket) :
    Mem × Out :=
  match signedCheck P s t with
  | some r => (s, { res := .err (.signature r), wrote := false })
  | none => seqGate a s t.seqNo (accept s t.issuer t.seqNo t.expires t.capacity true)

/-- `Memvid::set_memory_binding_only` (only the memory id of the binding is modelled) -/
def setBindingOnly (s : Mem) (id : Bytes) : Mem × Out :=
  match s.binding with
  | some e =>
    if e ≠ id then (s, { res := .err .alreadyBound, wrote := false })
    else ({ s with binding := some id, dirty := true }, { res := .ok, wrote := false })
  | none => ({ s with binding := some id, dirty := true }, { res := .ok, wrote := false })

/-- `Memvid::bind_memory`: existing-binding check, `apply_ticket(ticket)?`, then the binding is
    stored in memory only (the TOC rewrite of `apply_ticket` happened before) -/
def bindMemory (a : Arith) (s : Mem) (id : Bytes) (t : Ticket) : Mem × Out :=
  let go : Mem × Out :=
    let r := applyTicket a s t
    if r.2.res = .ok then ({ r.1 with binding := some id, dirty := true }, r.2) else r
  match s.binding with
  | some e => if e ≠ id then (s, { res := .err .alreadyBound, wrote := false }) else go
  | none => go

/-- `Memvid::commit` as far as ticket state goes: the TOC in memory is written out -/
def commit (s : Mem) : Mem :=
  { s with disk := { ticket := s.ticket, binding := s.binding }, dirty := false }

/-- drop the handle (`Drop` commits when dirty) and `Memvid::open` the file again -/
def reopen (s : Mem) : Mem :=
  let s1 := if s.dirty then commit s else s
  { ticket := s1.disk.ticket, binding := s1.disk.binding, dirty := false, disk := s1.disk }

/-- `Memvid::unbind_memory` — NOT part of the histories C25 quantifies over (it resets `seq_no`) -/
def unbind (s : Mem) : Mem :=
  { s with binding := none, dirty := true,
           ticket := { issuer := Mv.Gen.C25.UNBIND_ISSUER, seqNo := Mv.Gen.C25.UNBIND_SEQ,
                       expires := Mv.Gen.C25.UNBIND_EXPIRES, capacity := Mv.Gen.C25.FREE_CAPACITY,
                       verified := Mv.Gen.C25.UNBIND_VERIFIED } }

/-- `Memvid::create`: `empty_toc()` written to a new file -/
def created : Mem :=
  let tr : TicketRef :=
    { issuer := Mv.Gen.C25.INIT_ISSUER, seqNo := Mv.Gen.C25.INIT_SEQ, expires := Mv.Gen.C25.INIT_EXPIRES,
      capacity := Mv.Gen.C25.FREE_CAPACITY, verified := Mv.Gen.C25.INIT_VERIFIED }
  { ticket := tr, binding := none, dirty := false, disk := { ticket := tr, binding := none } }

/-- `Stats.seq_no` -/
def statsSeq (s : Mem) : Option Int := if s.ticket.seqNo ≠ 0 then some s.ticket.seqNo else none

/-- `capacity_limit()` / `get_capacity()` / `Stats.capacity_bytes` on a free-tier file -/
def capacityLimit (s : Mem) : Nat :=
  if s.ticket.capacity ≠ 0 then s.ticket.capacity else Mv.Gen.C25.FREE_CAPACITY

/-! ### histories -/

inductive Op where
  | apply (t : Ticket)
  | signed (t : SignedTicket)
  | bindTicket (id : Bytes) (t : Ticket)
  | bindOnly (id : Bytes)
  | commit
  | reopen
deriving DecidableEq, Repr

def step {Key : Type} (P : Params Key) (a : Arith) (s : Mem) : Op → Mem × Out
  | .apply t => applyTicket a s t
  | .signed t => applySignedTicket P a s t
  | .bindTicket id t => bindMemory a s id t
  | .bindOnly id => setBindingOnly s id
  | .commit => (commit s, { res := .ok, wrote := true })
  | .reopen => (reopen s, { res := .ok, wrote := false })

/-- sequence number of the ticket an operation carries -/
def Op.ticketSeq : Op → Option Int
  | .apply t => some t.seqNo
  | .signed t => some t.seqNo
  | .bindTicket _ t => some t.seqNo
  | _ => none

/-- `some n` when the operation was a ticket with sequence number `n` and it was accepted -/
def acceptedSeq (op : Op) (o : Out) : Option Int :=
  match o.res with
  | .ok => op.ticketSeq
  | _ => none

/-- the sequence numbers of the accepted tickets of a history, in order -/
def acceptedSeqs {Key : Type} (P : Params Key) (a : Arith) (s : Mem) : List Op → List Int
  | [] => []
  | op :: rest =>
    let r := step P a s op
    match acceptedSeq op r.2 with
    | some n => n :: acceptedSeqs P a r.1 rest
    | none => acceptedSeqs P a r.1 rest

def run {Key : Type} (P : Params Key) (a : Arith) (s : Mem) : List Op → Mem
  | [] => s
  | op :: rest => run P a (step P a s op).1 rest

/-- the file always holds the in-memory ticket, and the in-memory binding unless `dirty` -/
def Inv (s : Mem) : Prop := s.disk.ticket = s.ticket ∧ (s.dirty = false → s.disk.binding = s.binding)

end Mv.Ticket
