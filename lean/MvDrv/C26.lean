/- Driver for C26: the Core model's line protocol (MvModel/CoreDrv.lean) with `put` / `update`
   executed under the repaired derived-data id policy (`IdPolicy.frameId`, MvModel/Derived.lean). -/
import MvModel.Derived
def main : IO Unit := Mv.runDriver Mv.Core.Mem.create (Mv.Core.drvStepG .frameId)
