#!/usr/bin/env python3
"""C14: constants and code-shape flags of the vector index.

Gen/C14.lean gets
  HNSW_THRESHOLD        `VecIndexBuilder::finish` switches to the HNSW representation at this many
                        documents (when the crate is built with feature `vec` or `hnsw_bench`)   (src/vec.rs)
  HNSW_ENTRIES_EMPTY    `VecIndex::entries` yields nothing for the `Hnsw` representation
  HNSW_REMOVE_NOOP      `VecIndex::remove` does nothing for the `Hnsw` representation
  RECOVER_ENABLES_VEC   `recover_wal` switches `vec_enabled` on when the replayed records carry embeddings
                        (the repair of /verif/fixes/C14.diff)                               (src/memvid/mutation.rs)
The first three feed the representation model `MvModel/VecIdx.lean` (`VecRepr`); the last one selects the
crash-recovery variant (`Mem.crashCfg`) that the driver compares with the implementation.
"""
import re
from common import *


def fn_body(src, name, nth=0):
    s = strip_comments(src)
    ms = list(re.finditer(r"\bfn\s+" + re.escape(name) + r"\b", s))
    if len(ms) <= nth:
        raise TranslateError(f"fn {name} not found")
    m = ms[nth]
    i = s.find("{", m.end())
    depth, j = 0, i
    while j < len(s):
        if s[j] == "{":
            depth += 1
        elif s[j] == "}":
            depth -= 1
            if depth == 0:
                break
        j += 1
    if i < 0 or j >= len(s):
        raise TranslateError(f"fn {name}: body not delimited")
    return re.sub(r"\s+", "", s[i:j + 1])


def lean_bool(b):
    return "true" if b else "false"


def arm(body, pat, what):
    """text of the match arm that starts with `pat` up to the next `VecIndex::` arm or the end"""
    i = body.find(pat)
    if i < 0:
        raise TranslateError(f"{what}: arm {pat} not found")
    j = body.find("VecIndex::", i + len(pat))
    return body[i + len(pat): j if j > 0 else len(body)]


def run():
    vec = read("src/vec.rs")
    mut = read("src/memvid/mutation.rs")
    threshold = const_int(vec, "HNSW_THRESHOLD")
    fin = fn_body(vec, "finish")
    if "ifself.documents.len()>=HNSW_THRESHOLD{returnself.finish_hnsw();}" not in fin:
        raise TranslateError("VecIndexBuilder::finish: `if self.documents.len() >= HNSW_THRESHOLD { return self.finish_hnsw(); }` not found")
    ent = fn_body(vec, "entries")
    a = arm(ent, "VecIndex::Hnsw(_)=>", "VecIndex::entries")
    if "std::iter::empty()" in a:
        entries_empty = True
    elif ".iter()" in a or "zip(" in a:
        entries_empty = False
    else:
        raise TranslateError("VecIndex::entries: shape of the Hnsw arm not recognised")
    if "VecIndex::Uncompressed{documents}=>Box::new(documents.iter().map(|doc|(doc.frame_id,doc.embedding.as_slice()))" not in ent:
        raise TranslateError("VecIndex::entries: Uncompressed arm not recognised")
    rem = fn_body(vec, "remove")
    if "VecIndex::Uncompressed{documents}=>{documents.retain(|doc|doc.frame_id!=frame_id);}" not in rem:
        raise TranslateError("VecIndex::remove: Uncompressed arm not recognised")
    a = arm(rem, "VecIndex::Hnsw(_)=>", "VecIndex::remove")
    remove_noop = a.strip("}") == "{"
    rec = fn_body(mut, "recover_wal")
    if "letdelta=self.apply_records(records)?;" not in rec:
        raise TranslateError("recover_wal: apply_records call not found")
    enables = "self.vec_enabled=true;" in rec
    bva = fn_body(read("src/memvid/search/builders.rs"), "build_vec_artifact")
    for frag in ["if!self.vec_enabled{returnOk(None);}", "for(frame_id,embedding)inindex.entries(){ifself.frame_is_active(frame_id){builder.add_document(frame_id,embedding.to_vec());}}",
                 "for(frame_id,embedding)innew_docs{builder.add_document(*frame_id,embedding.clone());}"]:
        if frag not in bva:
            raise TranslateError(f"build_vec_artifact: statement not found: {frag}")
    body = "\n".join([
        f"def HNSW_THRESHOLD : Nat := {threshold}",
        f"def HNSW_ENTRIES_EMPTY : Bool := {lean_bool(entries_empty)}",
        f"def HNSW_REMOVE_NOOP : Bool := {lean_bool(remove_noop)}",
        f"def RECOVER_ENABLES_VEC : Bool := {lean_bool(enables)}",
    ]) + "\n"
    return emit("C14", body)


main(run)
