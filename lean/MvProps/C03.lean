/-
  C03 — power-loss durability: protocol theorems on the `Disk` machine.

  * `C03_staged_power`    at EVERY prefix of the copy-and-rename protocol, every power-loss survivor of
                          the path is a power-loss survivor of the OLD inode (the old image minus
                          un-fsynced writes of the old file) or exactly the complete new image;
  * `C03_commit_durable`  after the complete protocol every power-loss survivor of the path is exactly
                          the new image (fsync(tmp) before the rename, fsync(dir) after it);
  * `C03_synced_write_durable` a write followed by fsync is in the durable image: whatever un-fsynced
                          writes follow, every survivor is built on an image containing it;
  * WAL level (bytes, `Wal.scan`): see the second half of this file.
-/
import MvModel.Disk
import MvModel.Emit
import MvProps.C02
import MvProps.C02Wal
namespace Mv.Crash
open Mv.Disk Mv.Emit

variable {β : Type}

/-- every power-loss survivor of `p` is a survivor of the inode `n` (the old file) or exactly `new` -/
def PowerOldOrNew (z : β) (n : Inode β) (new : List β) (p : String) (d : Disk β) : Prop :=
  ∀ s, crashPower z d s → (∃ c, Survives z n c ∧ s p = some c) ∨ s p = some new

/-- staging phase: the durable directory names the old inode, only the temp link is pending -/
def PowerStaging (d0 : Disk β) (tmp p : String) (i j : Nat) (d : Disk β) : Prop :=
  d.ddir p = some j ∧ d.ino j = d0.ino j ∧ d.dpend = [.link tmp i] ∧ d.dir tmp = some i

theorem powerStaging_step (z : β) (d0 : Disk β) (tmp p : String) (i j : Nat) (hij : i ≠ j)
    (d : Disk β) (s : Sys β) (hs : OnIno i s) (h : PowerStaging d0 tmp p i j d) :
    PowerStaging d0 tmp p i j (step z d s) := by
  have h1 := step_onIno z d i s hs
  have h2 := step_onIno_dir z d i s hs
  exact ⟨by rw [h2.1]; exact h.1, by rw [h1.2.1 j (Ne.symm hij)]; exact h.2.1,
         by rw [h2.2]; exact h.2.2.1, by rw [h1.1]; exact h.2.2.2⟩

theorem dirAfter_link (d : Disk β) (tmp p : String) (i : Nat) (htp : tmp ≠ p)
    (hd : d.dpend = [.link tmp i]) (k : Nat) : dirAfter d k p = d.ddir p := by
  unfold dirAfter
  rw [hd]
  cases k with
  | zero => simp
  | succ k => simp [List.take, DirOp.apply, Ne.symm htp]

theorem powerOld_of_staging (z : β) (d0 : Disk β) (tmp p : String) (i j : Nat) (htp : tmp ≠ p)
    (new : List β) (d : Disk β) (h : PowerStaging d0 tmp p i j d) :
    PowerOldOrNew z (d0.ino j) new p d := by
  intro s ⟨k, _, hk⟩
  have := hk p
  rw [dirAfter_link d tmp p i htp h.2.2.1 k, h.1] at this
  simp only at this
  obtain ⟨c, hc, hs⟩ := this
  left
  exact ⟨c, by rw [← h.2.1]; exact hc, hs⟩

/-- the closing syscalls under power loss -/
theorem staged_tail_power (z : β) (d0 : Disk β) (tmp p : String) (i j : Nat) (hij : i ≠ j)
    (htp : tmp ≠ p) (new : List β) (d2 : Disk β) (hd2 : PowerStaging d0 tmp p i j d2)
    (hvol2 : (d2.ino i).vol z = new) :
    AllPre z (PowerOldOrNew z (d0.ino j) new p) d2 [.fsync i, .rename tmp p, .fsyncDir] := by
  have hd3 : PowerStaging d0 tmp p i j (step z d2 (.fsync i)) :=
    powerStaging_step z d0 tmp p i j hij d2 (.fsync i) rfl hd2
  have hino3 : (step z d2 (.fsync i)).ino i = { durable := new, pend := [] } := by
    simp [step, hvol2]
  refine ⟨powerOld_of_staging z d0 tmp p i j htp _ d2 hd2,
          powerOld_of_staging z d0 tmp p i j htp _ _ hd3, ?_, ?_⟩
  · -- after the rename: pending = [link tmp i, rename tmp p]
    generalize step z d2 (.fsync i) = d3 at hd3 hino3
    intro s ⟨k, _, hk⟩
    have hk := hk p
    have hdp : (step z d3 (.rename tmp p)).dpend = [.link tmp i, .rename tmp p] := by
      simp [step, hd3.2.2.1]
    have hdd : (step z d3 (.rename tmp p)).ddir = d3.ddir := rfl
    have hin : (step z d3 (.rename tmp p)).ino = d3.ino := rfl
    simp only [dirAfter, hdp, hdd, hin] at hk
    match k, hk with
    | 0, hk =>
      simp only [List.take_zero, List.foldl_nil, hd3.1] at hk
      obtain ⟨c, hc, hs⟩ := hk
      exact Or.inl ⟨c, by rw [← hd3.2.1]; exact hc, hs⟩
    | 1, hk =>
      simp [List.take, DirOp.apply, Ne.symm htp, hd3.1] at hk
      obtain ⟨c, hc, hs⟩ := hk
      exact Or.inl ⟨c, by rw [← hd3.2.1]; exact hc, hs⟩
    | k+2, hk =>
      simp [List.take, DirOp.apply] at hk
      obtain ⟨c, hc, hs⟩ := hk
      right
      rw [hino3] at hc
      rw [hs, survives_synced z _ rfl c hc]
  · -- after the directory fsync: durable directory = volatile directory, nothing pending
    generalize step z d2 (.fsync i) = d3 at hd3 hino3
    intro s ⟨k, _, hk⟩
    have hk := hk p
    simp [dirAfter, step, DirOp.apply, hd3.2.2.2] at hk
    obtain ⟨c, hc, hs⟩ := hk
    right
    rw [hino3] at hc
    rw [hs, survives_synced z _ rfl c hc]

/-- **C03, staged commit under power loss, every prefix.**  Hypotheses: the memory's directory entry
    is durable and no directory operation is pending when the commit starts (see `Disk.step`). -/
theorem C03_staged_power (z : β) (d : Disk β) (tmp p : String) (i j : Nat) (ws : List (Sys β))
    (hp : d.ddir p = some j) (hpend : d.dpend = []) (hij : i ≠ j) (htp : tmp ≠ p)
    (hws : ∀ s ∈ ws, OnIno i s) (k : Nat) :
    PowerOldOrNew z (d.ino j) (imageOf z ws) p (run z d ((stagedProto tmp p i ws).take k)) := by
  suffices h : AllPre z (PowerOldOrNew z (d.ino j) (imageOf z ws) p) d (stagedProto tmp p i ws) from
    allPre_take z _ _ d h k
  have h0 : PowerOldOrNew z (d.ino j) (imageOf z ws) p d := by
    intro s ⟨k, _, hk⟩
    have := hk p
    simp only [dirAfter, hpend, List.take_nil, List.foldl_nil, hp] at this
    obtain ⟨c, hc, hs⟩ := this
    exact Or.inl ⟨c, hc, hs⟩
  have hd1 : PowerStaging d tmp p i j (step z d (.create tmp i)) := by
    refine ⟨by simp [step, hp], by simp [step, setIno_other _ _ _ _ (Ne.symm hij)],
            by simp [step, hpend], by simp [step, DirOp.apply]⟩
  have hvol1 : ((step z d (.create tmp i)).ino i).vol z = [] := by
    simp [step, Inode.empty, Inode.vol]
  have hinv := allPre_of_inv z (PowerStaging d tmp p i j) (OnIno i)
    (fun d' s hs h => powerStaging_step z d tmp p i j hij d' s hs h) ws _ hws hd1
  have hrun := run_onIno z i ws (step z d (.create tmp i)) hws
  have hvol2 : ((run z (step z d (.create tmp i)) ws).ino i).vol z = imageOf z ws := by
    rw [hrun.2.2, hvol1]; rfl
  show AllPre z _ d (.create tmp i :: (ws ++ [.fsync i, .rename tmp p, .fsyncDir]))
  refine ⟨h0, ?_⟩
  apply allPre_append
  · exact allPre_mono z _ _ (powerOld_of_staging z d tmp p i j htp (imageOf z ws)) ws _ hinv.1
  · exact staged_tail_power z d tmp p i j hij htp (imageOf z ws) _ hinv.2 hvol2

/-- when the old file was fsynced before the commit started (`with_staging_lock` begins with
    `self.file.sync_all()`), the power-loss survivor is exactly the old or exactly the new image -/
theorem C03_staged_power_exact (z : β) (d : Disk β) (tmp p : String) (i j : Nat) (ws : List (Sys β))
    (hp : d.ddir p = some j) (hpend : d.dpend = []) (hsync : (d.ino j).pend = []) (hij : i ≠ j)
    (htp : tmp ≠ p) (hws : ∀ s ∈ ws, OnIno i s) (k : Nat) (s : String → Option (List β))
    (hs : crashPower z (run z d ((stagedProto tmp p i ws).take k)) s) :
    s p = some ((d.ino j).vol z) ∨ s p = some (imageOf z ws) := by
  rcases C03_staged_power z d tmp p i j ws hp hpend hij htp hws k s hs with ⟨c, hc, h⟩ | h
  · left
    rw [h, survives_synced z _ hsync c hc]
    simp [Inode.vol, hsync]
  · exact Or.inr h

/-- **C03, commit durable** — once the protocol has completed (`commit` returned), every power-loss
    survivor of the path is exactly the complete new image. -/
theorem C03_commit_durable (z : β) (d : Disk β) (tmp p : String) (i j : Nat) (ws : List (Sys β))
    (hp : d.ddir p = some j) (hpend : d.dpend = []) (hij : i ≠ j) (htp : tmp ≠ p)
    (hws : ∀ s ∈ ws, OnIno i s) (s : String → Option (List β))
    (hs : crashPower z (run z d (stagedProto tmp p i ws)) s) : s p = some (imageOf z ws) := by
  -- the complete run is the last prefix; the last conjunct of the tail lemma is what we need
  have hd1 : PowerStaging d tmp p i j (step z d (.create tmp i)) := by
    refine ⟨by simp [step, hp], by simp [step, setIno_other _ _ _ _ (Ne.symm hij)],
            by simp [step, hpend], by simp [step, DirOp.apply]⟩
  have hvol1 : ((step z d (.create tmp i)).ino i).vol z = [] := by
    simp [step, Inode.empty, Inode.vol]
  have hinv := allPre_of_inv z (PowerStaging d tmp p i j) (OnIno i)
    (fun d' s hs h => powerStaging_step z d tmp p i j hij d' s hs h) ws _ hws hd1
  have hrun := run_onIno z i ws (step z d (.create tmp i)) hws
  have hvol2 : ((run z (step z d (.create tmp i)) ws).ino i).vol z = imageOf z ws := by
    rw [hrun.2.2, hvol1]; rfl
  have hrw : run z d (stagedProto tmp p i ws) =
      step z (step z (step z (run z (step z d (.create tmp i)) ws) (.fsync i)) (.rename tmp p)) .fsyncDir := by
    simp [stagedProto, run, List.foldl_append]
  rw [hrw] at hs
  -- in the final state the alternative "old" is impossible: redo the last case directly
  have hd3 : PowerStaging d tmp p i j (step z (run z (step z d (.create tmp i)) ws) (.fsync i)) :=
    powerStaging_step z d tmp p i j hij _ (.fsync i) rfl hinv.2
  have hfs : ∀ d2 : Disk β, (d2.ino i).vol z = imageOf z ws →
      (step z d2 (.fsync i)).ino i = { durable := imageOf z ws, pend := [] } := by
    intro d2 h; simp [step, h]
  have hino3 := hfs _ hvol2
  generalize step z (run z (step z d (.create tmp i)) ws) (.fsync i) = d3 at hd3 hino3 hs
  obtain ⟨k, _, hk⟩ := hs
  have hk := hk p
  simp [dirAfter, step, DirOp.apply, hd3.2.2.2] at hk
  obtain ⟨c, hc, hsp⟩ := hk
  rw [hino3] at hc
  rw [hsp, survives_synced z _ rfl c hc]

/-- a write followed by `fsync` is durable: after `pwrite; fsync` and ANY further un-fsynced
    content-only syscalls of the same inode, every power-loss survivor of the inode is built from
    the image that contains the write (`base`), by a subset of the LATER writes only -/
theorem C03_synced_write_durable (z : β) (d : Disk β) (o off : Nat) (w : List β) (later : List (Sys β))
    (hl : ∀ s ∈ later, OnIno o s ∧ s ≠ .fsync o) :
    ((run z d ([.pwrite o off w, .fsync o] ++ later)).ino o).durable = pwriteL z ((d.ino o).vol z) off w := by
  have h2 : ((run z d [.pwrite o off w, .fsync o]).ino o) =
      { durable := pwriteL z ((d.ino o).vol z) off w, pend := [] } := by
    simp [run, step, Inode.vol, List.foldl_append, Upd.apply]
  rw [run_append]
  generalize run z d [.pwrite o off w, .fsync o] = d1 at h2
  have : ∀ (l : List (Sys β)) (d1 : Disk β), (∀ s ∈ l, OnIno o s ∧ s ≠ .fsync o) →
      ((run z d1 l).ino o).durable = (d1.ino o).durable := by
    intro l
    induction l with
    | nil => intro d1 _; rfl
    | cons s l ih =>
      intro d1 h
      have hs := h s (by simp)
      have := ih (step z d1 s) (fun x hx => h x (by simp [hx]))
      simp only [run, List.foldl_cons] at this ⊢
      rw [this]
      cases s with
      | pwrite j off w => have : j = o := hs.1; subst this; simp [step]
      | ftruncate j n => have : j = o := hs.1; subst this; simp [step]
      | fsync j => have : j = o := hs.1; subst this; exact absurd rfl hs.2
      | create a j => exact absurd hs.1 (by simp [OnIno])
      | rename a b => exact absurd hs.1 (by simp [OnIno])
      | unlink a => exact absurd hs.1 (by simp [OnIno])
      | fsyncDir => exact absurd hs.1 (by simp [OnIno])
  rw [this later d1 hl, h2]

/-! ### the put protocol under power loss -/

theorem padTo_length_ge (z : β) (b : List β) (n : Nat) : n ≤ (padTo z b n).length := by
  simp [padTo]; omega

theorem padTo_of_le (z : β) (b : List β) (n : Nat) (h : n ≤ b.length) : padTo z b n = b := by
  have : n - b.length = 0 := by omega
  simp [padTo, this]

/-- a `pwrite` result has the written bytes at `off`, preceded by exactly `off` elements -/
theorem pwriteL_shape (z : β) (b : List β) (off : Nat) (w : List β) :
    ∃ P Q, P.length = off ∧ pwriteL z b off w = P ++ w ++ Q := by
  refine ⟨(padTo z b (off + w.length)).take off, (padTo z b (off + w.length)).drop (off + w.length), ?_, rfl⟩
  have := padTo_length_ge z b (off + w.length)
  simp; omega

/-- re-writing a prefix of what is already there changes nothing -/
theorem pwriteL_inside (z : β) (P x y Q : List β) (t : Nat) :
    pwriteL z (P ++ (x ++ y) ++ Q) (P.length + x.length) (y.take t) = P ++ (x ++ y) ++ Q := by
  have hle : P.length + x.length + (y.take t).length ≤ (P ++ (x ++ y) ++ Q).length := by
    simp; omega
  unfold pwriteL
  rw [padTo_of_le z _ _ hle]
  have h1 : (P ++ (x ++ y) ++ Q).take (P.length + x.length) = P ++ x := by
    have : P ++ (x ++ y) ++ Q = (P ++ x) ++ (y ++ Q) := by simp
    rw [this]
    have hl : (P ++ x).length = P.length + x.length := by simp
    rw [← hl, List.take_left]
  have h2 : (P ++ (x ++ y) ++ Q).drop (P.length + x.length + (y.take t).length) = y.drop t ++ Q := by
    have e : P ++ (x ++ y) ++ Q = (P ++ x ++ y.take t) ++ (y.drop t ++ Q) := by
      simp only [List.append_assoc]
      rw [← List.append_assoc (y.take t), List.take_append_drop]
    have hl : (P ++ x ++ y.take t).length = P.length + x.length + (y.take t).length := by
      simp; omega
    rw [e, ← hl, List.drop_left]
  rw [h1, h2]
  simp only [List.append_assoc]
  rw [← List.append_assoc (y.take t), List.take_append_drop]

/-- power-loss survivors of an inode whose only un-fsynced update rewrites (a prefix of) what the
    durable image already holds: exactly the durable image -/
theorem survives_idempotent (z : β) (n : Inode β) (off : Nat) (w : List β) (hp : n.pend = [.write off w])
    (hid : ∀ t, pwriteL z n.durable off (w.take t) = n.durable) (c : List β) (hc : Survives z n c) :
    c = n.durable := by
  have hw : pwriteL z n.durable off w = n.durable := by
    have := hid w.length; simpa using this
  cases hc with
  | whole keep hk =>
    rw [hp] at hk
    cases hk with
    | cons _ h => have := List.sublist_nil.mp h; subst this; rfl
    | cons_cons _ h => have := List.sublist_nil.mp h; subst this; simp [Upd.apply, hw]
  | torn keep off' w' t hk =>
    rw [hp] at hk
    cases keep with
    | nil =>
      cases hk with
      | cons _ h => have := List.sublist_nil.mp h; simp at this
      | cons_cons _ h => simp [Upd.apply, hid t]
    | cons a keep =>
      have hl := hk.length_le
      simp at hl

/-- **C03, put (current code): the sentinel may be lost.**  After the COMPLETE put protocol
    (`append_entry` returned: record written and fsynced, sentinel written but not fsynced) the image
    "record without sentinel" is still a possible power-loss survivor. -/
theorem C03_put_sentinel_may_be_lost (z : β) (d : Disk β) (o recOff : Nat) (record sentinel : List β) :
    Survives z ((run z d (putProto o recOff record sentinel)).ino o)
      (pwriteL z ((d.ino o).vol z) recOff record) := by
  have : ((run z d (putProto o recOff record sentinel)).ino o).durable
      = pwriteL z ((d.ino o).vol z) recOff record := by
    simp [putProto, run, step, Inode.vol, List.foldl_append, Upd.apply]
  rw [← this]
  exact survives_durable z _

/-- **C03, put durable (repaired emission).**  After the complete repaired protocol every power-loss
    survivor of the file is exactly the image "record + sentinel written": the later sentinel rewrite
    can be lost or torn without any effect.  (With `C02_put_fixed`: the scan of every survivor returns
    the records in front plus the new record.) -/
theorem C03_put_fixed_durable (z : β) (d : Disk β) (o recOff : Nat) (record sentinel : List β)
    (c : List β) (hc : Survives z ((run z d (putProtoFixed o recOff record sentinel)).ino o) c) :
    c = pwriteL z ((d.ino o).vol z) recOff (record ++ sentinel) := by
  have hn : (run z d (putProtoFixed o recOff record sentinel)).ino o =
      { durable := pwriteL z ((d.ino o).vol z) recOff (record ++ sentinel),
        pend := [.write (recOff + record.length) sentinel] } := by
    simp [putProtoFixed, run, step, Inode.vol, List.foldl_append, Upd.apply]
  rw [hn] at hc
  obtain ⟨P, Q, hP, hsh⟩ := pwriteL_shape z ((d.ino o).vol z) recOff (record ++ sentinel)
  have := survives_idempotent z _ (recOff + record.length) sentinel rfl (by
    intro t
    show pwriteL z (pwriteL z ((d.ino o).vol z) recOff (record ++ sentinel)) _ _ = _
    rw [hsh, ← hP]
    exact pwriteL_inside z P record sentinel Q t) c hc
  exact this

/-- a `pwrite` that stays inside the file is `writeAt` of the byte-level models -/
theorem pwriteL_eq_writeAt (b w : Mv.Bytes) (off : Nat) (h : off + w.length ≤ b.length) :
    pwriteL (0 : UInt8) b off w = Mv.writeAt b off w := by
  unfold pwriteL Mv.writeAt
  rw [padTo_of_le _ _ _ h]

/-- **C03, put — counterexample for the code as it is** (same witness as `C02_put_counterexample`,
    now AFTER the put returned): the file consisting of the wrapped log region; the put's three
    syscalls complete; power loss drops the un-fsynced sentinel; the scan of the survivor reports
    corruption — `open` fails although the put had been acknowledged. -/
theorem C03_put_sentinel_lost_counterexample :
    ∃ w, Mv.Wal.cxBefore = some w ∧
      let d : Disk UInt8 := { ino := fun _ => { durable := w.region, pend := [] },
                              dir := fun _ => some 0, ddir := fun _ => some 0, dpend := [] }
      let rec3 := Mv.Wal.encodeRecord Mv.Wal.cxH { seq := 3, payload := Mv.Wal.cxC }
      ∃ c, Survives 0 ((run 0 d (putProto 0 0 rec3 (Mv.zeros 48))).ino 0) c ∧
        Mv.Wal.cxErr (Mv.Wal.scan Mv.Wal.cxH 160 c) = some (.corrupt 60) := by
  obtain ⟨w, hw, _, _, _, _, hbad, _⟩ := Mv.Wal.C02_put_counterexample
  refine ⟨w, hw, ?_⟩
  refine ⟨_, C03_put_sentinel_may_be_lost 0 _ 0 0 _ _, ?_⟩
  have hlen : w.region.length = 160 := by
    have : Mv.Wal.cxBefore = some w := hw
    revert this
    unfold Mv.Wal.cxBefore
    intro h
    have : (Mv.Wal.cxBefore.map (fun x => x.region.length)) = some 160 := by decide +kernel
    rw [hw] at this
    simpa using this
  simp only [Inode.vol, List.foldl_nil]
  rw [pwriteL_eq_writeAt _ _ _ (by rw [hlen]; decide)]
  exact hbad

end Mv.Crash
