/-
  Part B of the C32 lemmas: at token level, parsing the printed form of a reference AST yields an
  expression that evaluates like the reference semantics (`toks_sem`).
-/
import MvModel.QueryLemmas
namespace Mv.Query
open Mv.Gen.C32

/-! ### characters and cleaning -/

theorem toNat_ofNat_small (n : Nat) (h : n < 0xD800) : (Char.ofNat n).toNat = n := by
  have hv : n.isValidChar := Or.inl h
  simp [Char.ofNat, hv, Char.ofNatAux, Char.toNat]

theorem lowerChar_idem (c : Char) : lowerChar (lowerChar c) = lowerChar c := by
  unfold lowerChar
  by_cases h : 65 ≤ c.toNat ∧ c.toNat ≤ 90
  · simp only [h, and_self, if_true]
    have : (Char.ofNat (c.toNat + 32)).toNat = c.toNat + 32 := toNat_ofNat_small _ (by omega)
    rw [this]
    have : ¬ (65 ≤ c.toNat + 32 ∧ c.toNat + 32 ≤ 90) := by omega
    simp only [this, if_false]
  · simp only [h, if_false]

theorem lower_idem (s : Str) : lower (lower s) = lower s := by
  unfold lower
  rw [List.map_map]
  congr 1
  funext c
  exact lowerChar_idem c

/-- lower-casing changes no character outside `A`–`Z`, and produces none of them -/
theorem lowerChar_eq_of_not_letter (c d : Char) (hd : d.toNat < 97 ∨ 122 < d.toNat) (h : lowerChar c = d) : c = d := by
  unfold lowerChar at h
  by_cases hc : 65 ≤ c.toNat ∧ c.toNat ≤ 90
  · simp only [hc, and_self, if_true] at h
    have : (Char.ofNat (c.toNat + 32)).toNat = c.toNat + 32 := toNat_ofNat_small _ (by omega)
    rw [h] at this
    omega
  · simpa only [hc, if_false] using h

theorem not_mem_lower {s : Str} {d : Char} (hd : d.toNat < 97 ∨ 122 < d.toNat) (h : d ∉ s) : d ∉ lower s := by
  intro hm
  unfold lower at hm
  rw [List.mem_map] at hm
  obtain ⟨c, hc, hcd⟩ := hm
  exact h (lowerChar_eq_of_not_letter c d hd hcd ▸ hc)

theorem dropWhile_head_false {p : Char → Bool} {s : Str} {c : Char} (h : s.head? = some c) (hp : p c = false) :
    s.dropWhile p = s := by
  cases s with
  | nil => rfl
  | cons a t =>
    simp only [List.head?_cons, Option.some.injEq] at h
    subst h
    simp [hp]

theorem trimEnd_last_false {p : Char → Bool} {s : Str} {c : Char} (h : s.getLast? = some c) (hp : p c = false) :
    trimEnd p s = s := by
  unfold trimEnd
  have : s.reverse.head? = some c := by rw [List.head?_reverse]; exact h
  rw [dropWhile_head_false this hp, List.reverse_reverse]

theorem trimBoth_id {p : Char → Bool} {s : Str} {a b : Char} (ha : s.head? = some a) (hpa : p a = false)
    (hb : s.getLast? = some b) (hpb : p b = false) : trimBoth p s = s := by
  unfold trimBoth
  rw [dropWhile_head_false ha hpa, trimEnd_last_false hb hpb]

theorem trimBoth_not_mem {d : Char} {s : Str} (h : d ∉ s) : trimBoth (· == d) s = s := by
  cases hs : s.head? with
  | none =>
    cases s with
    | nil => rfl
    | cons a t => simp at hs
  | some a =>
    have hne : s ≠ [] := by intro h0; rw [h0] at hs; simp at hs
    have ha : a ∈ s := List.mem_of_head? hs
    have hb := List.getLast?_eq_some_getLast hne
    have hbm : s.getLast hne ∈ s := List.getLast_mem hne
    refine trimBoth_id hs ?_ hb ?_
    · simp only [beq_eq_false_iff_ne, ne_eq]; intro h0; exact h (h0 ▸ ha)
    · simp only [beq_eq_false_iff_ne, ne_eq]; intro h0; exact h (h0 ▸ hbm)

/-- `from_word` keeps a well-formed word, lower-cased -/
theorem fromWord_ok (T : Tables) {w : Str} (h : WordOK T w) : fromWord T w = .word (lower w) := by
  obtain ⟨hch, _, _, _, ⟨a, ha, haa⟩, ⟨b, hb, hba⟩⟩ := h
  have hstar : '*' ∉ lower w := not_mem_lower (by decide) (fun hm => (hch _ hm).2.1 rfl)
  have hq : '?' ∉ lower w := not_mem_lower (by decide) (fun hm => (hch _ hm).2.2 rfl)
  have hbm : b ∈ lower w := List.mem_of_getLast? hb
  have hbq : b ≠ '?' := fun h0 => hq (h0 ▸ hbm)
  unfold fromWord
  have h1 : trimEnd (· == '?') (lower w) = lower w :=
    trimEnd_last_false hb (by simp only [beq_eq_false_iff_ne, ne_eq]; exact hbq)
  have h2 : trimBoth (isJunk T) (lower w) = lower w :=
    trimBoth_id ha (by simp [isJunk, haa]) hb (by simp [isJunk, hba])
  simp only [h1, h2]
  have c1 : (lower w).contains '*' = false := by simpa using hstar
  have c2 : (lower w).contains '?' = false := by simpa using hq
  have c3 : (lower w).isEmpty = false := by
    cases hl : lower w with
    | nil => rw [hl] at ha; simp at ha
    | cons _ _ => rfl
  have c4 : (lower w).any T.isAlnum = true := List.any_eq_true.mpr ⟨a, List.mem_of_head? ha, haa⟩
  simp [c3, c4, hstar, hq]

/-! ### evaluation of the accumulator constructors -/

theorem evalAll_append (T : Tables) (cfg : Cfg) (d : Doc) (l : List Expr) (e : Expr) :
    evalAll T cfg d (l ++ [e]) = (evalAll T cfg d l && Expr.eval T cfg d e) := by
  induction l with
  | nil => simp [evalAll]
  | cons x xs ih => simp [evalAll, ih, Bool.and_assoc]

theorem evalAny_append (T : Tables) (cfg : Cfg) (d : Doc) (l : List Expr) (e : Expr) :
    evalAny T cfg d (l ++ [e]) = (evalAny T cfg d l || Expr.eval T cfg d e) := by
  induction l with
  | nil => simp [evalAny]
  | cons x xs ih => simp [evalAny, ih, Bool.or_assoc]

theorem eval_pushAnd (T : Tables) (cfg : Cfg) (d : Doc) (a b : Expr) :
    Expr.eval T cfg d (pushAnd a b) = (Expr.eval T cfg d a && Expr.eval T cfg d b) := by
  cases a <;> simp [pushAnd, Expr.eval, evalAll, evalAll_append]

theorem eval_pushOr (T : Tables) (cfg : Cfg) (d : Doc) (a b : Expr) :
    Expr.eval T cfg d (pushOr a b) = (Expr.eval T cfg d a || Expr.eval T cfg d b) := by
  cases a <;> simp [pushOr, Expr.eval, evalAny, evalAny_append]

/-! ### leaves -/

theorem Fits.mono {lim : Option Nat} {k k' : Nat} (h : k ≤ k') (hf : Fits lim k') : Fits lim k := by
  cases lim with
  | none => trivial
  | some l => exact Nat.le_trans h hf

theorem tooDeep_false_of_fits {lim : Option Nat} {dep : Nat} (h : Fits lim (dep + 1)) : tooDeep lim dep = false := by
  cases lim with
  | none => rfl
  | some l => simp only [tooDeep, decide_eq_false_iff_not]; simp only [Fits] at h; omega

theorem lookupField_fieldName (k : FieldKind) : lookupField (fieldName k) PAIR_FIELDS = some k := by
  cases k <;> decide

theorem fieldName_ne_date (k : FieldKind) : fieldName k ≠ DATE_FIELD := by
  cases k <;> decide

def Ast.isLeaf : Ast → Prop
  | .not _ => False
  | .and _ _ _ => False
  | .or _ _ => False
  | _ => True

/-- `parse_primary` on the token of a well-formed leaf yields a term that means the leaf -/
theorem leaf_atom (T : Tables) (cfg : Cfg) (hci : cfg.scopeCI = true) :
    ∀ a : Ast, a.WF T → a.isLeaf →
    ∃ t, (∀ rest, parseAtom T (leafToken a :: rest) = .ok (.term t, rest)) ∧
         ∀ d, t.eval T cfg d = evalRef T d a := by
  intro a hwf hleaf
  cases a with
  | word w =>
    refine ⟨.word (lower w), fun rest => ?_, fun d => ?_⟩
    · simp only [leafToken, parseAtom, fromWord_ok T hwf]
    · simp only [Term.eval, evalRef, leafRef, lower_idem]
  | phrase p =>
    refine ⟨.phrase (lower p), fun rest => ?_, fun d => ?_⟩
    · simp only [leafToken, parseAtom]
    · simp only [Term.eval, evalRef, leafRef, lower_idem]
  | field k q v =>
    have hq : '"' ∉ v := hwf.1
    refine ⟨.field k (lower v), fun rest => ?_, fun d => ?_⟩
    · simp only [leafToken, parseAtom, fromPair, lookupField_fieldName, trimBoth_not_mem hq]
    · cases k <;> simp only [Term.eval, evalRef, leafRef, eqIgnoreCase, lower_idem, hci, if_true]
  | date s e =>
    refine ⟨.date (parseDateValue T s) (parseDateValue T e), fun rest => ?_, fun d => ?_⟩
    · simp only [leafToken, parseAtom, fromDateRange, ne_eq, not_true_eq_false, if_false]
    · simp only [Term.eval, evalRef, leafRef]
  | not a => exact absurd hleaf id
  | and ex a b => exact absurd hleaf id
  | or a b => exact absurd hleaf id

theorem leafToken_operand (a : Ast) : Operand (leafToken a) ∧ leafToken a ≠ .not := by
  cases a <;> simp [leafToken, Operand]

/-! ### the three parsing statements, by induction on the AST -/

/-- what parsing the printed form of `a` does, at the three precedence levels -/
structure Sem (T : Tables) (cfg : Cfg) (lim : Option Nat) (a : Ast) : Prop where
  p2 : ∀ dep, Fits lim (dep + nest 2 a) → ∃ e, (∀ d, Expr.eval T cfg d e = evalRef T d a) ∧
        ∀ rest, pNot T lim dep (toks 2 a ++ rest) = .ok (e, rest)
  p1 : ∀ dep, Fits lim (dep + nest 1 a) → ∃ e, (∀ d, Expr.eval T cfg d e = evalRef T d a) ∧
        ∀ rest, pAnd T lim dep (toks 1 a ++ rest) = pAndLoop T lim dep e rest
  p0 : ∀ dep, Fits lim (dep + nest 0 a) → ∃ e, (∀ d, Expr.eval T cfg d e = evalRef T d a) ∧
        ∀ rest, StopAnd rest → pOr T lim dep (toks 0 a ++ rest) = pOrLoop T lim dep e rest

section
variable {T : Tables} {cfg : Cfg} {lim : Option Nat}

theorem p1_of_p2 {a : Ast} (ht : toks 1 a = toks 2 a) (hn : nest 1 a = nest 2 a)
    (h2 : ∀ dep, Fits lim (dep + nest 2 a) → ∃ e, (∀ d, Expr.eval T cfg d e = evalRef T d a) ∧
        ∀ rest, pNot T lim dep (toks 2 a ++ rest) = .ok (e, rest)) :
    ∀ dep, Fits lim (dep + nest 1 a) → ∃ e, (∀ d, Expr.eval T cfg d e = evalRef T d a) ∧
        ∀ rest, pAnd T lim dep (toks 1 a ++ rest) = pAndLoop T lim dep e rest := by
  intro dep hf
  obtain ⟨e, hs, hp⟩ := h2 dep (hn ▸ hf)
  exact ⟨e, hs, fun rest => by rw [pAnd_eq, ht, hp rest]; rfl⟩

theorem p0_of_p1 {a : Ast} (ht : toks 0 a = toks 1 a) (hn : nest 0 a = nest 1 a)
    (h1 : ∀ dep, Fits lim (dep + nest 1 a) → ∃ e, (∀ d, Expr.eval T cfg d e = evalRef T d a) ∧
        ∀ rest, pAnd T lim dep (toks 1 a ++ rest) = pAndLoop T lim dep e rest) :
    ∀ dep, Fits lim (dep + nest 0 a) → ∃ e, (∀ d, Expr.eval T cfg d e = evalRef T d a) ∧
        ∀ rest, StopAnd rest → pOr T lim dep (toks 0 a ++ rest) = pOrLoop T lim dep e rest := by
  intro dep hf
  obtain ⟨e, hs, hp⟩ := h1 dep (hn ▸ hf)
  exact ⟨e, hs, fun rest hstop => by rw [pOr_eq, ht, hp rest, pAndLoop_stop _ _ _ _ _ hstop]; rfl⟩

theorem paren_of_p0 {a : Ast}
    (h0 : ∀ dep, Fits lim (dep + nest 0 a) → ∃ e, (∀ d, Expr.eval T cfg d e = evalRef T d a) ∧
        ∀ rest, StopAnd rest → pOr T lim dep (toks 0 a ++ rest) = pOrLoop T lim dep e rest) :
    ∀ dep, Fits lim (dep + (1 + nest 0 a)) → ∃ e, (∀ d, Expr.eval T cfg d e = evalRef T d a) ∧
        ∀ rest, pNot T lim dep ([.lparen] ++ toks 0 a ++ [.rparen] ++ rest) = .ok (e, rest) := by
  intro dep hf
  obtain ⟨e, hs, hp⟩ := h0 (dep + 1) (by rw [Nat.add_assoc]; exact hf)
  refine ⟨e, hs, fun rest => ?_⟩
  have htd : tooDeep lim dep = false := tooDeep_false_of_fits (Fits.mono (by omega) hf)
  have hstop : StopAnd (Token.rparen :: rest) := Or.inr (Or.inr ⟨rest, rfl⟩)
  simp only [List.append_assoc, List.cons_append, List.nil_append]
  rw [pNot_other _ _ _ _ (by intro r h; cases h), pPrimary_lparen, htd]
  simp only [Bool.false_eq_true, if_false]
  rw [hp _ hstop, pOrLoop_stop _ _ _ _ _ (by intro r h; cases h)]
  rfl

theorem toks2_head (a : Ast) : ∃ t r, toks 2 a = t :: r ∧ Operand t := by
  cases a with
  | not a => exact ⟨.not, toks 2 a, rfl, by simp [Operand]⟩
  | and ex a b => exact ⟨.lparen, toks 1 a ++ (if ex then [.and] else []) ++ toks 2 b ++ [.rparen], by simp [toks], by simp [Operand]⟩
  | or a b => exact ⟨.lparen, toks 0 a ++ [.or] ++ toks 1 b ++ [.rparen], by simp [toks], by simp [Operand]⟩
  | word w => exact ⟨_, [], rfl, (leafToken_operand (.word w)).1⟩
  | phrase w => exact ⟨_, [], rfl, (leafToken_operand (.phrase w)).1⟩
  | field k q v => exact ⟨_, [], rfl, (leafToken_operand (.field k q v)).1⟩
  | date s e => exact ⟨_, [], rfl, (leafToken_operand (.date s e)).1⟩

theorem sem_leaf (hci : cfg.scopeCI = true) (a : Ast) (hwf : a.WF T)
    (hleaf : a.isLeaf)
    (ht : ∀ p, toks p a = [leafToken a]) (hn : ∀ p, nest p a = 0) : Sem T cfg lim a := by
  obtain ⟨t, hat, hs⟩ := leaf_atom T cfg hci a hwf hleaf
  have hop := leafToken_operand a
  have h2 : ∀ dep, Fits lim (dep + nest 2 a) → ∃ e, (∀ d, Expr.eval T cfg d e = evalRef T d a) ∧
        ∀ rest, pNot T lim dep (toks 2 a ++ rest) = .ok (e, rest) := by
    intro dep _
    refine ⟨.term t, fun d => by simp only [Expr.eval]; exact hs d, fun rest => ?_⟩
    rw [ht 2]
    simp only [List.singleton_append]
    rw [pNot_other _ _ _ _ (by intro r h; injection h with h1 _; exact hop.2 h1),
      pPrimary_other _ _ _ _ (by intro r h; injection h with h1 _; revert h1; cases a <;> simp [leafToken, Ast.isLeaf] at hleaf ⊢)]
    exact hat rest
  have h1 := p1_of_p2 (a := a) (by rw [ht 1, ht 2]) (by rw [hn 1, hn 2]) h2
  exact ⟨h2, h1, p0_of_p1 (by rw [ht 0, ht 1]) (by rw [hn 0, hn 1]) h1⟩

end

/-- Token-level core of `C32_semantics`. -/
theorem toks_sem (T : Tables) (cfg : Cfg) (lim : Option Nat) (hci : cfg.scopeCI = true) :
    ∀ a : Ast, a.WF T → Sem T cfg lim a := by
  intro a
  induction a with
  | word w => intro hwf; exact sem_leaf hci _ hwf trivial (fun p => by simp [toks]) (fun p => by simp [nest])
  | phrase w => intro hwf; exact sem_leaf hci _ hwf trivial (fun p => by simp [toks]) (fun p => by simp [nest])
  | field k q v => intro hwf; exact sem_leaf hci _ hwf trivial (fun p => by simp [toks]) (fun p => by simp [nest])
  | date s e => intro hwf; exact sem_leaf hci _ hwf trivial (fun p => by simp [toks]) (fun p => by simp [nest])
  | not x ih =>
    intro hwf
    have ihx := ih hwf
    have h2 : ∀ dep, Fits lim (dep + nest 2 (.not x)) → ∃ e, (∀ d, Expr.eval T cfg d e = evalRef T d (.not x)) ∧
        ∀ rest, pNot T lim dep (toks 2 (.not x) ++ rest) = .ok (e, rest) := by
      intro dep hf
      simp only [nest] at hf
      obtain ⟨e, hs, hp⟩ := ihx.p2 (dep + 1) (by rw [Nat.add_assoc]; exact hf)
      refine ⟨.not e, fun d => by simp only [Expr.eval, evalRef, hs d], fun rest => ?_⟩
      have htd : tooDeep lim dep = false := tooDeep_false_of_fits (Fits.mono (by omega) hf)
      simp only [toks, List.cons_append]
      rw [pNot_not, htd]
      simp only [Bool.false_eq_true, if_false]
      rw [hp rest]; rfl
    have h1 := p1_of_p2 (a := .not x) (by simp [toks]) (by simp [nest]) h2
    exact ⟨h2, h1, p0_of_p1 (by simp [toks]) (by simp [nest]) h1⟩
  | and ex x y ihx ihy =>
    intro hwf
    have sx := ihx hwf.1
    have sy := ihy hwf.2
    have h1 : ∀ dep, Fits lim (dep + nest 1 (.and ex x y)) → ∃ e, (∀ d, Expr.eval T cfg d e = evalRef T d (.and ex x y)) ∧
        ∀ rest, pAnd T lim dep (toks 1 (.and ex x y) ++ rest) = pAndLoop T lim dep e rest := by
      intro dep hf
      simp only [nest, Nat.le_refl, if_true, Nat.zero_add] at hf
      obtain ⟨e1, hs1, hp1⟩ := sx.p1 dep (Fits.mono (by omega) hf)
      obtain ⟨e2, hs2, hp2⟩ := sy.p2 dep (Fits.mono (by omega) hf)
      refine ⟨pushAnd e1 e2, fun d => by rw [eval_pushAnd, hs1, hs2]; simp only [evalRef], fun rest => ?_⟩
      simp only [toks, Nat.le_refl, if_true, List.append_assoc]
      rw [hp1]
      cases ex with
      | true =>
        simp only [if_true, List.singleton_append]
        rw [pAndLoop_and, hp2 rest]; rfl
      | false =>
        simp only [Bool.false_eq_true, if_false, List.nil_append]
        obtain ⟨t, r, htr, hop⟩ := toks2_head y
        have := hp2 rest
        rw [htr] at this ⊢
        simp only [List.cons_append] at this ⊢
        rw [pAndLoop_implicit _ _ _ _ _ _ hop, this]; rfl
    have h0 := p0_of_p1 (a := .and ex x y) (by simp [toks]) (by simp [nest]) h1
    have h2 : ∀ dep, Fits lim (dep + nest 2 (.and ex x y)) → ∃ e, (∀ d, Expr.eval T cfg d e = evalRef T d (.and ex x y)) ∧
        ∀ rest, pNot T lim dep (toks 2 (.and ex x y) ++ rest) = .ok (e, rest) := by
      intro dep hf
      have hp := paren_of_p0 h0 dep (by simpa [nest] using hf)
      simpa [toks] using hp
    exact ⟨h2, h1, h0⟩
  | or x y ihx ihy =>
    intro hwf
    have sx := ihx hwf.1
    have sy := ihy hwf.2
    have h0 : ∀ dep, Fits lim (dep + nest 0 (.or x y)) → ∃ e, (∀ d, Expr.eval T cfg d e = evalRef T d (.or x y)) ∧
        ∀ rest, StopAnd rest → pOr T lim dep (toks 0 (.or x y) ++ rest) = pOrLoop T lim dep e rest := by
      intro dep hf
      simp only [nest, if_true, Nat.zero_add] at hf
      obtain ⟨e1, hs1, hp1⟩ := sx.p0 dep (Fits.mono (by omega) hf)
      obtain ⟨e2, hs2, hp2⟩ := sy.p1 dep (Fits.mono (by omega) hf)
      refine ⟨pushOr e1 e2, fun d => by rw [eval_pushOr, hs1, hs2]; simp only [evalRef], fun rest hstop => ?_⟩
      simp only [toks, if_true, List.append_assoc, List.cons_append, List.nil_append]
      rw [hp1 _ (Or.inr (Or.inl ⟨_, rfl⟩)), pOrLoop_or, hp2 rest, pAndLoop_stop _ _ _ _ _ hstop]; rfl
    have h2 : ∀ dep, Fits lim (dep + nest 2 (.or x y)) → ∃ e, (∀ d, Expr.eval T cfg d e = evalRef T d (.or x y)) ∧
        ∀ rest, pNot T lim dep (toks 2 (.or x y) ++ rest) = .ok (e, rest) := by
      intro dep hf
      have hp := paren_of_p0 h0 dep (by simpa [nest] using hf)
      simpa [toks] using hp
    have h1 := p1_of_p2 (a := .or x y) (by simp [toks]) (by simp [nest]) h2
    exact ⟨h2, h1, h0⟩

end Mv.Query
