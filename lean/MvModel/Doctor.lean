/-
  Model of `Memvid::doctor` (src/memvid/doctor.rs) over an abstract file condition.

  The concrete bytes are abstracted to what the doctor's control flow looks at:
  * data: the committed frame list and the acknowledged-but-uncommitted WAL operations;
  * control (`Cond`): five facts about the header / TOC / commit footer, three index conditions, one WAL fact,
    and whether there are pending records / frames at all.
  The control model `doctorC` runs on `Cond` only and says what happens to the data (`DataAct`);
  `doctor` applies that to a `File`.
  `probe`, `planOf` mirror `DoctorPlanner::probe` / `compute`; `tryOpen` mirrors `Memvid::open_locked`
  (`read_toc`, `recover_toc`, header healing on recovery, `recover_wal`, the final TOC checksum check);
  `runBody` / `runOpened` mirror the phase loop of `DoctorExecutor::run` with `execute_action`,
  `apply_pending_rebuilds`, `reset_wal` and the verification step (`Memvid::verify(path, deep)`).

  The model is the REPAIRED doctor (fixes/C21.diff): no `debug_assert!(wal_pending == 0)` unless `dbg`,
  `HealHeaderPointer` only rewrites a pointer that does not reach a TOC, a forced vec rebuild keeps decodable embeddings,
  `inspect_lex_index` compares every Tantivy segment with its stored checksum.

  Black boxes (hypotheses of the correspondence, not of the theorems): decoding an undamaged TOC succeeds;
  a damaged pointer / footer / checksum never accidentally matches; no older commit footer survives in the file;
  Tantivy opens a damaged segment without error or `init_tantivy` falls back to a fresh engine.
-/
namespace Mv.Doctor

inductive Idx | ok | missing | corrupt
  deriving DecidableEq, Repr, Inhabited

/-- commit footer: intact, magic bytes damaged, or toc_len / toc_hash damaged -/
inductive Foot | ok | magic | body
  deriving DecidableEq, Repr, Inhabited

structure Frame where
  id : Nat
  active : Bool
  digest : Nat
  deriving DecidableEq, Repr

inductive Op | put (digest : Nat) | del (id : Nat)
  deriving DecidableEq, Repr

/-- everything the doctor's control flow reads -/
structure Cond where
  /-- header.footer_offset is the offset of the newest TOC -/
  hdrPtr : Bool
  /-- header.toc_checksum equals the checksum field stored in that TOC -/
  hdrSum : Bool
  /-- the checksum field stored in the TOC matches the TOC body -/
  tocSum : Bool
  /-- commit footer behind that TOC (its hash covers the TOC bytes including the checksum field) -/
  foot : Foot
  time : Idx
  lex : Idx
  vec : Idx
  /-- the embedded WAL region scans (header + record checksums) -/
  walOk : Bool
  /-- acknowledged WAL records after the last checkpoint exist -/
  hasPending : Bool
  /-- the newest TOC lists at least one frame -/
  hasFrames : Bool
  deriving DecidableEq, Repr

structure File where
  /-- frames of the newest table of contents -/
  frames : List Frame
  /-- acknowledged WAL records after the last checkpoint -/
  pending : List Op
  hdrPtr : Bool
  hdrSum : Bool
  tocSum : Bool
  foot : Foot
  time : Idx
  lex : Idx
  vec : Idx
  walOk : Bool
  deriving DecidableEq, Repr

def File.cond (f : File) : Cond :=
  { hdrPtr := f.hdrPtr, hdrSum := f.hdrSum, tocSum := f.tocSum, foot := f.foot, time := f.time, lex := f.lex, vec := f.vec,
    walOk := f.walOk, hasPending := !f.pending.isEmpty, hasFrames := !f.frames.isEmpty }

structure Opts where
  rebuildTime : Bool
  rebuildLex : Bool
  rebuildVec : Bool
  vacuum : Bool
  dryRun : Bool
  deriving DecidableEq, Repr

def Opts.default : Opts := ⟨false, false, false, false, false⟩

/-- some rebuild or vacuum is requested -/
def Opts.forced (o : Opts) : Bool := o.rebuildTime || o.rebuildLex || o.rebuildVec || o.vacuum

/-! ### data: WAL replay -/

def applyOp (fs : List Frame) : Op → List Frame
  | .put d => fs ++ [{ id := fs.length, active := true, digest := d }]
  | .del i => fs.map fun f => if f.id = i then { f with active := false } else f

def replay (fs : List Frame) (ops : List Op) : List Frame := ops.foldl applyOp fs

/-- what a reader is entitled to: the active frames (id, content) -/
def activeOf (fs : List Frame) : List (Nat × Nat) := (fs.filter (·.active)).map fun f => (f.id, f.digest)

/-- the acknowledged view of a file: committed frames plus acknowledged pending operations -/
def logical (f : File) : List (Nat × Nat) := activeOf (replay f.frames f.pending)

/-- what one doctor run does to the data -/
inductive DataAct
  | keep       -- frames and pending records untouched
  | replayed   -- pending records applied to the frame list (open's `recover_wal`), log empty
  | dropped    -- WAL region zeroed: pending records discarded
  deriving DecidableEq, Repr

def applyData : DataAct → List Frame × List Op → List Frame × List Op
  | .keep, d => d
  | .replayed, (fs, ps) => (replay fs ps, [])
  | .dropped, (fs, _) => (fs, [])

/-! ### `read_toc` / `recover_toc` -/

/-- `CommitFooter::decode` + `hash_matches` on the bytes behind the newest TOC -/
def footerValid (c : Cond) : Bool := c.foot == .ok

/-- `read_toc(file, header)` -/
def readToc (c : Cond) : Bool := c.hdrPtr && footerValid c

/-- `recover_toc(file, Some(header.footer_offset))`: last valid footer, else the TOC at the hinted offset
    (no checksum validation on that path), else the legacy scan (never matches a file that ends in a footer) -/
def recoverToc (c : Cond) : Bool := footerValid c || c.hdrPtr

/-! ### probe and plan -/

structure Probe where
  tocFound : Bool
  recovered : Bool
  ptrMismatch : Bool
  sumMismatch : Bool
  tocSumBad : Bool
  walPending : Bool
  walBad : Bool
  needsTime : Bool
  needsLex : Bool
  needsVec : Bool
  deriving DecidableEq, Repr

def Probe.none : Probe := ⟨false, false, false, false, false, false, false, false, false, false⟩

/-- `DoctorPlanner::probe` (+ `inspect_time_index`, `inspect_lex_index`, `inspect_vec_index`) -/
def probe (o : Opts) (c : Cond) : Probe :=
  if readToc c || recoverToc c then
    { tocFound := true, recovered := !readToc c, ptrMismatch := !readToc c && !c.hdrPtr,
      sumMismatch := !c.hdrSum, tocSumBad := !c.tocSum,
      walPending := c.walOk && c.hasPending, walBad := !c.walOk,
      needsTime := c.time == .corrupt || (c.time == .missing && c.hasFrames),
      -- a Tantivy segment that no longer matches its stored checksum (repaired code; the unrepaired doctor never
      -- looked at Tantivy segments); without any lex index the option alone asks for one
      needsLex := c.lex == .corrupt || (c.lex == .missing && o.rebuildLex),
      needsVec := c.vec == .corrupt || (c.vec == .missing && o.rebuildVec) }
  else Probe.none

inductive Phase | headerHealing | walReplay | vacuum | indexRebuild | finalize | verify
  deriving DecidableEq, Repr

inductive Action
  | healHeaderPointer | healTocChecksum | replayWal | rebuildTime | rebuildLex | rebuildVec
  | vacuumCompaction | recomputeToc | updateHeader | deepVerify
  deriving DecidableEq, Repr

abbrev Plan := List (Phase × List Action)

def opt {α : Type} (b : Bool) (x : α) : List α := if b then [x] else []

/-- `DoctorPlanner::compute` after the probe (phase order: header, wal, vacuum, index, finalize, verify) -/
def planOf (o : Opts) (p : Probe) : Plan :=
  let hdr := opt (p.tocFound && p.ptrMismatch) Action.healHeaderPointer
          ++ opt (p.tocFound && p.sumMismatch) Action.healTocChecksum
  let idx := opt (p.needsTime || o.rebuildTime) Action.rebuildTime
          ++ opt (p.needsLex || o.rebuildLex) Action.rebuildLex
          ++ opt (p.needsVec || o.rebuildVec) Action.rebuildVec
  let body := opt (!hdr.isEmpty) (Phase.headerHealing, hdr)
           ++ opt p.walPending (Phase.walReplay, [Action.replayWal])
           ++ opt o.vacuum (Phase.vacuum, [Action.vacuumCompaction])
           ++ opt (!idx.isEmpty) (Phase.indexRebuild, idx)
  body ++ opt (p.recovered || !body.isEmpty) (Phase.finalize, [Action.recomputeToc, Action.updateHeader])
       ++ [(Phase.verify, [Action.deepVerify])]

/-- `DoctorPlan::is_noop` -/
def Plan.noop (pl : Plan) : Bool := pl.all fun ph => ph.2.all fun a => a == .deepVerify

/-! ### opening the memory (`Memvid::try_open` → `open_locked`) -/

inductive OpenErr | invalidToc | checksum | wal
  deriving DecidableEq, Repr

/-- the handle the executor works on: the file as open left it, whether WAL replay committed a newer TOC
    (then the plan's header targets are stale) -/
structure Mem where
  c : Cond
  moved : Bool
  /-- the header's checksum equals the value the plan wants to write (`HealTocChecksum.expected`) -/
  sumIsTarget : Bool
  deriving DecidableEq, Repr

/-- everything a full `rebuild_indexes` + `rewrite_toc_footer` + `persist_header` makes consistent -/
def rewritten (c : Cond) : Cond :=
  { c with hdrPtr := true, hdrSum := true, tocSum := true, foot := .ok, time := .ok }

def tryOpen (c : Cond) : Except (OpenErr × Cond) Mem :=
  -- read_toc, else recover_toc and heal the header when it differs from what was recovered
  if !(readToc c || recoverToc c) then .error (.invalidToc, c) else
  let healed := !readToc c
  let c1 : Cond := if healed then { c with hdrPtr := true, hdrSum := true } else c
  if !c1.walOk then .error (.wal, c1)
  else if c1.hasPending then
    -- recover_wal: apply_records, rebuild_indexes (new time index, TOC, footer, header), checkpoint
    .ok { c := { rewritten c1 with hasPending := false, hasFrames := true }, moved := true, sumIsTarget := false }
  else if !c1.tocSum then .error (.checksum, c1)
  else .ok { c := c1, moved := false, sumIsTarget := healed || c.hdrSum }

/-- `aggressive_header_repair`: the scan returns the offset of the commit FOOTER (file end − 56) when its magic is
    intact and writes that into header.footer_offset — which must hold the TOC offset: the pointer stays wrong -/
def aggressiveRepair (c : Cond) : Bool × Cond := (c.foot != .magic, { c with hdrPtr := false })

/-- `try_recover_from_wal_corruption`: zero the WAL region, reset the header's WAL fields -/
def zeroWal (c : Cond) : Cond := { c with hasPending := false, walOk := true }

/-! ### executor -/

inductive Status | clean | healed | failed | planOnly
  deriving DecidableEq, Repr

inductive PStat | skipped | executed | failed
  deriving DecidableEq, Repr

/-- why the executor gave up before running a phase -/
inductive Why | none | walRecovery | repairedStillCorrupt | repairFailed | openOther
  deriving DecidableEq, Repr

inductive Outcome
  | report (s : Status) (why : Why) (ran : List (Phase × PStat))
  | error      -- `Memvid::doctor` returned Err (verification could not open the file)
  | panic
  deriving DecidableEq, Repr

structure Exec where
  mem : Mem
  pTime : Bool
  pLex : Bool
  pVec : Bool
  deriving DecidableEq, Repr

/-- `execute_action`; true = the action reported Executed -/
def execAction (e : Exec) : Action → Exec × Bool
  | .healHeaderPointer =>
    -- repaired code: only when the header differs from the planned target AND does not already reach a TOC
    if e.mem.moved && !readToc e.mem.c then
      ({ e with mem := { e.mem with c := { e.mem.c with hdrPtr := false } } }, true)
    else (e, false)
  | .healTocChecksum =>
    if !e.mem.sumIsTarget then
      -- header.toc_checksum := the checksum the probe read; right unless replay committed a newer TOC
      ({ e with mem := { e.mem with sumIsTarget := true, c := { e.mem.c with hdrSum := !e.mem.moved } } }, true)
    else (e, false)
  | .replayWal => (e, true)
  | .rebuildTime => ({ e with pTime := true }, true)
  | .rebuildLex => ({ e with pLex := true }, true)
  | .rebuildVec => ({ e with pVec := true }, true)
  | .vacuumCompaction =>
    -- commit (nothing pending), compaction of active payloads, rebuild_indexes from scratch
    ({ e with mem := { e.mem with c := { rewritten e.mem.c with
        lex := if e.mem.c.lex == .missing then .missing else .ok } } }, true)
  | .recomputeToc =>
    ({ e with mem := { e.mem with c := { e.mem.c with hdrPtr := true, hdrSum := true, tocSum := true, foot := .ok } } }, true)
  | .updateHeader => (e, true)
  | .deepVerify => (e, false)

/-- `apply_pending_rebuilds` -/
def applyRebuilds (e : Exec) : Exec :=
  let c := e.mem.c
  let c := rewritten { c with
    lex := if e.pLex then .ok else c.lex,
    -- repaired code: the rebuilt index keeps the embeddings of a decodable index; an undecodable one has none to keep
    vec := if e.pVec then (if c.vec == .ok then .ok else .missing) else c.vec }
  { mem := { e.mem with c := c }, pTime := false, pLex := false, pVec := false }

/-- `Memvid::verify(path, deep)`: none = it cannot open the file read-only (no valid footer, TOC checksum, WAL
    region) and returns Err, some b = overall Passed?  The deep pass compares every index segment (time, vec manifest,
    Tantivy segments) with the checksum stored for it. -/
def verify (c : Cond) : Option Bool :=
  if !(footerValid c && c.tocSum && c.walOk) then none
  else some (c.time != .corrupt && c.lex != .corrupt && c.vec != .corrupt && !c.hasPending)

def runActions (e : Exec) : List Action → Exec × Bool
  | [] => (e, false)
  | a :: as =>
    match execAction e a with
    | (e1, x) => match runActions e1 as with
      | (e2, y) => (e2, x || y)

def runPhase (e : Exec) (ph : Phase × List Action) : Exec × PStat :=
  match runActions e ph.2 with
  | (e1, anyExec) =>
    if (ph.1 == .indexRebuild || ph.1 == .finalize) && (e1.pTime || e1.pLex || e1.pVec) then (applyRebuilds e1, .executed)
    else (e1, if anyExec then .executed else .skipped)

/-- phases before Verify -/
def runBody (e : Exec) : Plan → Exec × List (Phase × PStat)
  | [] => (e, [])
  | ph :: rest =>
    if ph.1 == .verify then (e, [])
    else
      match runPhase e ph with
      | (e1, st) => match runBody e1 rest with
        | (e2, sts) => (e2, (ph.1, st) :: sts)

/-- result of the control model: outcome, resulting condition, what happened to the data -/
structure CResult where
  out : Outcome
  c : Cond
  act : DataAct
  deriving DecidableEq, Repr

/-- `DoctorExecutor::run` once the memory is open (`act0` = what happened to the data before) -/
def runOpened (pl : Plan) (act0 : DataAct) (m : Mem) : CResult :=
  match runBody ⟨m, false, false, false⟩ pl with
  | (e, sts) =>
    let act := if m.moved then DataAct.replayed else act0
    -- Verify phase: reset_wal, close, Memvid::verify(path, deep)
    let c := { e.mem.c with hasPending := false, walOk := true }
    match verify c with
    | none => ⟨.error, c, act⟩
    | some true => ⟨.report (if pl.noop then .clean else .healed) .none (sts ++ [(.verify, .executed)]), c, act⟩
    | some false =>
      -- overall failure: the header saved after opening is written back
      ⟨.report .failed .none (sts ++ [(.verify, .failed)]), { c with hdrPtr := m.c.hdrPtr, hdrSum := m.c.hdrSum }, act⟩

/-- control model of `Memvid::doctor(path, options)`.  `dbg` = the build keeps
    `debug_assert!(probe.wal_pending == 0)` in the planner (the unrepaired tree, debug profile). -/
def doctorC (dbg : Bool) (o : Opts) (c : Cond) : CResult :=
  let p := probe o c
  if dbg && p.walPending then ⟨.panic, c, .keep⟩ else
  let pl := planOf o p
  if o.dryRun then ⟨.report (if pl.noop then .clean else .planOnly) .none [], c, .keep⟩ else
  if p.walBad then
    match tryOpen (zeroWal c) with
    | .ok m => runOpened pl .dropped m
    | .error (_, c1) => ⟨.report .failed .walRecovery [], c1, .dropped⟩
  else
    match tryOpen c with
    | .ok m => runOpened pl .keep m
    | .error (.invalidToc, c1) =>
      match aggressiveRepair c1 with
      | (found, c2) =>
      if !found then ⟨.report .failed .repairFailed [], c1, .keep⟩ else
      match tryOpen c2 with
      | .ok m => runOpened pl .keep m
      | .error (_, c3) => ⟨.report .failed .repairedStillCorrupt [], c3, .keep⟩
    | .error (_, c1) => ⟨.report .failed .openOther [], c1, .keep⟩

structure Result where
  out : Outcome
  file : File
  deriving DecidableEq, Repr

/-- `Memvid::doctor(path, options)` on a file -/
def doctor (dbg : Bool) (o : Opts) (f : File) : Result :=
  let r := doctorC dbg o f.cond
  let d := applyData r.act (f.frames, f.pending)
  ⟨r.out, { frames := d.1, pending := d.2, hdrPtr := r.c.hdrPtr, hdrSum := r.c.hdrSum, tocSum := r.c.tocSum, foot := r.c.foot,
            time := r.c.time, lex := r.c.lex, vec := r.c.vec, walOk := r.c.walOk }⟩

/-- `Memvid::open` succeeds -/
def opens (c : Cond) : Bool := match tryOpen c with | .ok _ => true | .error _ => false

def verifyPassed (c : Cond) : Bool := verify c == some true

end Mv.Doctor
